(* C03 — shared-library names through ResolvePackageNameVersionPin, for ALL names and version strings, on TODAY's code (since
   fix C03-F2, commit 0f275a6): the shape goextract read from the source is the operator-run scan, the model's so_rewrite is
   the readable hand form, a so: constraint resolves to its parts with the version moved to 0.V exactly when V has no release
   suffix - under every one of the six operators -, and the verdict of SatisfiedBy on a so: provide is the spec's operator on
   the two versions (same kind on both sides).  The old shape lives in Proofs/SonameOldProofs.v. *)
From Coq Require Import ZifyBool ZifyN Lia.
From Apko Require Import Base.Prelude Base.Regex Spec.VersionSpec Model.Version Model.SonameShapes
  Proofs.VersionProofs Proofs.ConstraintProofs Proofs.VersionStringProofs Proofs.VersionPrefixProofs
  Generated.Regexes Generated.VersionConsts Generated.C03Version Generated.C03Ladders.
Open Scope string_scope. Open Scope list_scope. Open Scope Z_scope.

(* ---------- small facts about the byte-level helpers --------------------------- *)
Definition so_bytes : list N := bytes_of_string "so:".

(* endsWithReleaseStr.MatchString *)
Definition ends_release (v : list N) : bool := search_suffix ends_with_release_re v.
Definition ends_release_s (v : string) : bool := ends_release (bytes_of_string v).

Lemma bytes_roundtrip l : Forall byte l -> bytes_of_string (string_of_bytes l) = l.
Proof.
  unfold bytes_of_string, string_of_bytes. intros H.
  rewrite list_ascii_of_string_of_list_ascii, map_map.
  induction H as [|c l Hc Hl IH]; cbn [List.map]; [reflexivity|].
  rewrite (N_ascii_embedding c Hc). f_equal. exact IH.
Qed.

Lemma strip_prefix_app p s : strip_prefix p (p ++ s) = Some s.
Proof. induction p as [|c p IH]; cbn [strip_prefix app]; [reflexivity|]. rewrite N.eqb_refl. exact IH. Qed.

Lemma forallb_impl {A} (p q : A -> bool) l : (forall x, p x = true -> q x = true) -> forallb p l = true -> forallb q l = true.
Proof. intros Hpq. induction l as [|x l IH]; cbn [forallb]; [auto|]. intros H. apply andb_true_iff in H. destruct H as [H1 H2]. rewrite (Hpq x H1), (IH H2). reflexivity. Qed.


(* ---------- the shape of the rewrite in the source, and its readable form ------------------------------ *)
(* THIS is the statement a revert of the fix changes: goextract then reads SoCutAt "=" "=0." *)
Lemma so_shape_today : so_rewrite_shape = SoOperatorRun "=><~" "0.".
Proof. reflexivity. Qed.

Lemma byte_in_opchars c : byte_in "=><~" c = is_opchar c.
Proof. unfold byte_in, is_opchar. cbn [bytes_of_string list_ascii_of_string List.map existsb]. cbn. lia. Qed.

Lemma span_ext (p q : N -> bool) : (forall c, p c = q c) -> forall s, span p s = span q s.
Proof. intros H. induction s as [|c s IH]; cbn [span]; [reflexivity|]. rewrite H, IH. reflexivity. Qed.

Theorem so_rewrite_today s : so_rewrite s = so_rewrite_run s.
Proof.
  unfold so_rewrite. rewrite so_shape_today. unfold so_rewrite_with, so_rewrite_run.
  destruct (strip_prefix (bytes_of_string "so:") s); [|reflexivity].
  rewrite (span_ext _ (fun c => negb (is_opchar c))) by (intro c; rewrite byte_in_opchars; reflexivity).
  destruct (span (fun c => negb (is_opchar c)) s) as [name r1].
  rewrite (span_ext _ is_opchar byte_in_opchars). reflexivity.
Qed.

Definition no_op (l : list N) : bool := forallb (fun c => negb (is_opchar c)) l.
Definition head_no_op (l : list N) : Prop := match l with c :: _ => is_opchar c = false | [] => True end.

(* the rewrite on name ++ ops ++ v *)
Lemma so_rewrite_split pre ops v :
  no_op (so_bytes ++ pre) = true -> ops <> [] -> forallb is_opchar ops = true -> head_no_op v ->
  so_rewrite (so_bytes ++ pre ++ ops ++ v) =
    if ends_release v then so_bytes ++ pre ++ ops ++ v else so_bytes ++ pre ++ ops ++ 48%N :: 46%N :: v.
Proof.
  intros Hp Ho1 Ho2 Hv. rewrite so_rewrite_today. unfold so_rewrite_run. fold so_bytes. rewrite strip_prefix_app.
  rewrite (app_assoc so_bytes pre).
  rewrite (span_app (fun c => negb (is_opchar c)) (so_bytes ++ pre) (ops ++ v) Hp).
  2:{ destruct ops as [|o ops']; [congruence|]. cbn in *. apply andb_true_iff in Ho2. destruct Ho2 as [Ho _]. rewrite Ho. reflexivity. }
  rewrite (span_app is_opchar ops v Ho2).
  2:{ destruct v; [exact I | exact Hv]. }
  destruct ops as [|o ops']; [congruence|].
  fold (ends_release v). destruct (ends_release v); [reflexivity|].
  rewrite <- app_assoc. reflexivity.
Qed.

Lemma so_rewrite_no_op rest : no_op (so_bytes ++ rest) = true -> so_rewrite (so_bytes ++ rest) = so_bytes ++ rest.
Proof.
  intros H. rewrite so_rewrite_today. unfold so_rewrite_run. fold so_bytes. rewrite strip_prefix_app.
  rewrite <- (app_nil_r (so_bytes ++ rest)) at 1.
  rewrite (span_app (fun c => negb (is_opchar c)) (so_bytes ++ rest) [] H I). reflexivity.
Qed.

Lemma so_rewrite_other s : strip_prefix so_bytes s = None -> so_rewrite s = s.
Proof. intros H. rewrite so_rewrite_today. unfold so_rewrite_run. fold so_bytes. rewrite H. reflexivity. Qed.

(* ---------- ResolvePackageNameVersionPin with any rewrite step, on a string whose REWRITTEN form has clean parts ---------- *)
Lemma resolve_with_today s0 : resolve_constraint s0 = resolve_with so_rewrite s0.
Proof. reflexivity. Qed.

Lemma resolve_with_rewritten rw s0 name ops v pin :
  rw (bytes_of_string s0) = name ++ ops ++ v ++ pin_tail pin ->
  clean name ops v pin ->
  resolve_with rw s0 =
    {| c_name := string_of_bytes name; c_version := string_of_bytes v;
       c_dep := dep_of_matcher (string_of_bytes ops); c_pin := string_of_bytes pin |}.
Proof.
  intros Hs Hc. unfold resolve_with. cbv zeta. rewrite Hs.
  unfold full_match. rewrite package_name_regex_body.
  rewrite bytes_roundtrip.
  2:{ destruct Hc as [Hb _ _ _ _]. destruct pin as [|p0 pin']; [exact Hb|].
      cbn [pin_tail]. rewrite !app_assoc in *. apply Forall_app in Hb. destruct Hb as [H1 H2].
      apply Forall_app. split; [exact H1|]. constructor; [unfold byte; lia | exact H2]. }
  rewrite (match_clean _ _ _ _ Hc). rewrite (split_clean _ _ _ _ Hc).
  destruct Hc as [_ _ [Ho _] _ _]. destruct ops; [congruence | reflexivity].
Qed.

Definition no_eq (l : list N) : bool := forallb (fun c => negb (c =? 61)%N) l.
Lemma no_eq_app a b : no_eq (a ++ b) = no_eq a && no_eq b.
Proof. apply forallb_app. Qed.

(* ---------- the operator rows, as byte strings (finite check over the regenerated switch) ---------- *)
Definition has_eq (op : string) : bool := existsb (fun c => (c =? 61)%N) (bytes_of_string op).

Definition op_rows_shape : bool :=
  forallb (fun row : string * Z =>
    let b := bytes_of_string (fst row) in
    negb (match b with [] => true | _ => false end) && forallb is_opchar b &&
    (if has_eq (fst row)
     then (if list_eq_dec N.eq_dec b (removelast b ++ [61%N]) then true else false) && no_eq (removelast b)
     else no_eq b &&
          match vop_of_string (fst row) with OpGt | OpLt | OpTilde => true | _ => false end))
    matcher_table.

Lemma op_rows_shape_true : op_rows_shape = true.
Proof. vm_compute. reflexivity. Qed.

Lemma op_row_facts row : In row matcher_table ->
  bytes_of_string (fst row) <> [] /\ forallb is_opchar (bytes_of_string (fst row)) = true /\
  (if has_eq (fst row)
   then exists o, bytes_of_string (fst row) = o ++ [61%N] /\ no_eq o = true /\ forallb is_opchar o = true
   else no_eq (bytes_of_string (fst row)) = true /\
        (vop_of_string (fst row) = OpGt \/ vop_of_string (fst row) = OpLt \/ vop_of_string (fst row) = OpTilde)).
Proof.
  intros Hin. pose proof op_rows_shape_true as T. unfold op_rows_shape in T.
  rewrite forallb_forall in T. specialize (T row Hin). cbv zeta in T.
  apply andb_true_iff in T. destruct T as [T T3]. apply andb_true_iff in T. destruct T as [T1 T2].
  split; [destruct (bytes_of_string (fst row)); [discriminate | discriminate]|]. split; [exact T2|].
  destruct (has_eq (fst row)).
  - apply andb_true_iff in T3. destruct T3 as [E N].
    destruct (list_eq_dec N.eq_dec _ _) as [E'|]; [|discriminate].
    exists (removelast (bytes_of_string (fst row))). split; [exact E'|]. split; [exact N|].
    rewrite E' in T2. rewrite forallb_app in T2. apply andb_true_iff in T2. tauto.
  - apply andb_true_iff in T3. destruct T3 as [N V]. split; [exact N|].
    destruct (vop_of_string (fst row)); try discriminate; auto.
Qed.

(* ---------- what a so: string resolves to ------------------------------------------ *)
Definition namechars (nm : string) : Prop := forallb is_namechar (bytes_of_string nm) = true.

Lemma so_bytes_namechars : forallb is_namechar so_bytes = true.
Proof. vm_compute. reflexivity. Qed.

Lemma clean_so nm ops vs m :
  namechars nm -> ops <> [] -> forallb is_opchar ops = true -> Forall byte ops ->
  parse_version vs = Some m ->
  clean (so_bytes ++ bytes_of_string nm) ops (bytes_of_string vs) [].
Proof.
  intros Hn Ho1 Ho2 Hob Hp.
  pose proof (parsed_alphabet vs m Hp) as Hv.
  destruct (grammar_first_digits _ (parse_accept_grammar vs m Hp)) as (c & t & Hct & Hc).
  constructor.
  - rewrite app_nil_r. repeat (apply Forall_app; split); try apply bytes_are_bytes. exact Hob.
  - split; [discriminate|]. rewrite forallb_app, so_bytes_namechars. exact Hn.
  - split; assumption.
  - split; [rewrite Hct; discriminate|]. split.
    + revert Hv. apply forallb_impl. intros x Hx. apply (verchar_facts x Hx).
    + rewrite Hct in *. cbn [forallb] in Hv. apply andb_true_iff in Hv. destruct Hv as [Hv _].
      apply (verchar_facts c Hv).
  - reflexivity.
Qed.

Lemma dep_of_row row : In row matcher_table -> dep_of_matcher (fst row) = snd row.
Proof.
  intros Hin. pose proof matcher_keys_ok_true as K. unfold matcher_keys_ok in K.
  rewrite forallb_forall in K. specialize (K row Hin). apply Z.eqb_eq in K. exact K.
Qed.

Lemma namechars_no_op l : forallb is_namechar l = true -> no_op l = true.
Proof. apply forallb_impl. intros c. unfold is_namechar. lia. Qed.

(* the version a so: constraint is given: moved to 0.V exactly when V has no release suffix, whatever the operator *)
Definition so_version (v : string) : string := if negb (ends_release_s v) then "0." ++ v else v.

Theorem resolve_so row nm v pv :
  In row matcher_table -> namechars nm -> parse_version v = Some pv ->
  resolve_constraint ("so:" ++ nm ++ fst row ++ v) =
    {| c_name := "so:" ++ nm; c_version := so_version v; c_dep := snd row; c_pin := "" |}.
Proof.
  intros Hin Hn Hp.
  destruct (op_row_facts row Hin) as (Ho1 & Ho2 & _).
  destruct (grammar_first_digits _ (parse_accept_grammar v pv Hp)) as (c & t & Hct & Hc).
  assert (Hrw : so_rewrite (bytes_of_string ("so:" ++ nm ++ fst row ++ v)) =
                if ends_release (bytes_of_string v)
                then so_bytes ++ bytes_of_string nm ++ bytes_of_string (fst row) ++ bytes_of_string v
                else so_bytes ++ bytes_of_string nm ++ bytes_of_string (fst row) ++ 48%N :: 46%N :: bytes_of_string v).
  { rewrite !bytes_app. apply so_rewrite_split; try assumption.
    - unfold no_op. rewrite forallb_app. fold (no_op so_bytes) (no_op (bytes_of_string nm)).
      rewrite (namechars_no_op _ so_bytes_namechars), (namechars_no_op _ Hn). reflexivity.
    - rewrite Hct. cbn. unfold is_digit, is_opchar in *. lia. }
  assert (Hres : forall vs m, parse_version vs = Some m ->
            so_rewrite (bytes_of_string ("so:" ++ nm ++ fst row ++ v)) =
              (so_bytes ++ bytes_of_string nm) ++ bytes_of_string (fst row) ++ bytes_of_string vs ++ pin_tail [] ->
            resolve_constraint ("so:" ++ nm ++ fst row ++ v) =
              {| c_name := "so:" ++ nm; c_version := vs; c_dep := snd row; c_pin := "" |}).
  { intros vs m Hvs Hr. rewrite resolve_with_today.
    rewrite (resolve_with_rewritten _ _ _ _ _ _ Hr
               (clean_so nm _ vs m Hn Ho1 Ho2 (bytes_are_bytes _) Hvs)).
    unfold so_bytes. rewrite <- (bytes_app "so:" nm). rewrite !string_of_bytes_of_string. rewrite (dep_of_row row Hin). reflexivity. }
  unfold so_version, ends_release_s.
  destruct (ends_release (bytes_of_string v)); cbn [negb].
  - apply (Hres v pv Hp). rewrite Hrw. cbn [pin_tail]. rewrite app_nil_r, <- !app_assoc. reflexivity.
  - apply (Hres ("0." ++ v)%string (cons0m pv) (parse_zero_dot v pv Hp)).
    rewrite Hrw, bytes_zero_dot. cbn [pin_tail]. rewrite app_nil_r, <- !app_assoc. reflexivity.
Qed.

(* ---------- the verdict ---------------------------------------------------------------- *)
Definition scaled (rescale : bool) (v : ver) : ver := if rescale then cons0 v else v.

Lemma eq_row_in : In ("=", dep_versionEqual) matcher_table.
Proof. vm_compute. auto. Qed.

Lemma parse_so_version x px vx : parse_version x = Some px -> abs px = Some vx ->
  exists m, parse_version (so_version x) = Some m /\ abs m = Some (scaled (negb (ends_release_s x)) vx).
Proof.
  intros Hx Hax. unfold so_version, scaled. destruct (negb (ends_release_s x)).
  - exact (parse_zero_dot_abs x px vx Hx Hax).
  - exists px. split; assumption.
Qed.

(* every one of the six operators puts both sides on one scale; same kind => the order of the versions *)
Theorem so_verdict row nm v w pv pw :
  In row matcher_table -> namechars nm -> parse_version v = Some pv -> parse_version w = Some pw ->
  exists a va vr, abs pw = Some va /\ abs pv = Some vr /\
    parse_version (c_version (resolve_constraint ("so:" ++ nm ++ "=" ++ w))) = Some a /\
    satisfied_by (resolve_constraint ("so:" ++ nm ++ fst row ++ v)) a =
      Some (spec_sat (vop_of_string (fst row)) (scaled (negb (ends_release_s w)) va) (scaled (negb (ends_release_s v)) vr)) /\
    (ends_release_s v = ends_release_s w ->
     satisfied_by (resolve_constraint ("so:" ++ nm ++ fst row ++ v)) a = Some (spec_sat (vop_of_string (fst row)) va vr)).
Proof.
  intros Hin Hn Hv Hw.
  destruct (parse_abs _ _ Hv) as [vr Hr]. destruct (parse_abs _ _ Hw) as [va Ha].
  pose proof (resolve_so ("=", dep_versionEqual) nm w pw eq_row_in Hn Hw) as Rw. cbn [fst snd] in Rw.
  pose proof (resolve_so row nm v pv Hin Hn Hv) as Rv.
  destruct (parse_so_version w pw va Hw Ha) as (a & Pa & Aa). destruct (parse_so_version v pv vr Hv Hr) as (r & Pr & Ar).
  exists a, va, vr. split; [exact Ha|]. split; [exact Hr|].
  rewrite Rw, Rv. cbn [c_version]. split; [exact Pa|].
  destruct (satisfied_by_is_spec row ("so:" ++ nm) "" (so_version v) r a Hin Pr _ Pa)
    as (va' & vr' & Ea & Er & S).
  rewrite Aa in Ea. rewrite Ar in Er. inversion Ea; inversion Er; subst va' vr'.
  split; [exact S|]. intros Hk. rewrite S, Hk. unfold scaled.
  destruct (negb (ends_release_s w)); [rewrite spec_sat_cons0|]; reflexivity.
Qed.

(* the former witness of finding C03-F2, on today's code: 6 > 1 is answered true *)
Example so_fixed_witness :
  exists a, parse_version (c_version (resolve_constraint "so:libx.so.1=6")) = Some a /\
            satisfied_by (resolve_constraint "so:libx.so.1>1") a = Some true /\
            satisfied_by (resolve_constraint "so:libx.so.1<1") a = Some false /\
            satisfied_by (resolve_constraint "so:libx.so.1~6") a = Some true /\
            satisfied_by (resolve_constraint "so:libx.so.1>=1") a = Some true /\
            satisfied_by (resolve_constraint "so:libx.so.1<=1") a = Some false.
Proof. eexists. repeat split; vm_compute; reflexivity. Qed.

(* ---------- endsWithReleaseStr, readably: the string ends in "-r" followed by at least one digit ---------- *)
Definition rel_body : re := Cat (Lit [45; 114]%N) (Cat (Plus digit) Eps).

Lemma ends_release_matches l : ends_release l = matches (Cat (Star (Cls [(0, 255)]%N)) rel_body) l.
Proof. reflexivity. Qed.

Lemma is_digit_ranges c : is_digit c = in_ranges [(48, 57)]%N c.
Proof. unfold is_digit, in_ranges. cbn [existsb fst snd]. rewrite orb_false_r. reflexivity. Qed.

Theorem ends_release_iff l : Forall byte l ->
  (ends_release l = true <->
   exists p ds, l = p ++ 45%N :: 114%N :: ds /\ ds <> [] /\ forallb is_digit ds = true).
Proof.
  intros Hb. rewrite ends_release_matches. rewrite matches_L by (vm_compute; reflexivity). split.
  - intros H. apply L_cat_inv in H. destruct H as (p & t & -> & _ & H).
    unfold rel_body in H. apply L_cat_inv in H. destruct H as (t1 & t2 & -> & H1 & H2).
    inversion H1; subst. apply L_cat_inv in H2. destruct H2 as (ds & e & -> & Hd & He).
    apply L_eps_inv in He. subst e. rewrite app_nil_r.
    apply L_plus_digit_inv in Hd. exists p, ds. split; [reflexivity | exact Hd].
  - intros (p & ds & -> & Hne & Hd).
    apply Forall_app in Hb. destruct Hb as [Hp _].
    apply L_cat.
    + apply L_star_cls. apply (forallb_cls (fun _ => true)); [exact Hp | | apply forallb_forall; reflexivity].
      intros c Hc. unfold in_ranges. cbn [existsb fst snd]. unfold byte in Hc. lia.
    + change (45%N :: 114%N :: ds) with ([45; 114]%N ++ ds). unfold rel_body. apply L_cat; [apply L_lit|].
      rewrite <- (app_nil_r ds). apply L_cat; [|apply L_eps].
      apply L_plus_cls; [exact Hne|]. revert Hd. apply forallb_impl. intros c Hc. rewrite <- is_digit_ranges. exact Hc.
Qed.
