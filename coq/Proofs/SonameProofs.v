(* C03 — shared-library names through ResolvePackageNameVersionPin, for ALL names and version strings: what a
   so: constraint resolves to under each of the six operators (the 0.V rescaling is found by strings.Cut at the first "="),
   and the verdict of SatisfiedBy on a so: provide.  With an operator that contains "=" both sides are rescaled alike and
   the verdict is the spec's operator on the two versions; without "=" the constraint keeps its scale (finding C03-F2). *)
From Coq Require Import ZifyBool ZifyN Lia.
From Apko Require Import Base.Prelude Base.Regex Spec.VersionSpec Model.Version
  Proofs.VersionProofs Proofs.ConstraintProofs Proofs.VersionStringProofs Proofs.VersionPrefixProofs
  Generated.Regexes Generated.VersionConsts Generated.C03Version Generated.C03Ladders.
Open Scope string_scope. Open Scope list_scope. Open Scope Z_scope.

(* ---------- small facts about the byte-level helpers --------------------------- *)
Definition so_bytes : list N := bytes_of_string "so:".

(* endsWithReleaseStr.MatchString *)
Definition ends_release (v : list N) : bool := search_suffix ends_with_release_re v.
Definition ends_release_s (v : string) : bool := ends_release (bytes_of_string v).

Lemma bytes_roundtrip l : Forall byte l -> bytes_of_string (string_of_bytes l) = l.
Proof.
  unfold bytes_of_string, string_of_bytes. intros H.
  rewrite list_ascii_of_string_of_list_ascii, map_map.
  induction H as [|c l Hc Hl IH]; cbn [List.map]; [reflexivity|].
  rewrite (N_ascii_embedding c Hc). f_equal. exact IH.
Qed.

Lemma strip_prefix_app p s : strip_prefix p (p ++ s) = Some s.
Proof. induction p as [|c p IH]; cbn [strip_prefix app]; [reflexivity|]. rewrite N.eqb_refl. exact IH. Qed.

Definition no_eq (l : list N) : bool := forallb (fun c => negb (c =? 61)%N) l.

Lemma cut_eq_found a b : no_eq a = true -> cut_eq (a ++ 61%N :: b) = Some (a, b).
Proof.
  induction a as [|c a IH]; cbn [app cut_eq no_eq forallb]; intros H.
  - reflexivity.
  - apply andb_true_iff in H. destruct H as [Hc Ha]. apply negb_true_iff in Hc. rewrite Hc.
    fold (no_eq a) in Ha. rewrite (IH Ha). reflexivity.
Qed.

Lemma cut_eq_none a : no_eq a = true -> cut_eq a = None.
Proof.
  induction a as [|c a IH]; cbn [cut_eq no_eq forallb]; intros H; [reflexivity|].
  apply andb_true_iff in H. destruct H as [Hc Ha]. apply negb_true_iff in Hc. rewrite Hc.
  fold (no_eq a) in Ha. rewrite (IH Ha). reflexivity.
Qed.

Lemma no_eq_app a b : no_eq (a ++ b) = no_eq a && no_eq b.
Proof. apply forallb_app. Qed.

Lemma forallb_impl {A} (p q : A -> bool) l : (forall x, p x = true -> q x = true) -> forallb p l = true -> forallb q l = true.
Proof. intros Hpq. induction l as [|x l IH]; cbn [forallb]; [auto|]. intros H. apply andb_true_iff in H. destruct H as [H1 H2]. rewrite (Hpq x H1), (IH H2). reflexivity. Qed.

Lemma namechars_no_eq l : forallb is_namechar l = true -> no_eq l = true.
Proof. apply forallb_impl. intros c. unfold is_namechar, is_opchar. lia. Qed.

(* the rewrite of a so: string that has an "=" after a part without one: "0." goes right behind that "=" *)
Lemma so_rewrite_eq pre v : no_eq pre = true ->
  so_rewrite (so_bytes ++ pre ++ 61%N :: v) =
    if ends_release v then so_bytes ++ pre ++ 61%N :: v else so_bytes ++ pre ++ 61%N :: 48%N :: 46%N :: v.
Proof.
  intros Hp. unfold so_rewrite. fold so_bytes. rewrite strip_prefix_app.
  rewrite app_assoc. rewrite cut_eq_found by (rewrite no_eq_app, Hp; reflexivity).
  fold (ends_release v). destruct (ends_release v); [reflexivity|].
  rewrite <- app_assoc. reflexivity.
Qed.

(* ... and of one without any "=": untouched *)
Lemma so_rewrite_no_eq rest : no_eq rest = true -> so_rewrite (so_bytes ++ rest) = so_bytes ++ rest.
Proof.
  intros Hr. unfold so_rewrite. fold so_bytes. rewrite strip_prefix_app.
  rewrite cut_eq_none by (rewrite no_eq_app, Hr; reflexivity). reflexivity.
Qed.

(* ---------- ResolvePackageNameVersionPin on a string whose REWRITTEN form has clean parts ---------- *)
Lemma resolve_rewritten s0 name ops v pin :
  so_rewrite (bytes_of_string s0) = name ++ ops ++ v ++ pin_tail pin ->
  clean name ops v pin ->
  resolve_constraint s0 =
    {| c_name := string_of_bytes name; c_version := string_of_bytes v;
       c_dep := dep_of_matcher (string_of_bytes ops); c_pin := string_of_bytes pin |}.
Proof.
  intros Hs Hc. unfold resolve_constraint. cbv zeta. rewrite Hs.
  unfold full_match. rewrite package_name_regex_body.
  rewrite bytes_roundtrip.
  2:{ destruct Hc as [Hb _ _ _ _]. destruct pin as [|p0 pin']; [exact Hb|].
      cbn [pin_tail]. rewrite !app_assoc in *. apply Forall_app in Hb. destruct Hb as [H1 H2].
      apply Forall_app. split; [exact H1|]. constructor; [unfold byte; lia | exact H2]. }
  rewrite (match_clean _ _ _ _ Hc). rewrite (split_clean _ _ _ _ Hc).
  destruct Hc as [_ _ [Ho _] _ _]. destruct ops; [congruence | reflexivity].
Qed.

(* ---------- the operator rows, as byte strings (finite check over the regenerated switch) ---------- *)
Definition has_eq (op : string) : bool := existsb (fun c => (c =? 61)%N) (bytes_of_string op).

Definition op_rows_shape : bool :=
  forallb (fun row : string * Z =>
    let b := bytes_of_string (fst row) in
    negb (match b with [] => true | _ => false end) && forallb is_opchar b &&
    (if has_eq (fst row)
     then (if list_eq_dec N.eq_dec b (removelast b ++ [61%N]) then true else false) && no_eq (removelast b)
     else no_eq b &&
          match vop_of_string (fst row) with OpGt | OpLt | OpTilde => true | _ => false end))
    matcher_table.

Lemma op_rows_shape_true : op_rows_shape = true.
Proof. vm_compute. reflexivity. Qed.

Lemma op_row_facts row : In row matcher_table ->
  bytes_of_string (fst row) <> [] /\ forallb is_opchar (bytes_of_string (fst row)) = true /\
  (if has_eq (fst row)
   then exists o, bytes_of_string (fst row) = o ++ [61%N] /\ no_eq o = true /\ forallb is_opchar o = true
   else no_eq (bytes_of_string (fst row)) = true /\
        (vop_of_string (fst row) = OpGt \/ vop_of_string (fst row) = OpLt \/ vop_of_string (fst row) = OpTilde)).
Proof.
  intros Hin. pose proof op_rows_shape_true as T. unfold op_rows_shape in T.
  rewrite forallb_forall in T. specialize (T row Hin). cbv zeta in T.
  apply andb_true_iff in T. destruct T as [T T3]. apply andb_true_iff in T. destruct T as [T1 T2].
  split; [destruct (bytes_of_string (fst row)); [discriminate | discriminate]|]. split; [exact T2|].
  destruct (has_eq (fst row)).
  - apply andb_true_iff in T3. destruct T3 as [E N].
    destruct (list_eq_dec N.eq_dec _ _) as [E'|]; [|discriminate].
    exists (removelast (bytes_of_string (fst row))). split; [exact E'|]. split; [exact N|].
    rewrite E' in T2. rewrite forallb_app in T2. apply andb_true_iff in T2. tauto.
  - apply andb_true_iff in T3. destruct T3 as [N V]. split; [exact N|].
    destruct (vop_of_string (fst row)); try discriminate; auto.
Qed.

(* ---------- what a so: string resolves to ------------------------------------------ *)
Definition namechars (nm : string) : Prop := forallb is_namechar (bytes_of_string nm) = true.

Lemma so_bytes_namechars : forallb is_namechar so_bytes = true.
Proof. vm_compute. reflexivity. Qed.

Lemma clean_so nm ops vs m :
  namechars nm -> ops <> [] -> forallb is_opchar ops = true -> Forall byte ops ->
  parse_version vs = Some m ->
  clean (so_bytes ++ bytes_of_string nm) ops (bytes_of_string vs) [].
Proof.
  intros Hn Ho1 Ho2 Hob Hp.
  pose proof (parsed_alphabet vs m Hp) as Hv.
  destruct (grammar_first_digits _ (parse_accept_grammar vs m Hp)) as (c & t & Hct & Hc).
  constructor.
  - rewrite app_nil_r. repeat (apply Forall_app; split); try apply bytes_are_bytes. exact Hob.
  - split; [discriminate|]. rewrite forallb_app, so_bytes_namechars. exact Hn.
  - split; assumption.
  - split; [rewrite Hct; discriminate|]. split.
    + revert Hv. apply forallb_impl. intros x Hx. apply (verchar_facts x Hx).
    + rewrite Hct in *. cbn [forallb] in Hv. apply andb_true_iff in Hv. destruct Hv as [Hv _].
      apply (verchar_facts c Hv).
  - reflexivity.
Qed.

Lemma dep_of_row row : In row matcher_table -> dep_of_matcher (fst row) = snd row.
Proof.
  intros Hin. pose proof matcher_keys_ok_true as K. unfold matcher_keys_ok in K.
  rewrite forallb_forall in K. specialize (K row Hin). apply Z.eqb_eq in K. exact K.
Qed.

(* the version a so: constraint is given: moved to 0.V exactly when the operator contains "=" and V has no release suffix *)
Definition so_version (op v : string) : string :=
  if has_eq op && negb (ends_release_s v) then "0." ++ v else v.

Theorem resolve_so row nm v pv :
  In row matcher_table -> namechars nm -> parse_version v = Some pv ->
  resolve_constraint ("so:" ++ nm ++ fst row ++ v) =
    {| c_name := "so:" ++ nm; c_version := so_version (fst row) v; c_dep := snd row; c_pin := "" |}.
Proof.
  intros Hin Hn Hp.
  destruct (op_row_facts row Hin) as (Ho1 & Ho2 & Hshape).
  assert (Hbytes : bytes_of_string ("so:" ++ nm ++ fst row ++ v) =
                   so_bytes ++ bytes_of_string nm ++ bytes_of_string (fst row) ++ bytes_of_string v).
  { rewrite !bytes_app. reflexivity. }
  assert (Hres : forall vs m, parse_version vs = Some m ->
            so_rewrite (bytes_of_string ("so:" ++ nm ++ fst row ++ v)) =
              (so_bytes ++ bytes_of_string nm) ++ bytes_of_string (fst row) ++ bytes_of_string vs ++ pin_tail [] ->
            resolve_constraint ("so:" ++ nm ++ fst row ++ v) =
              {| c_name := "so:" ++ nm; c_version := vs; c_dep := snd row; c_pin := "" |}).
  { intros vs m Hvs Hrw.
    rewrite (resolve_rewritten _ _ _ _ _ Hrw
               (clean_so nm _ vs m Hn Ho1 Ho2 (bytes_are_bytes _) Hvs)).
    unfold so_bytes. rewrite <- (bytes_app "so:" nm). rewrite !string_of_bytes_of_string. rewrite (dep_of_row row Hin). reflexivity. }
  unfold so_version, ends_release_s.
  destruct (has_eq (fst row)) eqn:He.
  - destruct Hshape as (o & Eo & No & _).
    assert (Hrw : so_rewrite (bytes_of_string ("so:" ++ nm ++ fst row ++ v)) =
                  if ends_release (bytes_of_string v)
                  then so_bytes ++ (bytes_of_string nm ++ o) ++ 61%N :: bytes_of_string v
                  else so_bytes ++ (bytes_of_string nm ++ o) ++ 61%N :: 48%N :: 46%N :: bytes_of_string v).
    { rewrite Hbytes, Eo. rewrite <- so_rewrite_eq by (rewrite no_eq_app, (namechars_no_eq _ Hn), No; reflexivity).
      f_equal. rewrite <- !app_assoc. reflexivity. }
    destruct (ends_release (bytes_of_string v)); cbn [negb andb].
    + apply (Hres v pv Hp). rewrite Hrw, Eo. cbn [pin_tail]. rewrite app_nil_r, <- !app_assoc. reflexivity.
    + apply (Hres ("0." ++ v)%string (cons0m pv) (parse_zero_dot v pv Hp)).
      rewrite Hrw, Eo, bytes_zero_dot. cbn [pin_tail]. rewrite app_nil_r, <- !app_assoc. reflexivity.
  - destruct Hshape as (No & _). cbn [andb].
    apply (Hres v pv Hp). rewrite Hbytes.
    rewrite so_rewrite_no_eq.
    + cbn [pin_tail]. rewrite app_nil_r, <- !app_assoc. reflexivity.
    + rewrite !no_eq_app, (namechars_no_eq _ Hn), No. cbn [andb].
      pose proof (parsed_alphabet v pv Hp) as Hv. revert Hv. apply forallb_impl.
      intros x Hx. destruct (verchar_facts x Hx) as (_ & _ & _ & E & _). rewrite E. reflexivity.
Qed.

(* ---------- the verdict ---------------------------------------------------------------- *)
Definition scaled (rescale : bool) (v : ver) : ver := if rescale then cons0 v else v.

Lemma eq_row_in : In ("=", dep_versionEqual) matcher_table.
Proof. vm_compute. auto. Qed.

Lemma parse_so_version op v pv vr : parse_version v = Some pv -> abs pv = Some vr ->
  exists m, parse_version (so_version op v) = Some m /\
            abs m = Some (scaled (has_eq op && negb (ends_release_s v)) vr).
Proof.
  intros Hp Ha. unfold so_version, scaled.
  destruct (has_eq op && negb (ends_release_s v)).
  - exact (parse_zero_dot_abs v pv vr Hp Ha).
  - exists pv. split; assumption.
Qed.

(* what the code does, for every operator row, name and pair of version strings (all four kinds of pairs) *)
Theorem so_verdict row nm v w pv pw :
  In row matcher_table -> namechars nm -> parse_version v = Some pv -> parse_version w = Some pw ->
  exists a va vr, abs pw = Some va /\ abs pv = Some vr /\
    parse_version (c_version (resolve_constraint ("so:" ++ nm ++ "=" ++ w))) = Some a /\
    satisfied_by (resolve_constraint ("so:" ++ nm ++ fst row ++ v)) a =
      Some (spec_sat (vop_of_string (fst row))
              (scaled (negb (ends_release_s w)) va)
              (scaled (has_eq (fst row) && negb (ends_release_s v)) vr)).
Proof.
  intros Hin Hn Hv Hw.
  destruct (parse_abs _ _ Hv) as [vr Hr]. destruct (parse_abs _ _ Hw) as [va Ha].
  pose proof (resolve_so ("=", dep_versionEqual) nm w pw eq_row_in Hn Hw) as Rw. cbn [fst snd] in Rw.
  pose proof (resolve_so row nm v pv Hin Hn Hv) as Rv.
  destruct (parse_so_version "=" w pw va Hw Ha) as (a & Pa & Aa).
  destruct (parse_so_version (fst row) v pv vr Hv Hr) as (r & Pr & Ar).
  exists a, va, vr. split; [exact Ha|]. split; [exact Hr|].
  rewrite Rw, Rv. cbn [c_version]. split; [exact Pa|].
  destruct (satisfied_by_is_spec row ("so:" ++ nm) "" (so_version (fst row) v) r a Hin Pr _ Pa)
    as (va' & vr' & Ea & Er & S).
  rewrite Aa in Ea. rewrite Ar in Er. inversion Ea; inversion Er; subst va' vr'.
  exact S.
Qed.

(* operators that contain "=" (=, >=, <=), both versions of the same kind: the order of the versions *)
Corollary so_verdict_with_eq row nm v w pv pw :
  In row matcher_table -> has_eq (fst row) = true -> namechars nm ->
  parse_version v = Some pv -> parse_version w = Some pw ->
  ends_release_s v = ends_release_s w ->
  exists a va vr, abs pw = Some va /\ abs pv = Some vr /\
    parse_version (c_version (resolve_constraint ("so:" ++ nm ++ "=" ++ w))) = Some a /\
    satisfied_by (resolve_constraint ("so:" ++ nm ++ fst row ++ v)) a =
      Some (spec_sat (vop_of_string (fst row)) va vr).
Proof.
  intros Hin He Hn Hv Hw Hk.
  destruct (so_verdict row nm v w pv pw Hin Hn Hv Hw) as (a & va & vr & Ha & Hr & Pa & S).
  exists a, va, vr. repeat (split; [assumption|]). rewrite S, He, Hk. cbn [andb].
  unfold scaled. destruct (negb (ends_release_s w)); [rewrite spec_sat_cons0|]; reflexivity.
Qed.

(* operators without "=" (>, <, ~), neither version with a release suffix: the provide is on the 0.W scale, the constraint is not *)
Corollary so_verdict_without_eq row nm v w pv pw :
  In row matcher_table -> has_eq (fst row) = false -> namechars nm ->
  parse_version v = Some pv -> parse_version w = Some pw ->
  ends_release_s w = false ->
  exists a va vr, abs pw = Some va /\ abs pv = Some vr /\
    parse_version (c_version (resolve_constraint ("so:" ++ nm ++ "=" ++ w))) = Some a /\
    satisfied_by (resolve_constraint ("so:" ++ nm ++ fst row ++ v)) a =
      Some (spec_sat (vop_of_string (fst row)) (cons0 va) vr).
Proof.
  intros Hin He Hn Hv Hw Hk.
  destruct (so_verdict row nm v w pv pw Hin Hn Hv Hw) as (a & va & vr & Ha & Hr & Pa & S).
  exists a, va, vr. repeat (split; [assumption|]). rewrite S, He, Hk. reflexivity.
Qed.

(* ... so against a constraint version whose first component is at least 1, the versions do not matter at all:
   "so:N>V" is satisfied by no provide without release suffix, "so:N<V" by every one, "so:N~V" by none *)
Corollary so_verdict_without_eq_constant row nm v w pv pw :
  In row matcher_table -> has_eq (fst row) = false -> namechars nm ->
  parse_version v = Some pv -> parse_version w = Some pw ->
  ends_release_s w = false -> 0 < hd 0 (m_nums pv) ->
  exists a, parse_version (c_version (resolve_constraint ("so:" ++ nm ++ "=" ++ w))) = Some a /\
    satisfied_by (resolve_constraint ("so:" ++ nm ++ fst row ++ v)) a =
      Some (match vop_of_string (fst row) with OpLt => true | _ => false end).
Proof.
  intros Hin He Hn Hv Hw Hk Hpos.
  destruct (so_verdict_without_eq row nm v w pv pw Hin He Hn Hv Hw Hk) as (a & va & vr & Ha & Hr & Pa & S).
  exists a. split; [exact Pa|]. rewrite S. f_equal.
  assert (Hn' : nums vr = m_nums pv).
  { unfold abs in Hr. destruct (decode_pre (m_pre pv)); [|discriminate]. destruct (decode_post (m_post pv)); [|discriminate].
    inversion Hr; reflexivity. }
  destruct (m_nums pv) as [|x rest] eqn:En; cbn [hd] in Hpos; [lia|].
  assert (Hc : spec_cmp (cons0 va) vr = Lt).
  { unfold spec_cmp. cbn [cons0 nums]. rewrite Hn'. cbn [cmp_nums].
    replace (0 ?= x) with Lt by (symmetry; apply Z.compare_lt_iff; lia). reflexivity. }
  destruct (op_row_facts row Hin) as (_ & _ & Hshape). rewrite He in Hshape. destruct Hshape as (_ & [E|[E|E]]);
    rewrite E; cbn [spec_sat]; rewrite ?Hc; try reflexivity.
  unfold spec_tilde. cbn [cons0 nums]. rewrite Hn'. cbn [is_prefix_z].
  replace (x =? 0) with false by (symmetry; apply Z.eqb_neq; lia). reflexivity.
Qed.

(* ---------- endsWithReleaseStr, readably: the string ends in "-r" followed by at least one digit ---------- *)
Definition rel_body : re := Cat (Lit [45; 114]%N) (Cat (Plus digit) Eps).

Lemma ends_release_matches l : ends_release l = matches (Cat (Star (Cls [(0, 255)]%N)) rel_body) l.
Proof. reflexivity. Qed.

Lemma is_digit_ranges c : is_digit c = in_ranges [(48, 57)]%N c.
Proof. unfold is_digit, in_ranges. cbn [existsb fst snd]. rewrite orb_false_r. reflexivity. Qed.

Theorem ends_release_iff l : Forall byte l ->
  (ends_release l = true <->
   exists p ds, l = p ++ 45%N :: 114%N :: ds /\ ds <> [] /\ forallb is_digit ds = true).
Proof.
  intros Hb. rewrite ends_release_matches. rewrite matches_L by (vm_compute; reflexivity). split.
  - intros H. apply L_cat_inv in H. destruct H as (p & t & -> & _ & H).
    unfold rel_body in H. apply L_cat_inv in H. destruct H as (t1 & t2 & -> & H1 & H2).
    inversion H1; subst. apply L_cat_inv in H2. destruct H2 as (ds & e & -> & Hd & He).
    apply L_eps_inv in He. subst e. rewrite app_nil_r.
    apply L_plus_digit_inv in Hd. exists p, ds. split; [reflexivity | exact Hd].
  - intros (p & ds & -> & Hne & Hd).
    apply Forall_app in Hb. destruct Hb as [Hp _].
    apply L_cat.
    + apply L_star_cls. apply (forallb_cls (fun _ => true)); [exact Hp | | apply forallb_forall; reflexivity].
      intros c Hc. unfold in_ranges. cbn [existsb fst snd]. unfold byte in Hc. lia.
    + change (45%N :: 114%N :: ds) with ([45; 114]%N ++ ds). unfold rel_body. apply L_cat; [apply L_lit|].
      rewrite <- (app_nil_r ds). apply L_cat; [|apply L_eps].
      apply L_plus_cls; [exact Hne|]. revert Hd. apply forallb_impl. intros c Hc. rewrite <- is_digit_ranges. exact Hc.
Qed.
