(* C15 — sortTarHeaders / sortChildrenTarHeaders: the recursion ends on EVERY list of
   tar headers in which no entry's cleaned name is "." (whatever else is wrong with the
   list: duplicates, entries without a parent entry, files used as directories), within the
   fuel Model/Formats.v gives it; the one excluded shape is finding C15-F4. The argument: a
   call at depth n is made for the children of a directory entry at level n-1, whose
   ancestors are n-1 further entries with pairwise different names, so n <= len(headers).
   Uses the level lemmas of Proofs/FormatsSort.v (C16), read-only. *)
From Apko Require Import Base.Prelude Base.C16Lib Model.Formats Model.Parsers Spec.ParsersSpec
  Proofs.ParsersProofs Proofs.ReadersProofs Proofs.FormatsSort.
Open Scope string_scope. Open Scope list_scope.

Section Term.
Variable hs : list hdr.
Hypothesis NODOT : forall h, In h hs -> ckey h <> ".".
Local Notation DC := (dir_children hs).
Local Notation ALL := (all_headers hs).

Definition is_key (c : string) : Prop := exists h, In h hs /\ ckey h = c.
Definition inv (n : nat) (cs : list string) : Prop :=
  forall c, In c cs -> is_key c -> lvl n c /\ forall j, (1 <= j <= n)%nat -> is_key (up j c).

Lemma lookup_key c h : alookup c ALL = Some h -> is_key c.
Proof. intro H. apply all_lookup_inv in H. destruct H as [I E]. exists h. auto. Qed.

Lemma chain_bound c n : is_key c -> lvl n c -> (forall j, (1 <= j <= n)%nat -> is_key (up j c)) -> (n < List.length hs)%nat.
Proof.
  intros He L A.
  set (chain := map (fun j => up j c) (seq 0 (S n))).
  assert (N : NoDup chain).
  { apply nodup_map_inj_on; [|apply seq_NoDup]. intros i j Hi Hj E. apply in_seq in Hi, Hj.
    pose proof (lvl_down i n c L ltac:(lia)) as X. pose proof (lvl_down j n c L ltac:(lia)) as Y.
    rewrite E in X. pose proof (lvl_fun _ _ X _ Y). lia. }
  assert (I : incl chain (map ckey hs)).
  { intros x Hx. apply in_map_iff in Hx. destruct Hx as (j & <- & Hj). apply in_seq in Hj.
    assert (E : is_key (up j c)) by (destruct j as [|j]; [exact He|apply A; lia]).
    destruct E as (h & Ih & <-). apply in_map, Ih. }
  pose proof (NoDup_incl_length N I) as B. unfold chain in B. rewrite !map_length, seq_length in B. lia.
Qed.

Lemma inv_children n cs c h x xs : inv n cs -> In c cs -> alookup c ALL = Some h -> alookup c DC = Some (x :: xs) -> inv (S n) (x :: xs).
Proof.
  intros V Ic La Ld. destruct (V c Ic (lookup_key c h La)) as [L A].
  rewrite dc_lookup in Ld. intros y Iy _.
  assert (Ky : In y (kids c hs)) by (destruct (kids c hs); [discriminate|inversion Ld; subst; exact Iy]).
  apply kids_in in Ky. destruct Ky as (h' & _ & _ & Ep).
  split.
  - apply lvlS; rewrite Ep; [eapply lvl_not_dot; exact L|exact L].
  - intros j Hj. destruct j as [|j]; [lia|]. cbn [up]. rewrite Ep.
    destruct j as [|j]; [exact (lookup_key c h La)|]. apply A. lia.
Qed.

Lemma sc_returns : forall f n cs, inv n cs -> (List.length hs + 1 <= f + n)%nat -> (1 <= f)%nat ->
  Returns (sort_children f DC ALL cs).
Proof.
  induction f as [|f IH]; intros n cs V Hf H1; [lia|].
  rewrite sort_children_S. apply returns_bind; [|intros; apply returns_ok].
  assert (G : forall l, (forall c, In c l -> In c cs) -> Returns (dirs_of f DC ALL l)).
  { induction l as [|c l IHl]; intro Hl; cbn [dirs_of]; [apply returns_ok|].
    assert (Hl' : forall c0, In c0 l -> In c0 cs) by (intros; apply Hl; right; assumption).
    destruct (alookup c ALL) as [h|] eqn:La; [|apply IHl, Hl'].
    destruct (h_isdir h); [|apply IHl, Hl'].
    apply returns_bind.
    - destruct (alookup c DC) as [[|x xs]|] eqn:Ld; try apply returns_ok.
      assert (Ic : In c cs) by (apply Hl; left; reflexivity).
      destruct (V c Ic (lookup_key c h La)) as [L A].
      pose proof (chain_bound c n (lookup_key c h La) L A) as B.
      apply (IH (S n)); [eapply inv_children; eauto|lia|lia].
    - intros sub _. apply returns_bind; [apply IHl, Hl'|intros; apply returns_ok]. }
  apply G. intros c Ic. apply (proj1 (ssort_in _ _)) in Ic. exact Ic.
Qed.

Theorem sort_headers_ord_raw_returns ord : Returns (sort_headers_ord_raw ord hs).
Proof.
  unfold sort_headers_ord_raw. apply (sc_returns _ 0); [|lia|lia].
  intros c Ic K. apply (proj1 (ssort_in _ _)) in Ic. apply filter_In in Ic. destruct Ic as [_ E]. apply String.eqb_eq in E.
  split; [|intros; lia]. apply lvl0; [exact E|]. destruct K as (h & I & <-). apply NODOT, I.
Qed.
End Term.

(* before fix f716198 (hypothetical): safe on the lists without an entry that cleans to "." *)
Theorem sort_headers_raw_returns hs : (forall h, In h hs -> clean (h_name h) <> ".") -> Returns (sort_headers_raw hs).
Proof. intro H. apply sort_headers_ord_raw_returns. exact H. Qed.

(* the code since fix f716198: the "." entries are left out, the recursion ends on EVERY list,
   for every order in which Go ranges over the map *)
Lemma filtered_not_dot hs h : In h (filter not_dot hs) -> clean (h_name h) <> ".".
Proof. intro I. apply filter_In in I. destruct I as [_ E]. unfold not_dot in E. apply negb_true_iff, String.eqb_neq in E. exact E. Qed.
Theorem sort_headers_ord_returns hs ord : Returns (sort_headers_ord ord hs).
Proof. unfold sort_headers_ord. apply sort_headers_ord_raw_returns. intros h I. exact (filtered_not_dot hs h I). Qed.
Theorem sort_headers_returns hs : Returns (sort_headers hs).
Proof. unfold sort_headers. apply sort_headers_raw_returns. intros h I. exact (filtered_not_dot hs h I). Qed.
(* ... and the fix changed nothing on the lists the code handled before it *)
Theorem sort_headers_raw_same hs : (forall h, In h hs -> clean (h_name h) <> ".") -> sort_headers hs = sort_headers_raw hs.
Proof. intro H. unfold sort_headers. rewrite (filter_not_dot_id hs H). reflexivity. Qed.
Theorem sort_headers_ord_raw_same hs ord : (forall h, In h hs -> clean (h_name h) <> ".") -> sort_headers_ord ord hs = sort_headers_ord_raw ord hs.
Proof. intro H. unfold sort_headers_ord. rewrite (filter_not_dot_id hs H). reflexivity. Qed.
