(* C06 — byte-level tar codec: one 512-byte header block.  The reader applied
   to a block assembled by [block_of] finds the fields it was assembled from
   and accepts the checksum. *)
From Apko Require Import Base.Prelude Model.TarBytes Spec.TarBytesSpec Proofs.TarBytesNum Proofs.TarBytesPax.
From Coq Require Import Lia.
Open Scope list_scope.

Lemma chop_cons : forall w ws a r, List.length a = w -> chop (w :: ws) (a ++ r) = a :: chop ws r.
Proof.
  intros w ws a r H. cbn [chop]. rewrite firstn_app_exact, skipn_app_exact by (symmetry; assumption). reflexivity.
Qed.

Lemma bsum_app : forall a b, bsum (a ++ b) = (bsum a + bsum b)%N.
Proof. induction a as [|c a IH]; intro b; cbn [bsum app]; [reflexivity|]. rewrite IH. lia. Qed.
Lemma bsum_bound : forall l, (bsum l <= 255 * N.of_nat (List.length l))%N.
Proof.
  induction l as [|c l IH]; cbn [bsum List.length]; [lia|]. pose proof (bN_lt c). rewrite Nat2N.inj_succ. lia.
Qed.

Lemma parse_octal_chk : forall s, (s < 8 ^ 6)%N ->
  parse_octal (fixed_digits 8 6 s ++ [NUL; " "%char]) = Ok (Z.of_N s).
Proof.
  intros s H.
  pose proof (fixed_digits_digits 8 6 s ltac:(lia)) as D.
  assert (NE : fixed_digits 8 6 s <> []).
  { intro E. pose proof (fixed_digits_length 8 6 s) as L. rewrite E in L. simpl in L. lia. }
  rewrite parse_octal_nonnil by (rewrite trim_digits_tail; auto).
  rewrite trim_digits_tail by auto.
  rewrite parse_string_no_nul by (apply digits_no_nul; assumption).
  rewrite parse_uint_nonnil by assumption.
  rewrite fixed_digits_val by (lia || assumption).
  rewrite N.mul_0_l, N.add_0_l.
  assert (8 ^ 6 = 262144)%N by reflexivity.
  replace (s <? 18446744073709551616)%N with true by (symmetry; apply N.ltb_lt; lia).
  unfold wrap64. replace (s <? 9223372036854775808)%N with true by (symmetry; apply N.ltb_lt; lia). reflexivity.
Qed.

Record fields_ok (f : fields) : Prop := {
  L_name : List.length (f_name f) = 100%nat; L_mode : List.length (f_mode f) = 8%nat;
  L_uid : List.length (f_uid f) = 8%nat; L_gid : List.length (f_gid f) = 8%nat;
  L_size : List.length (f_size f) = 12%nat; L_mtime : List.length (f_mtime f) = 12%nat;
  L_link : List.length (f_link f) = 100%nat; L_magic : f_magic f = magic_ustar;
  L_uname : List.length (f_uname f) = 32%nat; L_gname : List.length (f_gname f) = 32%nat;
  L_devmaj : List.length (f_devmaj f) = 8%nat; L_devmin : List.length (f_devmin f) = 8%nat;
  L_ext : List.length (f_ext f) = 167%nat;
  L_trailer : beqb (skipn 163 (f_ext f)) (lit "tar" ++ [NUL]) = false
}.

Definition pre_of (f : fields) : bytes := f_name f ++ f_mode f ++ f_uid f ++ f_gid f ++ f_size f ++ f_mtime f.
Definition post_of (f : fields) : bytes :=
  f_type f :: f_link f ++ f_magic f ++ f_uname f ++ f_gname f ++ f_devmaj f ++ f_devmin f ++ f_ext f.

Lemma pre_length : forall f, fields_ok f -> List.length (pre_of f) = 148%nat.
Proof. intros f []. unfold pre_of. rewrite !app_length. lia. Qed.
Lemma post_length : forall f, fields_ok f -> List.length (post_of f) = 356%nat.
Proof. intros f []. unfold post_of. cbn [List.length]. rewrite !app_length. rewrite L_magic0. change (List.length magic_ustar) with 8%nat. lia. Qed.

Lemma block_length : forall f, fields_ok f -> List.length (block_of f) = 512%nat.
Proof.
  intros f F. unfold block_of, with_checksum. fold (pre_of f). fold (post_of f).
  rewrite !app_length, fixed_digits_length, pre_length, post_length by assumption. reflexivity.
Qed.

(* what the reader finds in the block, in terms of the fields *)
Definition parsed_fields (f : fields) : res (thdr * tfmt) :=
  do sz <- parse_numeric (f_size f);
  do mo <- parse_numeric (f_mode f);
  do ui <- parse_numeric (f_uid f);
  do gi <- parse_numeric (f_gid f);
  do mt <- parse_numeric (f_mtime f);
  do dj <- parse_numeric (f_devmaj f);
  do dn <- parse_numeric (f_devmin f);
  let nm := parse_string (f_name f) in
  let p := parse_string (firstn 155 (f_ext f)) in
  Ok ({| h_type := f_type f; h_name := if is_nil p then nm else p ++ "/"%char :: nm;
         h_link := parse_string (f_link f); h_mode := mo; h_uid := ui; h_gid := gi;
         h_size := sz; h_mtime := mt; h_mnsec := 0%N; h_uname := parse_string (f_uname f);
         h_gname := parse_string (f_gname f); h_devmaj := dj; h_devmin := dn; h_pax := [] |}, TUSTAR).

Lemma parse_header_block : forall f, fields_ok f -> parse_header (block_of f) = parsed_fields f.
Proof.
  intros f F. pose proof (pre_length f F) as LP. pose proof (post_length f F) as LQ.
  destruct F.
  unfold parse_header.
  (* the checksum parts *)
  assert (E1 : firstn 148 (block_of f) = pre_of f).
  { unfold block_of, with_checksum. fold (pre_of f). apply firstn_app_exact. symmetry. assumption. }
  assert (E2 : skipn 156 (block_of f) = post_of f).
  { unfold block_of, with_checksum. fold (pre_of f). fold (post_of f).
    rewrite app_assoc. apply skipn_app_exact. rewrite app_length, LP, app_length, fixed_digits_length. reflexivity. }
  rewrite E1, E2.
  (* the fields *)
  assert (C : chop [100; 8; 8; 8; 12; 12; 8; 1; 100; 8; 32; 32; 8; 8]%nat (block_of f) =
              [f_name f; f_mode f; f_uid f; f_gid f; f_size f; f_mtime f;
               fixed_digits 8 6 (bsum (pre_of f) + 256 + bsum (post_of f)) ++ [NUL; " "%char];
               [f_type f]; f_link f; f_magic f; f_uname f; f_gname f; f_devmaj f; f_devmin f; f_ext f]).
  { unfold block_of, with_checksum. fold (pre_of f). fold (post_of f). unfold pre_of at 1. unfold post_of at 2.
    rewrite <- !app_assoc.
    rewrite chop_cons by assumption. rewrite chop_cons by assumption. rewrite chop_cons by assumption.
    rewrite chop_cons by assumption. rewrite chop_cons by assumption. rewrite chop_cons by assumption.
    rewrite (app_assoc (fixed_digits 8 6 _) [NUL; " "%char]).
    rewrite chop_cons by (rewrite app_length, fixed_digits_length; reflexivity).
    change (f_type f :: f_link f ++ f_magic f ++ f_uname f ++ f_gname f ++ f_devmaj f ++ f_devmin f ++ f_ext f)
      with ([f_type f] ++ f_link f ++ f_magic f ++ f_uname f ++ f_gname f ++ f_devmaj f ++ f_devmin f ++ f_ext f).
    rewrite chop_cons by reflexivity. rewrite chop_cons by assumption.
    rewrite chop_cons by (rewrite L_magic0; reflexivity).
    rewrite chop_cons by assumption. rewrite chop_cons by assumption. rewrite chop_cons by assumption.
    rewrite chop_cons by assumption. reflexivity. }
  rewrite C. cbv beta iota.
  assert (S : (bsum (pre_of f) + 256 + bsum (post_of f) < 8 ^ 6)%N).
  { pose proof (bsum_bound (pre_of f)). pose proof (bsum_bound (post_of f)). rewrite LP in *. rewrite LQ in *.
    change (8 ^ 6)%N with 262144%N. lia. }
  rewrite parse_octal_chk by assumption.
  rewrite Z.eqb_refl. cbn [orb negb].
  rewrite L_magic0. change (beqb (firstn 6 magic_ustar) (firstn 6 magic_ustar)) with true.
  rewrite L_trailer0. cbn [andb].
  unfold parsed_fields. reflexivity.
Qed.

(* a header block is never the end-of-archive marker *)
Lemma block_not_zero : forall f, fields_ok f -> all_zero (block_of f) = false.
Proof.
  intros f F. destruct F. unfold all_zero.
  destruct (forallb (Ascii.eqb NUL) (block_of f)) eqn:E; [|reflexivity].
  rewrite forallb_forall in E.
  assert (I : In "u"%char (block_of f)).
  { unfold block_of, with_checksum. apply in_or_app. right. apply in_or_app. right. right.
    apply in_or_app. right. apply in_or_app. left. rewrite L_magic0. left. reflexivity. }
  apply E in I. discriminate.
Qed.
