(* C06 — byte-level tar codec: the envelope in Prop form and what
   Header.allowedFormats answers inside it. *)
From Apko Require Import Base.Prelude Model.TarBytes Spec.TarBytesSpec Proofs.TarBytesNum Proofs.TarBytesPax.
From Coq Require Import Lia Btauto.
Open Scope list_scope.

Ltac kneq := let E := fresh "E" in intro E; vm_compute in E; discriminate E.

Definition std_type (t : ascii) : Prop := In t [T_REG; T_LINK; T_SYM; T_CHR; T_BLK; T_DIR; T_FIFO].

Definition key_ok (k : bytes) : Prop :=
  k <> [] /\ existsb (Ascii.eqb "="%char) k = false /\ has_nul k = false /\ basic_key k = false /\
  has_prefix pax_gnu_sparse k = false.

Record hdr_ok (h : thdr) : Prop := {
  ok_type : std_type (h_type h);
  ok_slash : (existsb (Ascii.eqb (h_type h)) [T_REG; T_CHR; T_BLK; T_FIFO] && ends_with_slash (h_name h))%bool = false;
  ok_name : has_nul (h_name h) = false; ok_link : has_nul (h_link h) = false;
  ok_uname : has_nul (h_uname h) = false; ok_gname : has_nul (h_gname h) = false;
  ok_mode : fits_octal 8 (h_mode h) = true; ok_devmaj : fits_octal 8 (h_devmaj h) = true;
  ok_devmin : fits_octal 8 (h_devmin h) = true;
  ok_uid : (- 9223372036854775808 <= h_uid h < 9223372036854775808)%Z;
  ok_gid : (- 9223372036854775808 <= h_gid h < 9223372036854775808)%Z;
  ok_size : (0 <= h_size h < 9223372036854775808)%Z;
  ok_mtime : (- 9223372036854775808 <= h_mtime h < 9223372036854775808)%Z;
  ok_mtime_nz : h_mtime h <> zero_time_sec;
  ok_nsec : h_mnsec h = 0%N;
  ok_pax_wf : pm_wf (h_pax h);
  ok_pax_keys : Forall (fun kv => key_ok (fst kv)) (h_pax h);
  ok_pax_len : too_long_special (List.length (pax_data (pax_written h))) = false
}.

Lemma int64b_spec : forall z, int64b z = true -> (- 9223372036854775808 <= z < 9223372036854775808)%Z.
Proof. intros z H. unfold int64b in H. apply andb_true_iff in H. destruct H as [A B]. apply Z.leb_le in A. apply Z.ltb_lt in B. lia. Qed.

Lemma keys_sorted_head : forall r k v, keys_sortedb ((k, v) :: r) = true -> forall kv, In kv r -> bcmp k (fst kv) = Lt.
Proof.
  induction r as [|[k' v'] r IH]; intros k v H kv I; [destruct I|].
  cbn [keys_sortedb] in H. apply andb_true_iff in H. destruct H as [H1 H2].
  assert (L : bcmp k k' = Lt) by (destruct (bcmp k k'); congruence).
  destruct I as [<-|I]; [exact L|]. eapply bcmp_lt_trans; [exact L | apply (IH k' v' H2 kv I)].
Qed.

Lemma keys_sorted_wf : forall m, keys_sortedb m = true -> pm_wf m.
Proof.
  induction m as [|[k v] r IH]; intro H; [exact I|]. split.
  - eapply keys_sorted_head. eassumption.
  - apply IH. destruct r as [|[k' v'] r']; [reflexivity|]. cbn [keys_sortedb] in H. apply andb_true_iff in H. apply H.
Qed.

Lemma key_okb_ok : forall k, key_okb k = true -> key_ok k.
Proof.
  intros k H. unfold key_okb in H. repeat (apply andb_true_iff in H; destruct H as [H ?]).
  repeat match goal with X : negb _ = true |- _ => apply negb_true_iff in X end.
  unfold key_ok. repeat split; try assumption. intro E; subst; discriminate.
Qed.

Lemma hdr_okb_ok : forall h, hdr_okb h = true -> hdr_ok h.
Proof.
  intros h H. unfold hdr_okb in H. repeat (apply andb_true_iff in H; destruct H as [H ?]).
  repeat match goal with X : negb _ = true |- _ => apply negb_true_iff in X end.
  constructor; try assumption; try (apply int64b_spec; assumption).
  - unfold std_type. cbn [existsb] in H. cbn [In].
    repeat (apply orb_true_iff in H; destruct H as [H|H]); try discriminate;
      apply Ascii.eqb_eq in H; rewrite H; tauto.
  - match goal with X : (0 <=? h_size h)%Z = true |- _ => apply Z.leb_le in X end.
    match goal with X : int64b (h_size h) = true |- _ => apply int64b_spec in X end. lia.
  - match goal with X : (h_mtime h =? zero_time_sec)%Z = false |- _ => apply Z.eqb_neq in X; exact X end.
  - match goal with X : (h_mnsec h =? 0)%N = true |- _ => apply N.eqb_eq in X; exact X end.
  - apply keys_sorted_wf. assumption.
  - apply Forall_forall. intros kv I. apply key_okb_ok.
    match goal with X : forallb _ (h_pax h) = true |- _ => rewrite forallb_forall in X; apply X; assumption end.
Qed.

(* ---- type facts -------------------------------------------------------------------------- *)
Lemma std_type_facts : forall t, std_type t ->
  existsb (Ascii.eqb t) [T_XHDR; T_LONGNAME; T_LONGLINK] = false /\ Ascii.eqb t T_XGLOBAL = false /\
  Ascii.eqb t NUL = false /\ Ascii.eqb t T_SPARSE = false /\ Ascii.eqb t T_XHDR = false /\
  Ascii.eqb t T_LONGNAME = false /\ Ascii.eqb t T_LONGLINK = false /\
  existsb (Ascii.eqb t) [T_REG; T_CHR; T_BLK; T_FIFO; T_SPARSE] = existsb (Ascii.eqb t) [T_REG; T_CHR; T_BLK; T_FIFO].
Proof.
  intros t H. unfold std_type in H. cbn [In] in H.
  repeat (destruct H as [H|H]; [subst t; vm_compute; repeat split; reflexivity|]). destruct H.
Qed.

(* ---- keys ------------------------------------------------------------------------------------ *)
Lemma basic_key_cases : forall k, basic_key k = true ->
  In k [k_path; k_linkpath; k_size; k_uid; k_gid; k_uname; k_gname; k_mtime; k_atime; k_ctime].
Proof.
  intros k H. unfold basic_key in H. apply existsb_exists in H. destruct H as (x & I & E).
  apply beqb_eq in E. subst. assumption.
Qed.

Lemma pax_basic_keys : forall h kv, In kv (pax_basic h) -> basic_key (fst kv) = true.
Proof.
  intros h kv H. unfold pax_basic in H.
  repeat (apply cset_in in H; destruct H as [[_ ->]|H]; [reflexivity|]). destruct H.
Qed.

Lemma pax_basic_wf : forall h, pm_wf (pax_basic h).
Proof. intros h. unfold pax_basic. repeat apply cset_wf. exact I. Qed.

Lemma fold_set_wf : forall l m, pm_wf m -> pm_wf (fold_left (fun m kv => pm_set (fst kv) (snd kv) m) l m).
Proof. induction l as [|[k v] l IH]; intros m W; simpl; [assumption|]. apply IH. apply pm_set_wf. assumption. Qed.

Lemma pax_all_wf : forall h, pm_wf (pax_all h).
Proof. intros. unfold pax_all. apply fold_set_wf. apply pax_basic_wf. Qed.

Lemma fold_set_in : forall l m kv, In kv (fold_left (fun m kv => pm_set (fst kv) (snd kv) m) l m) -> In kv l \/ In kv m.
Proof.
  induction l as [|[k v] l IH]; intros m kv H; simpl in *; [right; assumption|].
  apply IH in H. destruct H as [H|H]; [left; right; assumption|].
  apply pm_set_in in H. destruct H as [->|H]; [left; left; reflexivity | right; assumption].
Qed.

Lemma pax_all_in : forall h kv, In kv (pax_all h) -> In kv (h_pax h) \/ In kv (pax_basic h).
Proof. intros h kv H. apply fold_set_in. exact H. Qed.

Lemma fold_set_get_other : forall l m k, (forall kv, In kv l -> fst kv <> k) ->
  pm_get k (fold_left (fun m kv => pm_set (fst kv) (snd kv) m) l m) = pm_get k m.
Proof.
  induction l as [|[k' v'] l IH]; intros m k H; simpl; [reflexivity|].
  rewrite IH by (intros kv I; apply H; right; assumption).
  apply pm_get_set_other. apply (H (k', v')). left. reflexivity.
Qed.

Lemma key_ok_not_basic : forall k k', key_ok k -> basic_key k' = true -> k <> k'.
Proof. intros k k' (_ & _ & _ & B & _) H E. subst. congruence. Qed.

Lemma pax_all_get_basic : forall h k, hdr_ok h -> basic_key k = true -> pm_get k (pax_all h) = pm_get k (pax_basic h).
Proof.
  intros h k O B. unfold pax_all. apply fold_set_get_other. intros kv I.
  pose proof (ok_pax_keys h O) as F. rewrite Forall_forall in F. apply (key_ok_not_basic _ _ (F _ I) B).
Qed.

Lemma pm_wf_head_neq : forall k v r kv, pm_wf ((k, v) :: r) -> In kv r -> k <> fst kv.
Proof. intros k v r kv [W _] I E. specialize (W _ I). rewrite E, bcmp_refl in W. discriminate. Qed.

(* the records of the caller are added as they are *)
Lemma add_user_fold : forall user pax, pm_wf user -> Forall (fun kv => key_ok (fst kv)) user ->
  (forall kv, In kv user -> pm_get (fst kv) pax = None) ->
  fold_left (add_user_record false) user pax = fold_left (fun m kv => pm_set (fst kv) (snd kv) m) user pax.
Proof.
  induction user as [|[k v] r IH]; intros pax W F N; [reflexivity|].
  inversion F as [|? ? K F']; subst. cbn [fold_left]. cbn [fst snd] in *.
  assert (A : add_user_record false pax (k, v) = pm_set k v pax).
  { unfold add_user_record. pose proof (N (k, v) ltac:(left; reflexivity)) as N0. cbn [fst] in N0. rewrite N0.
    destruct K as (_ & _ & _ & B & S). rewrite B, S. reflexivity. }
  rewrite A. apply IH; [apply W | assumption|].
  intros kv I. rewrite pm_get_set_other; [apply N; right; assumption|].
  eapply pm_wf_head_neq; eassumption.
Qed.

Lemma user_get_basic : forall h k, hdr_ok h -> (basic_key k = true \/ k = []) -> pm_get k (h_pax h) = None.
Proof.
  intros h k O B. apply pm_get_none. intros kv I E.
  pose proof (ok_pax_keys h O) as F. rewrite Forall_forall in F. specialize (F _ I).
  destruct B as [B|B].
  - apply (key_ok_not_basic _ _ F B). assumption.
  - destruct F as (NE & _). apply NE. congruence.
Qed.

(* ---- the records are valid ---------------------------------------------------------------------- *)
Lemma valid_user : forall k v, key_ok k -> valid_pax_record k v = true /\ has_prefix pax_gnu_sparse k = false.
Proof.
  intros k v (NE & EQ & NU & B & S). split; [|assumption]. unfold valid_pax_record.
  destruct k as [|c k]; [contradiction|]. cbn [is_nil orb]. rewrite EQ.
  assert (X : existsb (beqb (c :: k)) [k_path; k_linkpath; k_uname; k_gname] = false).
  { destruct (existsb (beqb (c :: k)) [k_path; k_linkpath; k_uname; k_gname]) eqn:E; [|reflexivity].
    apply existsb_exists in E. destruct E as (x & I & E). apply beqb_eq in E. subst x.
    assert (basic_key (c :: k) = true); [|congruence].
    cbn [In] in I. repeat (destruct I as [I|I]; [rewrite <- I; reflexivity|]). destruct I. }
  rewrite X, NU. reflexivity.
Qed.

Lemma valid_basic_str : forall k v, In k [k_path; k_linkpath; k_uname; k_gname] -> has_nul v = false ->
  valid_pax_record k v = true /\ has_prefix pax_gnu_sparse k = false.
Proof.
  intros k v I H. cbn [In] in I.
  repeat (destruct I as [<-|I]; [split; [unfold valid_pax_record; cbv -[has_nul]; rewrite H; reflexivity | reflexivity]|]).
  destruct I.
Qed.
Lemma valid_basic_num : forall k z, In k [k_size; k_uid; k_gid; k_mtime] ->
  valid_pax_record k (dec_Z z) = true /\ has_prefix pax_gnu_sparse k = false.
Proof.
  intros k z I. cbn [In] in I.
  repeat (destruct I as [<-|I]; [split; reflexivity|]). destruct I.
Qed.

Lemma pax_all_rec_ok : forall h, hdr_ok h -> Forall rec_ok (pax_all h).
Proof.
  intros h O. apply Forall_forall. intros [k v] I. apply pax_all_in in I. destruct I as [I|I].
  - pose proof (ok_pax_keys h O) as F. rewrite Forall_forall in F. apply (valid_user k v (F _ I)).
  - unfold pax_basic in I. unfold rec_ok. cbn [fst snd].
    repeat (apply cset_in in I; destruct I as [[_ I]|I];
            [inversion I; subst; first [apply valid_basic_num; cbn [In]; tauto
                                       | apply valid_basic_str; [cbn [In]; tauto | apply O]]|]).
    destruct I.
Qed.

(* ---- allowedFormats inside the envelope ------------------------------------------------------------ *)
Lemma round_sec_0 : forall s, round_sec s 0 = s.
Proof. reflexivity. Qed.

Lemma vstr_proj : forall user s size key st, pm_get key user = None ->
  af_pax (vstr user s size key st) = cset (needs_pax_str size s) key s (af_pax st) /\
  af_p (vstr user s size key st) = af_p st /\
  af_u (vstr user s size key st) =
    (af_u st && negb (needs_pax_str size s && negb (beqb key k_path && match split_ustar s with Some _ => true | None => false end)))%bool.
Proof. intros. unfold vstr, user_match. rewrite H. repeat split. Qed.

Lemma vnum_proj_key : forall user n size key st, pm_get key user = None -> key <> [] ->
  af_pax (vnum user n size key st) = cset (needs_pax_num size n) key (dec_Z n) (af_pax st) /\
  af_p (vnum user n size key st) = af_p st /\
  af_u (vnum user n size key st) = (af_u st && fits_octal size n)%bool.
Proof.
  intros user n size key st H K. unfold vnum, user_match, needs_pax_num. rewrite H.
  destruct key; [contradiction|]. cbn [is_nil negb af_pax af_p af_u]. rewrite !orb_false_r, orb_true_r, andb_true_r.
  destruct (fits_octal size n); repeat split.
Qed.

Lemma vnum_proj_none : forall user n size st, pm_get [] user = None -> fits_octal size n = true ->
  af_pax (vnum user n size [] st) = af_pax st /\ af_p (vnum user n size [] st) = af_p st /\
  af_u (vnum user n size [] st) = af_u st.
Proof.
  intros user n size st H F. unfold vnum, user_match. rewrite H, F.
  cbn [is_nil negb af_pax af_p af_u orb]. rewrite !andb_true_r. repeat split.
Qed.

Lemma vmtime_proj : forall user sec st, pm_get k_mtime user = None -> sec <> zero_time_sec ->
  af_pax (vmtime user sec 0 st) = cset (needs_pax_num 12 sec) k_mtime (dec_Z sec) (af_pax st) /\
  af_p (vmtime user sec 0 st) = af_p st /\
  af_u (vmtime user sec 0 st) = (af_u st && fits_octal 12 sec)%bool.
Proof.
  intros user sec st H Z. unfold vmtime, user_match, needs_pax_num.
  assert (Z0 : is_zero_time sec 0 = false).
  { unfold is_zero_time. replace (sec =? zero_time_sec)%Z with false; [reflexivity|]. symmetry. apply Z.eqb_neq. assumption. }
  rewrite Z0, H. change (fmt_pax_time sec 0) with (dec_Z sec). change (0 =? 0)%N with true.
  cbn [negb af_pax af_p af_u]. rewrite orb_false_r. repeat split.
Qed.

Lemma af_chain_ok : forall h, hdr_ok h ->
  af_pax (af_chain (h_pax h) h) = pax_basic h /\ af_p (af_chain (h_pax h) h) = true /\
  af_u (af_chain (h_pax h) h) =
    ((negb (needs_pax_str 100 (h_name h)) || match split_ustar (h_name h) with Some _ => true | None => false end)
     && negb (needs_pax_str 100 (h_link h)) && negb (needs_pax_str 32 (h_uname h)) && negb (needs_pax_str 32 (h_gname h))
     && negb (needs_pax_num 8 (h_uid h)) && negb (needs_pax_num 8 (h_gid h)) && negb (needs_pax_num 12 (h_size h))
     && negb (needs_pax_num 12 (h_mtime h)))%bool.
Proof.
  intros h O. unfold af_chain. rewrite (ok_nsec h O).
  assert (G : forall k, (basic_key k = true \/ k = []) -> pm_get k (h_pax h) = None) by (intros; apply user_get_basic; assumption).
  destruct (vmtime_proj (h_pax h) (h_mtime h)
    (vnum (h_pax h) (h_devmin h) 8 [] (vnum (h_pax h) (h_devmaj h) 8 [] (vnum (h_pax h) (h_size h) 12 k_size
    (vnum (h_pax h) (h_gid h) 8 k_gid (vnum (h_pax h) (h_uid h) 8 k_uid (vnum (h_pax h) (h_mode h) 8 []
    (vstr (h_pax h) (h_gname h) 32 k_gname (vstr (h_pax h) (h_uname h) 32 k_uname (vstr (h_pax h) (h_link h) 100 k_linkpath
    (vstr (h_pax h) (h_name h) 100 k_path {| af_u := true; af_p := true; af_g := true; af_pref := false; af_pax := [] |}))))))))))
    (G k_mtime ltac:(left; reflexivity)) (ok_mtime_nz h O)) as (-> & -> & ->).
  repeat match goal with
  | |- context [vnum ?u ?n ?sz [] ?st] =>
      destruct (vnum_proj_none u n sz st (G [] ltac:(right; reflexivity)) ltac:(apply O)) as (-> & -> & ->)
  | |- context [vnum ?u ?n ?sz ?k ?st] =>
      destruct (vnum_proj_key u n sz k st (G k ltac:(left; reflexivity)) ltac:(kneq)) as (-> & -> & ->)
  | |- context [vstr ?u ?s ?sz ?k ?st] =>
      destruct (vstr_proj u s sz k st (G k ltac:(left; reflexivity))) as (-> & -> & ->)
  end.
  cbn [af_pax af_p af_u].
  change (beqb k_linkpath k_path) with false. change (beqb k_uname k_path) with false.
  change (beqb k_gname k_path) with false. change (beqb k_path k_path) with true.
  split; [reflexivity|]. split; [reflexivity|].
  unfold needs_pax_num. cbn [andb negb]. rewrite ?andb_false_r. cbn [negb]. rewrite ?andb_true_r.
  generalize (match split_ustar (h_name h) with Some _ => true | None => false end).
  intro b. btauto.
Qed.

Lemma allowed_formats_ok : forall h, hdr_ok h ->
  exists g pr, allowed_formats 0 h =
    Ok {| af_u := ustar_okb h; af_p := true; af_g := g; af_pref := pr; af_pax := pax_all h |}.
Proof.
  intros h O. unfold allowed_formats.
  rewrite (pm_of_list_wf _ (ok_pax_wf h O)).
  destruct (std_type_facts _ (ok_type h O)) as (T1 & T2 & T3 & T4 & _ & _ & _ & T5).
  destruct (af_chain_ok h O) as (CP & CQ & CU).
  cbv zeta. rewrite CP, CQ, CU.
  rewrite T5, (ok_slash h O), T1, T2. cbn [andb orb].
  replace (h_size h <? 0)%Z with false by (symmetry; apply Z.ltb_ge; apply (ok_size h O)).
  rewrite andb_false_r.
  rewrite add_user_fold; [| apply (ok_pax_wf h O) | apply (ok_pax_keys h O) |].
  2:{ intros kv I. apply pm_get_none. intros kv' I' E.
      pose proof (ok_pax_keys h O) as F. rewrite Forall_forall in F.
      apply (key_ok_not_basic _ _ (F _ I) (pax_basic_keys h _ I')). congruence. }
  fold (pax_all h).
  assert (V : forallb (fun kv => valid_pax_record (fst kv) (snd kv)) (pax_all h) = true).
  { apply forallb_forall. intros kv I. pose proof (pax_all_rec_ok h O) as F. rewrite Forall_forall in F. apply F. assumption. }
  rewrite V. cbn [negb]. change (0 =? 0)%N with true. cbv iota. rewrite ?orb_true_r. cbn [orb].
  eexists. eexists. f_equal. f_equal.
  unfold ustar_okb. rewrite negb_involutive.
  destruct (is_nil (h_pax h)); cbn [andb]; rewrite ?andb_true_r, ?andb_false_r; reflexivity.
Qed.
