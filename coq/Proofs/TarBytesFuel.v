(* C06 — byte-level tar codec: the reader's fuel is never exhausted, on any
   byte string (the archive loop and the PAX record loop). *)
From Apko Require Import Base.Prelude Model.TarBytes.
From Coq Require Import Lia.
Open Scope list_scope.

Lemma take_data_len : forall n l d r, take_data n l = Some (d, r) -> (List.length r <= List.length l)%nat.
Proof.
  intros n l d r H. unfold take_data in H. destruct (List.length l <? n)%nat; [discriminate|].
  inversion H; subst. rewrite skipn_length. lia.
Qed.

Ltac break_match :=
  match goal with
  | H : context [match ?x with _ => _ end] |- _ => let E := fresh "E" in destruct x eqn:E
  end.

(* every step that goes on has consumed at least one byte (in fact a block) *)
Lemma read_step_shrinks : forall bs st,
  match read_step bs st with
  | RMeta _ rest | RMember _ rest => (List.length rest < List.length bs)%nat
  | _ => True
  end.
Proof.
  intros bs st. destruct (read_step bs st) eqn:R; try exact I;
  unfold read_step in R;
  (destruct bs as [|b0 bs0]; [discriminate|]);
  set (bs := b0 :: bs0) in *;
  (destruct (List.length bs <? 512)%nat eqn:L; [discriminate|]); apply Nat.ltb_ge in L;
  assert (S512 : (List.length (skipn 512 bs) + 512 <= List.length bs)%nat) by (rewrite skipn_length; lia);
  repeat break_match; try discriminate;
  inversion R; subst;
  match goal with H : take_data _ _ = Some _ |- _ => apply take_data_len in H; lia end.
Qed.

Lemma read_members_fuel : forall fuel bs st, (List.length bs < fuel)%nat -> read_members fuel bs st <> OutOfFuel.
Proof.
  induction fuel as [|fuel IH]; intros bs st H; [lia|].
  cbn [read_members]. pose proof (read_step_shrinks bs st) as S.
  destruct (read_step bs st); try discriminate.
  - apply IH. lia.
  - specialize (IH rest rstate0 ltac:(lia)). destruct (read_members fuel rest rstate0); try discriminate. congruence.
Qed.

Theorem read_archive_fuel : forall bs, read_archive bs <> OutOfFuel.
Proof. intros. unfold read_archive. apply read_members_fuel. lia. Qed.

(* the records of an extended header *)
Lemma cut_len : forall sep l a b, cut sep l = Some (a, b) -> (List.length b < List.length l)%nat.
Proof.
  induction l as [|c l IH]; intros a b H; cbn [cut] in H; [discriminate|].
  destruct (Ascii.eqb c sep).
  - inversion H; subst. simpl. lia.
  - destruct (cut sep l) as [[a' b']|] eqn:E; [|discriminate]. inversion H; subst.
    specialize (IH _ _ eq_refl). simpl. lia.
Qed.

Lemma parse_pax_record_shrinks : forall s k v r, parse_pax_record s = Ok (k, v, r) -> (List.length r < List.length s)%nat.
Proof.
  intros s k v r H. unfold parse_pax_record in H.
  destruct (cut " "%char s) as [[nstr rest]|] eqn:C; [|discriminate].
  apply cut_len in C.
  repeat break_match; try discriminate. inversion H; subst. rewrite skipn_length. lia.
Qed.

Lemma parse_pax_fuel : forall fuel s m, (List.length s < fuel)%nat -> parse_pax fuel s m <> OutOfFuel.
Proof.
  induction fuel as [|fuel IH]; intros s m H; [lia|].
  cbn [parse_pax]. destruct s as [|c s']; [discriminate|].
  destruct (parse_pax_record (c :: s')) as [[[k v] r]| | |] eqn:P; cbn [rbind]; try discriminate.
  - apply parse_pax_record_shrinks in P.
    destruct (beqb k (lit "GNU.sparse.offset") || beqb k (lit "GNU.sparse.numbytes"))%bool; [discriminate|].
    apply IH. lia.
  - exfalso. unfold parse_pax_record in P. repeat break_match; discriminate.
Qed.
