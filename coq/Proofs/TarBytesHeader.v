(* C06 — byte-level tar codec: one member.  What WriteHeader writes for a
   header of the envelope and what the reader's step makes of it. *)
From Apko Require Import Base.Prelude Model.TarBytes Spec.TarBytesSpec
  Proofs.TarBytesNum Proofs.TarBytesPax Proofs.TarBytesBlock Proofs.TarBytesEnv.
From Coq Require Import Lia.
Open Scope list_scope.

(* ---- small facts ------------------------------------------------------------------------- *)
Lemma is_ascii_no_nul : forall s, is_ascii s = true -> has_nul s = false.
Proof.
  induction s as [|c s IH]; intro H; [reflexivity|].
  cbn [is_ascii forallb] in H. apply andb_true_iff in H. destruct H as [H1 H2].
  rewrite has_nul_cons, (IH H2), orb_false_r. apply aeqb_neq. intro E. subst c. discriminate.
Qed.
Lemma to_ascii_id : forall s, is_ascii s = true -> to_ascii s = s.
Proof.
  induction s as [|c s IH]; intro H; [reflexivity|].
  cbn [is_ascii forallb] in H. apply andb_true_iff in H. destruct H as [H1 H2].
  cbn [to_ascii filter]. rewrite H1. f_equal. apply IH. exact H2.
Qed.
Lemma is_ascii_app : forall a b, is_ascii (a ++ b) = (is_ascii a && is_ascii b)%bool.
Proof. intros. unfold is_ascii. apply forallb_app. Qed.

Lemma needs_str_false : forall w s, needs_pax_str w s = false -> is_ascii s = true /\ (List.length s <= w)%nat.
Proof.
  intros w s H. unfold needs_pax_str in H. apply orb_false_iff in H. destruct H as [A B].
  apply negb_false_iff in A. apply Nat.ltb_ge in B. auto.
Qed.
Lemma needs_str_true_nonnil : forall w s, needs_pax_str w s = true -> s <> [].
Proof. intros w s H E. subst s. discriminate. Qed.

Lemma thdr_eta : forall h, h = {| h_type := h_type h; h_name := h_name h; h_link := h_link h; h_mode := h_mode h; h_uid := h_uid h;
  h_gid := h_gid h; h_size := h_size h; h_mtime := h_mtime h; h_mnsec := h_mnsec h; h_uname := h_uname h; h_gname := h_gname h;
  h_devmaj := h_devmaj h; h_devmin := h_devmin h; h_pax := h_pax h |}.
Proof. destruct h; reflexivity. Qed.

(* strings.LastIndex *)
Lemma last_index_aux_spec : forall c l off acc i, last_index_aux c l off acc = Some i ->
  acc = Some i \/ ((off <= i)%nat /\ (i < off + List.length l)%nat /\ nth (i - off) l NUL = c).
Proof.
  induction l as [|x l IH]; intros off acc i H; cbn [last_index_aux] in H; [left; assumption|].
  apply IH in H. destruct H as [H|(H1 & H2 & H3)].
  - destruct (Ascii.eqb x c) eqn:E; [|left; assumption].
    inversion H; subst. right. apply Ascii.eqb_eq in E. rewrite Nat.sub_diag. cbn [List.length nth]. repeat split; try lia. assumption.
  - right. cbn [List.length]. repeat split; try lia.
    replace (i - off)%nat with (S (i - S off)) by lia. exact H3.
Qed.
Lemma last_index_spec : forall c l i, last_index c l = Some i -> (i < List.length l)%nat /\ nth i l NUL = c.
Proof.
  intros c l i H. apply last_index_aux_spec in H. destruct H as [H|(H1 & H2 & H3)]; [discriminate|].
  rewrite Nat.sub_0_r in H3. split; [lia | assumption].
Qed.

Lemma nth_firstn : forall {A} (l : list A) n i d, (i < n)%nat -> nth i (firstn n l) d = nth i l d.
Proof.
  intros A l. induction l as [|x l IH]; intros n i d H; [rewrite firstn_nil; reflexivity|].
  destruct n; [lia|]. destruct i; [reflexivity|]. cbn [firstn nth]. apply IH. lia.
Qed.
Lemma split_at_nth : forall {A} (l : list A) i d, (i < List.length l)%nat -> l = firstn i l ++ nth i l d :: skipn (S i) l.
Proof.
  intros A l. induction l as [|x l IH]; intros i d H; [simpl in H; lia|].
  destruct i; [reflexivity|]. cbn [firstn nth skipn app]. f_equal. apply IH. simpl in H. lia.
Qed.

Lemma split_ustar_spec : forall name p s, split_ustar name = Some (p, s) ->
  name = p ++ "/"%char :: s /\ p <> [] /\ (List.length p <= 155)%nat /\ (List.length s <= 100)%nat /\ is_ascii name = true.
Proof.
  intros name p s H. unfold split_ustar in H.
  destruct ((List.length name <=? 100)%nat || negb (is_ascii name))%bool eqn:E1; [discriminate|].
  apply orb_false_iff in E1. destruct E1 as [E1 E2]. apply negb_false_iff in E2. apply Nat.leb_gt in E1.
  set (len := if (156 <? List.length name)%nat then 156%nat
              else if is_slash (nth (List.length name - 1) name NUL) then (List.length name - 1)%nat else List.length name) in *.
  assert (Hlen : (len <= List.length name)%nat).
  { unfold len. destruct (156 <? List.length name)%nat eqn:E; [apply Nat.ltb_lt in E; lia|].
    destruct (is_slash _); lia. }
  destruct (last_index "/"%char (firstn len name)) as [i|] eqn:E3; [|discriminate].
  destruct ((i =? 0)%nat || (100 <? List.length name - i - 1)%nat || (List.length name - i - 1 =? 0)%nat || (155 <? i)%nat)%bool eqn:E4; [discriminate|].
  inversion H; subst p s. clear H.
  repeat (apply orb_false_iff in E4; destruct E4 as [E4 ?]).
  apply Nat.eqb_neq in E4. apply Nat.ltb_ge in H1. apply Nat.ltb_ge in H.
  apply last_index_spec in E3. destruct E3 as [L1 L2]. rewrite firstn_length in L1.
  rewrite nth_firstn in L2 by lia.
  assert (Li : (i < List.length name)%nat) by lia.
  split; [|split; [|split; [|split]]].
  - rewrite <- L2. apply split_at_nth. assumption.
  - intro E. apply (f_equal (@List.length ascii)) in E. rewrite firstn_length in E. simpl in E. lia.
  - rewrite firstn_length. lia.
  - change (List.length (skipn (S i) name) <= 100)%nat. rewrite skipn_length. lia.
  - assumption.
Qed.

(* ---- the fields the writer fills -------------------------------------------------------------- *)
Definition tfields (h : thdr) (name : bytes) (fs : nat -> bytes -> bytes * bool) (fn : nat -> Z -> bytes * bool)
    (magic ext : bytes) : fields :=
  {| f_name := fst (fs 100%nat name); f_mode := fst (fn 8%nat (h_mode h)); f_uid := fst (fn 8%nat (h_uid h));
     f_gid := fst (fn 8%nat (h_gid h)); f_size := fst (fn 12%nat (h_size h));
     f_mtime := fst (fn 12%nat (if is_zero_time (h_mtime h) (h_mnsec h) then 0%Z else h_mtime h));
     f_type := h_type h; f_link := fst (fs 100%nat (h_link h)); f_magic := magic;
     f_uname := fst (fs 32%nat (h_uname h)); f_gname := fst (fs 32%nat (h_gname h));
     f_devmaj := fst (fn 8%nat (h_devmaj h)); f_devmin := fst (fn 8%nat (h_devmin h)); f_ext := ext |}.

Lemma template_fst : forall h name fs fn magic ext,
  fst (template h name fs fn magic ext) = block_of (tfields h name fs fn magic ext).
Proof.
  intros. unfold template, tfields.
  destruct (fs 100%nat name), (fs 100%nat (h_link h)), (fn 8%nat (h_mode h)), (fn 8%nat (h_uid h)), (fn 8%nat (h_gid h)),
    (fn 12%nat (h_size h)), (fn 12%nat (if is_zero_time (h_mtime h) (h_mnsec h) then 0%Z else h_mtime h)),
    (fs 32%nat (h_uname h)), (fs 32%nat (h_gname h)), (fn 8%nat (h_devmaj h)), (fn 8%nat (h_devmin h)). reflexivity.
Qed.
Lemma template_snd : forall h name fs fn magic ext,
  snd (template h name fs fn magic ext) =
  (snd (fs 100%nat name) && snd (fs 100%nat (h_link h)) && snd (fn 8%nat (h_mode h)) && snd (fn 8%nat (h_uid h)) &&
   snd (fn 8%nat (h_gid h)) && snd (fn 12%nat (h_size h)) &&
   snd (fn 12%nat (if is_zero_time (h_mtime h) (h_mnsec h) then 0%Z else h_mtime h)) &&
   snd (fs 32%nat (h_uname h)) && snd (fs 32%nat (h_gname h)) && snd (fn 8%nat (h_devmaj h)) && snd (fn 8%nat (h_devmin h)))%bool.
Proof.
  intros. unfold template.
  destruct (fs 100%nat name), (fs 100%nat (h_link h)), (fn 8%nat (h_mode h)), (fn 8%nat (h_uid h)), (fn 8%nat (h_gid h)),
    (fn 12%nat (h_size h)), (fn 12%nat (if is_zero_time (h_mtime h) (h_mnsec h) then 0%Z else h_mtime h)),
    (fs 32%nat (h_uname h)), (fs 32%nat (h_gname h)), (fn 8%nat (h_devmaj h)), (fn 8%nat (h_devmin h)). reflexivity.
Qed.

Lemma skipn_zeros : forall n m, skipn n (zeros m) = zeros (m - n).
Proof.
  unfold zeros. induction n as [|n IH]; intros m; [rewrite Nat.sub_0_r; reflexivity|].
  destruct m; [reflexivity|]. cbn [repeat skipn]. apply IH.
Qed.

Lemma tfields_ok : forall h name fs fn ext,
  (forall w s, List.length (fst (fs w s)) = w) -> (forall w x, List.length (fst (fn w x)) = w) ->
  List.length ext = 167%nat -> beqb (skipn 163 ext) (lit "tar" ++ [NUL]) = false ->
  fields_ok (tfields h name fs fn magic_ustar ext).
Proof. intros h name fs fn ext Hs Hn He Ht. constructor; cbn [tfields f_name f_mode f_uid f_gid f_size f_mtime f_link f_magic f_uname f_gname f_devmaj f_devmin f_ext]; auto. Qed.

Lemma fs_plain_length : forall w s, List.length (fst (fs_plain w s)) = w.
Proof. intros. apply fstr_length. Qed.
Lemma fs_ascii_length : forall w s, List.length (fst (fs_ascii w s)) = w.
Proof. intros. apply fstr_length. Qed.

(* numeric fields as the reader sees them *)
Lemma parse_fmt_octal_any : forall w x, (2 <= w)%nat -> (w <= 21)%nat ->
  parse_numeric (fst (fmt_octal w x)) = Ok (if fits_octal w x then x else 0%Z).
Proof.
  intros w x W1 W2. destruct (fits_octal w x) eqn:F.
  - apply parse_numeric_fmt_octal; assumption.
  - assert (F0 : fits_octal w 0 = true).
    { unfold fits_octal. cbn [Z.leb andb]. apply orb_true_iff. right. apply Z.ltb_lt. apply Z.pow_pos_nonneg; lia. }
    replace (fst (fmt_octal w x)) with (fst (fmt_octal w 0)).
    + apply parse_numeric_fmt_octal; assumption.
    + unfold fmt_octal. rewrite F, F0. reflexivity.
Qed.

(* ---- reading a member -------------------------------------------------------------------------- *)
Lemma pad_len_lt : forall n, (pad_len n < 512)%nat.
Proof. intros. unfold pad_len. apply Nat.mod_upper_bound. lia. Qed.

Lemma take_data_exact : forall body tail,
  take_data (List.length body) (body ++ zeros (pad_len (List.length body)) ++ tail) = Some (body, tail).
Proof.
  intros. unfold take_data.
  replace (List.length (body ++ zeros (pad_len (List.length body)) ++ tail) <? List.length body)%nat with false
    by (symmetry; apply Nat.ltb_ge; rewrite app_length; lia).
  rewrite firstn_app_exact by reflexivity.
  rewrite app_assoc. rewrite skipn_app_exact by (rewrite app_length, zeros_length; reflexivity). reflexivity.
Qed.

Lemma read_step_block : forall f rest st, fields_ok f ->
  read_step (block_of f ++ rest) st =
  match parsed_fields f with
  | Ok (h, fmt) => read_step (block_of f ++ rest) st
  | _ => RFail
  end.
Proof.
  intros f rest st F. destruct (parsed_fields f) as [[h fmt]| | |] eqn:E; try reflexivity;
  unfold read_step;
  pose proof (block_length f F) as L;
  (destruct (block_of f ++ rest) eqn:B; [apply (f_equal (@List.length ascii)) in B; rewrite app_length in B; simpl in B; lia|]);
  rewrite <- B;
  (replace (List.length (block_of f ++ rest) <? 512)%nat with false by (symmetry; apply Nat.ltb_ge; rewrite app_length; lia));
  rewrite firstn_app_exact by (symmetry; assumption);
  rewrite block_not_zero by assumption;
  rewrite parse_header_block, E by assumption; reflexivity.
Qed.

(* the step on the main header block of a member *)
Lemma read_step_member : forall f st hr hv body tail,
  fields_ok f -> parsed_fields f = Ok (hr, TUSTAR) ->
  std_type (h_type hr) -> (0 <= h_size hr)%Z ->
  r_name st = [] -> r_link st = [] ->
  merge_pax hr (match r_pax st with Some m => m | None => [] end) = Ok hv ->
  (0 <= h_size hv)%Z -> has_sparse_records (h_pax hv) = false ->
  List.length body = (if header_only (h_type hr) then O else Z.to_nat (h_size hv)) ->
  read_step (block_of f ++ body ++ zeros (pad_len (List.length body)) ++ tail) st = RMember (hv, body) tail.
Proof.
  intros f st hr hv body tail F P T S0 RN RL M S1 SP LB.
  unfold read_step.
  pose proof (block_length f F) as L.
  destruct (block_of f ++ body ++ zeros (pad_len (List.length body)) ++ tail) eqn:B.
  { apply (f_equal (@List.length ascii)) in B. rewrite app_length in B. simpl in B. lia. }
  rewrite <- B.
  replace (List.length (block_of f ++ body ++ zeros (pad_len (List.length body)) ++ tail) <? 512)%nat with false
    by (symmetry; apply Nat.ltb_ge; rewrite app_length; lia).
  rewrite firstn_app_exact by (symmetry; assumption).
  rewrite skipn_app_exact by (symmetry; assumption).
  rewrite block_not_zero by assumption.
  rewrite parse_header_block, P by assumption.
  destruct (std_type_facts _ T) as (_ & T2 & T3 & T4 & T5 & T6 & T7 & _).
  replace (h_size hr <? 0)%Z with false by (symmetry; apply Z.ltb_ge; assumption).
  rewrite andb_false_r. rewrite T5, T2, T6, T7. cbn [orb].
  rewrite M. rewrite RN, RL. cbn [is_nil]. rewrite T3.
  assert (TY : h_type hv = h_type hr).
  { unfold merge_pax in M.
    repeat match type of M with rbind ?x _ = _ => destruct x; cbn [rbind] in M; try discriminate end.
    inversion M. reflexivity. }
  replace (h_size hv <? 0)%Z with false by (symmetry; apply Z.ltb_ge; assumption).
  rewrite andb_false_r. rewrite T4, SP. cbn [orb].
  rewrite <- LB. rewrite take_data_exact.
  f_equal. f_equal. rewrite <- TY. symmetry. apply thdr_eta.
Qed.

(* the step on an extended header member *)
Lemma raw_file_x : forall name data,
  too_long_special (List.length data) = false ->
  exists f, fields_ok f /\
    raw_file name data T_XHDR magic_ustar = Ok (block_of f ++ data ++ zeros (pad_len (List.length data))) /\
    exists hx, parsed_fields f = Ok (hx, TUSTAR) /\ h_type hx = T_XHDR /\ h_size hx = Z.of_nat (List.length data).
Proof.
  intros name data Hlen. unfold raw_file.
  assert (Small : (Z.of_nat (List.length data) <= 1048576)%Z).
  { unfold too_long_special in Hlen. apply N.ltb_ge in Hlen. lia. }
  assert (Fit : fits_octal 12 (Z.of_nat (List.length data)) = true).
  { unfold fits_octal. apply andb_true_iff. split; [apply Z.leb_le; lia|]. apply orb_true_iff. right.
    apply Z.ltb_lt. change (8 ^ Z.of_nat (12 - 1))%Z with 8589934592%Z. lia. }
  unfold fmt_octal at 1. rewrite Fit. cbn [negb].
  match goal with |- context [block_of ?ff] => exists ff end.
  split; [|split].
  - constructor; cbn [f_name f_mode f_uid f_gid f_size f_mtime f_link f_magic f_uname f_gname f_devmaj f_devmin f_ext];
      try apply fstr_length; try apply fmt_octal_length; try apply zeros_length; reflexivity.
  - reflexivity.
  - unfold parsed_fields. cbn [f_name f_mode f_uid f_gid f_size f_mtime f_type f_link f_magic f_uname f_gname f_devmaj f_devmin f_ext].
    assert (E12 : fst (fmt_octal 12 (Z.of_nat (List.length data))) = fstr 12 (fixed_digits 8 (12 - 1) (Z.to_N (Z.of_nat (List.length data)))))
      by (unfold fmt_octal; rewrite Fit; reflexivity).
    rewrite <- E12.
    rewrite parse_numeric_fmt_octal by (lia || assumption).
    rewrite !(parse_fmt_octal_any 8 0) by lia. rewrite (parse_fmt_octal_any 12 0) by lia.
    change (zeros 8) with (zeros 8). rewrite !parse_numeric_zeros.
    cbn [rbind]. eexists. split; [reflexivity|]. split; reflexivity.
Qed.

Lemma read_step_x : forall f hx recs tail st,
  fields_ok f -> parsed_fields f = Ok (hx, TUSTAR) -> h_type hx = T_XHDR ->
  h_size hx = Z.of_nat (List.length (pax_data recs)) ->
  too_long_special (List.length (pax_data recs)) = false -> Forall rec_ok recs ->
  read_step (block_of f ++ pax_data recs ++ zeros (pad_len (List.length (pax_data recs))) ++ tail) st =
  RMeta {| r_pax := Some (fold_left (fun m kv => pm_set (fst kv) (snd kv) m) recs []); r_name := r_name st; r_link := r_link st |} tail.
Proof.
  intros f hx recs tail st F P T S Hlen R.
  unfold read_step.
  pose proof (block_length f F) as L.
  set (data := pax_data recs) in *.
  destruct (block_of f ++ data ++ zeros (pad_len (List.length data)) ++ tail) eqn:B.
  { apply (f_equal (@List.length ascii)) in B. rewrite app_length in B. simpl in B. lia. }
  rewrite <- B.
  replace (List.length (block_of f ++ data ++ zeros (pad_len (List.length data)) ++ tail) <? 512)%nat with false
    by (symmetry; apply Nat.ltb_ge; rewrite app_length; lia).
  rewrite firstn_app_exact by (symmetry; assumption).
  rewrite skipn_app_exact by (symmetry; assumption).
  rewrite block_not_zero by assumption.
  rewrite parse_header_block, P by assumption.
  rewrite T. change (header_only T_XHDR) with false. cbn [negb andb].
  rewrite S. replace (Z.of_nat (List.length data) <? 0)%Z with false by (symmetry; apply Z.ltb_ge; lia).
  change (Ascii.eqb T_XHDR T_XHDR) with true. cbn [orb].
  rewrite Nat2Z.id.
  rewrite Hlen.
  rewrite take_data_exact.
  assert (Small : (N.of_nat (List.length data) < 9223372036854775808)%N).
  { unfold too_long_special in Hlen. apply N.ltb_ge in Hlen. lia. }
  unfold data. rewrite parse_pax_data by (assumption || lia).
  change (Ascii.eqb T_XHDR T_XGLOBAL) with false. reflexivity.
Qed.
