(* C06 — from the bytes of a layer back to the entries of Model/Tar.v: the
   members read from the stream written for a list of entries are those
   entries (as the tar writer leaves them: whole seconds). *)
From Apko Require Import Base.Prelude Model.Tar Model.TarBytes Spec.TarSpec Spec.TarBytesSpec Generated.C06Tar
  Proofs.TarBytesNum Proofs.TarBytesPax Proofs.TarBytesEnv Proofs.TarBytesHeader Proofs.TarBytesProofs Proofs.TarProofs Proofs.TarLinks.
From Coq Require Import Lia.
Open Scope list_scope.

Lemma basic_no_xattr_prefix : forall k, basic_key k = true -> strip_prefix pax_schily_xattr k = None.
Proof.
  intros k H. apply basic_key_cases in H. cbn [In] in H.
  repeat (destruct H as [<-|H]; [reflexivity|]). destruct H.
Qed.

Lemma xattrs_of_pax_cons : forall kv m, xattrs_of_pax (kv :: m) =
  match strip_prefix pax_schily_xattr (fst kv) with Some k => [(str k, str (snd kv))] | None => [] end ++ xattrs_of_pax m.
Proof. reflexivity. Qed.

Lemma xattrs_user_records : forall m, xattrs_of_pax (user_records m) = xattrs_of_pax m.
Proof.
  induction m as [|[k v] m IH]; [reflexivity|].
  change (user_records ((k, v) :: m)) with (if negb (basic_key k) then (k, v) :: user_records m else user_records m).
  destruct (basic_key k) eqn:B; cbn [negb].
  - rewrite IH, (xattrs_of_pax_cons (k, v) m). cbn [fst]. rewrite (basic_no_xattr_prefix k B). reflexivity.
  - rewrite !xattrs_of_pax_cons, IH. reflexivity.
Qed.

Lemma opt_str_bytes : forall o, name_present o = true -> opt_str (opt_bytes o) = o.
Proof.
  intros [s|] H; [|reflexivity]. cbn [name_present] in H. apply negb_true_iff in H.
  unfold opt_str, opt_bytes. destruct s as [|c s]; [discriminate|].
  cbn [lit list_ascii_of_string is_nil]. f_equal. apply (str_lit (String c s)).
Qed.

Lemma kind_typeflag : forall k, kind_of_typeflag (typeflag_of k) = Some k.
Proof. destruct k; reflexivity. Qed.

Lemma entry_roundtrip : forall cs cid_of e, entry_okb cs cid_of e = true ->
  entry_of_member cid_of (read_view (member_of_entry cs e)) = Some (tar_written e).
Proof.
  intros cs cid_of e H. unfold entry_okb in H.
  apply andb_true_iff in H. destruct H as [H CID]. apply andb_true_iff in H. destruct H as [H GN].
  apply andb_true_iff in H. destruct H as [H UN]. apply andb_true_iff in H. destruct H as [H PO].
  apply N.eqb_eq in CID.
  unfold member_of_entry in *. cbn [snd] in CID.
  set (body := match e_kind e with KReg => if (0 <? e_size e)%N then content_of cs (e_cid e) else [] | _ => [] end) in *.
  unfold member_okb in H. apply andb_true_iff in H. destruct H as [HO _].
  pose proof (hdr_okb_ok _ HO) as O.
  pose proof (ok_nsec _ O) as NS. cbn [hdr_of_entry h_mnsec] in NS.
  unfold read_view, entry_of_member.
  cbn [hdr_of_entry h_type h_name h_link h_mode h_uid h_gid h_size h_mtime h_mnsec h_uname h_gname h_devmaj h_devmin h_pax].
  rewrite kind_typeflag.
  rewrite <- (xattrs_user_records (pax_written (hdr_of_entry e))), (user_records_written _ O), xattr_prefix_roundtrip.
  rewrite !str_lit, split_join by assumption. rewrite !N2Z.id. rewrite !opt_str_bytes by assumption. rewrite CID.
  unfold tar_written. rewrite NS. destruct e; reflexivity.
Qed.

Theorem entries_bytes_roundtrip : forall cs cid_of es, forallb (entry_okb cs cid_of) es = true ->
  exists bs ms, write_archive (map (member_of_entry cs) es) = Ok bs /\ read_archive bs = Ok ms /\
    map (entry_of_member cid_of) ms = map (fun e => Some (tar_written e)) es.
Proof.
  intros cs cid_of es H.
  assert (M : forallb member_okb (map (member_of_entry cs) es) = true).
  { rewrite forallb_forall in *. intros m I. apply in_map_iff in I. destruct I as (e & <- & I).
    specialize (H e I). unfold entry_okb in H. do 4 (apply andb_true_iff in H; destruct H as [H _]). exact H. }
  destruct (bytes_roundtrip _ M) as (bs & W & R).
  exists bs. eexists. split; [exact W|]. split; [exact R|].
  rewrite !map_map. apply map_ext_in. intros e I. apply entry_roundtrip.
  rewrite forallb_forall in H. apply H. exact I.
Qed.

Definition ex_entries : list entry :=
  [ {| e_path := ["usr"]; e_kind := KDir; e_mode := 493; e_uid := 0; e_gid := 0; e_uname := Some "root"%string; e_gname := None; e_link := ""%string;
       e_devmaj := 0; e_devmin := 0; e_xattrs := [("user.d", "1")]%string; e_mtime := 1700000000; e_mnsec := 0; e_cid := 0; e_size := 0 |};
    {| e_path := ["usr"; "f"]%string; e_kind := KReg; e_mode := 2541; e_uid := 4294967296; e_gid := 5; e_uname := None; e_gname := None; e_link := ""%string;
       e_devmaj := 0; e_devmin := 0; e_xattrs := []; e_mtime := 1700000001; e_mnsec := 0; e_cid := 7; e_size := 3 |} ].
Lemma ex_entries_ok : forallb (entry_okb [(7%N, lit "abc")] (fun b => if is_nil b then 0%N else 7%N)) ex_entries = true.
Proof. vm_compute. reflexivity. Qed.

(* the whole chain: the tree, its walk, the bytes of the layer, the members read
   from the bytes, the entries they stand for — which extract to the tree *)
Theorem layer_bytes_faithful : forall ev cs cid_of f,
  wfl_forest (has_hdr ev) f = true -> whole_seconds_forest f = true ->
  forallb (entry_okb cs cid_of) (walk ev f) = true ->
  exists bs ms, layer_bytes ev cs f = Ok bs /\ read_archive bs = Ok ms /\
    map (entry_of_member cid_of) ms = map Some (emitted ev f) /\
    Faithful (users ev) (groups ev) f (emitted ev f).
Proof.
  intros ev cs cid_of f W S E.
  destruct (entries_bytes_roundtrip cs cid_of (walk ev f) E) as (bs & ms & WB & RB & EQ).
  exists bs, ms. unfold layer_bytes. split; [exact WB|]. split; [exact RB|]. split.
  - rewrite EQ. unfold emitted. rewrite map_map. reflexivity.
  - apply faithful_links; assumption.
Qed.

(* a symlink target is an opaque string for the model: the entry of the walk, the
   header handed to the tar writer and the entry as written carry it verbatim;
   goextract pins that walkFS hands Readlink's result to tar.FileInfoHeader *)
Lemma link_target_verbatim :
  c06_link_target_verbatim = true /\
  forall ev p m tgt,
    let e := file_entry ev p m (LSym tgt) None in
    e_kind e = KSym /\ e_link e = tgt /\ str (h_link (hdr_of_entry e)) = tgt /\ e_link (tar_written e) = tgt /\
    payload_of [] (tar_written e) = Ok (File (meta_of (tar_written e)) (LSym tgt) None).
Proof.
  split; [reflexivity|]. intros ev p m tgt. cbv zeta.
  unfold file_entry, mk_entry, hdr_of_entry, tar_written. cbn [e_kind e_link h_link].
  rewrite str_lit. repeat split.
Qed.

(* ---- the envelope on the tree implies the envelope on the walk ------------------------------- *)
Lemma tree_bytes_ok_walk : forall ev cs cid_of t p, tree_bytes_okb ev cs cid_of p t = true ->
  forall e, In e (walk_tree ev p t) -> entry_okb cs cid_of e = true.
Proof.
  intros ev cs cid_of t. induction t as [m l h | m ch IH] using tree_ind'; intros p H e I.
  - cbn [walk_tree] in I. destruct I as [<-|[]]. exact H.
  - cbn [tree_bytes_okb] in H. apply andb_true_iff in H. destruct H as [HD HC].
    rewrite walk_tree_dir in I. destruct I as [<-|I]; [exact HD|].
    rewrite walk_forest_sorted in I. apply in_flat_map in I. destruct I as [y [Hy He]].
    apply (proj1 (sort_by_name_in _ _ _)) in Hy.
    rewrite Forall_forall in IH. rewrite forallb_forall in HC.
    specialize (HC y Hy). destruct y as [n c]. cbn [fst snd] in *. exact (IH (n, c) Hy _ HC _ He).
Qed.

Lemma forest_bytes_ok_walk : forall ev cs cid_of f, forest_bytes_okb ev cs cid_of f = true ->
  forallb (entry_okb cs cid_of) (walk ev f) = true.
Proof.
  intros ev cs cid_of f H. apply forallb_forall. intros e I.
  unfold walk in I. rewrite walk_forest_sorted in I. apply in_flat_map in I. destruct I as [y [Hy He]].
  apply (proj1 (sort_by_name_in _ _ _)) in Hy.
  unfold forest_bytes_okb in H. rewrite forallb_forall in H. specialize (H y Hy). destruct y as [n c].
  cbn [fst snd app] in *. eapply tree_bytes_ok_walk; eassumption.
Qed.

Theorem layer_bytes_faithful_tree : forall ev cs cid_of f,
  wfl_forest (has_hdr ev) f = true -> whole_seconds_forest f = true -> forest_bytes_okb ev cs cid_of f = true ->
  exists bs ms, layer_bytes ev cs f = Ok bs /\ read_archive bs = Ok ms /\
    map (entry_of_member cid_of) ms = map Some (emitted ev f) /\
    Faithful (users ev) (groups ev) f (emitted ev f).
Proof. intros ev cs cid_of f W S T. apply layer_bytes_faithful; try assumption. apply forest_bytes_ok_walk. exact T. Qed.
