(* C06 — byte-level tar codec: numbers and strings as text (decimal, octal,
   fields of a header block).  Lemmas for Proofs/TarBytesProofs.v. *)
From Apko Require Import Base.Prelude Model.TarBytes.
From Coq Require Import Lia.
Open Scope list_scope.

(* ---- bytes ------------------------------------------------------------------ *)
Lemma bN_Nb : forall n, (n < 256)%N -> bN (Nb n) = n.
Proof. intros. unfold bN, Nb. apply N_ascii_embedding. assumption. Qed.
Lemma Nb_bN : forall c, Nb (bN c) = c.
Proof. intros. unfold bN, Nb. apply ascii_N_embedding. Qed.
Lemma bN_lt : forall c, (bN c < 256)%N.
Proof. intros. unfold bN. apply N_ascii_bounded. Qed.
Lemma bN_inj : forall a b, bN a = bN b -> a = b.
Proof. intros a b H. rewrite <- (Nb_bN a), <- (Nb_bN b), H. reflexivity. Qed.

Lemma aeqb_refl : forall c, Ascii.eqb c c = true.
Proof. intros. apply Ascii.eqb_eq. reflexivity. Qed.
Lemma aeqb_neq : forall a b, a <> b -> Ascii.eqb a b = false.
Proof. intros. apply Ascii.eqb_neq. assumption. Qed.

Lemma beqb_eq : forall a b, beqb a b = true <-> a = b.
Proof. intros. unfold beqb. apply list_eqb_spec. intros. apply Ascii.eqb_eq. Qed.
Lemma beqb_refl : forall a, beqb a a = true.
Proof. intros. apply beqb_eq. reflexivity. Qed.
Lemma beqb_neq : forall a b, a <> b -> beqb a b = false.
Proof. intros a b H. destruct (beqb a b) eqn:E; [apply beqb_eq in E; contradiction | reflexivity]. Qed.

Lemma zeros_length : forall n, List.length (zeros n) = n.
Proof. intros. apply repeat_length. Qed.

(* ---- digits -------------------------------------------------------------------- *)
Lemma bN_digit : forall d, (d < 10)%N -> bN (digit d) = (48 + d)%N.
Proof. intros. unfold digit. apply bN_Nb. lia. Qed.

Lemma digit_val_digit : forall base d, (d < base)%N -> (base <= 10)%N -> digit_val base (digit d) = Some d.
Proof.
  intros base d H1 H2. unfold digit_val. rewrite bN_digit by lia.
  replace ((48 <=? 48 + d)%N) with true by (symmetry; apply N.leb_le; lia).
  replace ((48 + d <? 48 + base)%N) with true by (symmetry; apply N.ltb_lt; lia).
  cbn [andb]. f_equal. lia.
Qed.

Definition is_digit_char (c : ascii) : Prop := (48 <= bN c < 58)%N.
Lemma digit_is_digit : forall d, (d < 10)%N -> is_digit_char (digit d).
Proof. intros. unfold is_digit_char. rewrite bN_digit by assumption. lia. Qed.

Lemma digit_char_neq : forall c x, is_digit_char c -> (bN x < 48 \/ 58 <= bN x)%N -> Ascii.eqb c x = false /\ Ascii.eqb x c = false.
Proof.
  intros c x H O. assert (c <> x) by (intro; subst; unfold is_digit_char in H; lia).
  split; apply aeqb_neq; congruence.
Qed.

Lemma digits_val_app : forall base l1 l2 acc,
  digits_val base (l1 ++ l2) acc =
  match digits_val base l1 acc with Some a => digits_val base l2 a | None => None end.
Proof.
  induction l1 as [|c l1 IH]; intros; simpl; [reflexivity|].
  destruct (digit_val base c); [apply IH | reflexivity].
Qed.

(* little-endian value *)
Fixpoint le_val (base : N) (l : list N) : N :=
  match l with [] => 0%N | d :: r => (d + base * le_val base r)%N end.

Lemma digits_val_rev_le : forall base l, (base <= 10)%N -> Forall (fun d => (d < base)%N) l ->
  digits_val base (map digit (rev l)) 0%N = Some (le_val base l).
Proof.
  intros base l Hb. induction l as [|d r IH]; intro HF; [reflexivity|].
  inversion HF; subst. simpl rev. rewrite map_app, digits_val_app, IH by assumption.
  simpl. rewrite digit_val_digit by assumption. f_equal. lia.
Qed.

(* ---- decimal --------------------------------------------------------------------- *)
Lemma digits_le_spec : forall f n, (n < 10 ^ N.of_nat f)%N ->
  le_val 10 (digits_le f n) = n /\ Forall (fun d => (d < 10)%N) (digits_le f n).
Proof.
  induction f as [|f IH]; intros n H.
  - simpl in H. simpl. split; [lia | constructor].
  - simpl digits_le. destruct (n <? 10)%N eqn:E.
    + apply N.ltb_lt in E. cbn [le_val]. split; [lia | repeat constructor; assumption].
    + apply N.ltb_ge in E.
      assert (Hq : (n / 10 < 10 ^ N.of_nat f)%N).
      { apply N.div_lt_upper_bound; [lia|]. rewrite Nat2N.inj_succ, N.pow_succ_r' in H. assumption. }
      destruct (IH _ Hq) as (V & F). cbn [le_val]. rewrite V. split.
      * pose proof (N.div_mod n 10). lia.
      * constructor; [apply N.mod_lt; lia | assumption].
Qed.
Lemma digits_le_nonnil : forall f n, digits_le (S f) n <> [].
Proof. intros. simpl. destruct (n <? 10)%N; discriminate. Qed.

Lemma dec_fuel_ok : forall n, (n < 10 ^ N.of_nat (S (N.to_nat (N.log2 n))))%N.
Proof.
  intros n. rewrite Nat2N.inj_succ, N2Nat.id.
  destruct (N.eq_dec n 0) as [->|Hn]; [reflexivity|].
  pose proof (N.log2_spec n ltac:(lia)) as [_ H].
  eapply N.lt_le_trans; [exact H|]. apply N.pow_le_mono_l. lia.
Qed.

Lemma parse_uint_dec : forall n, parse_uint 10 (dec_N n) = Some n.
Proof.
  intros n. unfold dec_N. destruct (digits_le_spec _ _ (dec_fuel_ok n)) as (V & F).
  pose proof (digits_le_nonnil (N.to_nat (N.log2 n)) n) as NE.
  unfold parse_uint.
  destruct (map digit (rev (digits_le (S (N.to_nat (N.log2 n))) n))) eqn:E.
  - exfalso. apply NE. apply map_eq_nil in E. destruct (digits_le _ n); [reflexivity|].
    simpl in E. apply app_eq_nil in E. destruct E; discriminate.
  - rewrite <- E, digits_val_rev_le by (assumption || lia). rewrite V. reflexivity.
Qed.

Lemma dec_N_digits : forall n, Forall is_digit_char (dec_N n).
Proof.
  intros n. unfold dec_N. destruct (digits_le_spec _ _ (dec_fuel_ok n)) as (_ & F).
  apply Forall_forall. intros c Hc. apply in_map_iff in Hc. destruct Hc as (d & <- & Hd).
  apply digit_is_digit. apply in_rev in Hd. rewrite Forall_forall in F. apply F. assumption.
Qed.

Lemma dec_N_nonnil : forall n, dec_N n <> [].
Proof. intros n H. pose proof (parse_uint_dec n) as P. rewrite H in P. discriminate. Qed.

(* number of decimal digits *)
Definition nd (n : N) : nat := List.length (dec_N n).

Lemma digits_le_length_le : forall f n k, (n < 10 ^ N.of_nat k)%N -> (1 <= k)%nat -> (List.length (digits_le f n) <= k)%nat.
Proof.
  induction f as [|f IH]; intros n k H K; simpl; [lia|].
  destruct (n <? 10)%N eqn:E; simpl; [lia|]. apply N.ltb_ge in E.
  destruct k as [|k]; [lia|]. destruct k as [|k]; [simpl in H; lia|].
  assert (n / 10 < 10 ^ N.of_nat (S k))%N.
  { apply N.div_lt_upper_bound; [lia|]. rewrite (Nat2N.inj_succ (S k)), N.pow_succ_r' in H. assumption. }
  specialize (IH (n / 10)%N (S k) H0 ltac:(lia)). lia.
Qed.

Lemma digits_le_length_gt : forall f n k, (10 ^ N.of_nat k <= n)%N -> (n < 10 ^ N.of_nat f)%N ->
  (k < List.length (digits_le f n))%nat.
Proof.
  induction f as [|f IH]; intros n k H1 H2.
  - simpl in H2. assert (0 < 10 ^ N.of_nat k)%N by (pose proof (N.pow_nonzero 10 (N.of_nat k) ltac:(lia)); lia). lia.
  - simpl. destruct (n <? 10)%N eqn:E.
    + apply N.ltb_lt in E. destruct k as [|k]; [simpl; lia|].
      rewrite Nat2N.inj_succ, N.pow_succ_r' in H1.
      assert (0 < 10 ^ N.of_nat k)%N by (pose proof (N.pow_nonzero 10 (N.of_nat k) ltac:(lia)); lia). lia.
    + apply N.ltb_ge in E. destruct k as [|k]; [simpl; lia|]. simpl.
      apply -> Nat.succ_lt_mono. apply IH.
      * rewrite Nat2N.inj_succ, N.pow_succ_r' in H1. apply N.div_le_lower_bound; lia.
      * apply N.div_lt_upper_bound; [lia|]. rewrite Nat2N.inj_succ, N.pow_succ_r' in H2. assumption.
Qed.

Lemma nd_le : forall n k, (n < 10 ^ N.of_nat k)%N -> (1 <= k)%nat -> (nd n <= k)%nat.
Proof. intros. unfold nd, dec_N. rewrite map_length, rev_length. apply digits_le_length_le; assumption. Qed.
Lemma nd_gt : forall n k, (10 ^ N.of_nat k <= n)%N -> (k < nd n)%nat.
Proof. intros. unfold nd, dec_N. rewrite map_length, rev_length. apply digits_le_length_gt; [assumption | apply dec_fuel_ok]. Qed.
Lemma nd_pos : forall n, (1 <= nd n)%nat.
Proof. intros. unfold nd. pose proof (dec_N_nonnil n). destruct (dec_N n); [contradiction | simpl; lia]. Qed.

Lemma pow10_bound : forall d, (N.of_nat d + 1 <= 9 * 10 ^ N.of_nat d)%N.
Proof.
  induction d as [|d IH]; [simpl; lia|].
  rewrite Nat2N.inj_succ, N.pow_succ_r'. lia.
Qed.

(* the length prefix of a PAX record: Go adds the number of digits of the
   length without them, and corrects once; the result counts itself *)
Lemma pax_size_fixpoint : forall base : nat, (1 <= base)%nat ->
  let s1 := (base + nd (N.of_nat base))%nat in
  let s := if (nd (N.of_nat s1) + base =? s1)%nat then s1 else (nd (N.of_nat s1) + base)%nat in
  (nd (N.of_nat s) + base)%nat = s.
Proof.
  intros base Hb s1 s. subst s.
  destruct (nd (N.of_nat s1) + base =? s1)%nat eqn:E; [apply Nat.eqb_eq in E; assumption|].
  apply Nat.eqb_neq in E.
  set (d0 := nd (N.of_nat base)) in *.
  assert (Hd0 : (1 <= d0)%nat) by apply nd_pos.
  (* base < 10^d0 *)
  assert (Hlt : (N.of_nat base < 10 ^ N.of_nat d0)%N).
  { destruct (N.lt_ge_cases (N.of_nat base) (10 ^ N.of_nat d0)) as [L|G]; [assumption|].
    apply nd_gt in G. fold d0 in G. lia. }
  (* 10^(d0-1) <= base *)
  assert (Hge : (10 ^ N.of_nat (d0 - 1) <= N.of_nat base)%N).
  { destruct (N.lt_ge_cases (N.of_nat base) (10 ^ N.of_nat (d0 - 1))) as [L|G]; [|assumption].
    destruct (Nat.eq_dec d0 1) as [e|ne].
    - rewrite e in L. simpl in L. lia.
    - apply nd_le in L; [fold d0 in L; lia | lia]. }
  pose proof (pow10_bound d0) as PB.
  assert (P10 : (10 ^ N.of_nat (S d0) = 10 * 10 ^ N.of_nat d0)%N) by (rewrite Nat2N.inj_succ, N.pow_succ_r'; reflexivity).
  set (p := (10 ^ N.of_nat d0)%N) in *.
  assert (H1 : (nd (N.of_nat s1) <= S d0)%nat).
  { apply nd_le; [|lia]. rewrite P10. unfold s1. lia. }
  assert (H2 : (d0 <= nd (N.of_nat s1))%nat).
  { assert (d0 - 1 < nd (N.of_nat s1))%nat; [|lia]. apply nd_gt. unfold s1. lia. }
  assert (H3 : nd (N.of_nat s1) = S d0) by (unfold s1 in *; lia).
  rewrite H3.
  assert (H4 : (p <= N.of_nat s1)%N).
  { destruct (N.lt_ge_cases (N.of_nat s1) p) as [L|G]; [|assumption].
    apply nd_le in L; [lia | lia]. }
  assert (H5 : (nd (N.of_nat (S d0 + base)) <= S d0)%nat).
  { apply nd_le; [|lia]. rewrite P10. lia. }
  assert (H6 : (d0 < nd (N.of_nat (S d0 + base)))%nat).
  { apply nd_gt. fold p. unfold s1 in H4. lia. }
  unfold s1. lia.
Qed.

(* strconv.ParseInt on what FormatInt printed *)
Lemma parse_int_dec_N : forall n, (n < 9223372036854775808)%N -> parse_int (dec_N n) = Some (Z.of_N n).
Proof.
  intros n H. pose proof (parse_uint_dec n) as P. pose proof (dec_N_digits n) as D.
  unfold parse_int. destruct (dec_N n) as [|c r] eqn:E; [discriminate|].
  inversion D; subst. unfold is_digit_char in H2.
  destruct (digit_char_neq c "-"%char H2 ltac:(vm_compute; left; reflexivity)) as [-> _].
  destruct (digit_char_neq c "+"%char H2 ltac:(vm_compute; left; reflexivity)) as [-> _].
  simpl orb. cbv iota. rewrite P.
  replace (n <? 9223372036854775808)%N with true by (symmetry; apply N.ltb_lt; assumption). reflexivity.
Qed.

Lemma parse_int_dec_Z : forall z, (- 9223372036854775808 <= z < 9223372036854775808)%Z -> parse_int (dec_Z z) = Some z.
Proof.
  intros z H. destruct z as [|p|p].
  - reflexivity.
  - unfold dec_Z. rewrite parse_int_dec_N by lia. f_equal; lia.
  - unfold dec_Z. unfold parse_int. rewrite aeqb_refl. simpl orb. cbv iota.
    rewrite parse_uint_dec.
    replace (N.pos p <=? 9223372036854775808)%N with true by (symmetry; apply N.leb_le; lia).
    f_equal.
Qed.

Lemma dec_Z_no_nul : forall z, has_nul (dec_Z z) = false.
Proof.
  intros z. unfold has_nul.
  assert (G : forall n, existsb (Ascii.eqb NUL) (dec_N n) = false).
  { intros n. pose proof (dec_N_digits n) as D. induction D as [|c l Hc _ IH]; [reflexivity|].
    cbn [existsb]. rewrite IH.
    destruct (digit_char_neq c NUL Hc ltac:(vm_compute; left; reflexivity)) as [_ ->]. reflexivity. }
  destruct z; unfold dec_Z; apply G.
Qed.

(* ---- fixed-width digits ---------------------------------------------------------- *)
Lemma fixed_digits_length : forall base k n, List.length (fixed_digits base k n) = k.
Proof. induction k as [|k IH]; intros; simpl; [reflexivity|]. rewrite app_length, IH. simpl. lia. Qed.

Lemma fixed_digits_val : forall base k n acc, (1 < base <= 10)%N -> (n < base ^ N.of_nat k)%N ->
  digits_val base (fixed_digits base k n) acc = Some (acc * base ^ N.of_nat k + n)%N.
Proof.
  intros base. induction k as [|k IH]; intros n acc Hb H.
  - simpl in *. f_equal. lia.
  - simpl fixed_digits. rewrite digits_val_app.
    rewrite Nat2N.inj_succ, N.pow_succ_r' in H.
    rewrite IH; [|assumption | apply N.div_lt_upper_bound; lia].
    cbn [digits_val]. rewrite digit_val_digit; [|apply N.mod_lt; lia | lia].
    f_equal. rewrite Nat2N.inj_succ, N.pow_succ_r'. pose proof (N.div_mod n base). lia.
Qed.

Lemma fixed_digits_digits : forall base k n, (1 < base <= 10)%N -> Forall is_digit_char (fixed_digits base k n).
Proof.
  intros base. induction k as [|k IH]; intros n Hb; simpl; [constructor|].
  apply Forall_app. split; [apply IH; assumption|]. constructor; [|constructor].
  apply digit_is_digit. pose proof (N.mod_lt n base). lia.
Qed.

(* ---- strings in fields ------------------------------------------------------------- *)
Lemma has_nul_cons : forall c s, has_nul (c :: s) = (Ascii.eqb NUL c || has_nul s)%bool.
Proof. reflexivity. Qed.
Lemma parse_string_cons : forall c r, parse_string (c :: r) = if Ascii.eqb c NUL then [] else c :: parse_string r.
Proof. reflexivity. Qed.
Lemma parse_string_app_nul : forall s r, has_nul s = false -> parse_string (s ++ NUL :: r) = s.
Proof.
  induction s as [|c s IH]; intros r H.
  - reflexivity.
  - rewrite has_nul_cons in H. apply orb_false_iff in H. destruct H as [H1 H2].
    rewrite <- app_comm_cons, parse_string_cons. rewrite Ascii.eqb_sym, H1. f_equal. apply IH. assumption.
Qed.
Lemma parse_string_no_nul : forall s, has_nul s = false -> parse_string s = s.
Proof.
  induction s as [|c s IH]; intro H; [reflexivity|].
  rewrite has_nul_cons in H. apply orb_false_iff in H. destruct H as [H1 H2].
  rewrite parse_string_cons, Ascii.eqb_sym, H1. f_equal. apply IH. assumption.
Qed.

Lemma fstr_short : forall w s, (List.length s <= w)%nat -> fstr w s = s ++ zeros (w - List.length s).
Proof.
  intros w s H. unfold fstr. rewrite firstn_all2 by assumption.
  replace (w <? List.length s)%nat with false by (symmetry; apply Nat.ltb_ge; assumption). reflexivity.
Qed.

Lemma set_nth_length : forall {A} n (x : A) l, List.length (set_nth n x l) = List.length l.
Proof. intros A n x l. revert n. induction l as [|y l IH]; intros [|n]; simpl; auto. Qed.

Lemma fstr_length : forall w s, List.length (fstr w s) = w.
Proof.
  intros w s. unfold fstr.
  assert (L : List.length (firstn w s ++ zeros (w - List.length (firstn w s))) = w).
  { rewrite app_length, zeros_length. pose proof (firstn_le_length w s). lia. }
  destruct ((w <? List.length s)%nat && _)%bool; [rewrite set_nth_length|]; exact L.
Qed.

Lemma parse_string_fstr : forall w s, (List.length s <= w)%nat -> has_nul s = false -> parse_string (fstr w s) = s.
Proof.
  intros w s H N. rewrite fstr_short by assumption.
  destruct (w - List.length s)%nat eqn:E; simpl.
  - rewrite app_nil_r. apply parse_string_no_nul. assumption.
  - apply parse_string_app_nul. assumption.
Qed.

Lemma parse_string_zeros : forall n, parse_string (zeros n) = [].
Proof. destruct n; reflexivity. Qed.

(* ---- octal fields --------------------------------------------------------------------- *)
Lemma drop_while_head : forall p c l, p c = false -> drop_while p (c :: l) = c :: l.
Proof. intros. simpl. rewrite H. reflexivity. Qed.

Lemma digit_not_sp_nul : forall c, is_digit_char c -> is_sp_nul c = false.
Proof.
  intros c H. unfold is_sp_nul.
  destruct (digit_char_neq c " "%char H ltac:(vm_compute; left; reflexivity)) as [-> _].
  destruct (digit_char_neq c NUL H ltac:(vm_compute; left; reflexivity)) as [-> _]. reflexivity.
Qed.

Lemma digits_no_nul : forall l, Forall is_digit_char l -> has_nul l = false.
Proof.
  induction 1 as [|c l Hc _ IH]; [reflexivity|]. unfold has_nul in *. cbn [existsb]. rewrite IH.
  destruct (digit_char_neq c NUL Hc ltac:(vm_compute; left; reflexivity)) as [_ ->]. reflexivity.
Qed.

Lemma drop_while_all : forall p l, forallb p l = true -> drop_while p l = [].
Proof. induction l as [|c l IH]; intro H; [reflexivity|]. simpl in *. apply andb_true_iff in H. destruct H as [-> H]. auto. Qed.
Lemma drop_while_app_all : forall p a b, forallb p a = true -> drop_while p (a ++ b) = drop_while p b.
Proof. induction a as [|c a IH]; intros b H; [reflexivity|]. simpl in *. apply andb_true_iff in H. destruct H as [-> H]. auto. Qed.

Lemma trim_digits_tail : forall ds tl, Forall is_digit_char ds -> ds <> [] -> forallb is_sp_nul tl = true ->
  trim is_sp_nul (ds ++ tl) = ds.
Proof.
  intros ds tl F NE T. unfold trim, trim_right.
  assert (L : forall l, Forall is_digit_char l -> drop_while is_sp_nul (rev l) = rev l).
  { intros l Fl. destruct (rev l) eqn:E; [reflexivity|]. apply drop_while_head. apply digit_not_sp_nul.
    rewrite Forall_forall in Fl. apply Fl. apply in_rev. rewrite E. left. reflexivity. }
  destruct ds as [|c r]; [contradiction|]. inversion F; subst.
  rewrite <- app_comm_cons, drop_while_head by (apply digit_not_sp_nul; assumption).
  rewrite app_comm_cons, rev_app_distr.
  rewrite drop_while_app_all by (rewrite forallb_forall in *; intros x Hx; apply T; apply in_rev; assumption).
  rewrite (L (c :: r) F). apply rev_involutive.
Qed.
Lemma trim_digits_nul : forall ds, Forall is_digit_char ds -> ds <> [] -> trim is_sp_nul (ds ++ [NUL]) = ds.
Proof. intros. apply trim_digits_tail; auto. Qed.

Lemma parse_uint_nonnil : forall b l, l <> [] -> parse_uint b l = digits_val b l 0%N.
Proof. intros b [|c r] H; [contradiction | reflexivity]. Qed.

Lemma parse_octal_nonnil : forall b, trim is_sp_nul b <> [] ->
  parse_octal b = match parse_uint 8 (parse_string (trim is_sp_nul b)) with
                  | Some n => if (n <? 18446744073709551616)%N then Ok (wrap64 n) else Err
                  | None => Err
                  end.
Proof. intros b H. unfold parse_octal. destruct (trim is_sp_nul b); [contradiction | reflexivity]. Qed.

Lemma parse_octal_fixed : forall k n, (1 <= k)%nat -> (k <= 21)%nat -> (n < 8 ^ N.of_nat k)%N ->
  parse_octal (fixed_digits 8 k n ++ [NUL]) = Ok (Z.of_N n).
Proof.
  intros k n K1 K2 H.
  pose proof (fixed_digits_digits 8 k n ltac:(lia)) as D.
  assert (NE : fixed_digits 8 k n <> []).
  { intro E. pose proof (fixed_digits_length 8 k n) as L. rewrite E in L. simpl in L. lia. }
  rewrite parse_octal_nonnil by (rewrite trim_digits_nul; assumption).
  rewrite trim_digits_nul by assumption.
  rewrite parse_string_no_nul by (apply digits_no_nul; assumption).
  rewrite parse_uint_nonnil by assumption.
  rewrite fixed_digits_val by (lia || assumption).
  rewrite N.mul_0_l, N.add_0_l.
  assert (n < 8 ^ 21)%N.
  { eapply N.lt_le_trans; [exact H|]. apply N.pow_le_mono_r; lia. }
  assert (8 ^ 21 = 9223372036854775808)%N by reflexivity.
  replace (n <? 18446744073709551616)%N with true by (symmetry; apply N.ltb_lt; lia).
  unfold wrap64. replace (n <? 9223372036854775808)%N with true by (symmetry; apply N.ltb_lt; lia). reflexivity.
Qed.

Lemma fmt_octal_fits : forall w x, (2 <= w)%nat -> (w <= 21)%nat -> fits_octal w x = true ->
  fmt_octal w x = (fixed_digits 8 (w - 1) (Z.to_N x) ++ [NUL], true).
Proof.
  intros w x W1 W2 F. unfold fmt_octal. rewrite F. f_equal.
  rewrite fstr_short by (rewrite fixed_digits_length; lia).
  rewrite fixed_digits_length. replace (w - (w - 1))%nat with 1%nat by lia. reflexivity.
Qed.

Lemma fits_octal_bound : forall w x, (w <= 21)%nat -> fits_octal w x = true ->
  (0 <= x)%Z /\ (Z.to_N x < 8 ^ N.of_nat (w - 1))%N.
Proof.
  intros w x W F. unfold fits_octal in F. apply andb_true_iff in F. destruct F as [F1 F2].
  apply Z.leb_le in F1. apply orb_true_iff in F2. destruct F2 as [F2|F2].
  - apply Nat.leb_le in F2. lia.
  - apply Z.ltb_lt in F2. split; [assumption|].
    apply N2Z.inj_lt. rewrite Z2N.id by assumption. rewrite N2Z.inj_pow. rewrite nat_N_Z. assumption.
Qed.

Lemma parse_numeric_octal_digits : forall c r, is_digit_char c -> parse_numeric (c :: r) = parse_octal (c :: r).
Proof.
  intros c r H. unfold parse_numeric.
  assert (N.testbit (bN c) 7 = false) as ->; [|reflexivity].
  unfold is_digit_char in H. apply N.bits_above_log2.
  destruct (N.eq_dec (bN c) 0); [lia|]. apply N.log2_lt_pow2; simpl; lia.
Qed.

(* what the reader makes of a fitting octal field *)
Lemma parse_numeric_fmt_octal : forall w x, (2 <= w)%nat -> (w <= 21)%nat -> fits_octal w x = true ->
  parse_numeric (fst (fmt_octal w x)) = Ok x.
Proof.
  intros w x W1 W2 F. rewrite fmt_octal_fits by assumption. simpl fst.
  destruct (fits_octal_bound w x W2 F) as [P B].
  pose proof (fixed_digits_digits 8 (w - 1) (Z.to_N x) ltac:(lia)) as D.
  destruct (fixed_digits 8 (w - 1) (Z.to_N x)) as [|c r] eqn:E.
  - pose proof (fixed_digits_length 8 (w - 1) (Z.to_N x)) as L. rewrite E in L. simpl in L. lia.
  - inversion D; subst. rewrite <- app_comm_cons. rewrite parse_numeric_octal_digits by assumption.
    rewrite app_comm_cons, <- E. rewrite parse_octal_fixed by (lia || assumption).
    f_equal. apply Z2N.id. assumption.
Qed.

Lemma fmt_octal_length : forall w x, List.length (fst (fmt_octal w x)) = w.
Proof. intros. unfold fmt_octal. simpl. apply fstr_length. Qed.

(* all-NUL and "0…0\0" fields read as 0 *)
Lemma parse_numeric_zeros : forall n, parse_numeric (zeros n) = Ok 0%Z.
Proof.
  intros n. destruct n; [reflexivity|]. unfold parse_numeric. simpl zeros.
  change (N.testbit (bN NUL) 7) with false. cbv iota.
  unfold parse_octal.
  assert (T : forall m, trim is_sp_nul (repeat NUL m) = []).
  { intros m. unfold trim. assert (D : drop_while is_sp_nul (repeat NUL m) = []).
    { induction m; [reflexivity|]. simpl. exact IHm. }
    rewrite D. reflexivity. }
  change (NUL :: repeat NUL n) with (repeat NUL (S n)). rewrite T. reflexivity.
Qed.
