(* C06 — byte-level tar codec: the order of keys, sorted maps, PAX records.
   Lemmas for Proofs/TarBytesProofs.v. *)
From Apko Require Import Base.Prelude Model.TarBytes Spec.TarBytesSpec Proofs.TarBytesNum.
From Coq Require Import Lia.
Open Scope list_scope.

(* ---- bytewise order --------------------------------------------------------------- *)
Lemma bcmp_eq : forall a b, bcmp a b = Eq <-> a = b.
Proof.
  induction a as [|x a IH]; destruct b as [|y b]; simpl; split; intro H; try reflexivity; try discriminate.
  - destruct (N.compare (bN x) (bN y)) eqn:E; try discriminate.
    apply N.compare_eq in E. apply bN_inj in E. apply IH in H. congruence.
  - inversion H; subst. rewrite N.compare_refl. apply IH. reflexivity.
Qed.
Lemma bcmp_refl : forall a, bcmp a a = Eq.
Proof. intros. apply bcmp_eq. reflexivity. Qed.
Lemma bcmp_antisym : forall a b, bcmp b a = CompOpp (bcmp a b).
Proof.
  induction a as [|x a IH]; destruct b as [|y b]; simpl; try reflexivity.
  rewrite (N.compare_antisym (bN x) (bN y)). destruct (N.compare (bN x) (bN y)); simpl; auto.
Qed.
Lemma bcmp_lt_trans : forall a b c, bcmp a b = Lt -> bcmp b c = Lt -> bcmp a c = Lt.
Proof.
  induction a as [|x a IH]; intros [|y b] [|z c] H1 H2; simpl in *; try discriminate; try reflexivity.
  destruct (N.compare (bN x) (bN y)) eqn:E1; try discriminate;
  destruct (N.compare (bN y) (bN z)) eqn:E2; try discriminate.
  - apply N.compare_eq in E1, E2. rewrite E1, E2, N.compare_refl. eapply IH; eassumption.
  - apply N.compare_eq in E1. rewrite E1, E2. reflexivity.
  - apply N.compare_eq in E2. rewrite <- E2, E1. reflexivity.
  - rewrite N.compare_lt_iff in *. assert (bN x < bN z)%N by lia. apply N.compare_lt_iff in H. rewrite H. reflexivity.
Qed.
Lemma bcmp_gt_lt : forall a b, bcmp a b = Gt <-> bcmp b a = Lt.
Proof. intros. rewrite (bcmp_antisym a b). destruct (bcmp a b); simpl; split; congruence. Qed.
Lemma beqb_bcmp : forall a b, beqb a b = true <-> bcmp a b = Eq.
Proof. intros. rewrite beqb_eq, bcmp_eq. reflexivity. Qed.
Lemma bcmp_neq_beqb : forall a b, bcmp a b <> Eq -> beqb a b = false.
Proof. intros a b H. apply beqb_neq. intro E. apply H. apply bcmp_eq. assumption. Qed.

(* ---- sorted maps --------------------------------------------------------------------- *)
Fixpoint pm_wf (m : pmap) : Prop :=
  match m with
  | [] => True
  | (k, _) :: r => (forall kv, In kv r -> bcmp k (fst kv) = Lt) /\ pm_wf r
  end.

Lemma pm_set_in : forall k v m kv, In kv (pm_set k v m) -> kv = (k, v) \/ In kv m.
Proof.
  induction m as [|[k' v'] r IH]; intros kv H; simpl in *.
  - destruct H; auto.
  - destruct (bcmp k k'); simpl in H.
    + destruct H; auto.
    + destruct H; auto.
    + destruct H as [H|H]; auto. apply IH in H. destruct H; auto.
Qed.

Lemma pm_set_wf : forall k v m, pm_wf m -> pm_wf (pm_set k v m).
Proof.
  induction m as [|[k' v'] r IH]; intros W; simpl.
  - split; [intros ? []| exact I].
  - destruct W as [W1 W2]. destruct (bcmp k k') eqn:E.
    + apply bcmp_eq in E. subst k'. split; assumption.
    + split; [|split; assumption]. intros kv [<-|H]; [exact E|].
      eapply bcmp_lt_trans; [exact E | apply W1; assumption].
    + split; [|apply IH; assumption]. intros kv H. apply pm_set_in in H. destruct H as [->|H]; [|apply W1; assumption].
      apply bcmp_gt_lt. exact E.
Qed.

Lemma pm_get_set_same : forall k v m, pm_get k (pm_set k v m) = Some v.
Proof.
  induction m as [|[k' v'] r IH]; simpl.
  - rewrite beqb_refl. reflexivity.
  - destruct (bcmp k k') eqn:E; simpl.
    + rewrite beqb_refl. reflexivity.
    + rewrite beqb_refl. reflexivity.
    + rewrite bcmp_neq_beqb by congruence. exact IH.
Qed.

Lemma pm_get_set_other : forall k k' v m, k <> k' -> pm_get k' (pm_set k v m) = pm_get k' m.
Proof.
  intros k k' v m NE. induction m as [|[k0 v0] r IH]; simpl.
  - rewrite beqb_neq by congruence. reflexivity.
  - destruct (bcmp k k0) eqn:E; simpl.
    + apply bcmp_eq in E. subst k0. rewrite !(beqb_neq k' k) by congruence. reflexivity.
    + rewrite (beqb_neq k' k) by congruence. reflexivity.
    + rewrite IH. reflexivity.
Qed.

Lemma pm_get_none : forall k m, (forall kv, In kv m -> fst kv <> k) -> pm_get k m = None.
Proof.
  induction m as [|[k' v'] r IH]; intro H; simpl; [reflexivity|].
  rewrite beqb_neq.
  - apply IH. intros kv Hk. apply H. right. assumption.
  - intro E. apply (H (k', v')); [left; reflexivity | simpl; congruence].
Qed.

Lemma pm_get_in : forall k m v, pm_get k m = Some v -> In (k, v) m.
Proof.
  induction m as [|[k' v'] r IH]; intros v H; simpl in *; [discriminate|].
  destruct (beqb k k') eqn:E.
  - apply beqb_eq in E. inversion H; subst. left. reflexivity.
  - right. apply IH. assumption.
Qed.

Lemma pm_set_append : forall k v m, (forall kv, In kv m -> bcmp (fst kv) k = Lt) -> pm_set k v m = m ++ [(k, v)].
Proof.
  induction m as [|[k' v'] r IH]; intro H; simpl; [reflexivity|].
  assert (E : bcmp k k' = Gt). { apply bcmp_gt_lt. apply (H (k', v')). left. reflexivity. }
  rewrite E. f_equal. apply IH. intros kv Hk. apply H. right. assumption.
Qed.

Lemma pm_wf_app_lt : forall a x l, pm_wf (a ++ x :: l) -> forall kv, In kv a -> bcmp (fst kv) (fst x) = Lt.
Proof.
  induction a as [|[k v] a IH]; intros x l W kv H; [destruct H|].
  simpl in W. destruct W as [W1 W2]. destruct H as [<-|H].
  - simpl. apply W1. apply in_or_app. right. left. reflexivity.
  - eapply IH; eassumption.
Qed.

Lemma pm_fold_set_wf : forall l acc, pm_wf (acc ++ l) ->
  fold_left (fun m kv => pm_set (fst kv) (snd kv) m) l acc = acc ++ l.
Proof.
  induction l as [|[k v] l IH]; intros acc W; simpl; [rewrite app_nil_r; reflexivity|].
  rewrite pm_set_append.
  - rewrite IH; rewrite <- app_assoc; [reflexivity | exact W].
  - intros kv H. apply (pm_wf_app_lt acc (k, v) l W kv H).
Qed.

Lemma pm_of_list_wf : forall l, pm_wf l -> pm_of_list l = l.
Proof. intros l W. unfold pm_of_list. apply (pm_fold_set_wf l []). exact W. Qed.

Lemma pm_wf_nodup_keys : forall m k v1 v2, pm_wf m -> In (k, v1) m -> In (k, v2) m -> v1 = v2.
Proof.
  induction m as [|[k' v'] r IH]; intros k v1 v2 W H1 H2; [destruct H1|].
  destruct W as [W1 W2]. destruct H1 as [E1|H1], H2 as [E2|H2].
  - congruence.
  - inversion E1; subst. specialize (W1 _ H2). simpl in W1. rewrite bcmp_refl in W1. discriminate.
  - inversion E2; subst. specialize (W1 _ H1). simpl in W1. rewrite bcmp_refl in W1. discriminate.
  - eapply IH; eassumption.
Qed.

(* conditional set *)
Lemma pm_get_cset_same : forall c k v m, pm_get k (cset c k v m) = if c then Some v else pm_get k m.
Proof. intros [] k v m; simpl; [apply pm_get_set_same | reflexivity]. Qed.
Lemma pm_get_cset_other : forall c k k' v m, k <> k' -> pm_get k' (cset c k v m) = pm_get k' m.
Proof. intros [] k k' v m H; simpl; [apply pm_get_set_other; assumption | reflexivity]. Qed.
Lemma cset_wf : forall c k v m, pm_wf m -> pm_wf (cset c k v m).
Proof. intros [] k v m W; simpl; [apply pm_set_wf|]; assumption. Qed.
Lemma cset_in : forall c k v m kv, In kv (cset c k v m) -> (c = true /\ kv = (k, v)) \/ In kv m.
Proof. intros [] k v m kv H; simpl in H; [apply pm_set_in in H; destruct H; auto | auto]. Qed.

(* ---- cut ------------------------------------------------------------------------------- *)
Lemma cut_app : forall sep a b, existsb (Ascii.eqb sep) a = false -> cut sep (a ++ sep :: b) = Some (a, b).
Proof.
  induction a as [|c a IH]; intros b H.
  - simpl. rewrite aeqb_refl. reflexivity.
  - cbn [existsb] in H. apply orb_false_iff in H. destruct H as [H1 H2].
    rewrite <- app_comm_cons. cbn [cut]. rewrite Ascii.eqb_sym, H1. rewrite IH by assumption. reflexivity.
Qed.
Lemma cut_none : forall sep a, existsb (Ascii.eqb sep) a = false -> cut sep a = None.
Proof.
  induction a as [|c a IH]; intro H; [reflexivity|].
  cbn [existsb] in H. apply orb_false_iff in H. destruct H as [H1 H2].
  cbn [cut]. rewrite Ascii.eqb_sym, H1, IH by assumption. reflexivity.
Qed.

Lemma digits_no_char : forall x l, Forall is_digit_char l -> (bN x < 48 \/ 58 <= bN x)%N -> existsb (Ascii.eqb x) l = false.
Proof.
  intros x l F O. induction F as [|c l Hc _ IH]; [reflexivity|]. cbn [existsb]. rewrite IH.
  destruct (digit_char_neq c x Hc O) as [_ ->]. reflexivity.
Qed.

Ltac len := repeat (rewrite app_length || cbn [List.length]).

(* ---- one record -------------------------------------------------------------------------- *)
Definition LF : ascii := Nb 10.

Lemma fmt_pax_record_shape : forall k v, (1 <= List.length k)%nat ->
  exists n : nat, fmt_pax_record k v = dec_N (N.of_nat n) ++ " "%char :: k ++ "="%char :: v ++ [LF] /\
                  n = List.length (fmt_pax_record k v).
Proof.
  intros k v Hk. unfold fmt_pax_record.
  set (base := (List.length k + List.length v + 3)%nat).
  set (body := " "%char :: k ++ "="%char :: v ++ [Nb 10]).
  assert (LB : List.length body = base).
  { unfold body, base. simpl. rewrite app_length. simpl. rewrite app_length. simpl. lia. }
  pose proof (pax_size_fixpoint base ltac:(unfold base; lia)) as FP. cbv zeta in FP.
  fold (nd (N.of_nat base)). set (s1 := (base + nd (N.of_nat base))%nat) in *.
  rewrite app_length, LB. fold (nd (N.of_nat s1)).
  destruct (nd (N.of_nat s1) + base =? s1)%nat eqn:E.
  - exists s1. split; [reflexivity|]. rewrite app_length, LB. fold (nd (N.of_nat s1)). apply Nat.eqb_eq in E. lia.
  - exists (nd (N.of_nat s1) + base)%nat. split; [reflexivity|].
    rewrite app_length, LB. fold (nd (N.of_nat (nd (N.of_nat s1) + base))). lia.
Qed.

Lemma valid_key_no_eq : forall k v, valid_pax_record k v = true -> existsb (Ascii.eqb "="%char) k = false /\ k <> [].
Proof.
  intros k v H. unfold valid_pax_record in H.
  destruct k as [|c k]; [discriminate|]. split; [|discriminate].
  cbn [is_nil orb] in H. destruct (existsb (Ascii.eqb "="%char) (c :: k)); [discriminate | reflexivity].
Qed.

Lemma firstn_app_exact : forall {A} (a b : list A) n, n = List.length a -> firstn n (a ++ b) = a.
Proof. intros A a b n ->. rewrite firstn_app, Nat.sub_diag, firstn_all. simpl. apply app_nil_r. Qed.
Lemma skipn_app_exact : forall {A} (a b : list A) n, n = List.length a -> skipn n (a ++ b) = b.
Proof. intros A a b n ->. rewrite skipn_app, Nat.sub_diag, skipn_all. reflexivity. Qed.

Lemma parse_fmt_pax_record : forall k v rest, valid_pax_record k v = true ->
  (N.of_nat (List.length (fmt_pax_record k v)) < 9223372036854775808)%N ->
  parse_pax_record (fmt_pax_record k v ++ rest) = Ok (k, v, rest).
Proof.
  intros k v rest V Small.
  destruct (valid_key_no_eq k v V) as [KE KN].
  assert (Hk : (1 <= List.length k)%nat) by (destruct k; [contradiction | simpl; lia]).
  destruct (fmt_pax_record_shape k v Hk) as (n & Shape & Len).
  unfold parse_pax_record. rewrite Shape, <- app_assoc, <- app_comm_cons.
  rewrite cut_app by (apply digits_no_char; [apply dec_N_digits | vm_compute; left; reflexivity]).
  assert (Nsmall : (N.of_nat n < 9223372036854775808)%N) by (rewrite Len; exact Small).
  rewrite parse_int_dec_N by assumption.
  (* lengths *)
  assert (LenEq : n = (nd (N.of_nat n) + (List.length k + List.length v + 3))%nat).
  { rewrite Len at 1. rewrite Shape. len. change (List.length (dec_N (N.of_nat n))) with (nd (N.of_nat n)). lia. }
  fold (nd (N.of_nat n)).
  set (d := nd (N.of_nat n)) in *.
  assert (Dpos : (1 <= d)%nat) by apply nd_pos.
  replace (Z.of_N (N.of_nat n) <? 5)%Z with false by (symmetry; apply Z.ltb_ge; lia).
  match goal with |- context [(Z.of_nat (List.length ?l) <? _)%Z] => assert (LL : (n <= List.length l)%nat) end.
  { len. change (List.length (dec_N (N.of_nat n))) with d. lia. }
  match goal with |- context [(Z.of_nat (List.length ?l) <? ?x)%Z] =>
    replace (Z.of_nat (List.length l) <? x)%Z with false by (symmetry; apply Z.ltb_ge; lia) end.
  cbn [orb].
  replace (Z.of_N (N.of_nat n) - Z.of_nat (d + 1))%Z with (Z.of_nat (List.length k + List.length v + 2)) by lia.
  replace (Z.of_nat (List.length k + List.length v + 2) <=? 0)%Z with false by (symmetry; apply Z.leb_gt; lia).
  rewrite Nat2Z.id.
  assert (R1 : (k ++ "="%char :: v ++ [LF]) ++ rest = (k ++ "="%char :: v) ++ LF :: rest)
    by (repeat (rewrite <- app_assoc || cbn [app]); reflexivity).
  assert (R2 : (k ++ "="%char :: v ++ [LF]) ++ rest = ((k ++ "="%char :: v) ++ [LF]) ++ rest)
    by (repeat (rewrite <- app_assoc || cbn [app]); reflexivity).
  replace (List.length k + List.length v + 2 - 1)%nat with (List.length (k ++ "="%char :: v)) by (len; lia).
  rewrite R1. rewrite firstn_app_exact by reflexivity. rewrite skipn_app_exact by reflexivity.
  rewrite <- R1, R2.
  replace (List.length k + List.length v + 2)%nat with (List.length ((k ++ "="%char :: v) ++ [LF])) by (len; lia).
  rewrite skipn_app_exact by reflexivity.
  cbn [firstn]. change (beqb [LF] [Nb 10]) with true. cbn [negb].
  rewrite cut_app by assumption. rewrite V. reflexivity.
Qed.

(* ---- all records of an extended header ------------------------------------------------------ *)
Definition rec_ok (kv : bytes * bytes) : Prop :=
  valid_pax_record (fst kv) (snd kv) = true /\ has_prefix pax_gnu_sparse (fst kv) = false.

Lemma has_prefix_app : forall p l, has_prefix p (p ++ l) = true.
Proof. induction p as [|c p IH]; intro l; simpl; [reflexivity|]. rewrite aeqb_refl, IH. reflexivity. Qed.

Lemma not_sparse_key : forall k, has_prefix pax_gnu_sparse k = false ->
  (beqb k (lit "GNU.sparse.offset") || beqb k (lit "GNU.sparse.numbytes"))%bool = false.
Proof.
  intros k H. apply orb_false_iff. split; apply beqb_neq; intro E; subst k; vm_compute in H; discriminate.
Qed.

Lemma pax_data_cons : forall kv r, pax_data (kv :: r) = fmt_pax_record (fst kv) (snd kv) ++ pax_data r.
Proof. reflexivity. Qed.

Lemma fmt_pax_record_length_pos : forall k v, (1 <= List.length (fmt_pax_record k v))%nat.
Proof.
  intros k v. unfold fmt_pax_record.
  match goal with |- context [if ?c then _ else _] => destruct c end; rewrite app_length; simpl; lia.
Qed.

Lemma parse_pax_data : forall recs fuel m, Forall rec_ok recs -> (N.of_nat (List.length (pax_data recs)) < 9223372036854775808)%N ->
  (List.length (pax_data recs) < fuel)%nat ->
  parse_pax fuel (pax_data recs) m = Ok (fold_left (fun m kv => pm_set (fst kv) (snd kv) m) recs m).
Proof.
  induction recs as [|[k v] r IH]; intros fuel m F Small Fu.
  - destruct fuel; reflexivity.
  - inversion F as [|? ? [V S] F']; subst. simpl fst in *. simpl snd in *.
    rewrite pax_data_cons in *. simpl fst in *. simpl snd in *.
    rewrite app_length in Small, Fu. pose proof (fmt_pax_record_length_pos k v) as P.
    destruct fuel as [|fuel]; [lia|].
    cbn [parse_pax].
    destruct (fmt_pax_record k v ++ pax_data r) eqn:E.
    { apply app_eq_nil in E. destruct E as [E _]. rewrite E in P. simpl in P. lia. }
    rewrite <- E. rewrite parse_fmt_pax_record by (assumption || lia).
    cbn [rbind]. rewrite not_sparse_key by assumption.
    rewrite IH by (assumption || lia). reflexivity.
Qed.
