(* C06 — byte-level tar codec: the round trip of a member and of an archive,
   the block structure of the stream, injectivity of the writer. *)
From Apko Require Import Base.Prelude Model.Tar Model.TarBytes Spec.TarBytesSpec Generated.C06Tar
  Proofs.TarBytesNum Proofs.TarBytesPax Proofs.TarBytesBlock Proofs.TarBytesEnv Proofs.TarBytesHeader.
From Coq Require Import Lia.
Open Scope list_scope.

(* ---- lookups in the records that travel with a member ------------------------------------------ *)
Lemma pax_all_get : forall h, hdr_ok h ->
  pm_get k_path (pax_all h) = (if needs_pax_str 100 (h_name h) then Some (h_name h) else None) /\
  pm_get k_linkpath (pax_all h) = (if needs_pax_str 100 (h_link h) then Some (h_link h) else None) /\
  pm_get k_uname (pax_all h) = (if needs_pax_str 32 (h_uname h) then Some (h_uname h) else None) /\
  pm_get k_gname (pax_all h) = (if needs_pax_str 32 (h_gname h) then Some (h_gname h) else None) /\
  pm_get k_uid (pax_all h) = (if needs_pax_num 8 (h_uid h) then Some (dec_Z (h_uid h)) else None) /\
  pm_get k_gid (pax_all h) = (if needs_pax_num 8 (h_gid h) then Some (dec_Z (h_gid h)) else None) /\
  pm_get k_size (pax_all h) = (if needs_pax_num 12 (h_size h) then Some (dec_Z (h_size h)) else None) /\
  pm_get k_mtime (pax_all h) = (if needs_pax_num 12 (h_mtime h) then Some (dec_Z (h_mtime h)) else None) /\
  pm_get k_atime (pax_all h) = None /\ pm_get k_ctime (pax_all h) = None.
Proof.
  intros h O.
  rewrite !(pax_all_get_basic h _ O) by reflexivity.
  unfold pax_basic.
  repeat split;
    repeat (rewrite pm_get_cset_other by kneq); try rewrite pm_get_cset_same;
    repeat (rewrite pm_get_cset_other by kneq); reflexivity.
Qed.

Lemma sparse_key_not_in : forall h k, hdr_ok h -> has_prefix pax_gnu_sparse k = true -> pm_get k (pax_all h) = None.
Proof.
  intros h k O S. apply pm_get_none. intros kv I E. apply pax_all_in in I. destruct I as [I|I].
  - pose proof (ok_pax_keys h O) as F. rewrite Forall_forall in F. destruct (F _ I) as (_ & _ & _ & _ & X). congruence.
  - apply pax_basic_keys in I. apply basic_key_cases in I. rewrite E in I. cbn [In] in I.
    repeat (destruct I as [I|I]; [subst k; discriminate|]). destruct I.
Qed.

Lemma pax_written_no_sparse : forall h, hdr_ok h -> has_sparse_records (pax_written h) = false.
Proof.
  intros h O. unfold pax_written. destruct (ustar_okb h); [reflexivity|].
  unfold has_sparse_records. rewrite !(sparse_key_not_in h _ O) by reflexivity. reflexivity.
Qed.

(* ---- PAX values read back ------------------------------------------------------------------------- *)
Lemma dec_Z_nonnil : forall z, is_nil (dec_Z z) = false.
Proof.
  intros z. destruct z; unfold dec_Z; try reflexivity;
    match goal with |- is_nil (dec_N ?n) = false => pose proof (dec_N_nonnil n); destruct (dec_N n); [contradiction | reflexivity] end.
Qed.

Lemma dec_Z_no_dot : forall z, existsb (Ascii.eqb "."%char) (dec_Z z) = false.
Proof.
  intros z.
  assert (G : forall n, existsb (Ascii.eqb "."%char) (dec_N n) = false).
  { intros n. apply digits_no_char; [apply dec_N_digits | vm_compute; left; reflexivity]. }
  destruct z; unfold dec_Z; apply G.
Qed.

Lemma parse_pax_time_dec : forall z, (- 9223372036854775808 <= z < 9223372036854775808)%Z ->
  parse_pax_time (dec_Z z) = Ok (z, 0%N).
Proof.
  intros z H. unfold parse_pax_time. rewrite cut_none by apply dec_Z_no_dot.
  rewrite parse_int_dec_Z by assumption. reflexivity.
Qed.

Lemma pax_int_needed : forall m k z d, (- 9223372036854775808 <= z < 9223372036854775808)%Z ->
  pm_get k m = Some (dec_Z z) -> pax_int m k d = Ok z.
Proof. intros m k z d H G. unfold pax_int. rewrite G, dec_Z_nonnil, parse_int_dec_Z by assumption. reflexivity. Qed.
Lemma pax_int_absent : forall m k d, pm_get k m = None -> pax_int m k d = Ok d.
Proof. intros m k d G. unfold pax_int. rewrite G. reflexivity. Qed.
Lemma pax_time_absent : forall m k d, pm_get k m = None -> pax_time m k d = Ok d.
Proof. intros m k d G. unfold pax_time. rewrite G. reflexivity. Qed.
Lemma pax_field_absent : forall m k d, pm_get k m = None -> pax_field m k d = d.
Proof. intros m k d G. unfold pax_field. rewrite G. reflexivity. Qed.
Lemma pax_field_present : forall m k v d, pm_get k m = Some v -> v <> [] -> pax_field m k d = v.
Proof. intros m k v d G N. unfold pax_field. rewrite G. destruct v; [contradiction | reflexivity]. Qed.

(* a numeric field and its record *)
Lemma num_roundtrip : forall m k w z, (2 <= w)%nat -> (w <= 21)%nat ->
  (- 9223372036854775808 <= z < 9223372036854775808)%Z ->
  pm_get k m = (if needs_pax_num w z then Some (dec_Z z) else None) ->
  pax_int m k (if fits_octal w z then z else 0%Z) = Ok z.
Proof.
  intros m k w z W1 W2 R G. unfold needs_pax_num in G. destruct (fits_octal w z); cbn [negb] in G.
  - apply pax_int_absent. assumption.
  - eapply pax_int_needed; eassumption.
Qed.

Lemma str_roundtrip : forall m k w s, has_nul s = false ->
  pm_get k m = (if needs_pax_str w s then Some s else None) ->
  pax_field m k (parse_string (fst (fs_ascii w s))) = s.
Proof.
  intros m k w s N G. destruct (needs_pax_str w s) eqn:E.
  - apply pax_field_present; [assumption | eapply needs_str_true_nonnil; eassumption].
  - rewrite pax_field_absent by assumption. apply needs_str_false in E. destruct E as [A L].
    unfold fs_ascii, fs_plain. cbn [fst]. rewrite to_ascii_id by assumption. apply parse_string_fstr; assumption.
Qed.

(* ---- what the reader finds in the blocks the writer fills ---------------------------------------------- *)
Lemma parsed_tfields : forall h name fs ext,
  parsed_fields (tfields h name fs fmt_octal magic_ustar ext) =
  Ok ({| h_type := h_type h;
         h_name := (let nm := parse_string (fst (fs 100%nat name)) in
                    let p := parse_string (firstn 155 ext) in if is_nil p then nm else p ++ "/"%char :: nm);
         h_link := parse_string (fst (fs 100%nat (h_link h)));
         h_mode := if fits_octal 8 (h_mode h) then h_mode h else 0%Z;
         h_uid := if fits_octal 8 (h_uid h) then h_uid h else 0%Z;
         h_gid := if fits_octal 8 (h_gid h) then h_gid h else 0%Z;
         h_size := if fits_octal 12 (h_size h) then h_size h else 0%Z;
         h_mtime := (let t := if is_zero_time (h_mtime h) (h_mnsec h) then 0%Z else h_mtime h in if fits_octal 12 t then t else 0%Z);
         h_mnsec := 0%N;
         h_uname := parse_string (fst (fs 32%nat (h_uname h))); h_gname := parse_string (fst (fs 32%nat (h_gname h)));
         h_devmaj := if fits_octal 8 (h_devmaj h) then h_devmaj h else 0%Z;
         h_devmin := if fits_octal 8 (h_devmin h) then h_devmin h else 0%Z; h_pax := [] |}, TUSTAR).
Proof.
  intros. unfold parsed_fields, tfields.
  cbn [f_name f_mode f_uid f_gid f_size f_mtime f_type f_link f_magic f_uname f_gname f_devmaj f_devmin f_ext].
  rewrite !parse_fmt_octal_any by lia. reflexivity.
Qed.

Lemma zero_time_false : forall h, hdr_ok h -> is_zero_time (h_mtime h) (h_mnsec h) = false.
Proof.
  intros h O. unfold is_zero_time. replace (h_mtime h =? zero_time_sec)%Z with false; [reflexivity|].
  symmetry. apply Z.eqb_neq. apply (ok_mtime_nz h O).
Qed.

Definition body_len (h : thdr) : nat := if header_only (h_type h) then O else Z.to_nat (h_size h).

Definition view_hdr (h : thdr) : thdr := fst (read_view (h, [])).

Lemma fits_ge0 : forall w z, (0 <= z)%Z -> (0 <= (if fits_octal w z then z else 0))%Z.
Proof. intros. destruct (fits_octal w z); lia. Qed.

(* the main block of a member in the PAX format, read with the records of the member *)
Lemma read_main_pax : forall h body tail st, hdr_ok h -> ustar_okb h = false ->
  List.length body = body_len h ->
  r_name st = [] -> r_link st = [] -> (match r_pax st with Some m => m | None => [] end) = pax_all h ->
  read_step (block_of (tfields h (h_name h) fs_ascii fmt_octal magic_ustar (zeros 167)) ++
             body ++ zeros (pad_len (List.length body)) ++ tail) st = RMember (view_hdr h, body) tail.
Proof.
  intros h body tail st O U LB RN RL RP.
  destruct (pax_all_get h O) as (Gp & Gl & Gun & Ggn & Gu & Gg & Gs & Gm & Ga & Gc).
  eapply read_step_member with (hr := _).
  - apply tfields_ok; [apply fs_ascii_length | apply fmt_octal_length | apply zeros_length | reflexivity].
  - apply parsed_tfields.
  - cbn [h_type]. apply (ok_type h O).
  - cbn [h_size]. apply fits_ge0. apply (ok_size h O).
  - assumption.
  - assumption.
  - rewrite RP. unfold merge_pax.
    cbn [h_type h_name h_link h_mode h_uid h_gid h_size h_mtime h_mnsec h_uname h_gname h_devmaj h_devmin].
    rewrite (zero_time_false h O). cbv zeta.
    rewrite (num_roundtrip _ k_uid 8 (h_uid h)) by (lia || apply O || assumption).
    rewrite (num_roundtrip _ k_gid 8 (h_gid h)) by (lia || apply O || assumption).
    rewrite (num_roundtrip _ k_size 12 (h_size h)) by (lia || (pose proof (ok_size h O); lia) || assumption).
    cbn [rbind].
    assert (MT : pax_time (pax_all h) k_mtime ((if fits_octal 12 (h_mtime h) then h_mtime h else 0%Z), 0%N) = Ok (h_mtime h, 0%N)).
    { unfold needs_pax_num in Gm. destruct (fits_octal 12 (h_mtime h)); cbn [negb] in Gm.
      - apply pax_time_absent. assumption.
      - unfold pax_time. rewrite Gm, dec_Z_nonnil. apply parse_pax_time_dec. apply (ok_mtime h O). }
    rewrite MT. rewrite (pax_time_absent _ k_atime) by assumption. rewrite (pax_time_absent _ k_ctime) by assumption.
    cbn [rbind fst snd].
    change (parse_string (firstn 155 (zeros 167))) with (@nil ascii). cbn [is_nil].
    rewrite (str_roundtrip _ k_path 100 (h_name h)) by (apply O || assumption).
    rewrite (str_roundtrip _ k_linkpath 100 (h_link h)) by (apply O || assumption).
    rewrite (str_roundtrip _ k_uname 32 (h_uname h)) by (apply O || assumption).
    rewrite (str_roundtrip _ k_gname 32 (h_gname h)) by (apply O || assumption).
    rewrite (ok_mode h O), (ok_devmaj h O), (ok_devmin h O).
    unfold view_hdr, read_view, pax_written. rewrite U. cbn [fst]. rewrite (ok_nsec h O). reflexivity.
  - unfold view_hdr, read_view. cbn [fst h_size]. apply (ok_size h O).
  - unfold view_hdr, read_view. cbn [fst h_pax]. apply pax_written_no_sparse. assumption.
  - unfold view_hdr, read_view. cbn [fst h_size h_type]. exact LB.
Qed.

(* the block of a member in the USTAR format *)
Definition ustar_split (h : thdr) : bytes * bytes :=
  match split_ustar (h_name h) with Some (p, s) => (p, s) | None => ([], h_name h) end.

Lemma ustar_okb_facts : forall h, ustar_okb h = true ->
  h_pax h = [] /\
  (needs_pax_str 100 (h_name h) = false \/ exists p s, split_ustar (h_name h) = Some (p, s)) /\
  needs_pax_str 100 (h_link h) = false /\ needs_pax_str 32 (h_uname h) = false /\ needs_pax_str 32 (h_gname h) = false /\
  fits_octal 8 (h_uid h) = true /\ fits_octal 8 (h_gid h) = true /\ fits_octal 12 (h_size h) = true /\
  fits_octal 12 (h_mtime h) = true.
Proof.
  intros h H. unfold ustar_okb, needs_pax_num in H.
  apply andb_true_iff in H. destruct H as [H FM]. apply andb_true_iff in H. destruct H as [H FS].
  apply andb_true_iff in H. destruct H as [H FG]. apply andb_true_iff in H. destruct H as [H FU].
  apply andb_true_iff in H. destruct H as [H NG]. apply andb_true_iff in H. destruct H as [H NU].
  apply andb_true_iff in H. destruct H as [H NL]. apply andb_true_iff in H. destruct H as [PX NN].
  apply negb_true_iff in NL, NU, NG. rewrite negb_involutive in FU, FG, FS, FM.
  repeat split; try assumption.
  - destruct (h_pax h); [reflexivity | discriminate].
  - apply orb_true_iff in NN. destruct NN as [A|A].
    + left. apply negb_true_iff in A. assumption.
    + right. destruct (split_ustar (h_name h)) as [[p s]|]; [eauto | discriminate].
Qed.

Lemma ustar_name_roundtrip : forall h, hdr_ok h -> ustar_okb h = true ->
  let '(p, s) := ustar_split h in
  (List.length s <= 100)%nat /\
  (let nm := parse_string (fst (fs_plain 100 s)) in
   let pp := parse_string (firstn 155 (fstr 155 p ++ zeros 12)) in
   if is_nil pp then nm else pp ++ "/"%char :: nm) = h_name h.
Proof.
  intros h O U. destruct (ustar_okb_facts h U) as (_ & N & _).
  unfold ustar_split. destruct (split_ustar (h_name h)) as [[p s]|] eqn:E.
  - apply split_ustar_spec in E. destruct E as (EQ & PN & LP & LS & A).
    split; [assumption|].
    rewrite EQ, is_ascii_app in A. apply andb_true_iff in A. destruct A as [A1 A2].
    cbn [is_ascii forallb] in A2. apply andb_true_iff in A2. destruct A2 as [_ A2]. fold (is_ascii s) in A2.
    rewrite firstn_app_exact by (rewrite fstr_length; reflexivity).
    unfold fs_plain. cbn [fst]. cbv zeta.
    rewrite !parse_string_fstr by (assumption || apply is_ascii_no_nul; assumption).
    destruct p; [contradiction|]. cbn [is_nil]. symmetry. assumption.
  - destruct N as [N|(p & s & X)]; [|discriminate].
    apply needs_str_false in N. destruct N as [A L]. split; [assumption|].
    rewrite firstn_app_exact by (rewrite fstr_length; reflexivity).
    unfold fs_plain. cbn [fst]. cbv zeta.
    change (parse_string (fstr 155 [])) with (@nil ascii). cbn [is_nil].
    apply parse_string_fstr; [assumption | apply is_ascii_no_nul; assumption].
Qed.

Lemma read_main_ustar : forall h body tail, hdr_ok h -> ustar_okb h = true ->
  List.length body = body_len h ->
  read_step (block_of (tfields h (snd (ustar_split h)) fs_plain fmt_octal magic_ustar (fstr 155 (fst (ustar_split h)) ++ zeros 12)) ++
             body ++ zeros (pad_len (List.length body)) ++ tail) rstate0 = RMember (view_hdr h, body) tail.
Proof.
  intros h body tail O U LB.
  pose proof (ustar_name_roundtrip h O U) as NR.
  destruct (ustar_okb_facts h U) as (PX & _ & NL & NU & NG & FU & FG & FS & FM).
  destruct (ustar_split h) as [p s] eqn:SP. destruct NR as [LS NR]. cbn [fst snd].
  apply needs_str_false in NL, NU, NG. destruct NL as [AL LL]. destruct NU as [AU LU]. destruct NG as [AG LG].
  eapply read_step_member with (hr := _).
  - apply tfields_ok; [apply fs_plain_length | apply fmt_octal_length | rewrite app_length, fstr_length, zeros_length; reflexivity |].
    rewrite skipn_app, skipn_all2 by (rewrite fstr_length; lia). rewrite fstr_length. reflexivity.
  - apply parsed_tfields.
  - cbn [h_type]. apply (ok_type h O).
  - cbn [h_size]. apply fits_ge0. apply (ok_size h O).
  - reflexivity.
  - reflexivity.
  - cbn [rstate0 r_pax]. unfold merge_pax.
    cbn [h_type h_name h_link h_mode h_uid h_gid h_size h_mtime h_mnsec h_uname h_gname h_devmaj h_devmin pm_get pax_int pax_time pax_field rbind fst snd].
    cbv zeta in NR. rewrite NR. rewrite (zero_time_false h O).
    rewrite FU, FG, FS, FM, (ok_mode h O), (ok_devmaj h O), (ok_devmin h O).
    unfold fs_plain. cbn [fst].
    rewrite !parse_string_fstr by (assumption || apply is_ascii_no_nul; assumption).
    unfold view_hdr, read_view, pax_written. rewrite U. cbn [fst]. rewrite (ok_nsec h O). reflexivity.
  - unfold view_hdr, read_view. cbn [fst h_size]. apply (ok_size h O).
  - unfold view_hdr, read_view. cbn [fst h_pax]. apply pax_written_no_sparse. assumption.
  - unfold view_hdr, read_view. cbn [fst h_size h_type]. exact LB.
Qed.

(* ---- what WriteHeader writes --------------------------------------------------------------------------- *)
Definition written_header (h : thdr) : res (bytes * nat) :=
  if ustar_okb h then
    Ok (block_of (tfields h (snd (ustar_split h)) fs_plain fmt_octal magic_ustar (fstr 155 (fst (ustar_split h)) ++ zeros 12)),
        body_len h)
  else
    do xhdr <- (if negb (is_nil (pax_all h))
                then raw_file (pax_header_name (h_name h)) (pax_data (pax_all h)) T_XHDR magic_ustar else Ok []);
    Ok (xhdr ++ block_of (tfields h (h_name h) fs_ascii fmt_octal magic_ustar (zeros 167)), body_len h).

Lemma fs_plain_ok : forall w s, (List.length s <= w)%nat -> snd (fs_plain w s) = true.
Proof. intros. unfold fs_plain. cbn [snd]. apply Nat.leb_le. assumption. Qed.
Lemma fmt_octal_ok : forall w x, snd (fmt_octal w x) = fits_octal w x.
Proof. reflexivity. Qed.

Lemma write_header_ok : forall h, hdr_ok h -> write_header 0 h = written_header h.
Proof.
  intros h O.
  destruct (allowed_formats_ok h O) as (g & pr & A).
  destruct (std_type_facts _ (ok_type h O)) as (_ & T2 & T3 & _).
  pose proof (ok_nsec h O) as NS.
  pose proof (zero_time_false h O) as ZT.
  assert (UF : ustar_okb h = true -> snd (template h (snd (ustar_split h)) fs_plain fmt_octal magic_ustar
                                             (fstr 155 (fst (ustar_split h)) ++ zeros 12)) = true).
  { intro U. pose proof (ustar_name_roundtrip h O U) as NR.
    destruct (ustar_okb_facts h U) as (PX & _ & NL & NU & NG & FU & FG & FS & FM).
    destruct (ustar_split h) as [p s]. destruct NR as [LS _]. cbn [fst snd].
    apply needs_str_false in NL, NU, NG. destruct NL as [AL LL]. destruct NU as [AU LU]. destruct NG as [AG LG].
    rewrite template_snd, ZT, !fs_plain_ok, !fmt_octal_ok by assumption.
    rewrite FU, FG, FS, FM, (ok_mode h O), (ok_devmaj h O), (ok_devmin h O). reflexivity. }
  pose proof (ok_pax_len h O) as PL.
  unfold written_header, ustar_split, body_len in *. unfold pax_written in PL.
  destruct h as [ty nm lk mo ui gi sz mt ns un gn dj dn px].
  cbn [h_type h_name h_link h_mode h_uid h_gid h_size h_mtime h_mnsec h_uname h_gname h_devmaj h_devmin h_pax] in *.
  subst ns. unfold write_header.
  cbn [h_type h_name h_link h_mode h_uid h_gid h_size h_mtime h_mnsec h_uname h_gname h_devmaj h_devmin h_pax].
  rewrite T3. change (0 =? 0)%N with true. cbv iota beta zeta. change (round_sec mt 0) with mt.
  rewrite A. cbn [rbind af_u af_p af_pax h_type h_size h_name].
  destruct (ustar_okb _) eqn:U.
  - specialize (UF eq_refl).
    destruct (split_ustar nm) as [[p s]|]; cbn [fst snd] in *;
      rewrite (surjective_pairing (template _ _ _ _ _ _)), UF, template_fst; reflexivity.
  - rewrite T2, orb_false_r. rewrite PL.
    destruct (negb (is_nil (pax_all _))); cbn [rbind];
      [destruct (raw_file _ _ _ _); cbn [rbind]; try reflexivity|];
      rewrite (surjective_pairing (template _ _ _ _ _ _)), template_fst; reflexivity.
Qed.

(* ---- one member ---------------------------------------------------------------------------------------- *)
Lemma pad_total : forall n, ((n + pad_len n) mod 512 = 0)%nat.
Proof.
  intros n. unfold pad_len.
  assert (H := Nat.div_mod n 512 ltac:(lia)). assert (n mod 512 < 512)%nat by (apply Nat.mod_upper_bound; lia).
  remember (n mod 512)%nat as r eqn:Hr. remember (n / 512)%nat as q eqn:Hq.
  destruct (Nat.eq_dec r 0) as [e|e].
  - rewrite e. replace ((512 - 0) mod 512)%nat with 0%nat by reflexivity. rewrite Nat.add_0_r. rewrite <- Hr. exact e.
  - rewrite (Nat.mod_small (512 - r) 512) by lia. replace (n + (512 - r))%nat with ((q + 1) * 512)%nat by lia. apply Nat.mod_mul. lia.
Qed.

Lemma mod512_add : forall a b, (a mod 512 = 0)%nat -> (b mod 512 = 0)%nat -> ((a + b) mod 512 = 0)%nat.
Proof. intros a b Ha Hb. rewrite Nat.add_mod by lia. rewrite Ha, Hb. reflexivity. Qed.

Ltac mod512 := repeat (first [apply pad_total | reflexivity | apply mod512_add]).

Lemma view_pair : forall h body, (view_hdr h, body) = read_view (h, body).
Proof. reflexivity. Qed.

Lemma member_roundtrip : forall h body, hdr_ok h -> List.length body = body_len h ->
  exists bs, write_member 0 (h, body) = Ok bs /\ (List.length bs mod 512 = 0)%nat /\ (512 <= List.length bs)%nat /\
    forall tail f, exists g, (f <= g)%nat /\
      read_members (S (S f)) (bs ++ tail) rstate0 =
      (do ms <- read_members g tail rstate0; Ok (read_view (h, body) :: ms)).
Proof.
  intros h body O LB. unfold write_member. rewrite write_header_ok by assumption. unfold written_header.
  destruct (ustar_okb h) eqn:U.
  - cbn [rbind]. rewrite <- LB, Nat.eqb_refl.
    assert (FU : fields_ok (tfields h (snd (ustar_split h)) fs_plain fmt_octal magic_ustar (fstr 155 (fst (ustar_split h)) ++ zeros 12))).
    { apply tfields_ok; [apply fs_plain_length | apply fmt_octal_length | rewrite app_length, fstr_length, zeros_length; reflexivity |].
      rewrite skipn_app, skipn_all2 by (rewrite fstr_length; lia). rewrite fstr_length. reflexivity. }
    pose proof (block_length _ FU) as BL.
    eexists. split; [reflexivity|]. rewrite !app_length, zeros_length, BL.
    split; [mod512|]. split; [lia|].
    intros tail f. exists (S f). split; [lia|].
    rewrite <- !app_assoc. cbn [read_members]. rewrite read_main_ustar by assumption.
    rewrite view_pair. reflexivity.
  - assert (PL : too_long_special (List.length (pax_data (pax_all h))) = false).
    { pose proof (ok_pax_len h O) as PL. unfold pax_written in PL. rewrite U in PL. exact PL. }
    assert (FP : fields_ok (tfields h (h_name h) fs_ascii fmt_octal magic_ustar (zeros 167))).
    { apply tfields_ok; [apply fs_ascii_length | apply fmt_octal_length | apply zeros_length | reflexivity]. }
    pose proof (block_length _ FP) as BL.
    destruct (is_nil (pax_all h)) eqn:NP; cbn [negb rbind].
    + rewrite <- LB, Nat.eqb_refl. cbn [app].
      eexists. split; [reflexivity|]. rewrite !app_length, zeros_length, BL.
      split; [mod512|]. split; [lia|].
      intros tail f. exists (S f). split; [lia|].
      rewrite <- !app_assoc. cbn [read_members].
      rewrite read_main_pax; try assumption; try reflexivity.
      cbn [rstate0 r_pax]. destruct (pax_all h); [reflexivity | discriminate].
    + destruct (raw_file_x (pax_header_name (h_name h)) (pax_data (pax_all h)) PL) as (fx & FX & RX & hx & PX & TX & SX).
      rewrite RX. cbn [rbind]. rewrite <- LB, Nat.eqb_refl.
      pose proof (block_length _ FX) as BLX.
      eexists. split; [reflexivity|]. rewrite !app_length, !zeros_length, BL, BLX.
      split; [mod512|]. split; [lia|].
      intros tail f. exists f. split; [lia|].
      rewrite <- !app_assoc. cbn [read_members].
      rewrite (read_step_x fx hx (pax_all h)) by (assumption || apply pax_all_rec_ok; assumption).
      rewrite read_main_pax; try assumption; try reflexivity.
      cbn [r_pax]. apply (pm_of_list_wf _ (pax_all_wf h)).
Qed.

(* ---- the archive ------------------------------------------------------------------------------------------ *)
Definition member_ok (m : member) : Prop := hdr_ok (fst m) /\ List.length (snd m) = body_len (fst m).

Lemma member_okb_ok : forall m, member_okb m = true -> member_ok m.
Proof.
  intros [h body] H. unfold member_okb in H. apply andb_true_iff in H. destruct H as [H1 H2].
  split; [apply hdr_okb_ok; assumption | apply Nat.eqb_eq in H2; exact H2].
Qed.

Lemma read_end : forall f st, read_members (S f) (zeros 1024) st = Ok [].
Proof. intros. cbn [read_members]. replace (read_step (zeros 1024) st) with REnd by (vm_compute; reflexivity). reflexivity. Qed.

Lemma members_roundtrip : forall ms, Forall member_ok ms ->
  exists bs, write_members 0 ms = Ok bs /\ (List.length bs mod 512 = 0)%nat /\ (512 * List.length ms <= List.length bs)%nat /\
    forall f, (2 * List.length ms < f)%nat -> read_members f (bs ++ zeros 1024) rstate0 = Ok (map read_view ms).
Proof.
  induction 1 as [|[h body] ms [O LB] _ IH].
  - exists []. repeat split; try reflexivity; try (simpl; lia).
    intros f Hf. destruct f; [simpl in Hf; lia|]. apply read_end.
  - destruct IH as (b & WB & MB & LBs & RB).
    cbn [fst snd] in O, LB.
    destruct (member_roundtrip h body O LB) as (a & WA & MA & LA & RA).
    exists (a ++ b).
    change (write_members 0 ((h, body) :: ms)) with (do a <- write_member 0 (h, body); do b <- write_members 0 ms; Ok (a ++ b)).
    split; [unfold bytes in *; rewrite WA, WB; reflexivity|]. rewrite app_length. split; [apply mod512_add; assumption|].
    split; [cbn [List.length]; lia|].
    intros f Hf. cbn [List.length] in Hf.
    destruct f as [|[|f]]; try lia.
    rewrite <- app_assoc. destruct (RA (b ++ zeros 1024) f) as (g & Hg & R). rewrite R.
    rewrite RB by lia. reflexivity.
Qed.

Lemma write_archive_unfold : forall ms, write_archive ms = (do b <- write_members 0 ms; Ok (b ++ zeros 1024)).
Proof. reflexivity. Qed.

Theorem bytes_roundtrip : forall ms, forallb member_okb ms = true ->
  exists bs, write_archive ms = Ok bs /\ read_archive bs = Ok (map read_view ms).
Proof.
  intros ms H.
  assert (F : Forall member_ok ms).
  { apply Forall_forall. intros m I. apply member_okb_ok. rewrite forallb_forall in H. apply H. assumption. }
  destruct (members_roundtrip ms F) as (b & W & _ & L & R).
  exists (b ++ zeros 1024). rewrite write_archive_unfold, W. split; [reflexivity|].
  unfold read_archive. apply R. rewrite app_length. lia.
Qed.

(* block structure: a whole number of 512-byte blocks, the last two of them zero *)
Theorem bytes_blocks : forall ms bs, forallb member_okb ms = true -> write_archive ms = Ok bs ->
  (List.length bs mod 512 = 0)%nat /\ exists pre, bs = pre ++ zeros 1024 /\ (List.length pre mod 512 = 0)%nat.
Proof.
  intros ms bs H W.
  assert (F : Forall member_ok ms).
  { apply Forall_forall. intros m I. apply member_okb_ok. rewrite forallb_forall in H. apply H. assumption. }
  destruct (members_roundtrip ms F) as (b & WB & M & _ & _).
  rewrite write_archive_unfold, WB in W. cbn [rbind] in W. inversion W; subst bs.
  split.
  - rewrite app_length, zeros_length. apply mod512_add; [assumption | reflexivity].
  - exists b. split; [reflexivity | assumption].
Qed.

(* ---- the writer is injective --------------------------------------------------------------------------------- *)
Lemma pm_set_lt_all : forall k v m, (forall kv, In kv m -> bcmp k (fst kv) = Lt) -> pm_set k v m = (k, v) :: m.
Proof.
  intros k v [|[k' v'] r] H; [reflexivity|]. cbn [pm_set].
  pose proof (H (k', v') ltac:(left; reflexivity)) as H0. cbn [fst] in H0. rewrite H0. reflexivity.
Qed.

Lemma filter_set : forall (P : bytes -> bool) k v m, pm_wf m ->
  filter (fun kv => P (fst kv)) (pm_set k v m) =
  if P k then pm_set k v (filter (fun kv => P (fst kv)) m) else filter (fun kv => P (fst kv)) m.
Proof.
  intros P k v. induction m as [|[k' v'] r IH]; intro W.
  - cbn [pm_set filter fst]. destruct (P k); reflexivity.
  - destruct W as [W1 W2]. cbn [pm_set]. destruct (bcmp k k') eqn:E.
    + apply bcmp_eq in E. subst k'. cbn [filter fst]. destruct (P k); [|reflexivity].
      cbn [pm_set]. rewrite bcmp_refl. reflexivity.
    + cbn [filter fst]. destruct (P k) eqn:PK; [|reflexivity].
      symmetry. apply pm_set_lt_all. intros kv I.
      assert (I' : In kv ((k', v') :: r)).
      { destruct (P k'); [|right]; [|apply filter_In in I; apply I].
        destruct I as [<-|I]; [left; reflexivity | right; apply filter_In in I; apply I]. }
      destruct I' as [<-|I']; [exact E|]. eapply bcmp_lt_trans; [exact E | apply W1; assumption].
    + cbn [filter fst]. rewrite (IH W2). destruct (P k') eqn:PK', (P k) eqn:PK; try reflexivity.
      cbn [pm_set]. rewrite E. reflexivity.
Qed.

Lemma filter_fold_set : forall (P : bytes -> bool) l m, pm_wf m -> (forall kv, In kv l -> P (fst kv) = true) ->
  filter (fun kv => P (fst kv)) (fold_left (fun m kv => pm_set (fst kv) (snd kv) m) l m) =
  fold_left (fun m kv => pm_set (fst kv) (snd kv) m) l (filter (fun kv => P (fst kv)) m).
Proof.
  intros P. induction l as [|[k v] l IH]; intros m W H; [reflexivity|].
  cbn [fold_left fst snd]. rewrite IH; [|apply pm_set_wf; assumption | intros kv I; apply H; right; assumption].
  rewrite filter_set by assumption.
  pose proof (H (k, v) ltac:(left; reflexivity)) as H0. cbn [fst] in H0. rewrite H0. reflexivity.
Qed.

Lemma user_records_written : forall h, hdr_ok h -> user_records (pax_written h) = h_pax h.
Proof.
  intros h O. unfold pax_written. destruct (ustar_okb h) eqn:U.
  - destruct (ustar_okb_facts h U) as (PX & _). rewrite PX. reflexivity.
  - unfold user_records, pax_all.
    rewrite (filter_fold_set (fun k => negb (basic_key k))); [|apply pax_basic_wf|].
    + replace (filter (fun kv : bytes * bytes => negb (basic_key (fst kv))) (pax_basic h)) with (@nil (bytes * bytes)).
      * apply (pm_of_list_wf _ (ok_pax_wf h O)).
      * symmetry. assert (G : forall l : list (bytes * bytes), (forall kv, In kv l -> basic_key (fst kv) = true) ->
                             filter (fun kv : bytes * bytes => negb (basic_key (fst kv))) l = []).
        { induction l as [|x l IHl]; intro Hl; [reflexivity|]. cbn [filter]. rewrite (Hl x) by (left; reflexivity).
          cbn [negb]. apply IHl. intros kv I. apply Hl. right. assumption. }
        apply G. apply pax_basic_keys.
    + intros kv I. pose proof (ok_pax_keys h O) as F. rewrite Forall_forall in F.
      destruct (F _ I) as (_ & _ & _ & B & _). rewrite B. reflexivity.
Qed.

Lemma read_view_inj : forall m1 m2, member_ok m1 -> member_ok m2 -> read_view m1 = read_view m2 -> m1 = m2.
Proof.
  intros [h1 b1] [h2 b2] [O1 _] [O2 _] E. cbn [fst] in O1, O2.
  pose proof (user_records_written h1 O1) as U1. pose proof (user_records_written h2 O2) as U2.
  unfold read_view in E. inversion E. subst b2.
  assert (P : h_pax h1 = h_pax h2) by congruence.
  f_equal. rewrite (thdr_eta h1), (thdr_eta h2). congruence.
Qed.

Theorem bytes_injective : forall a b bs, forallb member_okb a = true -> forallb member_okb b = true ->
  write_archive a = Ok bs -> write_archive b = Ok bs -> a = b.
Proof.
  intros a b bs Ha Hb Wa Wb.
  destruct (bytes_roundtrip a Ha) as (x & Wx & Rx). destruct (bytes_roundtrip b Hb) as (y & Wy & Ry).
  assert (x = bs) by congruence. assert (y = bs) by congruence. subst x y.
  assert (E : map read_view a = map read_view b) by congruence.
  clear - Ha Hb E. revert b Hb E. induction a as [|m a IH]; intros [|m' b] Hb E; try discriminate; [reflexivity|].
  cbn [map] in E. inversion E. cbn [forallb] in Ha, Hb.
  apply andb_true_iff in Ha, Hb. destruct Ha as [Ha1 Ha2]. destruct Hb as [Hb1 Hb2].
  f_equal; [apply read_view_inj; try apply member_okb_ok; assumption | apply IH; assumption].
Qed.

(* ---- single-field statements used by Properties/C06.v ---------------------------------------------------------- *)
Theorem octal_roundtrip : forall w x, (2 <= w <= 21)%nat -> fits_octal w x = true ->
  parse_numeric (fst (fmt_octal w x)) = Ok x /\ List.length (fst (fmt_octal w x)) = w.
Proof. intros w x [W1 W2] F. split; [apply parse_numeric_fmt_octal; assumption | apply fmt_octal_length]. Qed.

Theorem pax_record_roundtrip : forall k v rest, valid_pax_record k v = true ->
  (N.of_nat (List.length (fmt_pax_record k v)) < 9223372036854775808)%N ->
  parse_pax_record (fmt_pax_record k v ++ rest) = Ok (k, v, rest) /\
  exists n, fmt_pax_record k v = dec_N (N.of_nat n) ++ " "%char :: k ++ "="%char :: v ++ [LF] /\
            n = List.length (fmt_pax_record k v).
Proof.
  intros k v rest V S. split; [apply parse_fmt_pax_record; assumption|].
  apply fmt_pax_record_shape. destruct (valid_key_no_eq k v V) as [_ KN]. destruct k; [contradiction | simpl; lia].
Qed.

Theorem view_fields : forall h b, hdr_okb h = true ->
  let h' := fst (read_view (h, b)) in
  h_type h' = h_type h /\ h_name h' = h_name h /\ h_link h' = h_link h /\ h_mode h' = h_mode h /\ h_uid h' = h_uid h /\
  h_gid h' = h_gid h /\ h_size h' = h_size h /\ h_mtime h' = h_mtime h /\ h_mnsec h' = h_mnsec h /\
  h_uname h' = h_uname h /\ h_gname h' = h_gname h /\ h_devmaj h' = h_devmaj h /\ h_devmin h' = h_devmin h /\
  user_records (h_pax h') = h_pax h /\ snd (read_view (h, b)) = b.
Proof.
  intros h b H. cbv zeta. unfold read_view. cbn [fst snd h_type h_name h_link h_mode h_uid h_gid h_size h_mtime h_mnsec h_uname h_gname h_devmaj h_devmin h_pax].
  repeat split. apply user_records_written. apply hdr_okb_ok. assumption.
Qed.

(* the extended attributes walkFS stores under ITS prefix are the ones archive/tar's
   reader files under Header.Xattrs (its own SCHILY.xattr. prefix) *)
Lemma str_lit : forall s, str (lit s) = s.
Proof. intros. unfold str, lit. apply string_of_list_ascii_of_string. Qed.

Theorem xattr_prefix_roundtrip : forall e, xattrs_of_pax (h_pax (hdr_of_entry e)) = e_xattrs e.
Proof.
  intros e. unfold hdr_of_entry. cbn [h_pax].
  change (lit c06_xattr_prefix) with pax_schily_xattr.
  induction (e_xattrs e) as [|[k v] l IH]; [reflexivity|].
  cbn [map xattrs_of_pax flat_map fst snd]. unfold strip_prefix at 1.
  rewrite has_prefix_app. rewrite skipn_app_exact by reflexivity. rewrite !str_lit.
  cbn [app]. f_equal. exact IH.
Qed.

(* ---- outside the envelope ---------------------------------------------------------------------------------------- *)
Definition ex_hdr (name : string) (uid : Z) (mtime : Z) (pax : list (bytes * bytes)) : thdr :=
  {| h_type := T_REG; h_name := lit name; h_link := []; h_mode := 420; h_uid := uid; h_gid := 0; h_size := 2;
     h_mtime := mtime; h_mnsec := 0; h_uname := lit "root"; h_gname := []; h_devmaj := 0; h_devmin := 0; h_pax := pax |}.

(* a modification time equal to Go's zero time.Time is written as the Unix epoch *)
Lemma zero_time_not_roundtrip :
  let m := (ex_hdr "f" 0 zero_time_sec [], lit "ab") in
  exists bs ms, write_archive [m] = Ok bs /\ read_archive bs = Ok ms /\ ms <> [read_view m] /\ member_okb m = false.
Proof. cbv zeta. eexists. eexists. split; [vm_compute; reflexivity|]. split; [vm_compute; reflexivity|]. split; [discriminate | reflexivity]. Qed.

(* an extended attribute whose name has a '=' cannot be written at all *)
Lemma equals_in_key_refused :
  write_archive [(ex_hdr "f" 0 0 [(lit "SCHILY.xattr.user.a=b", lit "c")], lit "ab")] = Err.
Proof. vm_compute. reflexivity. Qed.

(* a device number of 8^7 makes the writer fall back to the GNU format; the
   model's reader reads it back (not covered by the round-trip theorem) *)
Lemma gnu_fallback_example :
  let h := {| h_type := T_CHR; h_name := lit "dev/x"; h_link := []; h_mode := 384; h_uid := 0; h_gid := 0; h_size := 0;
              h_mtime := 5; h_mnsec := 0; h_uname := []; h_gname := []; h_devmaj := 1; h_devmin := 2097152; h_pax := [] |} in
  member_okb (h, []) = false /\
  match write_archive [(h, [])] with Ok bs => read_archive bs = Ok [(h, [])] | _ => False end.
Proof. cbv zeta. split; vm_compute; reflexivity. Qed.

Definition ex_members : list member :=
  [ (ex_hdr "usr/bin/tool" 0 1700000000 [], lit "ab");
    (ex_hdr "a-very-long-name-that-does-not-fit-the-one-hundred-bytes-of-the-name-field-of-a-ustar-header-block-and-has-no-slash"
       2097152 (-5) [(lit "SCHILY.xattr.user.k", lit "v")], lit "cd");
    ({| h_type := T_SYM; h_name := lit "l"; h_link := lit "usr/bin/tool"; h_mode := 511; h_uid := 0; h_gid := 0; h_size := 0;
        h_mtime := 0; h_mnsec := 0; h_uname := []; h_gname := []; h_devmaj := 0; h_devmin := 0; h_pax := [] |}, []) ].

Lemma ex_members_ok : forallb member_okb ex_members = true /\
  match write_archive ex_members with Ok bs => List.length bs = 4608%nat /\ read_archive bs = Ok (map read_view ex_members) | _ => False end.
Proof. split; [vm_compute; reflexivity|]. vm_compute. split; reflexivity. Qed.
