(* C06 — byte-level tar codec: the block structure of EVERY stream the writer
   model produces (any header it accepts, any format: USTAR, PAX, GNU). *)
From Apko Require Import Base.Prelude Model.TarBytes Spec.TarBytesSpec Generated.C06Tar
  Proofs.TarBytesNum Proofs.TarBytesPax Proofs.TarBytesBlock Proofs.TarBytesEnv Proofs.TarBytesHeader Proofs.TarBytesProofs.
From Coq Require Import Lia.
Open Scope list_scope.

Lemma block_of_len : forall f,
  List.length (f_name f) = 100%nat -> List.length (f_mode f) = 8%nat -> List.length (f_uid f) = 8%nat ->
  List.length (f_gid f) = 8%nat -> List.length (f_size f) = 12%nat -> List.length (f_mtime f) = 12%nat ->
  List.length (f_link f) = 100%nat -> List.length (f_magic f) = 8%nat -> List.length (f_uname f) = 32%nat ->
  List.length (f_gname f) = 32%nat -> List.length (f_devmaj f) = 8%nat -> List.length (f_devmin f) = 8%nat ->
  List.length (f_ext f) = 167%nat -> List.length (block_of f) = 512%nat.
Proof.
  intros. unfold block_of, with_checksum. cbn [List.length]. rewrite !app_length, fixed_digits_length. cbn [List.length].
  rewrite !app_length. lia.
Qed.

Lemma b256_fixed_length : forall k x, List.length (b256_fixed k x) = k.
Proof. induction k as [|k IH]; intro x; cbn [b256_fixed]; [reflexivity|]. rewrite app_length, IH. simpl. lia. Qed.
Lemma set_high_length : forall l, List.length (set_high l) = List.length l.
Proof. destruct l; reflexivity. Qed.
Lemma fmt_numeric_length : forall w x, List.length (fst (fmt_numeric w x)) = w.
Proof.
  intros. unfold fmt_numeric. destruct (fits_octal w x); [apply fmt_octal_length|].
  destruct (fits_b256 w x); cbn [fst]; [rewrite set_high_length; apply b256_fixed_length | apply fmt_octal_length].
Qed.

Lemma template_len : forall h name fs fn magic ext,
  (forall w s, List.length (fst (fs w s)) = w) -> (forall w x, List.length (fst (fn w x)) = w) ->
  List.length magic = 8%nat -> List.length ext = 167%nat ->
  List.length (fst (template h name fs fn magic ext)) = 512%nat.
Proof.
  intros h name fs fn magic ext Hs Hn Hm He. rewrite template_fst. apply block_of_len;
    cbn [tfields f_name f_mode f_uid f_gid f_size f_mtime f_link f_magic f_uname f_gname f_devmaj f_devmin f_ext]; auto.
Qed.

Definition blocks (bs : bytes) : Prop := (List.length bs mod 512 = 0)%nat.
Lemma blocks_app : forall a b, blocks a -> blocks b -> blocks (a ++ b).
Proof. intros a b Ha Hb. unfold blocks in *. rewrite app_length. apply mod512_add; assumption. Qed.
Lemma blocks_nil : blocks [].
Proof. reflexivity. Qed.
Lemma blocks_512 : forall b, List.length b = 512%nat -> blocks b.
Proof. intros b H. unfold blocks. rewrite H. reflexivity. Qed.
Lemma blocks_data : forall d, blocks (d ++ zeros (pad_len (List.length d))).
Proof. intros. unfold blocks. rewrite app_length, zeros_length. apply pad_total. Qed.

Lemma raw_file_blocks : forall name data flag magic bs, List.length magic = 8%nat ->
  raw_file name data flag magic = Ok bs -> blocks bs.
Proof.
  intros name data flag magic bs Hm H. unfold raw_file in H.
  destruct (fmt_octal 12 (Z.of_nat (List.length data))) as [sz ok] eqn:E.
  destruct ok; cbn [negb] in H; [|discriminate]. inversion H; subst. clear H.
  apply blocks_app; [|apply blocks_data].
  apply blocks_512. apply block_of_len;
    cbn [f_name f_mode f_uid f_gid f_size f_mtime f_link f_magic f_uname f_gname f_devmaj f_devmin f_ext];
    try apply fstr_length; try apply fmt_octal_length; try apply zeros_length; try assumption.
  replace sz with (fst (fmt_octal 12 (Z.of_nat (List.length data)))) by (rewrite E; reflexivity). apply fmt_octal_length.
Qed.

Lemma write_header_blocks : forall want h bs n, write_header want h = Ok (bs, n) -> blocks bs.
Proof.
  intros want h bs n H. unfold write_header in H.
  match type of H with context [if Ascii.eqb ?a NUL then ?x else ?y] => set (t := if Ascii.eqb a NUL then x else y) in * end.
  match type of H with (let '(sec, nsec) := ?p in _) = _ => destruct p as [sec nsec] end.
  match type of H with context [allowed_formats want ?hh] => set (h' := hh) in * end.
  destruct (allowed_formats want h') as [a| | |]; cbn [rbind] in H; try discriminate.
  destruct (af_u a).
  - destruct (match split_ustar (h_name h') with Some (p, s) => (p, s) | None => ([], h_name h') end) as [prefix name].
    match type of H with context [template ?a1 ?a2 ?a3 ?a4 ?a5 ?a6] =>
      pose proof (template_len a1 a2 a3 a4 a5 a6 fs_plain_length fmt_octal_length eq_refl) as L;
      destruct (template a1 a2 a3 a4 a5 a6) as [blk ok] end.
    destruct ok; [|discriminate]. inversion H; subst. apply blocks_512. cbn [fst] in L. apply L.
    rewrite app_length, fstr_length, zeros_length. reflexivity.
  - destruct (af_p a).
    + match type of H with rbind ?x _ = _ => destruct x as [xhdr| | |] eqn:X end; cbn [rbind] in H; try discriminate.
      assert (BX : blocks xhdr).
      { destruct (negb (is_nil (af_pax a)) || Ascii.eqb t T_XGLOBAL)%bool.
        - destruct (too_long_special _); [discriminate|]. eapply raw_file_blocks; [|exact X]. reflexivity.
        - inversion X. apply blocks_nil. }
      destruct (Ascii.eqb t T_XGLOBAL).
      * inversion H; subst. exact BX.
      * match type of H with context [template ?a1 ?a2 ?a3 ?a4 ?a5 ?a6] =>
          pose proof (template_len a1 a2 a3 a4 a5 a6 fs_ascii_length fmt_octal_length eq_refl eq_refl) as L;
          destruct (template a1 a2 a3 a4 a5 a6) as [blk ok] end.
        inversion H; subst. apply blocks_app; [exact BX | apply blocks_512; exact L].
    + match type of H with rbind ?x _ = _ => destruct x as [ln| | |] eqn:X1 end; cbn [rbind] in H; try discriminate.
      match type of H with rbind ?x _ = _ => destruct x as [lk| | |] eqn:X2 end; cbn [rbind] in H; try discriminate.
      match type of H with context [template ?a1 ?a2 ?a3 ?a4 ?a5 ?a6] =>
        pose proof (template_len a1 a2 a3 a4 a5 a6 fs_plain_length fmt_numeric_length eq_refl eq_refl) as L;
        destruct (template a1 a2 a3 a4 a5 a6) as [blk ok] end.
      inversion H; subst.
      assert (B1 : blocks ln).
      { destruct (100 <? List.length (h_name h'))%nat; [eapply raw_file_blocks; [|exact X1]; reflexivity | inversion X1; apply blocks_nil]. }
      assert (B2 : blocks lk).
      { destruct (100 <? List.length (h_link h'))%nat; [eapply raw_file_blocks; [|exact X2]; reflexivity | inversion X2; apply blocks_nil]. }
      apply blocks_app; [exact B1|]. apply blocks_app; [exact B2 | apply blocks_512; exact L].
Qed.

Lemma write_members_blocks : forall want ms bs, write_members want ms = Ok bs -> blocks bs.
Proof.
  induction ms as [|[h body] ms IH]; intros bs H; cbn [write_members] in H.
  - inversion H. apply blocks_nil.
  - unfold write_member in H.
    destruct (write_header want h) as [[hb n]| | |] eqn:W; cbn [rbind] in H; try discriminate.
    destruct (n =? List.length body)%nat eqn:E; cbn [rbind] in H; [|discriminate].
    destruct (write_members want ms) as [b| | |]; cbn [rbind] in H; try discriminate.
    inversion H; subst. apply Nat.eqb_eq in E. subst n.
    apply blocks_app; [|apply IH; reflexivity].
    apply blocks_app; [eapply write_header_blocks; exact W | apply blocks_data].
Qed.

(* for EVERY member list the writer accepts *)
Theorem bytes_blocks_all : forall ms bs, write_archive ms = Ok bs ->
  (List.length bs mod 512 = 0)%nat /\ exists pre, bs = pre ++ zeros 1024 /\ (List.length pre mod 512 = 0)%nat.
Proof.
  intros ms bs H. rewrite write_archive_unfold in H.
  destruct (write_members 0 ms) as [b| | |] eqn:W; cbn [rbind] in H; try discriminate.
  inversion H; subst. apply write_members_blocks in W.
  split; [apply (blocks_app b (zeros 1024) W); reflexivity|].
  exists b. split; [reflexivity | exact W].
Qed.
