(* C06 — faults during serialisation: reported, or the walk is complete. *)
From Apko Require Import Base.Prelude Model.Tar Model.TarFaults Spec.TarSpec Generated.C06Tar Proofs.TarProofs.
Open Scope string_scope. Open Scope list_scope.

Definition walk_faulty := walk_under_fault c06_ctx_err_returned c06_root_err_checked.

(* every fault is reported, or came too late to matter (after the last entry) *)
Lemma fault_reported_or_complete : forall ev f ft,
  walk_faulty ev f ft = Err \/ walk_faulty ev f ft = Ok (walk ev f).
Proof.
  intros ev f ft. unfold walk_faulty, walk_under_fault.
  change c06_ctx_err_returned with true. change c06_root_err_checked with true.
  destruct ft as [|k|k|].
  - left; reflexivity.
  - destruct (k <? List.length (walk ev f))%nat; [left | right]; reflexivity.
  - left; reflexivity.
  - left; reflexivity.
Qed.

Definition w_one : forest := [("f", File m0 (LReg 1 1) None)].

(* the order of the callback's tests before commit 13a240b (`path == "."` before
   `err != nil`): an error of Stat/ReadDir of the root was dropped — nothing
   yielded, no error *)
Lemma fault_root_before_fix :
  walk_under_fault true false env_nohdr w_one FErrRoot = Ok [] /\ walk env_nohdr w_one <> [] /\ validate [] [] w_one [] <> [].
Proof. split; [reflexivity|]. split; [discriminate | vm_compute; discriminate]. Qed.

(* … and a callback that ends the walk on a cancelled context instead of
   returning its error yields a proper prefix of the walk without error *)
Lemma fault_cancel_swallowed_hypothetical :
  walk_under_fault false true env_nohdr w_one FCancelBefore = Ok [] /\ walk env_nohdr w_one <> [].
Proof. split; [reflexivity | discriminate]. Qed.
