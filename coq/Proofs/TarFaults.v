(* C06 — faults during serialisation: reported, or the walk is complete. *)
From Apko Require Import Base.Prelude Model.Tar Model.TarFaults Spec.TarSpec Generated.C06Tar Proofs.TarProofs.
Open Scope string_scope. Open Scope list_scope.

Definition walk_faulty := walk_under_fault c06_ctx_err_returned c06_root_err_checked.

(* every fault but an error of the root is reported, or came too late to matter *)
Lemma fault_reported_or_complete : forall ev f ft, ft <> FErrRoot ->
  walk_faulty ev f ft = Err \/ walk_faulty ev f ft = Ok (walk ev f).
Proof.
  intros ev f ft H. unfold walk_faulty, walk_under_fault.
  change c06_ctx_err_returned with true.
  destruct ft as [|k|k|].
  - left; reflexivity.
  - destruct (k <? List.length (walk ev f))%nat; [left | right]; reflexivity.
  - left; reflexivity.
  - contradiction.
Qed.

Definition w_one : forest := [("f", File m0 (LReg 1 1) None)].

(* an error of Stat/ReadDir of the root: reported when the callback tests the
   error before it skips ".", dropped (nothing yielded, no error) when it tests it
   after — stated for both orders so that the repair of C06-F6 keeps it provable *)
Lemma fault_root :
  if c06_root_err_checked
  then forall ev f, walk_faulty ev f FErrRoot = Err
  else walk_faulty env_nohdr w_one FErrRoot = Ok [] /\ walk env_nohdr w_one <> [] /\ validate [] [] w_one [] <> [].
Proof.
  unfold walk_faulty, walk_under_fault. destruct c06_root_err_checked.
  - intros. reflexivity.
  - split; [reflexivity|]. split; [discriminate | vm_compute; discriminate].
Qed.
