(* C06 — extract (walk t) = t for trees WITH recorded hard links whose targets
   sort first (envelope [wfl_forest], Spec/TarSpec.v).

   The compositional proof of Proofs/TarRoundtrip.v does not carry over: a link
   entry is resolved against the WHOLE forest extracted so far.  Here the
   extractor is read path-wise (C10's development, imported read-only:
   Proofs/LayersExtract.v [insert_at], [canon_forest_ext]; Proofs/LayersLinks.v
   [sem], [valid2], [extract_valid2], [sem_resolved], [wseq_valid2]):
     1. the entries of the walk are exactly the nodes of the tree ([walk_in_iff]);
     2. inside the envelope the walk is an accepted sequence ([walk_links_ok]);
     3. what the fold leaves at each path is the tree's node ([sem_walk]);
     4. the extractor appends children, and the walk's paths increase, so the
        extracted forest is already in canonical order ([extract_canonical]). *)
From Apko Require Import Base.Prelude Model.Tar Spec.TarSpec Proofs.TarProofs Proofs.TarRoundtrip Proofs.TarOrder
  Model.Layers Proofs.LayersChain Proofs.LayersExtract Proofs.LayersFlatten Proofs.LayersLinks.
From Coq Require Import Sorting.Sorted Sorting.Permutation.
Open Scope string_scope. Open Scope list_scope.

(* ---- Linkname round trip: split_slash (join_slash q) = q --------------------------- *)
Lemma sapp_nil_r : forall s : string, (s ++ "")%string = s.
Proof. induction s as [| c s IH]; simpl; [reflexivity | rewrite IH; reflexivity]. Qed.
Lemma sapp_assoc : forall a b c : string, ((a ++ b) ++ c)%string = (a ++ (b ++ c))%string.
Proof. induction a as [| x a IH]; intros; simpl; [reflexivity | rewrite IH; reflexivity]. Qed.

Lemma split_aux_comp : forall (x rest cur : string), no_slash x = true ->
  split_slash_aux (x ++ rest)%string cur = split_slash_aux rest (cur ++ x)%string.
Proof.
  induction x as [| c x IH]; intros rest cur H; simpl in *.
  - rewrite sapp_nil_r. reflexivity.
  - apply andb_true_iff in H. destruct H as [Hc Hx]. apply negb_true_iff in Hc. rewrite Hc.
    rewrite IH by exact Hx. f_equal. rewrite sapp_assoc. reflexivity.
Qed.

Lemma split_aux_end : forall (x cur : string), no_slash x = true -> String.eqb (cur ++ x)%string "" = false ->
  split_slash_aux x cur = [(cur ++ x)%string].
Proof.
  intros x cur H Hne. rewrite <- (sapp_nil_r x) at 1. rewrite split_aux_comp by exact H.
  simpl. rewrite Hne. reflexivity.
Qed.

Lemma comp_ok_inv : forall s, comp_ok s = true -> String.eqb s "" = false /\ no_slash s = true.
Proof. intros s H. unfold comp_ok in H. apply andb_true_iff in H. destruct H as [A B]. apply negb_true_iff in A. auto. Qed.

Lemma split_join : forall q, forallb comp_ok q = true -> split_slash (join_slash q) = q.
Proof.
  unfold split_slash. induction q as [| x r IH]; intros H; [reflexivity|].
  simpl in H. apply andb_true_iff in H. destruct H as [Hx Hr]. destruct (comp_ok_inv x Hx) as [Hne Hns].
  destruct r as [| y r'].
  - simpl join_slash. rewrite split_aux_end; auto.
  - change (join_slash (x :: y :: r')) with (x ++ ("/" ++ join_slash (y :: r')))%string.
    rewrite split_aux_comp by exact Hns. simpl. rewrite Hne. simpl. f_equal. apply IH. exact Hr.
Qed.

(* ---- the node under a tree at a relative path ------------------------------------------ *)
Definition sub (t : tree) (s : path) : option tree :=
  match s with [] => Some t | _ => lookup (kids t) s end.

Lemma lookup_sub : forall cs x r,
  lookup cs (x :: r) = match find_name x cs with Some c => sub c r | None => None end.
Proof.
  intros cs x r. destruct r as [| y r'].
  - simpl. destruct (find_name x cs); reflexivity.
  - rewrite lookup_cons2. destruct (find_name x cs) as [[m k | m l h]|]; [reflexivity | | reflexivity].
    unfold sub. simpl kids. rewrite lookup_nil_forest. reflexivity.
Qed.

Definition node_entry (ev : env) (p : path) (t : tree) : entry :=
  match t with Dir m _ => dir_entry ev p m | File m l h => file_entry ev p m l h end.

Lemma file_entry_path : forall ev p m l h, e_path (file_entry ev p m l h) = p.
Proof.
  intros. unfold file_entry.
  destruct (match h with Some q => if has_hdr ev p then Some q else None | None => None end); destruct l; reflexivity.
Qed.
Lemma node_entry_path : forall ev p t, e_path (node_entry ev p t) = p.
Proof. intros ev p [m cs | m l h]; [reflexivity | apply file_entry_path]. Qed.

Lemma walk_tree_in_iff : forall t ev p e, wf_names t = true ->
  (In e (walk_tree ev p t) <-> exists s t', sub t s = Some t' /\ e = node_entry ev (p ++ s) t').
Proof.
  induction t as [m l h | m cs IH] using tree_ind'; intros ev p e Hwf.
  - simpl. split.
    + intros [<- | []]. exists [], (File m l h). rewrite app_nil_r. split; reflexivity.
    + intros [s [t' [Hs ->]]]. destruct s as [| x r].
      * simpl in Hs. inversion Hs; subst. rewrite app_nil_r. left. reflexivity.
      * unfold sub in Hs. simpl kids in Hs. rewrite lookup_nil_forest in Hs. discriminate.
  - destruct (wf_names_dir _ _ Hwf) as [Hnd Hc]. rewrite walk_tree_dir, walk_forest_sorted. rewrite Forall_forall in IH. split.
    + intros [<- | H].
      * exists [], (Dir m cs). rewrite app_nil_r. split; reflexivity.
      * apply in_flat_map in H. destruct H as [y [Hy He]]. apply (proj1 (sort_by_name_in _ _ _)) in Hy.
        apply (IH y Hy ev (p ++ [fst y]) e (Hc y Hy)) in He. destruct He as [s [t' [Hs ->]]].
        exists (fst y :: s), t'. split.
        -- unfold sub at 1. simpl kids. rewrite lookup_sub. destruct y as [n c]. simpl in *.
           rewrite (in_find_name _ n c cs Hnd Hy). exact Hs.
        -- rewrite <- app_assoc. reflexivity.
    + intros [s [t' [Hs ->]]]. destruct s as [| x r].
      * simpl in Hs. inversion Hs; subst. rewrite app_nil_r. left. reflexivity.
      * right. unfold sub in Hs. simpl kids in Hs. rewrite lookup_sub in Hs.
        destruct (find_name x cs) as [c|] eqn:Ef; [| discriminate]. apply find_name_in in Ef.
        apply in_flat_map. exists (x, c). split; [apply sort_by_name_in; exact Ef|]. simpl.
        apply (IH (x, c) Ef ev (p ++ [x]) _ (Hc _ Ef)). exists r, t'. split; [exact Hs|].
        rewrite <- app_assoc. reflexivity.
Qed.

Definition meta0 : meta := {| m_mode := 0; m_uid := 0; m_gid := 0; m_mtime := 0; m_mnsec := 0; m_xattrs := [] |}.

Lemma walk_in_iff : forall ev f e, wf_names_forest f = true ->
  (In e (walk ev f) <-> exists p t, lookup f p = Some t /\ e = node_entry ev p t).
Proof.
  intros ev f e Hwf.
  assert (Hd : wf_names (Dir meta0 f) = true) by exact Hwf.
  pose proof (walk_tree_in_iff (Dir meta0 f) ev [] e Hd) as W. rewrite walk_tree_dir in W. fold (walk ev f) in W. split.
  - intros H. destruct (proj1 W (or_intror H)) as [s [t' [Hs He]]]. destruct s as [| x r].
    + exfalso. simpl in Hs. inversion Hs; subst t'. simpl in He. subst e.
      exact (ws_nonempty _ (walk_wseq ev f Hwf) _ H eq_refl).
    + exists (x :: r), t'. split; [exact Hs | exact He].
  - intros [p [t [Hl He]]]. destruct p as [| x r]; [discriminate|].
    destruct (proj2 W (ex_intro _ (x :: r) (ex_intro _ t (conj Hl He)))) as [E | H]; [| exact H].
    exfalso. rewrite He in E. apply (f_equal e_path) in E. rewrite node_entry_path in E. discriminate.
Qed.

(* ---- the envelope, node by node --------------------------------------------------------- *)
Lemma wfl_tree_node : forall hh root p t, wfl_tree hh root p t = true -> node_ok hh root p t = true.
Proof. intros hh root p [m cs | m l h] H; simpl in H; apply andb_true_iff in H; tauto. Qed.

Lemma wfl_tree_dir : forall hh root p m cs, wfl_tree hh root p (Dir m cs) = true ->
  NoDup (map fst cs) /\ forall y, In y cs -> wfl_tree hh root (p ++ [fst y]) (snd y) = true.
Proof.
  intros hh root p m cs H. simpl in H. apply andb_true_iff in H. destruct H as [H1 H2].
  split; [apply nodupb_spec; exact H1 | rewrite forallb_forall in H2; exact H2].
Qed.

Lemma wfl_tree_names : forall t hh root p, wfl_tree hh root p t = true -> wf_names t = true.
Proof.
  induction t as [m l h | m cs IH] using tree_ind'; intros hh root p H; [reflexivity|].
  destruct (wfl_tree_dir _ _ _ _ _ H) as [Hnd Hc]. simpl. apply andb_true_iff. split; [apply nodupb_spec; exact Hnd|].
  apply forallb_forall. intros y Hy. rewrite Forall_forall in IH. exact (IH y Hy hh root _ (Hc y Hy)).
Qed.

Lemma wfl_tree_sub : forall t hh root p s t', wfl_tree hh root p t = true -> sub t s = Some t' ->
  node_ok hh root (p ++ s) t' = true.
Proof.
  induction t as [m l h | m cs IH] using tree_ind'; intros hh root p s t' H Hs.
  - destruct s as [| x r].
    + simpl in Hs. inversion Hs; subst. rewrite app_nil_r. apply wfl_tree_node. exact H.
    + unfold sub in Hs. simpl kids in Hs. rewrite lookup_nil_forest in Hs. discriminate.
  - destruct s as [| x r].
    + simpl in Hs. inversion Hs; subst. reflexivity.
    + destruct (wfl_tree_dir _ _ _ _ _ H) as [Hnd Hc]. unfold sub in Hs. simpl kids in Hs. rewrite lookup_sub in Hs.
      destruct (find_name x cs) as [c|] eqn:Ef; [| discriminate]. apply find_name_in in Ef.
      rewrite Forall_forall in IH. pose proof (IH (x, c) Ef hh root (p ++ [x]) r t' (Hc _ Ef) Hs) as G.
      rewrite <- app_assoc in G. exact G.
Qed.

Lemma wfl_forest_inv : forall hh f, wfl_forest hh f = true ->
  wfl_tree hh f [] (Dir meta0 f) = true.
Proof. intros hh f H. exact H. Qed.

Lemma wfl_wf_names : forall hh f, wfl_forest hh f = true -> wf_names_forest f = true.
Proof. intros hh f H. exact (wfl_tree_names (Dir meta0 f) hh f [] (wfl_forest_inv hh f H)). Qed.

Lemma wfl_lookup : forall hh f p t, wfl_forest hh f = true -> lookup f p = Some t -> node_ok hh f p t = true.
Proof.
  intros hh f p t H Hl. destruct p as [| x r]; [discriminate|].
  exact (wfl_tree_sub (Dir meta0 f) hh f [] (x :: r) t (wfl_forest_inv hh f H) Hl).
Qed.

Lemma link_ok_inv : forall hh root p m l q, link_ok hh root p m l q = true ->
  hh p = true /\ path_lt q p /\ split_slash (join_slash q) = q /\
  (forall t, l = LSym t -> t = "") /\ exists h', lookup root q = Some (File m l h').
Proof.
  intros hh root p m l q H. unfold link_ok in H. rewrite !andb_true_iff in H.
  destruct H as [[[[H1 H2] H3] H4] H5]. repeat split; auto.
  - apply split_join. exact H3.
  - intros t ->. apply String.eqb_eq. exact H4.
  - destruct (lookup root q) as [[m' cs | m' l' h']|]; try discriminate.
    apply andb_true_iff in H5. destruct H5 as [A B]. apply meta_eqb_spec in A. apply leaf_eqb_spec in B. subst. eauto.
Qed.

Lemma kind_eq_dec : forall a b : kind, {a = b} + {a <> b}.
Proof. decide equality. Qed.

(* ---- kinds of the entries of nodes ---------------------------------------------------------- *)
Lemma node_entry_not_dir : forall ev p m l h, is_dir (file_entry ev p m l h) = false.
Proof.
  intros. unfold is_dir, file_entry.
  destruct (match h with Some q => if has_hdr ev p then Some q else None | None => None end); destruct l; try reflexivity.
  simpl. destruct (String.eqb target ""); reflexivity.
Qed.

(* a KLink entry of a node inside the envelope: the node is a recorded link *)
Lemma klink_node : forall ev f p t, node_ok (has_hdr ev) f p t = true -> e_kind (node_entry ev p t) = KLink ->
  exists m l q, t = File m l (Some q) /\ link_ok (has_hdr ev) f p m l q = true /\ e_link (node_entry ev p t) = join_slash q.
Proof.
  intros ev f p [m cs | m l [q|]] Hok Hk; simpl in *; try discriminate.
  - exists m, l, q. split; [reflexivity|]. split; [exact Hok|].
    destruct (link_ok_inv _ _ _ _ _ _ Hok) as [Hh _]. unfold file_entry. rewrite Hh. destruct l; reflexivity.
  - unfold file_entry in Hk. destruct l; discriminate.
Qed.

(* what a non-link entry of a node inside the envelope says is the node *)
Lemma einfo_node : forall ev f p t, node_ok (has_hdr ev) f p t = true -> e_kind (node_entry ev p t) <> KLink ->
  einfo (node_entry ev p t) = info_of t.
Proof.
  intros ev f p [m cs | m l [q|]] Hok Hk.
  - unfold einfo. simpl. unfold dir_entry. rewrite meta_of_mk. reflexivity.
  - exfalso. simpl in Hok. destruct (link_ok_inv _ _ _ _ _ _ Hok) as [Hh [_ [_ [Hs _]]]].
    apply Hk. simpl. unfold file_entry. rewrite Hh. destruct l as [c s | t | a b]; try reflexivity.
    rewrite (Hs t eq_refl). reflexivity.
  - simpl in Hok. simpl node_entry. unfold file_entry, einfo. destruct l as [c s | t | a b]; cbn [e_kind mk_entry e_cid e_size e_link e_devmaj e_devmin].
    + rewrite meta_of_mk. reflexivity.
    + destruct (m_xattrs m) eqn:X; [| discriminate]. rewrite meta_of_mk_nil by exact X. reflexivity.
    + destruct (m_xattrs m) eqn:X; [| discriminate]. rewrite meta_of_mk_nil by exact X. reflexivity.
Qed.

(* ---- the walk is an accepted sequence ---------------------------------------------------------- *)
Section Links.
  Variables (ev : env) (f : forest).
  Hypothesis Hwfl : wfl_forest (has_hdr ev) f = true.

  Let es := walk ev f.
  Let Hwf : wf_names_forest f = true := wfl_wf_names _ _ Hwfl.
  Let W : wseq es := walk_wseq ev f Hwf.

  Lemma in_walk_node : forall e, In e es -> exists t, lookup f (e_path e) = Some t /\ e = node_entry ev (e_path e) t /\
    node_ok (has_hdr ev) f (e_path e) t = true.
  Proof.
    intros e He. apply (walk_in_iff ev f e Hwf) in He. destruct He as [p [t [Hl ->]]]. rewrite node_entry_path.
    exists t. split; [exact Hl|]. split; [reflexivity|]. exact (wfl_lookup _ _ _ _ Hwfl Hl).
  Qed.

  (* the target of a link entry: an earlier, non-directory entry carrying the same node *)
  Lemma link_target : forall pre x post, es = pre ++ x :: post -> e_kind x = KLink ->
    exists m l q h', lookup f (e_path x) = Some (File m l (Some q)) /\ tgt x = q /\ lookup f q = Some (File m l h') /\
      In (node_entry ev q (File m l h')) pre.
  Proof.
    intros pre x post E Hk.
    assert (Hx : In x es) by (rewrite E; apply in_or_app; right; left; reflexivity).
    destruct (in_walk_node x Hx) as [t [Hl [Ex Hok]]]. rewrite Ex in Hk.
    destruct (klink_node ev f _ t Hok Hk) as [m [l [q [-> [Hlk Hlink]]]]].
    destruct (link_ok_inv _ _ _ _ _ _ Hlk) as [_ [Hlt [Hsj [_ [h' Hq]]]]].
    exists m, l, q, h'. split; [exact Hl|]. split; [unfold tgt; rewrite Ex, Hlink; exact Hsj|]. split; [exact Hq|].
    set (d := node_entry ev q (File m l h')).
    assert (Hd : In d es) by (apply (walk_in_iff ev f d Hwf); exists q, (File m l h'); auto).
    assert (Pd : e_path d = q) by apply node_entry_path.
    fold es in Hd. rewrite E in Hd. apply in_app_or in Hd. destruct Hd as [Hd | [Hd | Hd]]; [exact Hd | exfalso | exfalso].
    - rewrite Hd, Pd in Hlt. exact (path_lt_irrefl _ Hlt).
    - pose proof (ws_sorted es W) as S. rewrite E in S. apply SS_split_lt in S. destruct S as [_ S].
      specialize (S d Hd). unfold entry_lt in S. rewrite Pd in S. exact (path_lt_irrefl _ (path_lt_trans _ _ _ Hlt S)).
  Qed.

  Lemma walk_links_ok : links_ok (fun _ => None) es.
  Proof.
    intros pre x post E Hk. destruct (link_target pre x post E Hk) as [m [l [q [h' [_ [Ht [_ Hin]]]]]]].
    exists (node_entry ev q (File m l h')). split; [exact Hin|]. split; [rewrite node_entry_path; auto|].
    split; [apply node_entry_not_dir | reflexivity].
  Qed.

  Lemma walk_valid2 : valid2 es.
  Proof. exact (wseq_valid2 _ es W walk_links_ok). Qed.

  (* ---- what the fold leaves at each path is the node of the tree ------------------------------ *)
  Lemma sem_at_entry : forall d, In d es -> sem es (e_path d) = Some (xinfo (sem es) d).
  Proof.
    intros d Hd. rewrite (sem_resolved es walk_valid2).
    destruct (last_at_exists es (e_path d) d Hd eq_refl) as [y Ly]. rewrite Ly.
    destruct (last_at_some _ _ _ Ly) as [Hy Py]. rewrite (wseq_path_inj es y d W Hy Hd Py). reflexivity.
  Qed.

  Lemma sem_walk_prefix : forall done rest, es = done ++ rest ->
    forall d, In d done -> sem es (e_path d) = at_path f (e_path d).
  Proof.
    induction done as [| x done IH] using rev_ind; intros rest E d Hd; [destruct Hd|].
    rewrite <- app_assoc in E. simpl in E. apply in_app_or in Hd.
    destruct Hd as [Hd | [<- | []]]; [exact (IH (x :: rest) E d Hd)|].
    assert (Hx : In x es) by (rewrite E; apply in_or_app; right; left; reflexivity).
    rewrite (sem_at_entry x Hx). destruct (in_walk_node x Hx) as [t [Hl [Ex Hok]]].
    unfold at_path. rewrite Hl. simpl. f_equal.
    destruct (kind_eq_dec (e_kind x) KLink) as [Hk | Hk].
    - destruct (link_target done x rest E Hk) as [m [l [q [h' [Hlx [Ht [Hq Hin]]]]]]].
      rewrite Hl in Hlx. inversion Hlx; subst t. unfold xinfo. rewrite Hk, Ht.
      pose proof (IH (x :: rest) E _ Hin) as G. rewrite node_entry_path in G. rewrite G. unfold at_path. rewrite Hq. reflexivity.
    - unfold xinfo. destruct (e_kind x) eqn:K; try congruence; rewrite Ex; apply (einfo_node ev f); auto; rewrite <- Ex, K; discriminate.
  Qed.

  Lemma sem_walk : forall p, sem es p = at_path f p.
  Proof.
    intros p. destruct (sem es p) as [i|] eqn:S.
    - destruct (sem_in es p i S) as [d [Hd Pd]]. rewrite <- S, <- Pd.
      apply (sem_walk_prefix es []); [rewrite app_nil_r; reflexivity | exact Hd].
    - unfold at_path. destruct (lookup f p) as [t|] eqn:L; [| reflexivity]. exfalso.
      assert (Hd : In (node_entry ev p t) es) by (apply (walk_in_iff ev f _ Hwf); eauto).
      pose proof (sem_at_entry _ Hd) as G. rewrite node_entry_path in G. congruence.
  Qed.
End Links.

(* ---- the extracted forest is in canonical order ---------------------------------------------- *)
Definition sltb (a b : string) : bool := match String.compare a b with Lt => true | _ => false end.
Fixpoint incrb (l : list string) : bool :=
  match l with [] => true | a :: r => forallb (sltb a) r && incrb r end.
Fixpoint canonb (t : tree) : bool :=
  match t with
  | File _ _ _ => true
  | Dir _ cs => incrb (map fst cs) && forallb (fun nc : string * tree => canonb (snd nc)) cs
  end.
Definition canonb_forest (f : forest) : bool :=
  incrb (map fst f) && forallb (fun nc : string * tree => canonb (snd nc)) f.

Lemma incrb_snoc : forall l x, incrb (l ++ [x]) = incrb l && forallb (fun a => sltb a x) l.
Proof.
  induction l as [| a r IH]; intros x; [reflexivity|]. simpl. rewrite forallb_app, IH. simpl.
  destruct (forallb (sltb a) r), (sltb a x), (incrb r), (forallb (fun a0 => sltb a0 x) r); reflexivity.
Qed.

Lemma sort_incr : forall A (l : list (string * A)), incrb (map fst l) = true -> sort_by_name l = l.
Proof.
  induction l as [| a r IH]; intros H; [reflexivity|]. simpl in H. apply andb_true_iff in H. destruct H as [H1 H2].
  simpl. rewrite IH by exact H2. destruct r as [| b r']; [reflexivity|]. simpl in *.
  apply andb_true_iff in H1. destruct H1 as [H1 _]. unfold sltb in H1. unfold name_leb.
  destruct (String.compare (fst a) (fst b)); try discriminate. reflexivity.
Qed.

Lemma canonb_canon : forall t, canonb t = true -> canon t = t.
Proof.
  induction t as [m l h | m cs IH] using tree_ind'; intros H; [reflexivity|].
  simpl in H. apply andb_true_iff in H. destruct H as [H1 H2]. rewrite forallb_forall in H2. rewrite Forall_forall in IH.
  simpl. f_equal.
  assert (E : map (fun nc : string * tree => let (n, c) := nc in (n, canon c)) cs = cs).
  { rewrite <- (map_id cs) at 2. apply map_ext_in. intros [n c] Hin. pose proof (IH (n, c) Hin (H2 _ Hin)) as G. simpl in G. rewrite G. reflexivity. }
  rewrite E. apply sort_incr. exact H1.
Qed.

Lemma canonb_forest_canon : forall F, canonb_forest F = true -> canon_forest F = F.
Proof.
  intros F H. assert (E : canon (Dir meta0 F) = Dir meta0 F) by (apply canonb_canon; exact H).
  rewrite canon_dir in E. inversion E as [E']. rewrite E'. exact E'.
Qed.

Lemma leafy_canonb : forall n, leafy n -> canonb n = true.
Proof. intros [m cs | m l h] H; simpl in *; [subst; reflexivity | reflexivity]. Qed.

Lemma sltb_of_path_lt : forall y x, path_lt [y] [x] -> sltb y x = true.
Proof.
  intros y x H. unfold path_lt in H. simpl in H. unfold sltb. destruct (String.compare y x); try discriminate; auto.
Qed.

Lemma path_lt_cons_same : forall x a b, path_lt (x :: a) (x :: b) -> path_lt a b.
Proof. intros x a b H. unfold path_lt in *. simpl in H. rewrite compare_refl in H. exact H. Qed.

Lemma insert_canon : forall p n F F', canonb_forest F = true -> leafy n -> insert p n F = Ok F' ->
  at_path F p = None -> (forall q, at_path F q <> None -> path_lt q p) -> canonb_forest F' = true.
Proof.
  induction p as [| x r IH]; intros n F F' HF Hn Hins Hnone Hlt; [discriminate|].
  unfold canonb_forest in HF. apply andb_true_iff in HF. destruct HF as [H1 H2].
  destruct r as [| y r'].
  - unfold at_path in Hnone. simpl in Hnone. simpl in Hins.
    destruct (find_name x F) as [t|] eqn:Ef; [discriminate|]. inversion Hins; subst F'.
    unfold canonb_forest. rewrite map_app, forallb_app. change (map fst [(x, n)]) with [x]. rewrite incrb_snoc. simpl. rewrite H1, H2, (leafy_canonb n Hn). simpl.
    rewrite andb_true_r. apply forallb_forall. intros y Hy. apply sltb_of_path_lt. apply Hlt.
    unfold at_path. simpl. apply in_map_iff in Hy. destruct Hy as [[y' t] [<- Hin]]. simpl.
    destruct (find_name y' F) eqn:E; [discriminate|]. exfalso. apply (proj1 (find_name_none_notin _ y' F) E).
    apply (in_map fst) in Hin. exact Hin.
  - change (insert (x :: y :: r') n F) with
      (match find_name x F with Some (Dir m cs) => do cs' <- insert (y :: r') n cs; Ok (replace_name x (Dir m cs') F) | _ => Err end) in Hins.
    destruct (find_name x F) as [[m cs | ? ? ?]|] eqn:Ef; try discriminate.
    destruct (insert (y :: r') n cs) as [cs'| | |] eqn:Ei; try discriminate. cbn [rbind] in Hins. inversion Hins; subst F'.
    pose proof (find_name_in _ _ _ _ Ef) as Hin. rewrite forallb_forall in H2. pose proof (H2 _ Hin) as Hc. simpl in Hc.
    assert (Hcs' : canonb_forest cs' = true).
    { apply (IH n cs cs' Hc Hn Ei).
      - unfold at_path in *. rewrite lookup_cons2, Ef in Hnone. exact Hnone.
      - intros q Hq. destruct q as [| z q']; [exfalso; apply Hq; reflexivity|].
        apply (path_lt_cons_same x). apply Hlt. unfold at_path in *. rewrite lookup_cons2, Ef. exact Hq. }
    unfold canonb_forest. rewrite map_fst_replace, H1. simpl. apply forallb_replace.
    + apply forallb_forall. exact H2.
    + intros y0. simpl. exact Hcs'.
Qed.

Lemma payload_leafy : forall F x n, payload_of F x = Ok n -> leafy n.
Proof.
  intros F x n H. unfold payload_of in H. destruct (e_kind x); try (inversion H; subst; simpl; auto; fail).
  destruct (lookup F (split_slash (e_link x))) as [[? ? | ? ? ?]|]; try discriminate. inversion H; subst. exact I.
Qed.

Lemma extract_canonical : forall es, wseq es -> (forall done rest, es = done ++ rest -> valid2 done) ->
  forall done rest, es = done ++ rest -> exists F, extract done = Ok F /\ canonb_forest F = true.
Proof.
  intros es W V. induction done as [| x done IH] using rev_ind; intros rest E.
  - exists []. split; reflexivity.
  - rewrite <- app_assoc in E. simpl in E. destruct (IH (x :: rest) E) as [F [EF CF]].
    destruct (extract_valid2 (done ++ [x])) as [F' [EF' [_ _]]]; [apply (V _ rest); rewrite <- app_assoc; exact E|].
    exists F'. split; [exact EF'|].
    destruct (extract_valid2 done (V done (x :: rest) E)) as [F0 [EF0 [_ AF]]]. rewrite EF in EF0. inversion EF0; subst F0.
    rewrite extract_snoc, EF in EF'. unfold extract_step in EF'. cbn [rbind] in EF'.
    destruct (payload_of F x) as [n| | |] eqn:Pn; try discriminate. cbn [rbind] in EF'.
    assert (Hfresh : forall q, at_path F q <> None -> path_lt q (e_path x)).
    { intros q Hq. rewrite AF in Hq. destruct (sem done q) as [i|] eqn:S; [| congruence].
      destruct (sem_in done q i S) as [d [Hd <-]]. exact (wseq_before_distinct es done x rest W E d Hd). }
    apply (insert_canon (e_path x) n F F' CF (payload_leafy _ _ _ Pn) EF'); [| exact Hfresh].
    destruct (at_path F (e_path x)) eqn:A; [| reflexivity]. exfalso.
    assert (Hn : at_path F (e_path x) <> None) by congruence. exact (path_lt_irrefl _ (Hfresh _ Hn)).
Qed.

(* ---- the round trip with recorded hard links --------------------------------------------------- *)
Theorem extract_walk_links : forall ev f, wfl_forest (has_hdr ev) f = true ->
  extract (walk ev f) = Ok (canon_forest f).
Proof.
  intros ev f H. pose proof (wfl_wf_names _ _ H) as Hwf. pose proof (walk_wseq ev f Hwf) as W.
  pose proof (walk_links_ok ev f H) as Hl.
  destruct (extract_valid2 _ (walk_valid2 ev f H)) as [F [EF [WF AF]]].
  destruct (extract_canonical (walk ev f) W (wseq_valid2_prefix _ _ W Hl) (walk ev f) []) as [F1 [EF1 CF]];
    [rewrite app_nil_r; reflexivity|].
  rewrite EF in EF1. inversion EF1; subst F1. rewrite EF. f_equal.
  rewrite <- (canonb_forest_canon F CF). apply canon_forest_ext; auto.
  intros p. rewrite AF. apply sem_walk. exact H.
Qed.

(* the link-free envelope is the special case without [Some] nodes *)
Lemma wf_tree_wfl : forall t hh root p, wf_tree t = true -> wfl_tree hh root p t = true.
Proof.
  induction t as [m l h | m cs IH] using tree_ind'; intros hh root p H.
  - simpl in *. destruct h; [discriminate|]. simpl in H. rewrite H. reflexivity.
  - destruct (wf_tree_dir _ _ H) as [Hnd Hc]. simpl. rewrite Hnd. simpl. apply forallb_forall. intros y Hy.
    rewrite Forall_forall in IH. exact (IH y Hy hh root _ (Hc y Hy)).
Qed.
Lemma wf_forest_wfl : forall hh f, wf_forest f = true -> wfl_forest hh f = true.
Proof. intros hh f H. exact (wf_tree_wfl (Dir meta0 f) hh f [] H). Qed.

(* ---- the emitted entries: the tar writer keeps whole seconds (C06-F3 aside) ------------------- *)
Lemma tar_written_id : forall e, e_mnsec e = 0%N -> tar_written e = e.
Proof. intros [] H. simpl in *. subst. unfold tar_written, round_mtime. simpl. reflexivity. Qed.

Definition tmeta (t : tree) : meta := match t with Dir m _ => m | File m _ _ => m end.

Lemma node_entry_mnsec : forall ev p t, e_mnsec (node_entry ev p t) = m_mnsec (tmeta t).
Proof.
  intros ev p [m cs | m l h]; [reflexivity|]. simpl. unfold file_entry.
  destruct (match h with Some q => if has_hdr ev p then Some q else None | None => None end); destruct l; reflexivity.
Qed.

Lemma whole_seconds_sub : forall t s t', whole_seconds t = true -> sub t s = Some t' -> m_mnsec (tmeta t') = 0%N.
Proof.
  induction t as [m l h | m cs IH] using tree_ind'; intros s t' H Hs.
  - destruct s as [| x r].
    + simpl in Hs. inversion Hs; subst. simpl in *. apply N.eqb_eq. exact H.
    + unfold sub in Hs. simpl kids in Hs. rewrite lookup_nil_forest in Hs. discriminate.
  - simpl in H. apply andb_true_iff in H. destruct H as [H1 H2]. destruct s as [| x r].
    + simpl in Hs. inversion Hs; subst. simpl. apply N.eqb_eq. exact H1.
    + unfold sub in Hs. simpl kids in Hs. rewrite lookup_sub in Hs.
      destruct (find_name x cs) as [c|] eqn:Ef; [| discriminate]. apply find_name_in in Ef.
      rewrite Forall_forall in IH. rewrite forallb_forall in H2. exact (IH (x, c) Ef r t' (H2 _ Ef) Hs).
Qed.

Lemma emitted_walk : forall ev f, wf_names_forest f = true -> whole_seconds_forest f = true ->
  emitted ev f = walk ev f.
Proof.
  intros ev f Hwf Hws. unfold emitted. rewrite <- (map_id (walk ev f)) at 2. apply map_ext_in. intros e He.
  apply tar_written_id. apply (walk_in_iff ev f e Hwf) in He. destruct He as [p [t [Hl ->]]].
  rewrite node_entry_mnsec. destruct p as [| x r]; [discriminate|].
  apply (whole_seconds_sub (Dir meta0 f) (x :: r) t); [| exact Hl]. simpl. exact Hws.
Qed.

(* the readable statement, for the entries the tar writer leaves in the layer *)
Theorem faithful_links : forall ev f, wfl_forest (has_hdr ev) f = true -> whole_seconds_forest f = true ->
  Faithful (users ev) (groups ev) f (emitted ev f).
Proof.
  intros ev f H Hws. pose proof (wfl_wf_names _ _ H) as Hwf. rewrite (emitted_walk ev f Hwf Hws).
  split; [exact (extract_walk_links ev f H)|]. split.
  - exact (proj1 (proj2 (walk_sorted_nodup ev f Hwf))).
  - apply Forall_forall. intros e He. exact (walk_names ev f e He).
Qed.

(* ---- witnesses --------------------------------------------------------------------------------- *)
(* usr/bin/gunzip with three further recorded names (one in another directory, one
   naming another link), a recorded link to a character device; children given in
   an order that is not the walk's *)
Definition mx : meta := {| m_mode := 2541; m_uid := 7; m_gid := 42; m_mtime := 1700000000; m_mnsec := 0;
                           m_xattrs := [("user.k", "v")] |}.
Definition w_links : forest :=
  [("usr", Dir m0 [("bin", Dir m0 [("zcat", File mx (LReg 7 5) (Some ["usr"; "bin"; "gzip"]));
                                   ("gzip", File mx (LReg 7 5) (Some ["usr"; "bin"; "gunzip"]));
                                   ("gunzip", File mx (LReg 7 5) None)]);
                   ("libexec", Dir m0 [("gz", File mx (LReg 7 5) (Some ["usr"; "bin"; "gunzip"]))])]);
   ("dev", Dir m0 [("null", File m0 (LChr 1 3) None); ("null2", File m0 (LChr 1 3) (Some ["dev"; "null"]))])].

Lemma w_links_ok : wfl_forest (has_hdr env_allhdr) w_links = true /\ wf_forest w_links = false /\ whole_seconds_forest w_links = true.
Proof. vm_compute. repeat split; reflexivity. Qed.

(* outside the envelope, clause by clause: the model of the code does not round-trip *)
Definition w_link_to_symlink : forest :=   (* walkFS re-types a recorded link that shares a symlink node *)
  [("bin", Dir m0 [("s", File m0 (LSym "busybox") None); ("t", File m0 (LSym "busybox") (Some ["bin"; "s"]))])].
Definition w_link_names_symlink : forest :=   (* C06-F5: tarfs state after WriteHeader(TypeLink sbin/t -> bin/s) *)
  [("bin", Dir m0 [("busybox", File m0 (LReg 7 5) None); ("s", File m0 (LSym "busybox") None)]);
   ("sbin", Dir m0 [("t", File m0 (LReg 7 5) (Some ["bin"; "s"]))])].

Lemma links_boundary :
  validate [] [] w_link_to_symlink (emitted env_allhdr w_link_to_symlink) <> [] /\ validate [] [] w_link_names_symlink (emitted env_allhdr w_link_names_symlink) <> [] /\ wfl_forest (has_hdr env_allhdr) w_link_to_symlink = false /\ wfl_forest (has_hdr env_allhdr) w_link_names_symlink = false /\ wfl_forest (has_hdr env_nohdr) w_link_after = false /\ wfl_forest (has_hdr env_allhdr) w_link_before = false.
Proof. vm_compute. repeat split; try reflexivity; discriminate. Qed.
