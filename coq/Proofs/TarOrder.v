(* C06 — the walk lists paths in strictly increasing order (component-wise,
   names bytewise), hence each path once, a directory before its contents. *)
From Apko Require Import Base.Prelude Model.Tar Spec.TarSpec Proofs.TarProofs Proofs.TarRoundtrip.
From Coq Require Import Sorting.Sorted Sorting.Permutation OrderedTypeEx.
Open Scope string_scope. Open Scope list_scope.

(* ---- bytewise order on names ----------------------------------------------------- *)
Definition slt (a b : string) : Prop := String.compare a b = Lt.

Lemma slt_trans : forall a b c, slt a b -> slt b c -> slt a c.
Proof.
  unfold slt. intros a b c H1 H2.
  apply String_as_OT.cmp_lt in H1. apply String_as_OT.cmp_lt in H2.
  apply String_as_OT.cmp_lt. eapply String_as_OT.lt_trans; eauto.
Qed.
Lemma compare_refl : forall a, String.compare a a = Eq.
Proof. intros. apply String_as_OT.cmp_eq. reflexivity. Qed.
Lemma compare_eq : forall a b, String.compare a b = Eq -> a = b.
Proof. intros a b H. apply String_as_OT.cmp_eq. exact H. Qed.
Lemma compare_gt_lt : forall a b, String.compare a b = Gt -> slt b a.
Proof. unfold slt. intros a b H. rewrite String.compare_antisym, H. reflexivity. Qed.
Lemma slt_irrefl : forall a, ~ slt a a.
Proof. unfold slt. intros a H. rewrite compare_refl in H. discriminate. Qed.

(* ---- the order on paths -------------------------------------------------------------- *)
Lemma path_lt_prefix : forall p x s, path_lt p (p ++ x :: s).
Proof. unfold path_lt. induction p as [| y p IH]; intros; simpl; auto. rewrite compare_refl. apply IH. Qed.

Lemma path_lt_diverge : forall p n1 n2 s1 s2, slt n1 n2 -> path_lt (p ++ n1 :: s1) (p ++ n2 :: s2).
Proof.
  unfold path_lt. induction p as [| y p IH]; intros n1 n2 s1 s2 H; simpl.
  - rewrite H. reflexivity.
  - rewrite compare_refl. apply IH. exact H.
Qed.

Lemma path_lt_trans : forall a b c, path_lt a b -> path_lt b c -> path_lt a c.
Proof.
  unfold path_lt. induction a as [| x a IH]; intros [| y b] [| z c] H1 H2; simpl in *; try discriminate; auto.
  destruct (String.compare x y) eqn:E1; try discriminate.
  - apply compare_eq in E1. subst. destruct (String.compare y z) eqn:E2; try discriminate; auto. eapply IH; eauto.
  - destruct (String.compare y z) eqn:E2; try discriminate.
    + apply compare_eq in E2. subst. rewrite E1. reflexivity.
    + rewrite (slt_trans x y z E1 E2). reflexivity.
Qed.

Lemma path_lt_irrefl : forall a, ~ path_lt a a.
Proof. unfold path_lt. induction a as [| x a IH]; simpl; [discriminate|]. rewrite compare_refl. exact IH. Qed.

(* ---- sorted lists ---------------------------------------------------------------------- *)
Lemma SS_app : forall A (R : A -> A -> Prop) a b,
  StronglySorted R a -> StronglySorted R b -> (forall x y, In x a -> In y b -> R x y) ->
  StronglySorted R (a ++ b).
Proof.
  induction a as [| x a IH]; intros b Ha Hb H; simpl; auto.
  inversion Ha; subst. constructor.
  - apply IH; auto. intros; apply H; simpl; auto.
  - apply Forall_app. split; auto. apply Forall_forall. intros y Hy. apply H; simpl; auto.
Qed.

Definition by_name {A} (a b : string * A) : Prop := slt (fst a) (fst b).

Lemma insert_by_name_in : forall A (x : string * A) l y, In y (insert_by_name x l) <-> y = x \/ In y l.
Proof.
  intros. split; intro H.
  - eapply Permutation_in in H; [| apply Permutation_sym, insert_by_name_perm]. simpl in H. intuition.
  - eapply Permutation_in; [apply insert_by_name_perm|]. simpl. intuition.
Qed.

Lemma insert_by_name_SS : forall A (x : string * A) l,
  StronglySorted by_name l -> (forall y, In y l -> fst x <> fst y) -> StronglySorted by_name (insert_by_name x l).
Proof.
  induction l as [| y r IH]; intros Hs Hne; simpl.
  - constructor; constructor.
  - inversion Hs as [| ? ? Hr Hy]; subst. unfold name_leb.
    destruct (String.compare (fst x) (fst y)) eqn:E.
    + apply compare_eq in E. exfalso. apply (Hne y); simpl; auto.
    + constructor; auto. constructor; [exact E|]. rewrite Forall_forall in *. intros z Hz. eapply slt_trans; [exact E | apply Hy; exact Hz].
    + apply compare_gt_lt in E. constructor.
      * apply IH; auto. intros z Hz. apply Hne. simpl; auto.
      * apply Forall_forall. intros z Hz. apply insert_by_name_in in Hz. destruct Hz as [-> | Hz]; [exact E|].
        rewrite Forall_forall in Hy. apply Hy; auto.
Qed.

Lemma sort_by_name_SS : forall A (l : list (string * A)), NoDup (map fst l) -> StronglySorted by_name (sort_by_name l).
Proof.
  induction l as [| x r IH]; intros H; simpl; [constructor|].
  inversion H; subst. apply insert_by_name_SS; auto.
  intros y Hy E. apply (proj1 (sort_by_name_in _ _ _)) in Hy. apply H2. rewrite E. apply in_map. exact Hy.
Qed.

(* ---- the walk ------------------------------------------------------------------------------ *)
Lemma walk_tree_prefix : forall t ev p e, In e (walk_tree ev p t) -> exists s, e_path e = p ++ s.
Proof.
  induction t as [m l h | m cs IH] using tree_ind'; intros ev p e H.
  - simpl in H. destruct H as [<- | []]. exists []. rewrite app_nil_r.
    unfold file_entry. destruct (match h with Some q => if has_hdr ev p then Some q else None | None => None end); destruct l; reflexivity.
  - rewrite walk_tree_dir in H. destruct H as [<- | H]; [exists []; rewrite app_nil_r; reflexivity|].
    rewrite walk_forest_sorted in H. apply in_flat_map in H. destruct H as [y [Hy He]].
    apply (proj1 (sort_by_name_in _ _ _)) in Hy. rewrite Forall_forall in IH.
    destruct (IH y Hy _ _ _ He) as [s Hs]. exists (fst y :: s). rewrite Hs, <- app_assoc. reflexivity.
Qed.

Lemma wf_names_dir : forall m cs, wf_names (Dir m cs) = true ->
  NoDup (map fst cs) /\ forall y, In y cs -> wf_names (snd y) = true.
Proof.
  intros m cs H. simpl in H. apply andb_true_iff in H. destruct H as [H1 H2]. split.
  - apply nodupb_spec. exact H1.
  - rewrite forallb_forall in H2. exact H2.
Qed.

Definition entry_lt (a b : entry) : Prop := path_lt (e_path a) (e_path b).

Lemma children_SS : forall ev p (l : list (string * tree)),
  StronglySorted by_name l ->
  (forall y, In y l -> StronglySorted entry_lt (walk_tree ev (p ++ [fst y]) (snd y))) ->
  StronglySorted entry_lt (flat_map (fun y => walk_tree ev (p ++ [fst y]) (snd y)) l).
Proof.
  induction l as [| y r IH]; intros Hs Hall; simpl; [constructor|].
  inversion Hs as [| ? ? Hr Hy]; subst. apply SS_app.
  - apply Hall. simpl; auto.
  - apply IH; auto. intros z Hz. apply Hall. simpl; auto.
  - intros a b Ha Hb. apply in_flat_map in Hb. destruct Hb as [z [Hz Hb]].
    destruct (walk_tree_prefix _ _ _ _ Ha) as [s1 E1]. destruct (walk_tree_prefix _ _ _ _ Hb) as [s2 E2].
    unfold entry_lt. rewrite E1, E2, <- !app_assoc. simpl. apply path_lt_diverge.
    rewrite Forall_forall in Hy. apply Hy. exact Hz.
Qed.

Lemma walk_tree_SS : forall t ev p, wf_names t = true -> StronglySorted entry_lt (walk_tree ev p t).
Proof.
  induction t as [m l h | m cs IH] using tree_ind'; intros ev p Hwf.
  - simpl. constructor; constructor.
  - destruct (wf_names_dir _ _ Hwf) as [Hnd Hc]. rewrite walk_tree_dir, walk_forest_sorted. constructor.
    + apply children_SS.
      * apply sort_by_name_SS. exact Hnd.
      * intros y Hy. apply (proj1 (sort_by_name_in _ _ _)) in Hy. rewrite Forall_forall in IH. apply IH; auto.
    + apply Forall_forall. intros e He. apply in_flat_map in He. destruct He as [y [_ He]].
      destruct (walk_tree_prefix _ _ _ _ He) as [s Hs]. unfold entry_lt. rewrite Hs, <- app_assoc. simpl.
      apply path_lt_prefix.
Qed.

Lemma walk_SS : forall ev f, wf_names_forest f = true -> StronglySorted entry_lt (walk ev f).
Proof.
  intros ev f H. unfold wf_names_forest in H. apply andb_true_iff in H. destruct H as [Hnd Hc].
  rewrite forallb_forall in Hc. unfold walk. rewrite walk_forest_sorted. apply children_SS.
  - apply sort_by_name_SS. apply nodupb_spec. exact Hnd.
  - intros y Hy. apply (proj1 (sort_by_name_in _ _ _)) in Hy. apply walk_tree_SS. apply Hc. exact Hy.
Qed.

Lemma SS_map : forall A B (f : A -> B) (R : B -> B -> Prop) l,
  StronglySorted (fun a b => R (f a) (f b)) l -> StronglySorted R (map f l).
Proof.
  induction l as [| x r IH]; intros H; simpl; [constructor|]. inversion H; subst. constructor; auto.
  rewrite Forall_forall in *. intros y Hy. apply in_map_iff in Hy. destruct Hy as [z [<- Hz]]. auto.
Qed.

Lemma SS_NoDup : forall (l : list path), StronglySorted path_lt l -> NoDup l.
Proof.
  induction l as [| x r IH]; intros H; [constructor|]. inversion H; subst. constructor; auto.
  intros Hin. rewrite Forall_forall in H3. exact (path_lt_irrefl x (H3 x Hin)).
Qed.

(* the statement used by the property file *)
Lemma walk_sorted_nodup : forall ev f, wf_names_forest f = true ->
  StronglySorted path_lt (map e_path (walk ev f)) /\
  Sorted path_lt (map e_path (walk ev f)) /\
  NoDup (map e_path (walk ev f)).
Proof.
  intros ev f H. assert (S : StronglySorted path_lt (map e_path (walk ev f))) by (apply SS_map, walk_SS; exact H).
  split; [exact S|]. split; [apply StronglySorted_Sorted; exact S | apply SS_NoDup; exact S].
Qed.

(* a directory's entry precedes every entry beneath it, in every order-respecting listing *)
Lemma dir_before_contents : forall p x s, path_lt p (p ++ x :: s).
Proof. exact path_lt_prefix. Qed.
