(* C06 — proofs about Model/Tar.v and Spec/TarSpec.v. *)
From Apko Require Import Base.Prelude Model.Tar Spec.TarSpec.
From Coq Require Import Sorting.Sorted Sorting.Permutation OrderedTypeEx.
Open Scope string_scope. Open Scope list_scope.

(* ---- induction over trees (children are a nested list) ------------------ *)
Section TreeInd.
  Variable P : tree -> Prop.
  Hypothesis HF : forall m l h, P (File m l h).
  Hypothesis HD : forall m cs, Forall (fun nc => P (snd nc)) cs -> P (Dir m cs).
  Fixpoint tree_ind' (t : tree) : P t :=
    match t with
    | File m l h => HF m l h
    | Dir m cs =>
        HD m cs ((fix go (l : list (string * tree)) : Forall (fun nc => P (snd nc)) l :=
                    match l with
                    | [] => Forall_nil _
                    | nc :: r => Forall_cons nc (tree_ind' (snd nc)) (go r)
                    end) cs)
    end.
End TreeInd.

(* ---- boolean equalities ---------------------------------------------------- *)
Lemma path_eqb_spec : forall a b, path_eqb a b = true <-> a = b.
Proof. apply list_eqb_spec. intros; apply String.eqb_eq. Qed.

Lemma xattrs_eqb_spec : forall a b, xattrs_eqb a b = true <-> a = b.
Proof.
  apply list_eqb_spec. intros [a1 a2] [b1 b2]; simpl. rewrite andb_true_iff, !String.eqb_eq.
  split; [intros [? ?]; subst; reflexivity | intros E; inversion E; auto].
Qed.

Lemma meta_eqb_spec : forall a b, meta_eqb a b = true <-> a = b.
Proof.
  intros [a1 a2 a3 a4 a5 a6] [b1 b2 b3 b4 b5 b6]; unfold meta_eqb; cbn [m_mode m_uid m_gid m_mtime m_mnsec m_xattrs].
  rewrite !andb_true_iff, !N.eqb_eq, !Z.eqb_eq, xattrs_eqb_spec.
  split; [intros [[[[[? ?] ?] ?] ?] ?]; subst; reflexivity | intros E; inversion E; auto 10].
Qed.

Lemma leaf_eqb_spec : forall a b, leaf_eqb a b = true <-> a = b.
Proof.
  intros [c s|t|x y] [c' s'|t'|x' y']; simpl; try (split; intro H; discriminate).
  - rewrite andb_true_iff, !N.eqb_eq. split; [intros [? ?]; subst; auto | intros E; inversion E; auto].
  - rewrite String.eqb_eq. split; [intros; subst; auto | intros E; inversion E; auto].
  - rewrite andb_true_iff, !N.eqb_eq. split; [intros [? ?]; subst; auto | intros E; inversion E; auto].
Qed.

Lemma opt_path_eqb_spec : forall a b : option path, option_eqb path_eqb a b = true <-> a = b.
Proof.
  intros [a|] [b|]; simpl; try (split; intro H; (discriminate || reflexivity)).
  rewrite path_eqb_spec. split; [intros; subst; auto | intros E; inversion E; auto].
Qed.

Lemma tree_eqb_spec : forall a b, tree_eqb a b = true <-> a = b.
Proof.
  induction a as [m l h | m cs IH] using tree_ind'; intros [m' cs' | m' l' h']; simpl;
    try (split; intro H; discriminate).
  - rewrite !andb_true_iff, meta_eqb_spec, leaf_eqb_spec, opt_path_eqb_spec.
    split; [intros [[? ?] ?]; subst; auto | intros E; inversion E; auto].
  - rewrite andb_true_iff, meta_eqb_spec.
    assert (G : forall y,
      (fix go (x y : list (string * tree)) {struct x} : bool :=
         match x, y with
         | [], [] => true
         | (n, c) :: x', (n', c') :: y' => String.eqb n n' && tree_eqb c c' && go x' y'
         | _, _ => false
         end) cs y = true <-> cs = y).
    { induction IH as [| [n c] r Hc Hr IHr]; intros [| [n' c'] y']; try (split; intro H; (discriminate || reflexivity)).
      simpl in Hc. rewrite !andb_true_iff, String.eqb_eq, Hc, IHr.
      split; [intros [[? ?] ?]; subst; auto | intros E; inversion E; auto]. }
    rewrite G. split; [intros [? ?]; subst; auto | intros E; inversion E; auto].
Qed.

Lemma forest_eqb_spec : forall a b, forest_eqb a b = true <-> a = b.
Proof.
  induction a as [| [n c] r IH]; intros [| [n' c'] r']; simpl; try (split; intro H; (discriminate || reflexivity)).
  rewrite !andb_true_iff, String.eqb_eq, tree_eqb_spec, IH.
  split; [intros [[? ?] ?]; subst; auto | intros E; inversion E; auto].
Qed.

(* ---- the order check --------------------------------------------------------- *)
Lemma sortedb_spec : forall ps, sortedb ps = true <-> Sorted path_lt ps.
Proof.
  induction ps as [| a r IH]; simpl.
  - split; auto.
  - destruct r as [| b r'].
    + split; auto.
    + rewrite andb_true_iff, IH. split.
      * intros [H1 H2]. constructor; auto.
      * intros H. inversion H as [| ? ? HS HR]; subst. inversion HR; subst. split; auto.
Qed.

(* ---- names ---------------------------------------------------------------------- *)
Lemma name_okb_spec : forall tbl id nm, name_okb tbl id nm = true <-> NameOk tbl id nm.
Proof.
  intros tbl id [n|]; simpl.
  - rewrite existsb_exists. split.
    + intros [[i x] [Hin H]]. simpl in H. apply andb_true_iff in H. destruct H as [H1 H2].
      apply Z.eqb_eq in H1. apply String.eqb_eq in H2. subst. exact Hin.
    + intros Hin. exists (id, n). split; auto. simpl. rewrite Z.eqb_refl, String.eqb_refl. reflexivity.
  - rewrite negb_true_iff. split.
    + intros H n Hin. assert (E : existsb (fun x => Z.eqb (fst x) id) tbl = true).
      { apply existsb_exists. exists (id, n). split; auto. simpl. apply Z.eqb_refl. }
      congruence.
    + intros H. destruct (existsb (fun x => Z.eqb (fst x) id) tbl) eqn:E; auto.
      apply existsb_exists in E. destruct E as [[i x] [Hin Hi]]. simpl in Hi. apply Z.eqb_eq in Hi. subst.
      exfalso. exact (H x Hin).
Qed.

(* the model's lookup (last entry wins) yields a name the spec accepts *)
Lemma lookup_last_ok : forall tbl id, NameOk tbl id (lookup_last tbl id).
Proof.
  induction tbl as [| [i n] r IH]; intros id; simpl.
  - intros n H. exact H.
  - specialize (IH id). destruct (lookup_last r id) as [x|] eqn:E.
    + simpl in *. right. exact IH.
    + destruct (Z.eqb i id) eqn:Ei.
      * apply Z.eqb_eq in Ei. subst. simpl. left. reflexivity.
      * simpl in *. intros x [H | H].
        -- inversion H; subst. rewrite Z.eqb_refl in Ei. discriminate.
        -- exact (IH x H).
Qed.

Lemma lookup_last_app : forall a b id,
  lookup_last (a ++ b) id = match lookup_last b id with Some x => Some x | None => lookup_last a id end.
Proof.
  induction a as [| [i n] r IH]; intros b id; simpl.
  - destruct (lookup_last b id); reflexivity.
  - rewrite IH. destruct (lookup_last b id); [reflexivity|]. reflexivity.
Qed.

(* ---- the validator decides the property ------------------------------------------- *)
Lemma faithfulb_iff : forall us gs t es, faithfulb us gs t es = true <-> Faithful us gs t es.
Proof.
  intros us gs t es. unfold faithfulb, Faithful. rewrite !andb_true_iff, sortedb_spec, forallb_forall, Forall_forall.
  split.
  - intros [[H1 H2] H3]. repeat split; auto.
    + destruct (extract es) as [f| | |]; try discriminate. apply forest_eqb_spec in H1. subst. reflexivity.
    + specialize (H3 _ H). apply andb_true_iff in H3. apply name_okb_spec, H3.
    + specialize (H3 _ H). apply andb_true_iff in H3. apply name_okb_spec, H3.
  - intros [H1 [H2 H3]]. repeat split; auto.
    + rewrite H1. apply forest_eqb_spec. reflexivity.
    + intros e He. destruct (H3 e He) as [Ha Hb]. apply andb_true_iff. split; apply name_okb_spec; assumption.
Qed.

Lemma validate_iff : forall us gs t es, validate us gs t es = [] <-> Faithful us gs t es.
Proof.
  intros. rewrite <- faithfulb_iff. unfold validate. destruct (faithfulb us gs t es).
  - split; auto.
  - destruct (dedup_tags (diagnose us gs t es)); split; intro H; discriminate.
Qed.

(* ---- digest / diff-id / size (over oracles) -------------------------------------- *)
Lemma layer_writer_digests : forall (bytes : Type) (gz : bytes -> bytes) (sha : bytes -> string) (blen : bytes -> N) tb,
  let l := layer_writer bytes gz sha blen tb in
  l_file _ l = gz tb /\ l_digest _ l = sha (l_file _ l) /\ l_diffid _ l = sha tb /\ l_size _ l = blen (l_file _ l).
Proof. intros. repeat split. Qed.

(* ---- sort_by_name ------------------------------------------------------------------ *)
Lemma insert_by_name_perm : forall A (x : string * A) l, Permutation (x :: l) (insert_by_name x l).
Proof.
  induction l as [| y r IH]; simpl; auto.
  destruct (name_leb (fst x) (fst y)); auto.
  eapply perm_trans; [apply perm_swap|]. apply perm_skip. exact IH.
Qed.
Lemma sort_by_name_perm : forall A (l : list (string * A)), Permutation l (sort_by_name l).
Proof.
  induction l as [| x r IH]; simpl; auto.
  eapply perm_trans; [apply perm_skip; exact IH|]. apply insert_by_name_perm.
Qed.
Lemma sort_by_name_in : forall A (l : list (string * A)) x, In x (sort_by_name l) <-> In x l.
Proof.
  intros. split; intro H.
  - eapply Permutation_in; [apply Permutation_sym, sort_by_name_perm | exact H].
  - eapply Permutation_in; [apply sort_by_name_perm | exact H].
Qed.

(* sorting by name commutes with a map that keeps the names *)
Lemma insert_by_name_map : forall A B (g : string * A -> B) (x : string * A) l,
  insert_by_name (fst x, g x) (map (fun y => (fst y, g y)) l) = map (fun y => (fst y, g y)) (insert_by_name x l).
Proof.
  induction l as [| y r IH]; simpl; auto.
  destruct (name_leb (fst x) (fst y)); simpl; auto. rewrite IH. reflexivity.
Qed.
Lemma sort_by_name_map : forall A B (g : string * A -> B) l,
  sort_by_name (map (fun y => (fst y, g y)) l) = map (fun y => (fst y, g y)) (sort_by_name l).
Proof.
  induction l as [| x r IH]; simpl; auto. rewrite IH. apply insert_by_name_map.
Qed.

Lemma walk_children_eq : forall ev p (cs : list (string * tree)),
  map (fun nc : string * tree => let (n, c) := nc in (n, walk_tree ev (p ++ [n]) c)) cs =
  map (fun y => (fst y, walk_tree ev (p ++ [fst y]) (snd y))) cs.
Proof. intros. apply map_ext. intros [n c]. reflexivity. Qed.

(* the walk of a directory's children, with the sort moved inside *)
Lemma walk_forest_sorted : forall ev p cs,
  walk_forest ev p cs =
  flat_map (fun y => walk_tree ev (p ++ [fst y]) (snd y)) (sort_by_name cs).
Proof.
  intros. unfold walk_forest. rewrite walk_children_eq.
  rewrite (sort_by_name_map _ _ (fun y => walk_tree ev (p ++ [fst y]) (snd y))).
  rewrite map_map. simpl. rewrite flat_map_concat_map. reflexivity.
Qed.
Lemma walk_tree_dir : forall ev p m cs,
  walk_tree ev p (Dir m cs) = dir_entry ev p m :: walk_forest ev p cs.
Proof. reflexivity. Qed.

(* ---- names in the walk ------------------------------------------------------------ *)
Definition names_from (ev : env) (e : entry) : Prop :=
  e_uname e = lookup_last (users ev) (e_uid e) /\ e_gname e = lookup_last (groups ev) (e_gid e).

Lemma file_entry_names : forall ev p m l h, names_from ev (file_entry ev p m l h).
Proof.
  intros. unfold file_entry.
  destruct (match h with Some q => if has_hdr ev p then Some q else None | None => None end); destruct l; split; reflexivity.
Qed.

Lemma walk_tree_names : forall ev t p e, In e (walk_tree ev p t) -> names_from ev e.
Proof.
  intros ev t. induction t as [m l h | m cs IH] using tree_ind'; intros p e H.
  - simpl in H. destruct H as [H | []]. subst. apply file_entry_names.
  - rewrite walk_tree_dir in H. destruct H as [H | H].
    + subst. split; reflexivity.
    + rewrite walk_forest_sorted in H. apply in_flat_map in H. destruct H as [y [Hy He]].
      apply (proj1 (sort_by_name_in _ _ _)) in Hy. rewrite Forall_forall in IH. exact (IH y Hy _ _ He).
Qed.

Lemma walk_names : forall ev f e, In e (walk ev f) ->
  NameOk (users ev) (e_uid e) (e_uname e) /\ NameOk (groups ev) (e_gid e) (e_gname e).
Proof.
  intros ev f e H. unfold walk in H. rewrite walk_forest_sorted in H. apply in_flat_map in H.
  destruct H as [y [_ He]]. apply walk_tree_names in He. destruct He as [Hu Hg].
  rewrite Hu, Hg. split; apply lookup_last_ok.
Qed.

(* ---- concrete witnesses (the same inputs are replayed on the real code by
   harness/cmd/c06's corpus) --------------------------------------------------------- *)
Definition m0 : meta := {| m_mode := 493; m_uid := 0; m_gid := 0; m_mtime := 1700000000; m_mnsec := 0; m_xattrs := [] |}.
Definition env_nohdr : env := {| users := []; groups := []; has_hdr := fun _ => false |}.
Definition env_allhdr : env := {| users := []; groups := []; has_hdr := fun _ => true |}.

(* bin/b is a second name of bin/a *)
Definition w_link_after : forest :=
  [("bin", Dir m0 [("a", File m0 (LReg 7 5) None); ("b", File m0 (LReg 7 5) (Some ["bin"; "a"]))])].
(* bin/a is a second name of bin/z *)
Definition w_link_before : forest :=
  [("bin", Dir m0 [("z", File m0 (LReg 7 5) None); ("a", File m0 (LReg 7 5) (Some ["bin"; "z"]))])].
Definition w_subsecond : forest :=
  [("f", File {| m_mode := 420; m_uid := 0; m_gid := 0; m_mtime := 1700000000; m_mnsec := 500000000; m_xattrs := [] |} (LReg 3 1) None)].
Definition w_chr_xattr : forest :=
  [("null", File {| m_mode := 438; m_uid := 0; m_gid := 0; m_mtime := 1700000000; m_mnsec := 0;
                    m_xattrs := [("security.selinux", "u:r")] |} (LChr 1 3) None)].

Definition emitted (ev : env) (f : forest) : list entry := map tar_written (walk ev f).

Lemma recorded_link_after_target_ok : validate [] [] w_link_after (emitted env_allhdr w_link_after) = [].
Proof. vm_compute. reflexivity. Qed.
Lemma headerless_link_is_copy :
  validate [] [] w_link_after (emitted env_nohdr w_link_after) = ["viol:hardlink-serialised-as-copy"].
Proof. vm_compute. reflexivity. Qed.
Lemma link_before_target_fails :
  validate [] [] w_link_before (emitted env_allhdr w_link_before) = ["viol:hardlink-before-target"] /\
  extract (emitted env_allhdr w_link_before) = Err.
Proof. split; vm_compute; reflexivity. Qed.
Lemma subsecond_rounded :
  validate [] [] w_subsecond (emitted env_allhdr w_subsecond) = ["viol:attr/mtime-rounded-to-second"].
Proof. vm_compute. reflexivity. Qed.
Lemma chardev_xattr_dropped :
  validate [] [] w_chr_xattr (emitted env_allhdr w_chr_xattr) = ["viol:attr/xattrs-dropped-on-chardev"].
Proof. vm_compute. reflexivity. Qed.

Lemma hardlinks_refuted :
  (exists f, wf_names_forest f = true /\ ~ Faithful [] [] f (emitted env_nohdr f)) /\
  (exists f, wf_names_forest f = true /\ ~ Faithful [] [] f (emitted env_allhdr f)).
Proof.
  split.
  - exists w_link_after. split; [reflexivity|]. rewrite <- validate_iff, headerless_link_is_copy. discriminate.
  - exists w_link_before. split; [reflexivity|]. rewrite <- validate_iff. rewrite (proj1 link_before_target_fails). discriminate.
Qed.
Lemma attrs_refuted :
  (exists f, wf_names_forest f = true /\ ~ Faithful [] [] f (emitted env_allhdr f) /\ whole_seconds_forest f = false) /\
  (exists f, wf_names_forest f = true /\ ~ Faithful [] [] f (emitted env_allhdr f) /\ wf_forest f = false).
Proof.
  split.
  - exists w_subsecond. repeat split; try reflexivity. rewrite <- validate_iff, subsecond_rounded. discriminate.
  - exists w_chr_xattr. repeat split; try reflexivity. rewrite <- validate_iff, chardev_xattr_dropped. discriminate.
Qed.
