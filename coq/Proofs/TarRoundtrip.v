(* C06 — extract (walk t) = t, for every tree in the envelope [wf_forest]. *)
From Apko Require Import Base.Prelude Model.Tar Spec.TarSpec Proofs.TarProofs.
From Coq Require Import Sorting.Permutation.
Open Scope string_scope. Open Scope list_scope.

(* ---- folds of the extractor ------------------------------------------------------ *)
Definition extract_acc (acc : res forest) (es : list entry) : res forest := fold_left extract_step es acc.

Lemma extract_acc_nonok : forall es acc, (forall f, acc <> Ok f) -> extract_acc acc es = acc.
Proof.
  induction es as [| e r IH]; intros acc H; simpl; auto.
  assert (E : extract_step acc e = acc) by (destruct acc; try reflexivity; exfalso; eapply H; reflexivity).
  unfold extract_acc in *. rewrite E. apply IH. exact H.
Qed.

Definition rthen {A B} (r : res A) (k : A -> res B) : res B := rbind r k.

Lemma extract_from_cons : forall F e es,
  extract_from F (e :: es) = extract_acc (extract_step (Ok F) e) es.
Proof. reflexivity. Qed.

Lemma extract_from_app : forall a b F,
  extract_from F (a ++ b) = rbind (extract_from F a) (fun F' => extract_from F' b).
Proof.
  intros. unfold extract_from. rewrite fold_left_app.
  destruct (fold_left extract_step a (Ok F)) as [F'| | |] eqn:E; simpl; auto;
    apply (extract_acc_nonok b); intros f H; discriminate.
Qed.

(* ---- association lists -------------------------------------------------------------- *)
Lemma find_name_app : forall A x (a b : list (string * A)),
  find_name x (a ++ b) = match find_name x a with Some v => Some v | None => find_name x b end.
Proof.
  induction a as [| [y w] r IH]; intros; simpl; auto. destruct (String.eqb x y); auto.
Qed.

Lemma replace_name_app_r : forall A x (v : A) a b, find_name x a = None ->
  replace_name x v (a ++ b) = a ++ replace_name x v b.
Proof.
  induction a as [| [y w] r IH]; intros b H; simpl in *; auto.
  destruct (String.eqb x y); try discriminate. rewrite IH; auto.
Qed.

Lemma find_replace_same : forall A x (v : A) F, find_name x F <> None -> find_name x (replace_name x v F) = Some v.
Proof.
  induction F as [| [y w] r IH]; intros H; simpl in *; [congruence|].
  destruct (String.eqb x y) eqn:E; simpl; rewrite E; auto.
Qed.

Lemma replace_replace : forall A x (v1 v2 : A) F,
  replace_name x v2 (replace_name x v1 F) = replace_name x v2 F.
Proof.
  induction F as [| [y w] r IH]; simpl; auto.
  destruct (String.eqb x y) eqn:E; simpl; rewrite E; auto. rewrite IH. reflexivity.
Qed.

Lemma find_name_none_notin : forall A x (F : list (string * A)), find_name x F = None <-> ~ In x (map fst F).
Proof.
  induction F as [| [y w] r IH]; simpl.
  - split; auto.
  - destruct (String.eqb x y) eqn:E.
    + apply String.eqb_eq in E. subst. split; [discriminate | intros H; exfalso; apply H; auto].
    + apply String.eqb_neq in E. rewrite IH. split; [intros H [G | G]; [congruence | auto] | intros H G; apply H; auto].
Qed.

(* ---- prefixing every path ------------------------------------------------------------- *)
Definition cons_path (x : string) (e : entry) : entry :=
  {| e_path := x :: e_path e; e_kind := e_kind e; e_mode := e_mode e; e_uid := e_uid e; e_gid := e_gid e;
     e_uname := e_uname e; e_gname := e_gname e; e_link := e_link e; e_devmaj := e_devmaj e;
     e_devmin := e_devmin e; e_xattrs := e_xattrs e; e_mtime := e_mtime e; e_mnsec := e_mnsec e;
     e_cid := e_cid e; e_size := e_size e |}.
Definition shift (x : string) (ev : env) : env :=
  {| users := users ev; groups := groups ev; has_hdr := fun q => has_hdr ev (x :: q) |}.

Lemma file_entry_cons : forall ev x p m l h,
  file_entry ev (x :: p) m l h = cons_path x (file_entry (shift x ev) p m l h).
Proof.
  intros. unfold file_entry. cbn [has_hdr shift].
  destruct (match h with Some q => if has_hdr ev (x :: p) then Some q else None | None => None end); destruct l; reflexivity.
Qed.

Lemma map_flat_map : forall A B C (g : B -> C) (f : A -> list B) l,
  map g (flat_map f l) = flat_map (fun y => map g (f y)) l.
Proof. induction l; simpl; auto. rewrite map_app, IHl. reflexivity. Qed.

Lemma flat_map_ext_in : forall A B (f g : A -> list B) l, (forall y, In y l -> f y = g y) -> flat_map f l = flat_map g l.
Proof. induction l; simpl; intros H; auto. rewrite H, IHl; auto. Qed.

Lemma walk_tree_cons : forall t ev x p,
  walk_tree ev (x :: p) t = map (cons_path x) (walk_tree (shift x ev) p t).
Proof.
  induction t as [m l h | m cs IH] using tree_ind'; intros ev x p.
  - simpl. rewrite file_entry_cons. reflexivity.
  - rewrite !walk_tree_dir, !walk_forest_sorted. simpl map. f_equal.
    rewrite map_flat_map. apply flat_map_ext_in. intros y Hy.
    apply (proj1 (sort_by_name_in _ _ _)) in Hy. rewrite Forall_forall in IH.
    change ((x :: p) ++ [fst y]) with (x :: (p ++ [fst y])). apply (IH y Hy).
Qed.

Lemma walk_forest_cons : forall cs ev x p,
  walk_forest ev (x :: p) cs = map (cons_path x) (walk_forest (shift x ev) p cs).
Proof.
  intros. rewrite !walk_forest_sorted, map_flat_map. apply flat_map_ext_in. intros y _.
  change ((x :: p) ++ [fst y]) with (x :: (p ++ [fst y])). apply walk_tree_cons.
Qed.

(* ---- entries of a link-free tree ---------------------------------------------------------- *)
Definition plain (e : entry) : Prop := e_kind e <> KLink /\ e_path e <> [].

Lemma wf_tree_dir : forall m cs, wf_tree (Dir m cs) = true ->
  nodupb (map fst cs) = true /\ forall y, In y cs -> wf_tree (snd y) = true.
Proof.
  intros m cs H. simpl in H. apply andb_true_iff in H. destruct H as [H1 H2]. split; auto.
  rewrite forallb_forall in H2. exact H2.
Qed.

Lemma walk_tree_plain : forall t ev p, p <> [] -> wf_tree t = true -> Forall plain (walk_tree ev p t).
Proof.
  induction t as [m l h | m cs IH] using tree_ind'; intros ev p Hp Hwf.
  - simpl. constructor; [|constructor]. simpl in Hwf. destruct h; [discriminate|].
    unfold file_entry. destruct l; split; simpl; auto; discriminate.
  - rewrite walk_tree_dir. constructor; [split; simpl; auto; discriminate|].
    rewrite walk_forest_sorted. apply Forall_forall. intros e He. apply in_flat_map in He.
    destruct He as [y [Hy He]]. apply (proj1 (sort_by_name_in _ _ _)) in Hy.
    destruct (wf_tree_dir _ _ Hwf) as [_ Hc]. rewrite Forall_forall in IH.
    assert (Q : p ++ [fst y] <> []) by (destruct p; discriminate).
    pose proof (IH y Hy ev (p ++ [fst y]) Q (Hc y Hy)) as G. rewrite Forall_forall in G. exact (G e He).
Qed.

(* ---- extraction below one top-level directory ------------------------------------------------ *)
Lemma payload_plain : forall F1 F2 x e, e_kind e <> KLink -> payload_of F1 (cons_path x e) = payload_of F2 e.
Proof. intros F1 F2 x e H. unfold payload_of. simpl. destruct (e_kind e); try reflexivity. congruence. Qed.

Lemma payload_plain_ok : forall F e, e_kind e <> KLink -> exists n, payload_of F e = Ok n.
Proof. intros F e H. unfold payload_of. destruct (e_kind e); try (eexists; reflexivity). congruence. Qed.

Lemma insert_under : forall x y q n F m cs,
  find_name x F = Some (Dir m cs) ->
  insert (x :: y :: q) n F = rbind (insert (y :: q) n cs) (fun cs' => Ok (replace_name x (Dir m cs') F)).
Proof. intros. simpl. rewrite H. reflexivity. Qed.

Lemma extract_under : forall x es m cs0 F,
  Forall plain es -> find_name x F = Some (Dir m cs0) ->
  extract_from F (map (cons_path x) es) =
  rbind (extract_from cs0 es) (fun cs' => Ok (replace_name x (Dir m cs') F)).
Proof.
  intros x es. induction es as [| e r IH]; intros m cs0 F Hp Hf.
  - simpl. unfold extract_from. simpl. f_equal.
    clear -Hf. induction F as [| [y w] F IH]; simpl in *; [discriminate|].
    destruct (String.eqb x y) eqn:E; [apply String.eqb_eq in E; subst; inversion Hf; reflexivity | f_equal; apply IH; exact Hf].
  - inversion Hp as [| ? ? [Hk Hq] Hr]; subst. simpl map. rewrite !extract_from_cons.
    unfold extract_step. cbn [rbind].
    rewrite (payload_plain F cs0 x e Hk). destruct (payload_plain_ok cs0 e Hk) as [n Hn]. rewrite Hn. cbn [rbind].
    cbn [e_path cons_path]. destruct (e_path e) as [| y q] eqn:Eq; [congruence|].
    rewrite (insert_under x y q n F m cs0 Hf).
    destruct (insert (y :: q) n cs0) as [cs1| | |]; cbn [rbind];
      try (rewrite !extract_acc_nonok; [reflexivity | intros f H; discriminate | intros f H; discriminate]).
    change (extract_acc (Ok (replace_name x (Dir m cs1) F)) (map (cons_path x) r))
      with (extract_from (replace_name x (Dir m cs1) F) (map (cons_path x) r)).
    change (extract_acc (Ok cs1) r) with (extract_from cs1 r).
    rewrite (IH m cs1 (replace_name x (Dir m cs1) F) Hr).
    + destruct (extract_from cs1 r); cbn [rbind]; auto. rewrite replace_replace. reflexivity.
    + apply find_replace_same. congruence.
Qed.

(* ---- the round trip ----------------------------------------------------------------------------- *)
Lemma meta_of_mk : forall ev p k m lnk maj mi cid sz,
  meta_of (mk_entry ev p k m lnk maj mi (m_xattrs m) cid sz) = m.
Proof. intros. destruct m. reflexivity. Qed.
Lemma meta_of_mk_nil : forall ev p k m lnk maj mi cid sz, m_xattrs m = [] ->
  meta_of (mk_entry ev p k m lnk maj mi [] cid sz) = m.
Proof. intros. destruct m. simpl in *. subst. reflexivity. Qed.

Lemma nodupb_spec : forall l, nodupb l = true <-> NoDup l.
Proof.
  induction l as [| x r IH]; simpl.
  - split; [constructor | auto].
  - rewrite andb_true_iff, negb_true_iff, IH. split.
    + intros [H1 H2]. constructor; auto. intros Hin.
      assert (E : existsb (String.eqb x) r = true) by (apply existsb_exists; exists x; split; auto; apply String.eqb_refl).
      congruence.
    + intros H. inversion H; subst. split; auto.
      destruct (existsb (String.eqb x) r) eqn:E; auto. apply existsb_exists in E. destruct E as [y [Hy Hxy]].
      apply String.eqb_eq in Hxy. subst. contradiction.
Qed.

Definition canon_pair (y : string * tree) : string * tree := (fst y, canon (snd y)).

Lemma canon_forest_sorted : forall cs, canon_forest cs = map canon_pair (sort_by_name cs).
Proof.
  intros. unfold canon_forest.
  replace (map (fun nc : string * tree => let (n, c) := nc in (n, canon c)) cs)
    with (map (fun y : string * tree => (fst y, canon (snd y))) cs) by (apply map_ext; intros [n c]; reflexivity).
  rewrite (sort_by_name_map _ _ (fun y => canon (snd y))). reflexivity.
Qed.
Lemma canon_dir : forall m cs, canon (Dir m cs) = Dir m (canon_forest cs).
Proof. reflexivity. Qed.

(* P t : the walk of t under a fresh top-level name extracts to t *)
Definition roundtrips (t : tree) : Prop :=
  wf_tree t = true -> forall ev name F, find_name name F = None ->
    extract_from F (walk_tree ev [name] t) = Ok (F ++ [(name, canon t)]).

Lemma forest_roundtrip : forall l ev G,
  (forall y, In y l -> roundtrips (snd y) /\ wf_tree (snd y) = true) ->
  NoDup (map fst l) -> (forall y, In y l -> find_name (fst y) G = None) ->
  extract_from G (flat_map (fun y => walk_tree ev [fst y] (snd y)) l) = Ok (G ++ map canon_pair l).
Proof.
  induction l as [| y r IH]; intros ev G Hall Hnd HG.
  - simpl. rewrite app_nil_r. reflexivity.
  - simpl flat_map. rewrite extract_from_app.
    destruct (Hall y (or_introl eq_refl)) as [Hy Hwf].
    rewrite (Hy Hwf ev (fst y) G (HG y (or_introl eq_refl))). cbn [rbind].
    inversion Hnd as [| ? ? Hnotin Hnd']; subst.
    rewrite IH; auto.
    + rewrite <- app_assoc. reflexivity.
    + intros z Hz. apply Hall. right. exact Hz.
    + intros z Hz. rewrite find_name_app, (HG z (or_intror Hz)). simpl.
      destruct (String.eqb (fst z) (fst y)) eqn:E; auto. apply String.eqb_eq in E.
      exfalso. apply Hnotin. rewrite <- E. apply in_map. exact Hz.
Qed.

Lemma tree_roundtrips : forall t, roundtrips t.
Proof.
  induction t as [m l h | m cs IH] using tree_ind'; intros Hwf ev name F HF.
  - simpl in Hwf. destruct h; [discriminate|]. simpl in Hwf.
    simpl walk_tree. unfold extract_from. simpl fold_left. unfold extract_step. cbn [rbind].
    unfold file_entry.
    destruct l as [cid sz | tgt | maj mi]; unfold payload_of; cbn [e_kind mk_entry rbind e_path e_cid e_size e_link e_devmaj e_devmin].
    + rewrite meta_of_mk. simpl. rewrite HF. reflexivity.
    + destruct (m_xattrs m) eqn:X; [|discriminate]. rewrite meta_of_mk_nil by exact X. simpl. rewrite HF. reflexivity.
    + destruct (m_xattrs m) eqn:X; [|discriminate]. rewrite meta_of_mk_nil by exact X. simpl. rewrite HF. reflexivity.
  - destruct (wf_tree_dir _ _ Hwf) as [Hnd Hc].
    rewrite walk_tree_dir, extract_from_cons.
    match goal with |- extract_acc ?a _ = _ => assert (S1 : a = Ok (F ++ [(name, Dir m [])])) end.
    { unfold extract_step. cbn [rbind]. unfold payload_of, dir_entry. cbn [e_kind mk_entry rbind e_path].
      rewrite meta_of_mk. simpl. rewrite HF. reflexivity. }
    rewrite S1. change (extract_acc (Ok ?f) ?es) with (extract_from f es).
    rewrite (walk_forest_cons cs ev name []).
    assert (Hfind : find_name name (F ++ [(name, Dir m [])]) = Some (Dir m [])).
    { rewrite find_name_app, HF. simpl. rewrite String.eqb_refl. reflexivity. }
    assert (Hplain : Forall plain (walk_forest (shift name ev) [] cs)).
    { rewrite walk_forest_sorted. apply Forall_forall. intros e He. apply in_flat_map in He.
      destruct He as [y [Hy He]]. apply (proj1 (sort_by_name_in _ _ _)) in Hy.
      assert (Q : [] ++ [fst y] <> []) by discriminate.
      pose proof (walk_tree_plain (snd y) (shift name ev) ([] ++ [fst y]) Q (Hc y Hy)) as G.
      rewrite Forall_forall in G. exact (G e He). }
    rewrite (extract_under name _ m [] _ Hplain Hfind).
    rewrite walk_forest_sorted. cbn [app].
    rewrite (forest_roundtrip (sort_by_name cs) (shift name ev) []).
    + cbn [rbind app]. rewrite replace_name_app_r by exact HF. simpl. rewrite String.eqb_refl.
      rewrite <- canon_forest_sorted. reflexivity.
    + intros y Hy. apply (proj1 (sort_by_name_in _ _ _)) in Hy. rewrite Forall_forall in IH. split; [apply IH; exact Hy | apply Hc; exact Hy].
    + apply nodupb_spec in Hnd. eapply Permutation_NoDup; [| exact Hnd]. apply Permutation_map, sort_by_name_perm.
    + intros; reflexivity.
Qed.

Lemma extract_walk : forall ev f, wf_forest f = true -> extract (walk ev f) = Ok (canon_forest f).
Proof.
  intros ev f H. unfold wf_forest in H. apply andb_true_iff in H. destruct H as [Hnd Hc].
  rewrite forallb_forall in Hc. unfold extract, walk. rewrite walk_forest_sorted. cbn [app].
  rewrite (forest_roundtrip (sort_by_name f) ev []).
  - rewrite canon_forest_sorted. reflexivity.
  - intros y Hy. apply (proj1 (sort_by_name_in _ _ _)) in Hy. split; [apply tree_roundtrips | apply Hc; exact Hy].
  - apply nodupb_spec in Hnd. eapply Permutation_NoDup; [| exact Hnd]. apply Permutation_map, sort_by_name_perm.
  - intros; reflexivity.
Qed.
