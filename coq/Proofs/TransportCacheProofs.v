(* C20 — proofs about Model.TransportCache (the cached index download) and
   about io.ReadAll over the reader's results. *)
From Apko Require Import Base.Prelude Generated.TransportShape Model.Transport Model.TransportCache
  Spec.TransportSpec Proofs.TransportProofs.
Open Scope list_scope.

(* ---------- one body read, seen from the bytes the body holds ------------------ *)
Lemma body_read_live_cases b lenp evs out e b' evs' :
  dead b = false -> lenp <> 0 -> body_read b lenp evs = (out, e, b', evs') ->
  rest b = out ++ rest b' /\
  (e = EEOF -> rest b' = [] /\ dead b' = false) /\
  (e = ENone -> dead b' = false /\ out <> []).
Proof.
  intros Hd Hl. unfold body_read. rewrite Hd. destruct lenp as [|lp]; [congruence|].
  destruct (next_rd (S lp) evs) as [ev evs1]. cbv beta iota.
  set (want := if rfail ev then rk ev else Nat.max 1 (rk ev)).
  set (n := Nat.min want (Nat.min (S lp) (List.length (rest b)))).
  destruct (rfail ev) eqn:Hf.
  { intros H; inversion H; subst; clear H. cbn [rest dead]. split; [symmetry; apply firstn_skipn|].
    split; discriminate. }
  destruct (rest b) as [|r0 rs] eqn:Hr.
  { intros H; inversion H; subst; clear H. split; [rewrite Hr; reflexivity|].
    split; [intros _; split; [exact Hr | exact Hd] | discriminate]. }
  assert (Hn1 : 1 <= n) by (unfold n, want; cbn [List.length]; lia).
  assert (Hne : firstn n (r0 :: rs) <> []).
  { intro Hx. apply (f_equal (@List.length N)) in Hx. rewrite firstn_length in Hx.
    cbn [List.length] in Hx. unfold n in Hx. cbn [List.length] in Hx. lia. }
  destruct (skipn n (r0 :: rs)) as [|q0 qs] eqn:Hq.
  - intros H; inversion H; subst; clear H. cbn [rest dead]. split; [rewrite <- Hq; symmetry; apply firstn_skipn|].
    split; [intros _; split; reflexivity | intros _; split; [reflexivity | exact Hne]].
  - intros H; inversion H; subst; clear H. cbn [rest dead]. split; [rewrite <- Hq; symmetry; apply firstn_skipn|].
    split; [discriminate | intros _; split; [reflexivity | exact Hne]].
Qed.

Lemma copy_buf_pos : copy_buf <> 0.
Proof. unfold copy_buf. intro H. apply (f_equal N.of_nat) in H. rewrite N2Nat.id in H. discriminate. Qed.

(* io.Copy: never out of fuel; what is written is a prefix of what the body
   holds, and all of it when the copy reports no error *)
Lemma copy_all_spec fuel : forall b evs acc,
  dead b = false -> List.length (rest b) < fuel ->
  exists w ok evs', copy_all fuel b evs acc = Ok (w, ok, evs') /\
    (ok = true -> w = acc ++ rest b) /\
    (exists suf, acc ++ rest b = w ++ suf).
Proof.
  induction fuel as [|fuel IH]; intros b evs acc Hd Hlen; [lia|].
  cbn [copy_all].
  destruct (body_read b copy_buf evs) as [[[out e] b'] evs'] eqn:Hbr.
  destruct (body_read_live_cases b copy_buf evs out e b' evs' Hd copy_buf_pos Hbr) as (Hrest & Heof & Hnone).
  destruct e.
  - destruct (Hnone eq_refl) as [Hd' Hne].
    assert (Hl' : List.length (rest b') < fuel).
    { apply (f_equal (@List.length N)) in Hrest. rewrite app_length in Hrest.
      destruct out; [congruence | simpl in Hrest; lia]. }
    destruct (IH b' evs' (acc ++ out) Hd' Hl') as (w & ok & evs2 & Hc & Hok & Hpre).
    exists w, ok, evs2. split; [exact Hc|]. rewrite Hrest, app_assoc. split; [exact Hok | exact Hpre].
  - destruct (Heof eq_refl) as [Hnil _]. rewrite Hnil, app_nil_r in Hrest.
    eexists _, _, _. split; [reflexivity|]. rewrite Hrest.
    split; [reflexivity | exists []; rewrite app_nil_r; reflexivity].
  - eexists _, _, _. split; [reflexivity|]. split; [discriminate|].
    exists (rest b'). rewrite Hrest, app_assoc. reflexivity.
Qed.

(* ---------- retrieveAndSaveFile / fetchAndCache -------------------------------- *)
(* For every body-read script (the connection is cut anywhere, any number of
   bytes arrive first), a framed response: either the download fails, nothing is
   advertised and no temporary file stays behind, or exactly the server's bytes
   are advertised and returned. *)
Theorem cached_fetch_complete_or_error cs dat c rds d :
  cshape_okb cs = true -> framed_ev c = true -> adv d = None ->
  exists d' r rds', cached_fetch cs dat c rds d = Ok (d', r, rds') /\
    tmps d' = tmps d /\
    ((r = Some dat /\ adv d' = Some dat) \/ (r = None /\ adv d' = None)).
Proof.
  unfold cshape_okb. intros Hcs Hfr Hadv.
  apply andb_true_iff in Hcs. destruct Hcs as [Hcs Hcf]. apply andb_true_iff in Hcs. destruct Hcs as [Hcd Hrm].
  unfold cached_fetch. rewrite Hadv. unfold retrieve.
  destruct c as [| | |k0|k0 n0]; try discriminate Hfr.
  2: { eexists _, _, _. split; [reflexivity|]. split; [reflexivity | right; split; [reflexivity | exact Hadv]]. }
  2: { eexists _, _, _. split; [reflexivity|]. split; [reflexivity | right; split; [reflexivity | exact Hadv]]. }
  all: destruct (copy_all_spec (S (S (List.length dat))) {| rest := dat; dead := false |} rds [] eq_refl)
         as (w & ok & rds' & Hc & Hok & _); [cbn [rest]; lia|];
       rewrite Hc; cbn [rbind]; rewrite Hcd, Hrm, Hcf; cbn [negb orb];
       destruct ok; cbn [orb adv tmps];
       eexists _, _, _; (split; [reflexivity|]); cbn [adv tmps]; (split; [reflexivity|]);
       [left; rewrite (Hok eq_refl); cbn [app rest]; split; reflexivity | right; split; [reflexivity | exact Hadv]].
Qed.

(* what is advertised is served without a request from then on *)
Lemma cached_fetch_hit cs dat c rds d x : adv d = Some x ->
  cached_fetch cs dat c rds d = Ok (d, Some x, rds).
Proof. intros H. unfold cached_fetch. rewrite H. reflexivity. Qed.

(* two downloads in a row over the same directory, each cut anywhere: whatever
   the first one did, the second one returns the server's bytes or an error *)
Theorem cached_fetch_twice cs dat c1 rds1 c2 rds2 d :
  cshape_okb cs = true -> framed_ev c1 = true -> framed_ev c2 = true -> adv d = None ->
  exists d1 r1 rds1' d2 r2 rds2',
    cached_fetch cs dat c1 rds1 d = Ok (d1, r1, rds1') /\
    cached_fetch cs dat c2 rds2 d1 = Ok (d2, r2, rds2') /\
    (r1 = None \/ r1 = Some dat) /\ (r2 = None \/ r2 = Some dat) /\
    (r1 = Some dat -> r2 = Some dat) /\ tmps d2 = tmps d.
Proof.
  intros Hcs H1 H2 Hadv.
  destruct (cached_fetch_complete_or_error cs dat c1 rds1 d Hcs H1 Hadv) as (d1 & r1 & rds1' & Hf1 & Ht1 & Hr1).
  destruct Hr1 as [[-> Ha1] | [-> Ha1]].
  - exists d1, (Some dat), rds1', d1, (Some dat), rds2. split; [exact Hf1|].
    split; [apply cached_fetch_hit; exact Ha1|]. auto.
  - destruct (cached_fetch_complete_or_error cs dat c2 rds2 d1 Hcs H2 Ha1) as (d2 & r2 & rds2' & Hf2 & Ht2 & Hr2).
    exists d1, None, rds1', d2, r2, rds2'. split; [exact Hf1|]. split; [exact Hf2|].
    split; [left; reflexivity|]. split; [destruct Hr2 as [[-> _] | [-> _]]; auto|].
    split; [discriminate | congruence].
Qed.

(* finding C20-F1 on this path: a close-delimited response closed cleanly after
   2 of 5 bytes is copied without an error, advertised under the final name, and
   served from the cache from then on, whatever the network does *)
Lemma cached_short_body_stays :
  exists dat c d1 r1 rds1',
    cshape_okb code_cshape = true /\
    cached_fetch code_cshape dat c [] {| adv := None; tmps := [] |} = Ok (d1, r1, rds1') /\
    r1 = Some [1; 2]%N /\ adv d1 = Some [1; 2]%N /\
    forall c2 rds2, cached_fetch code_cshape dat c2 rds2 d1 = Ok (d1, Some [1; 2]%N, rds2).
Proof.
  exists [1; 2; 3; 4; 5]%N, (CCloseDelim HonoursRange 2). eexists _, _, _.
  split; [reflexivity|]. split; [vm_compute; reflexivity|]. split; [reflexivity|]. split; [reflexivity|].
  intros c2 rds2. reflexivity.
Qed.

(* with the copy's error ignored (seeded change C20-6) a cut download is advertised *)
Lemma copy_error_ignored_advertises_short_body :
  exists dat rds d1 r1 rds1',
    cached_fetch {| copy_decides := false; removes_tmp := true; copy_first := true |} dat CServe rds
      {| adv := None; tmps := [] |} = Ok (d1, r1, rds1') /\
    r1 = Some [1; 2]%N /\ adv d1 = Some [1; 2]%N /\ dat = [1; 2; 3; 4; 5]%N.
Proof.
  exists [1; 2; 3; 4; 5]%N, [ {| rk := 2; rfail := true; reager := false |} ]. eexists _, _, _.
  split; [vm_compute; reflexivity|]. auto.
Qed.

(* ---------- io.ReadAll ---------------------------------------------------------- *)
Lemma read_all_spec dat : forall outs acc b,
  valid_outs dat acc outs = [] -> read_all outs acc = Some (Some b) -> b = dat.
Proof.
  induction outs as [|[bs e] more IH]; intros acc b Hv Hr; [discriminate|].
  cbn [valid_outs] in Hv. cbn [read_all] in Hr.
  destruct (is_prefix (acc ++ bs) dat) eqn:Hp.
  2:{ simpl in Hv. discriminate. }
  simpl in Hv. destruct e.
  - simpl in Hv. apply (IH (acc ++ bs) b Hv Hr).
  - inversion Hr; subst. destruct (list_eqb N.eqb (acc ++ bs) dat) eqn:Hq; [|simpl in Hv; discriminate].
    apply list_eqb_spec in Hq; [exact Hq | apply N.eqb_eq].
  - discriminate.
Qed.

(* fetchRepositoryIndex = RoundTrip, status test, io.ReadAll: the bytes it
   returns without an error are exactly the server's *)
Theorem read_all_faithful dat outs b : Faithful dat outs -> read_all outs [] = Some (Some b) -> b = dat.
Proof. intros H. apply read_all_spec. apply valid_outs_iff. exact H. Qed.

(* ---- while the download runs ------------------------------------------------------------ *)
Lemma copy_trace_into_temp fuel d : forall b evs acc,
  Forall (fun d' => adv d' = adv d) (copy_trace fuel true d b evs acc).
Proof.
  induction fuel as [|fuel IH]; intros b evs acc; [constructor|].
  cbn [copy_trace]. destruct (body_read b copy_buf evs) as [[[out e] b'] evs'].
  destruct e; repeat constructor. apply IH.
Qed.

(* At every moment of a download through the cache directory — after the temporary file was
   created, after every body read of the copy, and when retrieveAndSaveFile has returned —
   what another process finds under the final name is nothing, or exactly the server's bytes:
   a partially written file is never advertised (framed response; for every cut). *)
Theorem retrieve_never_advertises_partial cs dat c rds d :
  cshape_okb cs = true -> framed_ev c = true -> adv d = None ->
  Forall (fun d' => adv d' = None \/ adv d' = Some dat) (retrieve_trace cs true dat c rds d).
Proof.
  intros Hcs Hfr Hadv. unfold retrieve_trace.
  assert (Hd : adv d = None \/ adv d = Some dat) by (left; exact Hadv).
  destruct c as [| | |k0|k0 n0]; try discriminate Hfr; try (constructor; [exact Hd | constructor]).
  all: constructor; [left; exact Hadv|]; apply Forall_app; split;
    [eapply Forall_impl; [|apply copy_trace_into_temp]; intros a Ha; left; rewrite Ha; exact Hadv|].
  all: pose proof (cached_fetch_complete_or_error cs dat _ rds d Hcs Hfr Hadv) as (d' & r & rds' & Hf & _ & Hr);
    unfold cached_fetch in Hf; rewrite Hadv in Hf;
    match type of Hf with context [retrieve ?a ?b ?c ?e ?f] => destruct (retrieve a b c e f) as [[[d1 ok] r1]| | |] end;
    cbn [rbind] in Hf; try discriminate; inversion Hf; subst d' r rds';
    constructor; [|constructor]; destruct Hr as [[_ Hx] | [_ Hx]]; [right | left]; exact Hx.
Qed.

(* ... which is a fact about where the copy goes: written straight into the file that carries
   the final name, two of five bytes are there for every reader while the download runs *)
Lemma direct_write_advertises_partial :
  exists dat rds d',
    List.In d' (retrieve_trace {| copy_decides := true; removes_tmp := true; copy_first := true |} false dat CServe rds
                  {| adv := None; tmps := [] |}) /\
    adv d' = Some [1; 2]%N /\ dat = [1; 2; 3; 4; 5]%N.
Proof.
  exists [1; 2; 3; 4; 5]%N, [ {| rk := 2; rfail := false; reager := false |}; {| rk := 1; rfail := true; reager := false |} ].
  eexists. split; [vm_compute; right; left; reflexivity|]. split; reflexivity.
Qed.
