(* C20 — proofs about Model.TransportCallers (fetchRepositoryIndex = RoundTrip,
   status test, io.ReadAll, the decision about ReadAll's error). *)
From Apko Require Import Base.Prelude Generated.Transport Generated.TransportShape
  Model.Transport Model.TransportReq Model.TransportCallers Spec.TransportSpec
  Proofs.TransportProofs Proofs.TransportReqProofs.
Open Scope list_scope.

(* a body read into a non-empty buffer that reports neither EOF nor an error hands over at least one byte *)
Lemma body_read_none_nonempty b lenp evs out b' evs' :
  lenp <> 0 -> body_read b lenp evs = (out, ENone, b', evs') -> out <> [].
Proof.
  intros Hl. unfold body_read. destruct (dead b); [discriminate|].
  destruct lenp as [|lp]; [congruence|].
  destruct (next_rd (S lp) evs) as [ev evs1]. cbv beta iota.
  destruct (rfail ev) eqn:Hf; [discriminate|].
  destruct (rest b) as [|r0 rs] eqn:Hr; [discriminate|].
  set (n := Nat.min (Nat.max 1 (rk ev)) (Nat.min (S lp) (List.length (r0 :: rs)))).
  assert (Hn : 1 <= n) by (unfold n; cbn [List.length]; lia).
  assert (Hne : firstn n (r0 :: rs) <> []).
  { intro Hx. apply (f_equal (@List.length N)) in Hx. rewrite firstn_length in Hx.
    cbn [List.length] in Hx. unfold n in *. cbn [List.length] in *. lia. }
  destruct (skipn n (r0 :: rs)); intros H; inversion H; subst; exact Hne.
Qed.

Lemma attempts_none_nonempty srv sched : forall lenp s last s' out, lenp <> 0 ->
  attempts srv sched lenp s last = Ok (s', (out, ENone)) ->
  (sched = [] /\ last = (out, ENone)) \/ out <> [].
Proof.
  induction sched as [|retry more IH]; intros lenp s last s' out Hl.
  - cbn [attempts]. intros H; inversion H; subst. left; split; reflexivity.
  - cbn [attempts].
    destruct (body_read (bdy s) lenp (reads s)) as [[[o e] b'] evs'] eqn:Hbr.
    destruct e.
    + intros H; inversion H; subst. right. exact (body_read_none_nonempty _ _ _ _ _ _ Hl Hbr).
    + discriminate.
    + destruct retry; [|discriminate].
      destruct (reset srv _) as [[s2 ok]| | |]; cbn [rbind]; try discriminate.
      destruct ok; [|discriminate].
      intros Ha. destruct (IH lenp s2 (o, EFail) s' out Hl Ha) as [[_ Hx] | Hne]; [discriminate | right; exact Hne].
Qed.

Lemma read_call_none_nonempty srv sched s lenp s' out : sched_ok sched = true -> lenp <> 0 ->
  read_call srv sched s lenp = Ok (s', (out, ENone)) -> out <> [].
Proof.
  intros Hok Hl. unfold read_call.
  destruct (attempts srv sched lenp s ([], ENone)) as [[s1 [o e]]| | |] eqn:Ha; cbn [rbind]; try discriminate.
  intros H; inversion H; subst.
  destruct (attempts_none_nonempty srv sched lenp s ([], ENone) s1 out Hl Ha) as [[Hs _] | Hne]; [|exact Hne].
  subst sched. discriminate.
Qed.

Section ReadAll.
Variable sh : shape.
Variable srv : server_r.
Variable flag x : bool.
Hypothesis Hsh : shape_okb sh = true.
Let dat := data (base srv).
Hypothesis Hsmall : List.length dat < readall_cap.

Lemma read_all_r_spec sched (Hok : sched_ok sched = true) fuel : forall sr s acc,
  R sr s -> Inv (base srv) x s -> acc = firstn (progress s) dat ->
  List.length dat - progress s < fuel ->
  exists sr' res, read_all_r fuel flag sh srv sched sr acc = Ok (sr', res) /\
    (forall b, res = Some b -> exists suf, dat = b ++ suf) /\
    (x = true -> flag = true -> forall b, res = Some b -> b = dat).
Proof.
  induction fuel as [|fuel IH]; intros sr s acc HR Hinv Hacc Hf; [lia|].
  cbn [read_all_r].
  assert (Hp : progress s <= List.length dat) by apply Hinv.
  assert (Hal : List.length acc = progress s).
  { subst acc. rewrite firstn_length. lia. }
  assert (Hl : readall_cap - List.length acc <> 0) by lia.
  destruct (read_call_spec (base srv) x sched s (readall_cap - List.length acc) Hok Hinv)
    as (s1 & out & e & Hrc & Hinv1 & Hp1 & Hout & Heof).
  destruct (read_call_sim sh srv Hsh sched sr s _ s1 (out, e) HR Hrc) as (sr1 & Hrcr & HR1).
  rewrite Hrcr. cbn [rbind].
  assert (Hacc1 : acc ++ out = firstn (progress s1) dat).
  { rewrite Hacc. rewrite Hout at 1. rewrite firstn_add_skipn. rewrite Hp1. reflexivity. }
  assert (Hpre : exists suf, dat = (acc ++ out) ++ suf).
  { exists (skipn (progress s1) dat). rewrite Hacc1. symmetry. apply firstn_skipn. }
  destruct e.
  - assert (Hne : out <> []) by (apply (read_call_none_nonempty (base srv) sched s _ s1 out Hok Hl Hrc)).
    assert (1 <= List.length out) by (destruct out; [congruence | simpl; lia]).
    assert (Hp1' : progress s1 <= List.length dat) by apply Hinv1.
    apply (IH sr1 s1 (acc ++ out) HR1 Hinv1 Hacc1). lia.
  - eexists _, _. split; [reflexivity|]. split.
    + intros b H. injection H as <-. exact Hpre.
    + intros Hx _ b H. injection H as <-. rewrite Hacc1, (Heof eq_refl Hx). apply firstn_all.
  - eexists _, _. split; [reflexivity|]. split.
    + intros b H. destruct flag; [discriminate|]. injection H as <-. exact Hpre.
    + intros _ Hfl b H. rewrite Hfl in H. discriminate.
Qed.

Theorem index_fetch_r_spec sched rds cns : sched_ok sched = true -> (x = true -> framed cns) ->
  exists so res, index_fetch_r flag sh srv sched rds cns = Ok (so, res) /\
    (forall b, res = Some b -> exists suf, dat = b ++ suf) /\
    (x = true -> flag = true -> forall b, res = Some b -> b = dat).
Proof.
  intros Hok Hfr. unfold index_fetch_r.
  destruct (open_spec (base srv) x rds cns Hfr) as (s0 & ok & Ho & Hp0 & Hinv0).
  destruct (open_sim sh srv Hsh rds cns s0 ok Ho) as (sr0 & Hor & HR0).
  rewrite Hor. cbn [rbind]. destruct ok.
  - destruct (read_all_r_spec sched Hok (S (S (List.length dat))) sr0 s0 [] (HR0 eq_refl) Hinv0) as (sr1 & res & Hra & A & B).
    + rewrite Hp0. reflexivity.
    + lia.
    + fold dat. rewrite Hra. cbn [rbind]. eexists _, _. split; [reflexivity|]. split; assumption.
  - eexists _, _. split; [reflexivity|]. split; [discriminate | intros _ _ b H; discriminate].
Qed.

End ReadAll.

(* the decision about ReadAll's error is not decoration (seeded change C20-9: the error
   is returned only under a further condition, which a response without Content-Length
   never meets): a resumption answered 503 ends the Read with an error, and the two bytes
   read so far come back as the complete index *)
Lemma read_error_dropped_short_index :
  exists srv rds cns so,
    index_fetch_r false {| range_add := false; hdr_shared := true; install_early := false; fail_closes := true |}
      srv [true; true; false] rds cns = Ok (so, Some [1; 2]%N) /\
    data (base srv) = [1; 2; 3; 4; 5]%N /\ framed cns.
Proof.
  exists {| base := {| data := [1; 2; 3; 4; 5]%N; kind := HonoursRange; bare := false |}; ebody := [66]%N |}.
  exists [ {| rk := 2; rfail := false; reager := false |}; {| rk := 0; rfail := true; reager := false |} ].
  exists [CServe; CStatus]. eexists.
  split; [vm_compute; reflexivity|]. split; reflexivity.
Qed.

(* the statement Properties/C20.v exposes: below ReadAll's first buffer size, for every script:
   fetchRepositoryIndex terminates; what it returns is a prefix of the server's bytes, and all of
   them when every response is framed *)
Theorem index_fetch_complete_or_error flag sh srv sched rds cns :
  flag = true -> shape_okb sh = true -> sched_ok sched = true ->
  List.length (data (base srv)) < readall_cap ->
  exists so res, index_fetch_r flag sh srv sched rds cns = Ok (so, res) /\
    (forall b, res = Some b -> exists suf, data (base srv) = b ++ suf) /\
    (framed cns -> forall b, res = Some b -> b = data (base srv)).
Proof.
  intros Hfl Hsh Hok Hsmall.
  destruct (index_fetch_r_spec sh srv flag false Hsh Hsmall sched rds cns Hok) as (so & res & H & A & _); [discriminate|].
  exists so, res. split; [exact H|]. split; [exact A|].
  intros Hfr b Hb.
  destruct (index_fetch_r_spec sh srv flag true Hsh Hsmall sched rds cns Hok (fun _ => Hfr)) as (so2 & res2 & H2 & _ & B).
  rewrite H in H2. inversion H2; subst so2 res2. apply (B eq_refl Hfl b Hb).
Qed.
