(* C20 — proofs about Model.Transport. *)
From Apko Require Import Base.Prelude Model.Transport Spec.TransportSpec.
Open Scope list_scope.

(* ---------- list facts ---------------------------------------------------- *)
Lemma skipn_skipn' {A} (n m : nat) (l : list A) : skipn n (skipn m l) = skipn (m + n) l.
Proof.
  revert l; induction m as [|m IH]; intros l; simpl; [reflexivity|].
  destruct l as [|x l]; simpl; [destruct n; reflexivity | apply IH].
Qed.

Lemma firstn_add_skipn {A} (p n : nat) (l : list A) :
  firstn p l ++ firstn n (skipn p l) = firstn (p + n) l.
Proof.
  revert l; induction p as [|p IH]; intros l; simpl; [reflexivity|].
  destruct l as [|x l]; simpl; [destruct n; reflexivity | f_equal; apply IH].
Qed.

Lemma skipn_nil_length {A} (n : nat) (l : list A) : skipn n l = [] -> List.length l <= n.
Proof.
  revert l; induction n as [|n IH]; intros l H; simpl in *.
  - subst; simpl; lia.
  - destruct l as [|x l]; simpl; [lia|]. apply IH in H. lia.
Qed.

Lemma skipn_length' {A} (n : nat) (l : list A) : List.length (skipn n l) = List.length l - n.
Proof. apply skipn_length. Qed.

Lemma is_prefix_spec a b : is_prefix a b = true <-> exists suf, b = a ++ suf.
Proof.
  revert b; induction a as [|x a IH]; intros b; simpl.
  - split; [intros _; exists b; reflexivity | reflexivity].
  - destruct b as [|y b].
    + split; [discriminate | intros [suf H]; discriminate].
    + rewrite andb_true_iff, IH, N.eqb_eq. split.
      * intros [-> [suf ->]]. exists suf; reflexivity.
      * intros [suf H]. inversion H; subst. split; [reflexivity | exists suf; reflexivity].
Qed.

Lemma is_prefix_firstn n (l : list N) : is_prefix (firstn n l) l = true.
Proof. apply is_prefix_spec. exists (skipn n l). symmetry; apply firstn_skipn. Qed.

(* ---------- the invariant ------------------------------------------------- *)
Section WithServer.
Variable srv : server.
Let dat := data srv.

(* body [b] is positioned at offset [p] of the server's bytes *)
Definition positioned (b : body) (p : nat) : Prop :=
  dead b = false -> rest b = skipn p dat.

Definition Inv (s : st) : Prop :=
  progress s <= List.length dat /\ positioned (bdy s) (progress s).

Lemma body_read_spec b p lenp evs out e b' evs' :
  positioned b p -> p <= List.length dat ->
  body_read b lenp evs = (out, e, b', evs') ->
  out = firstn (List.length out) (skipn p dat) /\
  p + List.length out <= List.length dat /\
  positioned b' (p + List.length out) /\
  (e = EEOF -> p + List.length out = List.length dat) /\
  (e = ENone -> lenp <> 0 -> out <> []).
Proof.
  intros Hpos Hp. unfold body_read.
  destruct (dead b) eqn:Hd.
  { intros H; inversion H; subst. simpl. rewrite Nat.add_0_r.
    repeat split; auto; try discriminate. }
  specialize (Hpos Hd).
  destruct lenp as [|lenp'].
  { intros H; inversion H; subst. simpl. rewrite Nat.add_0_r.
    repeat split; auto; try discriminate; try congruence;
    try (intros _; exact Hpos). }
  destruct (next_rd (S lenp') evs) as [ev evs1] eqn:Hev.
  set (want := if rfail ev then rk ev else Nat.max 1 (rk ev)).
  set (n := Nat.min want (Nat.min (S lenp') (List.length (rest b)))).
  assert (Hn : n <= List.length (rest b)) by (unfold n; lia).
  assert (Hlen : List.length (firstn n (rest b)) = n) by (apply firstn_length_le; exact Hn).
  assert (Hrl : List.length (rest b) = List.length dat - p) by (rewrite Hpos; apply skipn_length).
  assert (Hskip : skipn n (rest b) = skipn (p + n) dat) by (rewrite Hpos; apply skipn_skipn').
  assert (Hfirst : firstn n (rest b) = firstn n (skipn p dat)) by (rewrite Hpos; reflexivity).
  destruct (rfail ev) eqn:Hf.
  { intros H; inversion H; subst; clear H. rewrite Hlen.
    split; [exact Hfirst|]. split; [lia|]. split; [intro Hx; simpl in Hx; discriminate|].
    split; discriminate. }
  destruct (rest b) as [|r0 rs] eqn:Hr.
  { intros H; inversion H; subst; clear H. simpl. rewrite Nat.add_0_r.
    split; [reflexivity|]. split; [exact Hp|].
    split; [intros _; rewrite Hr; exact Hpos|].
    split; [|discriminate].
    intros _. symmetry in Hpos. apply skipn_nil_length in Hpos. lia. }
  assert (Hn1 : 1 <= n) by (unfold n, want; cbn [List.length]; lia).
  assert (Hne : firstn n (r0 :: rs) <> []).
  { intro Hx. rewrite Hx in Hlen. simpl in Hlen. lia. }
  destruct (skipn n (r0 :: rs)) as [|q0 qs] eqn:Hq.
  - intros H; inversion H; subst; clear H. rewrite Hlen.
    split; [exact Hfirst|]. split; [lia|].
    split; [intros _; simpl; exact Hskip|].
    split; [|intros _ _; exact Hne].
    intros _. symmetry in Hskip. apply skipn_nil_length in Hskip. lia.
  - intros H; inversion H; subst; clear H. rewrite Hlen.
    split; [exact Hfirst|]. split; [lia|].
    split; [intros _; simpl; exact Hskip|].
    split; [discriminate | intros _ _; exact Hne].
Qed.

Lemma body_read_len b lenp evs out e b' evs' :
  body_read b lenp evs = (out, e, b', evs') -> List.length out <= lenp.
Proof.
  intros H. apply (f_equal (fun x => fst (fst (fst x)))) in H. cbn [fst] in H. subst out.
  unfold body_read. destruct (dead b); [simpl; lia|].
  destruct lenp as [|lp]; [simpl; lia|].
  destruct (next_rd (S lp) evs) as [ev evs1].
  assert (HX : forall k (l : list N), List.length (firstn (Nat.min k (Nat.min (S lp) (List.length l))) l) <= S lp).
  { intros k l. rewrite firstn_length. lia. }
  destruct (rfail ev); [apply HX|].
  destruct (rest b) as [|r0 rs]; [simpl; lia|].
  destruct (skipn _ _); apply HX.
Qed.

(* ---------- the discard loop of the 200 branch ---------------------------- *)
Lemma discard_spec fuel : forall left b evs q,
  left <= fuel -> positioned b q -> q + left <= List.length dat ->
  exists r evs', discard fuel left b evs = Ok (r, evs') /\
    forall b', r = Some b' -> positioned b' (q + left).
Proof.
  induction fuel as [|fuel IH]; intros left b evs q Hf Hpos Hq.
  - assert (left = 0) by lia; subst. simpl. eexists _, _; split; [reflexivity|].
    intros b' H; inversion H; subst. rewrite Nat.add_0_r; exact Hpos.
  - destruct left as [|left'].
    { simpl. eexists _, _; split; [reflexivity|].
      intros b' H; inversion H; subst. rewrite Nat.add_0_r; exact Hpos. }
    cbn [discard].
    destruct (body_read b (Nat.min discard_buf (S left')) evs) as [[[out e] b1] evs1] eqn:Hbr.
    pose proof (body_read_spec _ _ _ _ _ _ _ _ Hpos ltac:(lia) Hbr) as (Hout & Hle & Hpos1 & Heof & Hnz).
    assert (Hol : List.length out <= S left') by (apply body_read_len in Hbr; lia).
    destruct (S left' - List.length out) as [|l'] eqn:Hl'.
    + eexists _, _; split; [reflexivity|]. intros b' H; inversion H; subst.
      replace (q + S left') with (q + List.length out) by lia. exact Hpos1.
    + destruct e.
      * assert (out <> []) as Hne.
        { apply Hnz; [reflexivity|]. unfold discard_buf.
          assert (N.to_nat 8192 <> 0) by (vm_compute; discriminate). lia. }
        assert (1 <= List.length out) by (destruct out; [congruence | simpl; lia]).
        destruct (IH (S l') b1 evs1 (q + List.length out)) as (r & evs' & Hd & Hr); try lia; auto.
        exists r, evs'. split; [exact Hd|].
        intros b' Hb. replace (q + S left') with (q + List.length out + S l') by lia. apply Hr; exact Hb.
      * eexists _, _; split; [reflexivity|]. intros b' H; discriminate.
      * eexists _, _; split; [reflexivity|]. intros b' H; discriminate.
Qed.

(* ---------- reset ---------------------------------------------------------- *)
(* no duplicate, no skip: after every successful reset the body is positioned
   exactly at [progress], on the 206 branch and on the 200 branch alike *)
Lemma reset_spec s : progress s <= List.length dat ->
  exists s' ok, reset srv s = Ok (s', ok) /\ progress s' = progress s /\ Inv s' /\
    (ok = false -> dead (bdy s') = true).
Proof.
  intros Hp. unfold reset.
  destruct (next_conn (conns s)) as [c conns'].
  set (closed := {| rest := rest (bdy s); dead := true |}).
  assert (Hclosed : forall p, positioned closed p) by (intros p H; discriminate).
  assert (Hfail : forall s1, progress s1 = progress s -> bdy s1 = closed ->
            exists s' ok, Ok (s1, false) = Ok (s', ok) /\ progress s' = progress s /\ Inv s' /\
              (ok = false -> dead (bdy s') = true)).
  { intros s1 H1 H2. exists s1, false. split; [reflexivity|]. split; [exact H1|].
    split; [split; [rewrite H1; exact Hp | rewrite H2; apply Hclosed] | intros _; rewrite H2; reflexivity]. }
  assert (Hgood : forall s1, progress s1 = progress s -> positioned (bdy s1) (progress s) ->
            exists s' ok, Ok (s1, true) = Ok (s', ok) /\ progress s' = progress s /\ Inv s' /\
              (ok = false -> dead (bdy s') = true)).
  { intros s1 H1 H2. exists s1, true. split; [reflexivity|]. split; [exact H1|].
    split; [split; [rewrite H1; exact Hp | rewrite H1; exact H2] | discriminate]. }
  assert (Hserve : forall knd : skind, exists s' ok,
     match match progress s with 0 => None | S p0 => Some (S p0) end with
     | None => Ok ({| progress := progress s; bdy := {| rest := data srv; dead := false |};
                      reads := reads s; conns := conns';
                      reqs := reqs s ++ [match progress s with 0 => None | S p0 => Some (S p0) end] |}, true)
     | Some p =>
       match knd with
       | RejectsRange => Ok ({| progress := progress s; bdy := closed; reads := reads s; conns := conns';
                                reqs := reqs s ++ [match progress s with 0 => None | S p0 => Some (S p0) end] |}, false)
       | HonoursRange =>
           if Nat.ltb p (List.length (data srv))
           then Ok ({| progress := p; bdy := {| rest := skipn p (data srv); dead := false |};
                       reads := reads s; conns := conns';
                       reqs := reqs s ++ [match progress s with 0 => None | S p0 => Some (S p0) end] |}, true)
           else Ok ({| progress := progress s; bdy := closed; reads := reads s; conns := conns';
                       reqs := reqs s ++ [match progress s with 0 => None | S p0 => Some (S p0) end] |}, false)
       | IgnoresRange =>
           do r <- discard p p {| rest := data srv; dead := false |} (reads s);
           match r with
           | (Some b, evs') => Ok ({| progress := p; bdy := b; reads := evs'; conns := conns';
                                      reqs := reqs s ++ [match progress s with 0 => None | S p0 => Some (S p0) end] |}, true)
           | (None, evs') => Ok ({| progress := p; bdy := closed; reads := evs'; conns := conns';
                                    reqs := reqs s ++ [match progress s with 0 => None | S p0 => Some (S p0) end] |}, false)
           end
       end
     end = Ok (s', ok) /\ progress s' = progress s /\ Inv s' /\ (ok = false -> dead (bdy s') = true)).
  { intros knd. destruct (progress s) as [|p'] eqn:Hpr.
    - apply Hgood; [simpl; auto | simpl; intros _; reflexivity].
    - destruct knd.
      + destruct (Nat.ltb (S p') (List.length (data srv))) eqn:Hlt.
        * apply Hgood; [simpl; auto | simpl; intros _; reflexivity].
        * apply Hfail; simpl; auto.
      + destruct (discard_spec (S p') (S p') {| rest := data srv; dead := false |} (reads s) 0)
          as (r & evs' & Hd & Hr); try lia.
        { intros _; reflexivity. }
        unfold rbind. rewrite Hd. destruct r as [b|].
        * apply Hgood; [simpl; auto | simpl; apply (Hr b eq_refl)].
        * apply Hfail; simpl; auto.
      + apply Hfail; simpl; auto. }
  destruct c as [| | |k0].
  - exact (Hserve (kind srv)).
  - apply Hfail; reflexivity.
  - apply Hfail; reflexivity.
  - exact (Hserve k0).
Qed.

(* ---------- the retry loop ------------------------------------------------- *)
(* a schedule is sound when it is non-empty and its last entry is [false]: a
   successful reset is always followed by another body read *)
Fixpoint sched_ok (l : list bool) : bool :=
  match l with
  | [] => false
  | [b] => negb b
  | _ :: more => sched_ok more
  end.

Definition post (s s' : st) (out : list N) (e : err) : Prop :=
  progress s' = progress s /\
  out = firstn (List.length out) (skipn (progress s) dat) /\
  progress s + List.length out <= List.length dat /\
  positioned (bdy s') (progress s + List.length out) /\
  (e = EEOF -> progress s + List.length out = List.length dat).

Lemma attempts_spec sched : forall lenp s last,
  sched_ok sched = true -> Inv s ->
  exists s' out e, attempts srv sched lenp s last = Ok (s', (out, e)) /\ post s s' out e.
Proof.
  induction sched as [|retry more IH]; intros lenp s last Hok [Hp Hpos]; [discriminate|].
  cbn [attempts].
  destruct (body_read (bdy s) lenp (reads s)) as [[[out e] b'] evs'] eqn:Hbr.
  pose proof (body_read_spec _ _ _ _ _ _ _ _ Hpos Hp Hbr) as (Hout & Hle & Hpos1 & Heof & _).
  set (s1 := {| progress := progress s; bdy := b'; reads := evs'; conns := conns s; reqs := reqs s |}).
  destruct e.
  - eexists _, _, _; split; [reflexivity|]. unfold post; simpl. repeat split; auto; discriminate.
  - eexists _, _, _; split; [reflexivity|]. unfold post; simpl. repeat split; auto; discriminate.
  - destruct retry.
    + destruct (reset_spec s1 Hp) as (s2 & ok & Hr & Hpr2 & Hinv2 & Hdead).
      unfold rbind. rewrite Hr. destruct ok.
      * assert (Hmore : sched_ok more = true).
        { destruct more as [|b m]; [simpl in Hok; discriminate | exact Hok]. }
        destruct (IH lenp s2 (out, EFail) Hmore Hinv2) as (s3 & out3 & e3 & Ha & Hpost).
        exists s3, out3, e3. split; [exact Ha|].
        destruct Hpost as (A & B & C & D & E). simpl in Hpr2.
        unfold post. rewrite <- Hpr2. auto.
      * eexists _, _, _; split; [reflexivity|]. simpl in Hpr2. unfold post.
        split; [exact Hpr2|]. split; [exact Hout|]. split; [exact Hle|].
        split; [|discriminate].
        intros Hx. rewrite (Hdead eq_refl) in Hx. discriminate.
    + eexists _, _, _; split; [reflexivity|]. unfold post; simpl. repeat split; auto; discriminate.
Qed.

Lemma read_call_spec sched s lenp : sched_ok sched = true -> Inv s ->
  exists s' out e, read_call srv sched s lenp = Ok (s', (out, e)) /\
    Inv s' /\ progress s' = progress s + List.length out /\
    out = firstn (List.length out) (skipn (progress s) dat) /\
    (e = EEOF -> progress s' = List.length dat).
Proof.
  intros Hok Hinv. unfold read_call.
  destruct (attempts_spec sched lenp s ([], ENone) Hok Hinv) as (s1 & out & e & Ha & A & B & C & D & E).
  unfold rbind. rewrite Ha. eexists _, _, _; split; [reflexivity|]. simpl.
  rewrite A. repeat split; auto.
Qed.

(* reads so far + what this call sequence delivers = a longer prefix *)
Lemma read_calls_spec sched (Hok : sched_ok sched = true) bufs : forall s, Inv s ->
  exists s' outs, read_calls srv sched s bufs = Ok (s', outs) /\ Inv s' /\
    progress s' = progress s + List.length (delivered outs) /\
    valid_outs dat (firstn (progress s) dat) outs = [].
Proof.
  induction bufs as [|n more IH]; intros s Hinv.
  - eexists _, _; split; [reflexivity|]. simpl. split; [exact Hinv|]. split; [lia | reflexivity].
  - cbn [read_calls].
    destruct (read_call_spec sched s n Hok Hinv) as (s1 & out & e & Hr & Hinv1 & Hp1 & Hout & Heof).
    unfold rbind at 1. rewrite Hr.
    destruct (IH s1 Hinv1) as (s2 & outs & Hrs & Hinv2 & Hp2 & Hval).
    unfold rbind. rewrite Hrs. eexists _, _; split; [reflexivity|].
    split; [exact Hinv2|]. split.
    + unfold delivered in *. simpl. rewrite app_length. lia.
    + cbn [valid_outs].
      assert (Hacc : firstn (progress s) dat ++ out = firstn (progress s1) dat).
      { rewrite Hout at 1. rewrite firstn_add_skipn. rewrite Hp1. reflexivity. }
      rewrite Hacc. rewrite is_prefix_firstn. simpl.
      assert (He : (match e with EEOF => negb (list_eqb N.eqb (firstn (progress s1) dat) dat) | _ => false end) = false).
      { destruct e; try reflexivity. rewrite (Heof eq_refl). rewrite firstn_all.
        apply negb_false_iff. apply list_eqb_spec; [apply N.eqb_eq | reflexivity]. }
      rewrite He. simpl. exact Hval.
Qed.

Lemma open_spec rds cns :
  exists s ok, open srv rds cns = Ok (s, ok) /\ progress s = 0 /\ Inv s.
Proof.
  unfold open.
  destruct (reset_spec {| progress := 0; bdy := {| rest := []; dead := true |}; reads := rds; conns := cns; reqs := [] |})
    as (s & ok & Hr & Hp & Hinv & _); [simpl; lia|].
  exists s, ok. auto.
Qed.

Theorem session_valid sched rds cns bufs : sched_ok sched = true ->
  exists r, session srv sched rds cns bufs = Ok r /\
    forall s outs, r = Some (s, outs) ->
      valid_outs dat [] outs = [] /\ progress s = List.length (delivered outs).
Proof.
  intros Hok. unfold session.
  destruct (open_spec rds cns) as (s0 & ok & Ho & Hp0 & Hinv0).
  unfold rbind at 1. rewrite Ho. destruct ok.
  - destruct (read_calls_spec sched Hok bufs s0 Hinv0) as (s1 & outs & Hr & _ & Hp1 & Hval).
    unfold rbind. rewrite Hr. eexists; split; [reflexivity|].
    intros s outs' H; inversion H; subst. rewrite Hp0 in *. simpl in *. split; [exact Hval | exact Hp1].
  - eexists; split; [reflexivity|]. intros s outs H; discriminate.
Qed.

End WithServer.

(* ---------- the validator decides the readable statement ------------------ *)
Lemma delivered_app a b : delivered (a ++ b) = delivered a ++ delivered b.
Proof. unfold delivered. rewrite map_app, concat_app. reflexivity. Qed.

Lemma valid_outs_sound dat : forall outs acc,
  valid_outs dat acc outs = [] ->
  forall pre o post, outs = pre ++ o :: post ->
    (exists suf, dat = acc ++ delivered (pre ++ [o]) ++ suf) /\
    (snd o = EEOF -> acc ++ delivered (pre ++ [o]) = dat).
Proof.
  induction outs as [|[bs e] more IH]; intros acc Hv pre o post Heq.
  - destruct pre; discriminate.
  - cbn [valid_outs] in Hv.
    destruct (is_prefix (acc ++ bs) dat) eqn:Hpre.
    2:{ simpl in Hv. discriminate. }
    simpl in Hv.
    destruct pre as [|p pre'].
    + simpl in Heq. inversion Heq; subst. unfold delivered; simpl. rewrite app_nil_r. split.
      * apply is_prefix_spec in Hpre. destruct Hpre as [suf ->]. exists suf. rewrite app_assoc. reflexivity.
      * simpl. intros ->. simpl in Hv.
        destruct (list_eqb N.eqb (acc ++ bs) dat) eqn:Hq; [|simpl in Hv; discriminate].
        apply list_eqb_spec in Hq; [exact Hq | apply N.eqb_eq].
    + simpl in Heq. inversion Heq; subst.
      assert (Hm : valid_outs dat (acc ++ bs) (pre' ++ o :: post) = []).
      { destruct (match e with EEOF => _ | _ => false end); simpl in Hv; [discriminate | exact Hv]. }
      destruct (IH _ Hm pre' o post eq_refl) as [A B].
      change ((bs, e) :: pre') with ([(bs, e)] ++ pre'). rewrite <- app_assoc.
      rewrite delivered_app. unfold delivered at 1 3. simpl. rewrite app_nil_r.
      split.
      * destruct A as [suf A]. exists suf. rewrite A. rewrite <- !app_assoc. reflexivity.
      * intros He. rewrite <- (B He). rewrite <- !app_assoc. reflexivity.
Qed.

Lemma valid_outs_complete dat : forall outs acc,
  (forall pre o post, outs = pre ++ o :: post ->
    (exists suf, dat = acc ++ delivered (pre ++ [o]) ++ suf) /\
    (snd o = EEOF -> acc ++ delivered (pre ++ [o]) = dat)) ->
  valid_outs dat acc outs = [].
Proof.
  induction outs as [|[bs e] more IH]; intros acc H; [reflexivity|].
  cbn [valid_outs].
  destruct (H [] (bs, e) more eq_refl) as [[suf A] B].
  unfold delivered in A, B; simpl in A, B. rewrite app_nil_r in A, B.
  assert (Hpre : is_prefix (acc ++ bs) dat = true).
  { apply is_prefix_spec. exists suf. rewrite A. rewrite app_assoc. reflexivity. }
  rewrite Hpre. simpl.
  assert (He : (match e with EEOF => negb (list_eqb N.eqb (acc ++ bs) dat) | _ => false end) = false).
  { destruct e; try reflexivity. apply negb_false_iff. apply list_eqb_spec; [apply N.eqb_eq|]. apply B; reflexivity. }
  rewrite He. simpl. apply IH.
  intros pre o post Heq.
  destruct (H ((bs, e) :: pre) o post) as [[suf' A'] B']; [simpl; rewrite Heq; reflexivity|].
  change (((bs, e) :: pre) ++ [o]) with ([(bs, e)] ++ (pre ++ [o])) in A', B'.
  rewrite delivered_app in A', B'. unfold delivered at 1 in A'. unfold delivered at 1 in B'. simpl in A', B'.
  rewrite app_nil_r in A', B'. split.
  - exists suf'. rewrite A'. rewrite <- !app_assoc. reflexivity.
  - intros Ho. rewrite <- (B' Ho). rewrite <- !app_assoc. reflexivity.
Qed.

Theorem valid_outs_iff dat outs : valid_outs dat [] outs = [] <-> Faithful dat outs.
Proof.
  split.
  - intros H pre o post Heq. apply (valid_outs_sound dat outs [] H pre o post Heq).
  - intros H. apply valid_outs_complete. intros pre o post Heq. apply (H pre o post Heq).
Qed.

(* ---------- exhaustion: when every body read fails, Read reports an error --- *)
Definition failing (ev : rd_ev) : Prop := rfail ev = true.

Lemma body_read_all_fail b lenp evs :
  lenp <> 0 -> Forall failing evs -> 1 <= List.length evs ->
  exists out b' evs', body_read b lenp evs = (out, EFail, b', evs') /\
    dead b' = true /\ Forall failing evs' /\ List.length evs <= S (List.length evs').
Proof.
  intros Hl Hall Hlen. unfold body_read.
  destruct (dead b) eqn:Hd.
  { eexists _, _, _; split; [reflexivity|]. repeat split; auto. }
  destruct lenp as [|lp]; [congruence|].
  destruct evs as [|ev evs1]; [simpl in Hlen; lia|].
  cbn [next_rd]. inversion Hall as [|x l Hev Hrest]; subst.
  unfold failing in Hev. rewrite Hev.
  eexists _, _, _; split; [reflexivity|]. repeat split; auto.
Qed.

Lemma discard_all_fail fuel left evs dat0 :
  left <> 0 -> fuel <> 0 -> Forall failing evs -> 1 <= List.length evs ->
  exists r evs', discard fuel left {| rest := dat0; dead := false |} evs = Ok (r, evs') /\
    (forall b', r = Some b' -> dead b' = true) /\
    Forall failing evs' /\ List.length evs <= S (List.length evs').
Proof.
  intros Hl Hf Hall Hlen.
  destruct left as [|l']; [congruence|]. destruct fuel as [|f']; [congruence|].
  cbn [discard].
  assert (Hm : Nat.min discard_buf (S l') <> 0).
  { unfold discard_buf. assert (N.to_nat 8192 <> 0) by (vm_compute; discriminate). lia. }
  destruct (body_read_all_fail {| rest := dat0; dead := false |} _ evs Hm Hall Hlen)
    as (out & b' & evs' & Hbr & Hdead & Hall' & Hlen').
  rewrite Hbr. destruct (S l' - List.length out).
  - eexists _, _; split; [reflexivity|]. repeat split; auto. intros b0 H; inversion H; subst; exact Hdead.
  - eexists _, _; split; [reflexivity|]. repeat split; auto. intros b0 H; discriminate.
Qed.

Lemma reset_all_fail srv s :
  Forall failing (reads s) -> 1 <= List.length (reads s) ->
  exists s' ok, reset srv s = Ok (s', ok) /\
    Forall failing (reads s') /\ List.length (reads s) <= S (List.length (reads s')).
Proof.
  intros Hall Hlen. unfold reset.
  destruct (next_conn (conns s)) as [c conns'].
  destruct c as [| | |k0]; cbv zeta;
    try (eexists _, _; split; [reflexivity|]; simpl; repeat split; auto; fail).
  all: destruct (progress s) as [|p'] eqn:Hp;
    [eexists _, _; split; [reflexivity|]; simpl; repeat split; auto|].
  all: match goal with |- context [match ?K with HonoursRange => _ | IgnoresRange => _ | RejectsRange => _ end] =>
         destruct K end.
  all: try (destruct (Nat.ltb _ _); eexists _, _; (split; [reflexivity|]); simpl; repeat split; auto; fail).
  all: try (eexists _, _; split; [reflexivity|]; simpl; repeat split; auto; fail).
  all: destruct (discard_all_fail (S p') (S p') (reads s) (data srv)) as (r & evs' & Hd & Hr & Hall' & Hlen'); auto;
    unfold rbind; rewrite Hd; destruct r as [b|];
    eexists _, _; (split; [reflexivity|]); simpl; repeat split; auto.
Qed.

Lemma attempts_all_fail srv sched : forall lenp s last,
  sched_ok sched = true -> lenp <> 0 ->
  Forall failing (reads s) -> 2 * List.length sched <= List.length (reads s) ->
  exists s' out, attempts srv sched lenp s last = Ok (s', (out, EFail)).
Proof.
  induction sched as [|retry more IH]; intros lenp s last Hok Hl Hall Hlen; [discriminate|].
  cbn [attempts]. cbn [List.length] in Hlen.
  destruct (body_read_all_fail (bdy s) lenp (reads s) Hl Hall ltac:(lia))
    as (out & b' & evs' & Hbr & Hdead & Hall' & Hlen').
  rewrite Hbr.
  destruct retry; [|eexists _, _; reflexivity].
  set (s1 := {| progress := progress s; bdy := b'; reads := evs'; conns := conns s; reqs := reqs s |}).
  assert (Hmore : sched_ok more = true /\ more <> []).
  { destruct more as [|b m]; [simpl in Hok; discriminate | split; [exact Hok | discriminate]]. }
  destruct Hmore as [Hmore Hne].
  assert (1 <= List.length more) by (destruct more; [congruence | simpl; lia]).
  destruct (reset_all_fail srv s1) as (s2 & ok & Hr & Hall2 & Hlen2); simpl; auto; try lia.
  unfold rbind. rewrite Hr. destruct ok; [|eexists _, _; reflexivity].
  apply IH; auto. simpl in Hlen2. lia.
Qed.

Theorem read_call_exhausted srv sched s lenp :
  sched_ok sched = true -> lenp <> 0 ->
  Forall failing (reads s) -> 2 * List.length sched <= List.length (reads s) ->
  exists s' out, read_call srv sched s lenp = Ok (s', (out, EFail)).
Proof.
  intros Hok Hl Hall Hlen. unfold read_call.
  destruct (attempts_all_fail srv sched lenp s ([], ENone) Hok Hl Hall Hlen) as (s' & out & Ha).
  unfold rbind. rewrite Ha. eexists _, _; reflexivity.
Qed.

(* ---------- statements in the shape Properties/C20.v exposes --------------- *)
Lemma session_faithful srv sched rds cns bufs : sched_ok sched = true ->
  exists r, session srv sched rds cns bufs = Ok r /\
    forall s outs, r = Some (s, outs) ->
      Faithful (data srv) outs /\ progress s = List.length (delivered outs).
Proof.
  intros Hok. destruct (session_valid srv sched rds cns bufs Hok) as (r & Hr & H).
  exists r. split; [exact Hr|]. intros s outs E. destruct (H s outs E) as [A B].
  split; [apply valid_outs_iff; exact A | exact B].
Qed.

Lemma reset_resumes_exactly srv s : progress s <= List.length (data srv) ->
  exists s' ok, reset srv s = Ok (s', ok) /\ progress s' = progress s /\
    (dead (bdy s') = false -> rest (bdy s') = skipn (progress s) (data srv)) /\
    (ok = false -> dead (bdy s') = true).
Proof.
  intros Hp. destruct (reset_spec srv s Hp) as (s' & ok & Hr & Hpr & [_ Hpos] & Hd).
  exists s', ok. repeat split; auto. intros Ha. rewrite <- Hpr. apply Hpos; exact Ha.
Qed.

(* the hypothesis on the schedule is not decoration: with a schedule that ends
   in [true] the reader duplicates bytes *)
Lemma bad_schedule_duplicates :
  exists srv rds cns bufs s outs,
    session srv [true; true; true] rds cns bufs = Ok (Some (s, outs)) /\
    valid_outs (data srv) [] outs <> [].
Proof.
  exists {| data := [1; 2; 3]%N; kind := HonoursRange |}.
  exists [ {| rk := 1; rfail := true; reager := false |};
           {| rk := 1; rfail := true; reager := false |};
           {| rk := 1; rfail := true; reager := false |} ].
  exists [], [2; 2]. eexists _, _. split; [vm_compute; reflexivity|]. vm_compute. discriminate.
Qed.
