(* C20 — proofs about Model.Transport. *)
From Apko Require Import Base.Prelude Model.Transport Spec.TransportSpec.
Open Scope list_scope.

(* ---------- list facts ---------------------------------------------------- *)
Lemma skipn_skipn' {A} (n m : nat) (l : list A) : skipn n (skipn m l) = skipn (m + n) l.
Proof.
  revert l; induction m as [|m IH]; intros l; simpl; [reflexivity|].
  destruct l as [|x l]; simpl; [destruct n; reflexivity | apply IH].
Qed.

Lemma firstn_add_skipn {A} (p n : nat) (l : list A) :
  firstn p l ++ firstn n (skipn p l) = firstn (p + n) l.
Proof.
  revert l; induction p as [|p IH]; intros l; simpl; [reflexivity|].
  destruct l as [|x l]; simpl; [destruct n; reflexivity | f_equal; apply IH].
Qed.

Lemma skipn_nil_length {A} (n : nat) (l : list A) : skipn n l = [] -> List.length l <= n.
Proof.
  revert l; induction n as [|n IH]; intros l H; simpl in *.
  - subst; simpl; lia.
  - destruct l as [|x l]; simpl; [lia|]. apply IH in H. lia.
Qed.

Lemma skipn_length' {A} (n : nat) (l : list A) : List.length (skipn n l) = List.length l - n.
Proof. apply skipn_length. Qed.

Lemma is_prefix_spec a b : is_prefix a b = true <-> exists suf, b = a ++ suf.
Proof.
  revert b; induction a as [|x a IH]; intros b; simpl.
  - split; [intros _; exists b; reflexivity | reflexivity].
  - destruct b as [|y b].
    + split; [discriminate | intros [suf H]; discriminate].
    + rewrite andb_true_iff, IH, N.eqb_eq. split.
      * intros [-> [suf ->]]. exists suf; reflexivity.
      * intros [suf H]. inversion H; subst. split; [reflexivity | exists suf; reflexivity].
Qed.

Lemma is_prefix_firstn n (l : list N) : is_prefix (firstn n l) l = true.
Proof. apply is_prefix_spec. exists (skipn n l). symmetry; apply firstn_skipn. Qed.

(* ---------- the invariant ------------------------------------------------- *)
Lemma prefix_step (dat R suf : list N) p n :
  skipn p dat = R ++ suf -> n <= List.length R ->
  firstn n R = firstn n (skipn p dat) /\ skipn (p + n) dat = skipn n R ++ suf /\
  p + List.length R + List.length suf = Nat.max p (List.length dat).
Proof.
  intros H Hn. split; [|split].
  - rewrite H, firstn_app. replace (n - List.length R) with 0 by lia. simpl. rewrite app_nil_r. reflexivity.
  - rewrite <- skipn_skipn'. rewrite H, skipn_app. replace (n - List.length R) with 0 by lia. reflexivity.
  - apply (f_equal (@List.length N)) in H. rewrite skipn_length, app_length in H. lia.
Qed.

Section WithServer.
Variable srv : server.
Let dat := data srv.
(* [x] = true: every response of the session is framed, a body ends only where
   the server's bytes end; false: a body may also end early (close-delimited
   response closed cleanly) *)
Variable x : bool.

(* body [b] is positioned at offset [p] of the server's bytes: what it still
   holds is what the server holds from [p] on, up to the early end [suf] *)
Definition positioned (b : body) (p : nat) : Prop :=
  dead b = false -> exists suf, skipn p dat = rest b ++ suf /\ (x = true -> suf = []).

Definition Inv (s : st) : Prop :=
  progress s <= List.length dat /\ positioned (bdy s) (progress s) /\ (x = true -> framed (conns s)).

Lemma body_read_spec b p lenp evs out e b' evs' :
  positioned b p -> p <= List.length dat ->
  body_read b lenp evs = (out, e, b', evs') ->
  out = firstn (List.length out) (skipn p dat) /\
  p + List.length out <= List.length dat /\
  positioned b' (p + List.length out) /\
  (e = EEOF -> x = true -> p + List.length out = List.length dat) /\
  (e = ENone -> lenp <> 0 -> out <> []).
Proof.
  intros Hpos Hp. unfold body_read.
  destruct (dead b) eqn:Hd.
  { intros H; inversion H; subst. simpl. rewrite Nat.add_0_r.
    repeat split; auto; try discriminate. }
  destruct (Hpos Hd) as (suf & Hsk & Hsuf).
  destruct lenp as [|lenp'].
  { intros H; inversion H; subst. simpl. rewrite Nat.add_0_r.
    repeat split; auto; try discriminate; try congruence. }
  destruct (next_rd (S lenp') evs) as [ev evs1] eqn:Hev.
  set (want := if rfail ev then rk ev else Nat.max 1 (rk ev)).
  set (n := Nat.min want (Nat.min (S lenp') (List.length (rest b)))).
  assert (Hn : n <= List.length (rest b)) by (unfold n; lia).
  assert (Hlen : List.length (firstn n (rest b)) = n) by (apply firstn_length_le; exact Hn).
  destruct (prefix_step dat (rest b) suf p n Hsk Hn) as (Hfirst & Hskip & Hrl).
  assert (Hpos' : forall d, positioned {| rest := skipn n (rest b); dead := d |} (p + n)).
  { intros d _. exists suf. split; [exact Hskip | exact Hsuf]. }
  destruct (rfail ev) eqn:Hf.
  { intros H; inversion H; subst; clear H. rewrite Hlen.
    split; [exact Hfirst|]. split; [lia|]. split; [apply Hpos'|].
    split; discriminate. }
  destruct (rest b) as [|r0 rs] eqn:Hr.
  { intros H; inversion H; subst; clear H. simpl. rewrite Nat.add_0_r.
    split; [reflexivity|]. split; [exact Hp|].
    split; [intros _; exists suf; rewrite Hr; split; [exact Hsk | exact Hsuf]|].
    split; [|discriminate].
    intros _ Hx. rewrite (Hsuf Hx) in Hrl. simpl in Hrl. lia. }
  assert (Hn1 : 1 <= n) by (unfold n, want; cbn [List.length]; lia).
  assert (Hne : firstn n (r0 :: rs) <> []).
  { intro Hx. rewrite Hx in Hlen. simpl in Hlen. lia. }
  destruct (skipn n (r0 :: rs)) as [|q0 qs] eqn:Hq.
  - intros H; inversion H; subst; clear H. rewrite Hlen.
    split; [exact Hfirst|]. split; [lia|].
    split; [intros _; exists suf; split; [exact Hskip | exact Hsuf]|].
    split; [|intros _ _; exact Hne].
    intros _ Hx. rewrite (Hsuf Hx) in Hskip. simpl in Hskip. apply skipn_nil_length in Hskip. lia.
  - intros H; inversion H; subst; clear H. rewrite Hlen.
    split; [exact Hfirst|]. split; [lia|].
    split; [intros _; exists suf; split; [exact Hskip | exact Hsuf]|].
    split; [discriminate | intros _ _; exact Hne].
Qed.

Lemma body_read_len b lenp evs out e b' evs' :
  body_read b lenp evs = (out, e, b', evs') -> List.length out <= lenp.
Proof.
  intros H. apply (f_equal (fun x => fst (fst (fst x)))) in H. cbn [fst] in H. subst out.
  unfold body_read. destruct (dead b); [simpl; lia|].
  destruct lenp as [|lp]; [simpl; lia|].
  destruct (next_rd (S lp) evs) as [ev evs1].
  assert (HX : forall k (l : list N), List.length (firstn (Nat.min k (Nat.min (S lp) (List.length l))) l) <= S lp).
  { intros k l. rewrite firstn_length. lia. }
  destruct (rfail ev); [apply HX|].
  destruct (rest b) as [|r0 rs]; [simpl; lia|].
  destruct (skipn _ _); apply HX.
Qed.

(* ---------- the discard loop of the 200 branch ---------------------------- *)
Lemma discard_spec fuel : forall left b evs q,
  left <= fuel -> positioned b q -> q + left <= List.length dat ->
  exists r evs', discard fuel left b evs = Ok (r, evs') /\
    forall b', r = Some b' -> positioned b' (q + left).
Proof.
  induction fuel as [|fuel IH]; intros left b evs q Hf Hpos Hq.
  - assert (left = 0) by lia; subst. simpl. eexists _, _; split; [reflexivity|].
    intros b' H; inversion H; subst. rewrite Nat.add_0_r; exact Hpos.
  - destruct left as [|left'].
    { simpl. eexists _, _; split; [reflexivity|].
      intros b' H; inversion H; subst. rewrite Nat.add_0_r; exact Hpos. }
    cbn [discard].
    destruct (body_read b (Nat.min discard_buf (S left')) evs) as [[[out e] b1] evs1] eqn:Hbr.
    pose proof (body_read_spec _ _ _ _ _ _ _ _ Hpos ltac:(lia) Hbr) as (Hout & Hle & Hpos1 & Heof & Hnz).
    assert (Hol : List.length out <= S left') by (apply body_read_len in Hbr; lia).
    destruct (S left' - List.length out) as [|l'] eqn:Hl'.
    + eexists _, _; split; [reflexivity|]. intros b' H; inversion H; subst.
      replace (q + S left') with (q + List.length out) by lia. exact Hpos1.
    + destruct e.
      * assert (out <> []) as Hne.
        { apply Hnz; [reflexivity|]. unfold discard_buf.
          assert (N.to_nat 8192 <> 0) by (vm_compute; discriminate). lia. }
        assert (1 <= List.length out) by (destruct out; [congruence | simpl; lia]).
        destruct (IH (S l') b1 evs1 (q + List.length out)) as (r & evs' & Hd & Hr); try lia; auto.
        exists r, evs'. split; [exact Hd|].
        intros b' Hb. replace (q + S left') with (q + List.length out + S l') by lia. apply Hr; exact Hb.
      * eexists _, _; split; [reflexivity|]. intros b' H; discriminate.
      * eexists _, _; split; [reflexivity|]. intros b' H; discriminate.
Qed.

(* ---------- reset ---------------------------------------------------------- *)
Lemma framed_tail c cns : framed (c :: cns) -> framed_ev c = true /\ framed cns.
Proof. unfold framed. simpl. intros H. apply andb_true_iff in H. exact H. Qed.

(* no duplicate, no skip: after every successful reset the body is positioned
   exactly at [progress], on the 206 branch and on the 200 branch alike *)
Lemma reset_spec s : progress s <= List.length dat -> (x = true -> framed (conns s)) ->
  exists s' ok, reset srv s = Ok (s', ok) /\ progress s' = progress s /\ Inv s' /\
    (ok = false -> dead (bdy s') = true).
Proof.
  intros Hp Hfr. unfold reset.
  destruct (next_conn (conns s)) as [c conns'] eqn:Hnc.
  assert (Hc : (x = true -> framed_ev c = true) /\ (x = true -> framed conns')).
  { unfold next_conn in Hnc. destruct (conns s) as [|c0 t] eqn:Hcs; inversion Hnc; subst.
    - split; reflexivity.
    - split; intros Hx; apply (framed_tail _ _ (Hfr Hx)). }
  destruct Hc as [Hcf Hfr'].
  set (closed := {| rest := rest (bdy s); dead := true |}).
  assert (Hclosed : forall p, positioned closed p) by (intros p H; discriminate).
  assert (Hfail : forall s1 okb, progress s1 = progress s -> bdy s1 = closed -> conns s1 = conns' ->
            exists s' ok, Ok (s1, okb) = Ok (s', ok) /\ progress s' = progress s /\ Inv s' /\
              (ok = false -> dead (bdy s') = true)).
  { intros s1 okb H1 H2 H3. exists s1, okb. split; [reflexivity|]. split; [exact H1|].
    split; [split; [rewrite H1; exact Hp | split; [rewrite H2; apply Hclosed | rewrite H3; exact Hfr']]
           | intros _; rewrite H2; reflexivity]. }
  assert (Hgood : forall s1, progress s1 = progress s -> positioned (bdy s1) (progress s) -> conns s1 = conns' ->
            exists s' ok, Ok (s1, true) = Ok (s', ok) /\ progress s' = progress s /\ Inv s' /\
              (ok = false -> dead (bdy s') = true)).
  { intros s1 H1 H2 H3. exists s1, true. split; [reflexivity|]. split; [exact H1|].
    split; [split; [rewrite H1; exact Hp | split; [rewrite H1; exact H2 | rewrite H3; exact Hfr']] | discriminate]. }
  assert (Hex : forall q, positioned {| rest := skipn q (data srv); dead := false |} q).
  { intros q _. exists []. rewrite app_nil_r. split; reflexivity. }
  assert (Htr : forall n q, framed_ev c = false ->
            positioned {| rest := firstn n (skipn q (data srv)); dead := false |} q).
  { intros n q Hc _. exists (skipn n (skipn q (data srv))). cbn [rest]. rewrite firstn_skipn.
    split; [reflexivity|]. intros Hx. rewrite (Hcf Hx) in Hc. discriminate. }
  assert (Hdis : forall R p, positioned {| rest := R; dead := false |} 0 -> p = progress s ->
            exists s' ok,
              (do r <- discard p p {| rest := R; dead := false |} (reads s);
               match r with
               | (Some b, evs') => Ok ({| progress := p; bdy := b; reads := evs'; conns := conns';
                                          reqs := reqs s ++ [Some p] |}, true)
               | (None, evs') => Ok ({| progress := p; bdy := closed; reads := evs'; conns := conns';
                                        reqs := reqs s ++ [Some p] |}, false)
               end) = Ok (s', ok) /\ progress s' = progress s /\ Inv s' /\ (ok = false -> dead (bdy s') = true)).
  { intros R p HR Hpp.
    destruct (discard_spec p p {| rest := R; dead := false |} (reads s) 0)
      as (r & evs' & Hd & Hr); try lia; [exact HR|].
    unfold rbind. rewrite Hd. destruct r as [b|].
    - apply Hgood; [simpl; auto | cbn [bdy]; rewrite <- Hpp; apply (Hr b eq_refl) | reflexivity].
    - apply Hfail; simpl; auto. }
  destruct c as [| | |k0|k0 n0]; cbv beta iota zeta.
  2: apply Hfail; reflexivity.
  2: apply Hfail; reflexivity.
  all: destruct (progress s) as [|p'] eqn:Hpr;
    [apply Hgood; [reflexivity | cbn [bdy]; first [apply (Hex 0) | apply (Htr _ 0); reflexivity] | reflexivity]|].
  all: match goal with |- context [match ?K with HonoursRange => _ | IgnoresRange => _ | RejectsRange => _ end] =>
         destruct K end.
  all: try (apply Hfail; reflexivity).
  all: try (destruct (Nat.ltb (S p') (List.length (data srv)));
            [apply Hgood; [reflexivity | cbn [bdy]; first [apply Hex | apply Htr; reflexivity] | reflexivity]
            | apply Hfail; reflexivity]).
  all: apply (Hdis _ (S p')); [first [apply (Hex 0) | apply (Htr _ 0); reflexivity] | reflexivity].
Qed.

(* ---------- the retry loop ------------------------------------------------- *)
(* a schedule is sound when it is non-empty and its last entry is [false]: a
   successful reset is always followed by another body read *)
Fixpoint sched_ok (l : list bool) : bool :=
  match l with
  | [] => false
  | [b] => negb b
  | _ :: more => sched_ok more
  end.

Definition post (s s' : st) (out : list N) (e : err) : Prop :=
  progress s' = progress s /\
  out = firstn (List.length out) (skipn (progress s) dat) /\
  progress s + List.length out <= List.length dat /\
  positioned (bdy s') (progress s + List.length out) /\
  (x = true -> framed (conns s')) /\
  (e = EEOF -> x = true -> progress s + List.length out = List.length dat).

Lemma attempts_spec sched : forall lenp s last,
  sched_ok sched = true -> Inv s ->
  exists s' out e, attempts srv sched lenp s last = Ok (s', (out, e)) /\ post s s' out e.
Proof.
  induction sched as [|retry more IH]; intros lenp s last Hok (Hp & Hpos & Hfr); [discriminate|].
  cbn [attempts].
  destruct (body_read (bdy s) lenp (reads s)) as [[[out e] b'] evs'] eqn:Hbr.
  pose proof (body_read_spec _ _ _ _ _ _ _ _ Hpos Hp Hbr) as (Hout & Hle & Hpos1 & Heof & _).
  set (s1 := {| progress := progress s; bdy := b'; reads := evs'; conns := conns s; reqs := reqs s |}).
  destruct e.
  - eexists _, _, _; split; [reflexivity|]. unfold post; simpl. repeat split; auto; discriminate.
  - eexists _, _, _; split; [reflexivity|]. unfold post; simpl. repeat split; auto; discriminate.
  - destruct retry.
    + destruct (reset_spec s1 Hp Hfr) as (s2 & ok & Hr & Hpr2 & Hinv2 & Hdead).
      unfold rbind. rewrite Hr. destruct ok.
      * assert (Hmore : sched_ok more = true).
        { destruct more as [|b m]; [simpl in Hok; discriminate | exact Hok]. }
        destruct (IH lenp s2 (out, EFail) Hmore Hinv2) as (s3 & out3 & e3 & Ha & Hpost).
        exists s3, out3, e3. split; [exact Ha|].
        destruct Hpost as (A & B & C & D & E & F). simpl in Hpr2.
        unfold post. rewrite <- Hpr2. auto 10.
      * eexists _, _, _; split; [reflexivity|]. simpl in Hpr2. unfold post.
        split; [exact Hpr2|]. split; [exact Hout|]. split; [exact Hle|].
        split; [|split; [apply Hinv2 | discriminate]].
        intros Hx. rewrite (Hdead eq_refl) in Hx. discriminate.
    + eexists _, _, _; split; [reflexivity|]. unfold post; simpl. repeat split; auto; discriminate.
Qed.

Lemma read_call_spec sched s lenp : sched_ok sched = true -> Inv s ->
  exists s' out e, read_call srv sched s lenp = Ok (s', (out, e)) /\
    Inv s' /\ progress s' = progress s + List.length out /\
    out = firstn (List.length out) (skipn (progress s) dat) /\
    (e = EEOF -> x = true -> progress s' = List.length dat).
Proof.
  intros Hok Hinv. unfold read_call.
  destruct (attempts_spec sched lenp s ([], ENone) Hok Hinv) as (s1 & out & e & Ha & A & B & C & D & E & F).
  unfold rbind. rewrite Ha. eexists _, _, _; split; [reflexivity|]. simpl.
  rewrite A. repeat split; auto.
Qed.

(* reads so far + what this call sequence delivers = a longer prefix *)
Lemma read_calls_spec sched (Hok : sched_ok sched = true) bufs : forall s, Inv s ->
  exists s' outs, read_calls srv sched s bufs = Ok (s', outs) /\ Inv s' /\
    progress s' = progress s + List.length (delivered outs) /\
    delivered outs = firstn (List.length (delivered outs)) (skipn (progress s) dat) /\
    (x = true -> valid_outs dat (firstn (progress s) dat) outs = []).
Proof.
  induction bufs as [|n more IH]; intros s Hinv.
  - eexists _, _; split; [reflexivity|]. simpl. split; [exact Hinv|]. split; [lia | split; reflexivity].
  - cbn [read_calls].
    destruct (read_call_spec sched s n Hok Hinv) as (s1 & out & e & Hr & Hinv1 & Hp1 & Hout & Heof).
    unfold rbind at 1. rewrite Hr.
    destruct (IH s1 Hinv1) as (s2 & outs & Hrs & Hinv2 & Hp2 & Hdel & Hval).
    unfold rbind. rewrite Hrs. eexists _, _; split; [reflexivity|].
    assert (Hd : delivered ((out, e) :: outs) = out ++ delivered outs) by reflexivity.
    split; [exact Hinv2|]. split; [|split].
    + rewrite Hd, app_length. lia.
    + rewrite Hd, app_length. rewrite Hout at 1. rewrite Hdel at 1. rewrite Hp1.
      rewrite <- skipn_skipn'. apply firstn_add_skipn.
    + intros Hx. cbn [valid_outs].
      assert (Hacc : firstn (progress s) dat ++ out = firstn (progress s1) dat).
      { rewrite Hout at 1. rewrite firstn_add_skipn. rewrite Hp1. reflexivity. }
      rewrite Hacc. rewrite is_prefix_firstn. simpl.
      assert (He : (match e with EEOF => negb (list_eqb N.eqb (firstn (progress s1) dat) dat) | _ => false end) = false).
      { destruct e; try reflexivity. rewrite (Heof eq_refl Hx). rewrite firstn_all.
        apply negb_false_iff. apply list_eqb_spec; [apply N.eqb_eq | reflexivity]. }
      rewrite He. simpl. exact (Hval Hx).
Qed.

Lemma open_spec rds cns : (x = true -> framed cns) ->
  exists s ok, open srv rds cns = Ok (s, ok) /\ progress s = 0 /\ Inv s.
Proof.
  intros Hfr. unfold open.
  destruct (reset_spec {| progress := 0; bdy := {| rest := []; dead := true |}; reads := rds; conns := cns; reqs := [] |})
    as (s & ok & Hr & Hp & Hinv & _); [simpl; lia | exact Hfr |].
  unfold rbind. rewrite Hr. eexists _, _. split; [reflexivity|]. auto.
Qed.

Theorem session_gen sched rds cns bufs : sched_ok sched = true -> (x = true -> framed cns) ->
  exists r, session srv sched rds cns bufs = Ok r /\
    forall s outs, r = Some (s, outs) ->
      is_prefix (delivered outs) dat = true /\ progress s = List.length (delivered outs) /\
      (x = true -> valid_outs dat [] outs = []).
Proof.
  intros Hok Hfr. unfold session.
  destruct (open_spec rds cns Hfr) as (s0 & ok & Ho & Hp0 & Hinv0).
  unfold rbind at 1. rewrite Ho. destruct ok.
  - destruct (read_calls_spec sched Hok bufs s0 Hinv0) as (s1 & outs & Hr & _ & Hp1 & Hdel & Hval).
    unfold rbind. rewrite Hr. eexists; split; [reflexivity|].
    intros s outs' H; inversion H; subst. rewrite Hp0 in *. simpl in *.
    split; [rewrite Hdel; apply is_prefix_firstn | split; [exact Hp1 | exact Hval]].
  - eexists; split; [reflexivity|]. intros s outs H; discriminate.
Qed.

End WithServer.

(* ---------- the validator decides the readable statement ------------------ *)
Lemma delivered_app a b : delivered (a ++ b) = delivered a ++ delivered b.
Proof. unfold delivered. rewrite map_app, concat_app. reflexivity. Qed.

Lemma valid_outs_sound dat : forall outs acc,
  valid_outs dat acc outs = [] ->
  forall pre o post, outs = pre ++ o :: post ->
    (exists suf, dat = acc ++ delivered (pre ++ [o]) ++ suf) /\
    (snd o = EEOF -> acc ++ delivered (pre ++ [o]) = dat).
Proof.
  induction outs as [|[bs e] more IH]; intros acc Hv pre o post Heq.
  - destruct pre; discriminate.
  - cbn [valid_outs] in Hv.
    destruct (is_prefix (acc ++ bs) dat) eqn:Hpre.
    2:{ simpl in Hv. discriminate. }
    simpl in Hv.
    destruct pre as [|p pre'].
    + simpl in Heq. inversion Heq; subst. unfold delivered; simpl. rewrite app_nil_r. split.
      * apply is_prefix_spec in Hpre. destruct Hpre as [suf ->]. exists suf. rewrite app_assoc. reflexivity.
      * simpl. intros ->. simpl in Hv.
        destruct (list_eqb N.eqb (acc ++ bs) dat) eqn:Hq; [|simpl in Hv; discriminate].
        apply list_eqb_spec in Hq; [exact Hq | apply N.eqb_eq].
    + simpl in Heq. inversion Heq; subst.
      assert (Hm : valid_outs dat (acc ++ bs) (pre' ++ o :: post) = []).
      { destruct (match e with EEOF => _ | _ => false end); simpl in Hv; [discriminate | exact Hv]. }
      destruct (IH _ Hm pre' o post eq_refl) as [A B].
      change ((bs, e) :: pre') with ([(bs, e)] ++ pre'). rewrite <- app_assoc.
      rewrite delivered_app. unfold delivered at 1 3. simpl. rewrite app_nil_r.
      split.
      * destruct A as [suf A]. exists suf. rewrite A. rewrite <- !app_assoc. reflexivity.
      * intros He. rewrite <- (B He). rewrite <- !app_assoc. reflexivity.
Qed.

Lemma valid_outs_complete dat : forall outs acc,
  (forall pre o post, outs = pre ++ o :: post ->
    (exists suf, dat = acc ++ delivered (pre ++ [o]) ++ suf) /\
    (snd o = EEOF -> acc ++ delivered (pre ++ [o]) = dat)) ->
  valid_outs dat acc outs = [].
Proof.
  induction outs as [|[bs e] more IH]; intros acc H; [reflexivity|].
  cbn [valid_outs].
  destruct (H [] (bs, e) more eq_refl) as [[suf A] B].
  unfold delivered in A, B; simpl in A, B. rewrite app_nil_r in A, B.
  assert (Hpre : is_prefix (acc ++ bs) dat = true).
  { apply is_prefix_spec. exists suf. rewrite A. rewrite app_assoc. reflexivity. }
  rewrite Hpre. simpl.
  assert (He : (match e with EEOF => negb (list_eqb N.eqb (acc ++ bs) dat) | _ => false end) = false).
  { destruct e; try reflexivity. apply negb_false_iff. apply list_eqb_spec; [apply N.eqb_eq|]. apply B; reflexivity. }
  rewrite He. simpl. apply IH.
  intros pre o post Heq.
  destruct (H ((bs, e) :: pre) o post) as [[suf' A'] B']; [simpl; rewrite Heq; reflexivity|].
  change (((bs, e) :: pre) ++ [o]) with ([(bs, e)] ++ (pre ++ [o])) in A', B'.
  rewrite delivered_app in A', B'. unfold delivered at 1 in A'. unfold delivered at 1 in B'. simpl in A', B'.
  rewrite app_nil_r in A', B'. split.
  - exists suf'. rewrite A'. rewrite <- !app_assoc. reflexivity.
  - intros Ho. rewrite <- (B' Ho). rewrite <- !app_assoc. reflexivity.
Qed.

Theorem valid_outs_iff dat outs : valid_outs dat [] outs = [] <-> Faithful dat outs.
Proof.
  split.
  - intros H pre o post Heq. apply (valid_outs_sound dat outs [] H pre o post Heq).
  - intros H. apply valid_outs_complete. intros pre o post Heq. apply (H pre o post Heq).
Qed.

(* ---------- exhaustion: when every body read fails, Read reports an error --- *)
Definition failing (ev : rd_ev) : Prop := rfail ev = true.

Lemma body_read_all_fail b lenp evs :
  lenp <> 0 -> Forall failing evs -> 1 <= List.length evs ->
  exists out b' evs', body_read b lenp evs = (out, EFail, b', evs') /\
    dead b' = true /\ Forall failing evs' /\ List.length evs <= S (List.length evs').
Proof.
  intros Hl Hall Hlen. unfold body_read.
  destruct (dead b) eqn:Hd.
  { eexists _, _, _; split; [reflexivity|]. repeat split; auto. }
  destruct lenp as [|lp]; [congruence|].
  destruct evs as [|ev evs1]; [simpl in Hlen; lia|].
  cbn [next_rd]. inversion Hall as [|x l Hev Hrest]; subst.
  unfold failing in Hev. rewrite Hev.
  eexists _, _, _; split; [reflexivity|]. repeat split; auto.
Qed.

Lemma discard_all_fail fuel left evs dat0 :
  left <> 0 -> fuel <> 0 -> Forall failing evs -> 1 <= List.length evs ->
  exists r evs', discard fuel left {| rest := dat0; dead := false |} evs = Ok (r, evs') /\
    (forall b', r = Some b' -> dead b' = true) /\
    Forall failing evs' /\ List.length evs <= S (List.length evs').
Proof.
  intros Hl Hf Hall Hlen.
  destruct left as [|l']; [congruence|]. destruct fuel as [|f']; [congruence|].
  cbn [discard].
  assert (Hm : Nat.min discard_buf (S l') <> 0).
  { unfold discard_buf. assert (N.to_nat 8192 <> 0) by (vm_compute; discriminate). lia. }
  destruct (body_read_all_fail {| rest := dat0; dead := false |} _ evs Hm Hall Hlen)
    as (out & b' & evs' & Hbr & Hdead & Hall' & Hlen').
  rewrite Hbr. destruct (S l' - List.length out).
  - eexists _, _; split; [reflexivity|]. repeat split; auto. intros b0 H; inversion H; subst; exact Hdead.
  - eexists _, _; split; [reflexivity|]. repeat split; auto. intros b0 H; discriminate.
Qed.

Lemma reset_all_fail srv s :
  Forall failing (reads s) -> 1 <= List.length (reads s) ->
  exists s' ok, reset srv s = Ok (s', ok) /\
    Forall failing (reads s') /\ List.length (reads s) <= S (List.length (reads s')).
Proof.
  intros Hall Hlen. unfold reset.
  destruct (next_conn (conns s)) as [c conns'].
  destruct c as [| | |k0|k0 n0]; cbv zeta;
    try (eexists _, _; split; [reflexivity|]; simpl; repeat split; auto; fail).
  all: destruct (progress s) as [|p'] eqn:Hp;
    [eexists _, _; split; [reflexivity|]; simpl; repeat split; auto|].
  all: match goal with |- context [match ?K with HonoursRange => _ | IgnoresRange => _ | RejectsRange => _ end] =>
         destruct K end.
  all: try (destruct (Nat.ltb _ _); eexists _, _; (split; [reflexivity|]); simpl; repeat split; auto; fail).
  all: try (eexists _, _; split; [reflexivity|]; simpl; repeat split; auto; fail).
  all: match goal with |- context [discard _ _ {| rest := ?R; dead := false |} _] =>
         destruct (discard_all_fail (S p') (S p') (reads s) R) as (r & evs' & Hd & Hr & Hall' & Hlen'); auto end;
    unfold rbind; rewrite Hd; destruct r as [b|];
    eexists _, _; (split; [reflexivity|]); simpl; repeat split; auto.
Qed.

Lemma attempts_all_fail srv sched : forall lenp s last,
  sched_ok sched = true -> lenp <> 0 ->
  Forall failing (reads s) -> 2 * List.length sched <= List.length (reads s) ->
  exists s' out, attempts srv sched lenp s last = Ok (s', (out, EFail)).
Proof.
  induction sched as [|retry more IH]; intros lenp s last Hok Hl Hall Hlen; [discriminate|].
  cbn [attempts]. cbn [List.length] in Hlen.
  destruct (body_read_all_fail (bdy s) lenp (reads s) Hl Hall ltac:(lia))
    as (out & b' & evs' & Hbr & Hdead & Hall' & Hlen').
  rewrite Hbr.
  destruct retry; [|eexists _, _; reflexivity].
  set (s1 := {| progress := progress s; bdy := b'; reads := evs'; conns := conns s; reqs := reqs s |}).
  assert (Hmore : sched_ok more = true /\ more <> []).
  { destruct more as [|b m]; [simpl in Hok; discriminate | split; [exact Hok | discriminate]]. }
  destruct Hmore as [Hmore Hne].
  assert (1 <= List.length more) by (destruct more; [congruence | simpl; lia]).
  destruct (reset_all_fail srv s1) as (s2 & ok & Hr & Hall2 & Hlen2); simpl; auto; try lia.
  unfold rbind. rewrite Hr. destruct ok; [|eexists _, _; reflexivity].
  apply IH; auto. simpl in Hlen2. lia.
Qed.

Theorem read_call_exhausted srv sched s lenp :
  sched_ok sched = true -> lenp <> 0 ->
  Forall failing (reads s) -> 2 * List.length sched <= List.length (reads s) ->
  exists s' out, read_call srv sched s lenp = Ok (s', (out, EFail)).
Proof.
  intros Hok Hl Hall Hlen. unfold read_call.
  destruct (attempts_all_fail srv sched lenp s ([], ENone) Hok Hl Hall Hlen) as (s' & out & Ha).
  unfold rbind. rewrite Ha. eexists _, _; reflexivity.
Qed.

(* ---------- statements in the shape Properties/C20.v exposes --------------- *)
Lemma session_faithful srv sched rds cns bufs : sched_ok sched = true -> framed cns ->
  exists r, session srv sched rds cns bufs = Ok r /\
    forall s outs, r = Some (s, outs) ->
      Faithful (data srv) outs /\ progress s = List.length (delivered outs).
Proof.
  intros Hok Hfr. destruct (session_gen srv true sched rds cns bufs Hok (fun _ => Hfr)) as (r & Hr & H).
  exists r. split; [exact Hr|]. intros s outs E. destruct (H s outs E) as (_ & B & C).
  split; [apply valid_outs_iff; exact (C eq_refl) | exact B].
Qed.

(* whatever the framing: never duplicated, skipped or altered *)
Lemma session_prefix srv sched rds cns bufs : sched_ok sched = true ->
  exists r, session srv sched rds cns bufs = Ok r /\
    forall s outs, r = Some (s, outs) ->
      (exists suf, data srv = delivered outs ++ suf) /\ progress s = List.length (delivered outs).
Proof.
  intros Hok.
  destruct (session_gen srv false sched rds cns bufs Hok) as (r & Hr & H); [discriminate|].
  exists r. split; [exact Hr|]. intros s outs E. destruct (H s outs E) as (A & B & _).
  split; [apply is_prefix_spec; exact A | exact B].
Qed.

Lemma reset_resumes_exactly srv s : progress s <= List.length (data srv) ->
  exists s' ok suf, reset srv s = Ok (s', ok) /\ progress s' = progress s /\
    (dead (bdy s') = false -> skipn (progress s) (data srv) = rest (bdy s') ++ suf) /\
    (framed (conns s) -> suf = []) /\
    (ok = false -> dead (bdy s') = true).
Proof.
  intros Hp.
  destruct (reset_spec srv false s Hp) as (s' & ok & Hr & Hpr & (_ & Hpos & _) & Hd); [discriminate|].
  destruct (dead (bdy s')) eqn:Hdead.
  - exists s', ok, []. split; [exact Hr|]. split; [exact Hpr|].
    split; [intros Hx; rewrite Hdead in Hx; discriminate|].
    split; [intros _; reflexivity | intros _; exact Hdead].
  - destruct (Hpos Hdead) as (suf & Hsk & _).
    (* the framed case: the same reset, read with the exact invariant *)
    exists s', ok, suf. split; [exact Hr|]. split; [exact Hpr|]. split; [intros _; rewrite <- Hpr; exact Hsk|].
    split; [|intros Hx; specialize (Hd Hx); discriminate].
    intros Hfr.
    destruct (reset_spec srv true s Hp (fun _ => Hfr)) as (s2 & ok2 & Hr2 & _ & (_ & Hpos2 & _) & _).
    rewrite Hr in Hr2. inversion Hr2; subst s2 ok2.
    destruct (Hpos2 Hdead) as (suf2 & Hsk2 & Hnil). specialize (Hnil eq_refl). subst suf2.
    rewrite app_nil_r in Hsk2. rewrite Hsk2 in Hsk.
    apply (f_equal (@List.length N)) in Hsk. rewrite app_length in Hsk.
    destruct suf; [reflexivity | simpl in Hsk; lia].
Qed.

(* the hypothesis on the schedule is not decoration: with a schedule that ends
   in [true] the reader duplicates bytes *)
Lemma bad_schedule_duplicates :
  exists srv rds cns bufs s outs,
    session srv [true; true; true] rds cns bufs = Ok (Some (s, outs)) /\
    valid_outs (data srv) [] outs <> [].
Proof.
  exists {| data := [1; 2; 3]%N; kind := HonoursRange; bare := false |}.
  exists [ {| rk := 1; rfail := true; reager := false |};
           {| rk := 1; rfail := true; reager := false |};
           {| rk := 1; rfail := true; reager := false |} ].
  exists [], [2; 2]. eexists _, _. split; [vm_compute; reflexivity|]. vm_compute. discriminate.
Qed.

(* ---------- completion ------------------------------------------------------ *)
Lemma skip_ok_nil left : skip_ok left [] = Some [].
Proof. destruct left; reflexivity. Qed.

Lemma skip_ok_0 evs : skip_ok 0 evs = Some evs.
Proof. destruct evs; reflexivity. Qed.

Lemma discard_buf_pos : discard_buf <> 0.
Proof. unfold discard_buf. vm_compute. discriminate. Qed.

(* [skip_ok] and [call_ok] read the script the way the model does *)
Lemma skip_ok_unfold l evs :
  skip_ok (S l) evs =
  let (ev, evs') := next_rd (Nat.min discard_buf (S l)) evs in
  if rfail ev then None
  else skip_ok (S l - Nat.min (Nat.max 1 (rk ev)) (Nat.min discard_buf (S l))) evs'.
Proof.
  destruct evs as [|ev evs']; [|reflexivity].
  unfold next_rd. cbn [rfail rk]. rewrite !skip_ok_nil. reflexivity.
Qed.

Lemma call_ok_unfold len k retry more lenp p evs : lenp <> 0 ->
  call_ok len k (retry :: more) lenp p evs =
  let (ev, evs') := next_rd lenp evs in
  if rfail ev then
    if retry then
      match reconnect_ok len k p evs' with
      | Some evs'' => call_ok len k more lenp p evs''
      | None => None
      end
    else None
  else Some (Nat.min (Nat.max 1 (rk ev)) (Nat.min lenp (len - p)), evs').
Proof.
  intros Hl. destruct evs as [|ev evs']; [|reflexivity].
  unfold next_rd. cbn [call_ok rfail rk]. f_equal. f_equal. lia.
Qed.

Section Live.
Variable srv : server.
Let dat := data srv.
Let len := List.length dat.

(* between two Read calls of a surviving session: a live, framed connection at [progress] *)
Definition Good (s : st) : Prop :=
  progress s <= len /\ dead (bdy s) = false /\ rest (bdy s) = skipn (progress s) dat /\ all_serve (conns s).

Lemma body_read_live b p lenp evs ev evs' :
  dead b = false -> rest b = skipn p dat -> p <= len -> lenp <> 0 ->
  next_rd lenp evs = (ev, evs') -> rfail ev = false ->
  exists out e b', body_read b lenp evs = (out, e, b', evs') /\
    List.length out = Nat.min (Nat.max 1 (rk ev)) (Nat.min lenp (len - p)) /\
    out = firstn (List.length out) (skipn p dat) /\
    dead b' = false /\ rest b' = skipn (p + List.length out) dat /\
    e <> EFail /\ (p = len -> e = EEOF) /\ (e = EEOF -> p + List.length out = len) /\
    (p < len -> 1 <= List.length out).
Proof.
  intros Hd Hr Hp Hl Hn Hf. unfold body_read. rewrite Hd.
  destruct lenp as [|lp]; [congruence|]. rewrite Hn, Hf.
  assert (Hsl : List.length (skipn p dat) = len - p) by apply skipn_length.
  rewrite Hr. destruct (skipn p dat) as [|r0 rs] eqn:Hsk.
  - simpl in Hsl. eexists _, _, _; split; [reflexivity|]. cbn [List.length].
    rewrite Nat.add_0_r. repeat split; auto; try discriminate; try lia; try congruence.
  - set (n := Nat.min (Nat.max 1 (rk ev)) (Nat.min (S lp) (List.length (r0 :: rs)))).
    assert (Hn1 : 1 <= n) by (unfold n; cbn [List.length]; lia).
    assert (Hnl : n <= List.length (r0 :: rs)) by (unfold n; lia).
    assert (Hfl : List.length (firstn n (r0 :: rs)) = n) by (apply firstn_length_le; exact Hnl).
    assert (Hsk' : skipn n (r0 :: rs) = skipn (p + n) dat) by (rewrite <- Hsk; apply skipn_skipn').
    assert (Hplt : p < len) by (cbn [List.length] in Hsl; lia).
    assert (Hnil : skipn n (r0 :: rs) = [] -> p + n = len).
    { intros Hx. apply skipn_nil_length in Hx. lia. }
    destruct (skipn n (r0 :: rs)) as [|q0 qs] eqn:Hq.
    + eexists _, _, _; split; [reflexivity|]. rewrite Hfl. cbn [dead rest].
      split; [unfold n; rewrite Hsl; reflexivity|]. split; [reflexivity|]. split; [reflexivity|].
      split; [exact Hsk'|]. split; [destruct (reager ev); discriminate|].
      split; [lia|]. split; [intros _; apply Hnil; reflexivity | intros _; exact Hn1].
    + eexists _, _, _; split; [reflexivity|]. rewrite Hfl. cbn [dead rest].
      split; [unfold n; rewrite Hsl; reflexivity|]. split; [reflexivity|]. split; [reflexivity|].
      split; [exact Hsk'|]. split; [discriminate|].
      split; [lia|]. split; [discriminate | intros _; exact Hn1].
Qed.

Lemma body_read_dies b lenp evs ev evs' :
  dead b = false -> lenp <> 0 -> next_rd lenp evs = (ev, evs') -> rfail ev = true ->
  exists out b', body_read b lenp evs = (out, EFail, b', evs').
Proof.
  intros Hd Hl Hn Hf. unfold body_read. rewrite Hd.
  destruct lenp as [|lp]; [congruence|]. rewrite Hn, Hf. eexists _, _; reflexivity.
Qed.

Lemma discard_live fuel : forall left b evs q evs'',
  left <= fuel -> dead b = false -> rest b = skipn q dat -> q + left <= len ->
  skip_ok left evs = Some evs'' ->
  exists b', discard fuel left b evs = Ok (Some b', evs'') /\
    dead b' = false /\ rest b' = skipn (q + left) dat.
Proof.
  induction fuel as [|fuel IH]; intros left b evs q evs'' Hf Hd Hr Hq Hs.
  - assert (left = 0) by lia; subst. rewrite skip_ok_0 in Hs. simpl. inversion Hs; subst.
    exists b. rewrite Nat.add_0_r. auto.
  - destruct left as [|l].
    { rewrite skip_ok_0 in Hs. simpl. inversion Hs; subst. exists b. rewrite Nat.add_0_r. auto. }
    rewrite skip_ok_unfold in Hs. cbn [discard].
    set (lenp := Nat.min discard_buf (S l)) in *.
    assert (Hlp : lenp <> 0) by (unfold lenp; pose proof discard_buf_pos; lia).
    destruct (next_rd lenp evs) as [ev evs1] eqn:Hn.
    destruct (rfail ev) eqn:Hfl; [discriminate|].
    destruct (body_read_live b q lenp evs ev evs1 Hd Hr ltac:(lia) Hlp Hn Hfl)
      as (out & e & b1 & Hbr & Hlen & _ & Hd1 & Hr1 & Hne & _ & Heof & _).
    rewrite Hbr.
    assert (Hlen' : List.length out = Nat.min (Nat.max 1 (rk ev)) lenp) by (rewrite Hlen; unfold lenp; lia).
    rewrite <- Hlen' in Hs.
    assert (Hol : List.length out <= S l) by (rewrite Hlen'; unfold lenp; lia).
    destruct (S l - List.length out) as [|l'] eqn:Hl'.
    + rewrite skip_ok_0 in Hs. inversion Hs; subst. exists b1. split; [reflexivity|]. split; [exact Hd1|].
      rewrite Hr1. f_equal. lia.
    + destruct e.
      * destruct (IH (S l') b1 evs1 (q + List.length out) evs'') as (b2 & Hdis & Hd2 & Hr2); auto; try lia.
        exists b2. split; [exact Hdis|]. split; [exact Hd2|]. rewrite Hr2. f_equal. lia.
      * specialize (Heof eq_refl). lia.
      * congruence.
Qed.

Lemma all_serve_next cns : all_serve cns ->
  exists cns', next_conn cns = (CServe, cns') /\ all_serve cns'.
Proof.
  intros H. destruct cns as [|c t].
  - exists []. split; [reflexivity | constructor].
  - inversion H; subst. exists t. split; [reflexivity | assumption].
Qed.

Lemma reset_live s evs'' :
  progress s <= len -> all_serve (conns s) ->
  reconnect_ok len (kind srv) (progress s) (reads s) = Some evs'' ->
  exists s', reset srv s = Ok (s', true) /\ Good s' /\ progress s' = progress s /\ reads s' = evs''.
Proof.
  intros Hp Hc Hrc. unfold reset.
  destruct (all_serve_next _ Hc) as (cns' & Hn & Hc'). rewrite Hn.
  unfold reconnect_ok in Hrc.
  destruct (progress s) as [|p'] eqn:Hpr.
  - inversion Hrc; subst. eexists; split; [reflexivity|]. unfold Good; simpl. repeat split; auto; lia.
  - destruct (kind srv).
    + change (List.length (data srv)) with len.
      destruct (Nat.ltb (S p') len) eqn:Hlt; [|discriminate]. inversion Hrc; subst.
      eexists; split; [reflexivity|]. unfold Good; simpl. repeat split; auto.
    + destruct (discard_live (S p') (S p') {| rest := data srv; dead := false |} (reads s) 0 evs'')
        as (b' & Hdis & Hd & Hr); auto.
      unfold rbind. rewrite Hdis. eexists; split; [reflexivity|]. unfold Good; simpl. repeat split; auto.
    + discriminate.
Qed.

Lemma attempts_live sched : forall s last lenp n evs',
  Good s -> lenp <> 0 ->
  call_ok len (kind srv) sched lenp (progress s) (reads s) = Some (n, evs') ->
  exists s' out e, attempts srv sched lenp s last = Ok (s', (out, e)) /\
    progress s' = progress s /\ List.length out = n /\ reads s' = evs' /\
    out = firstn n (skipn (progress s) dat) /\
    dead (bdy s') = false /\ rest (bdy s') = skipn (progress s + n) dat /\ all_serve (conns s') /\
    e <> EFail /\ (progress s = len -> e = EEOF) /\ (e = EEOF -> progress s + n = len) /\
    (progress s < len -> 1 <= n).
Proof.
  induction sched as [|retry more IH]; intros s last lenp n evs' (Hp & Hd & Hr & Hc) Hl Hco; [discriminate|].
  rewrite call_ok_unfold in Hco by exact Hl. cbn [attempts].
  destruct (next_rd lenp (reads s)) as [ev evs1] eqn:Hn.
  destruct (rfail ev) eqn:Hf.
  - destruct retry; [|discriminate].
    destruct (reconnect_ok len (kind srv) (progress s) evs1) as [evs2|] eqn:Hrc; [|discriminate].
    destruct (body_read_dies (bdy s) lenp (reads s) ev evs1 Hd Hl Hn Hf) as (out & b' & Hbr).
    rewrite Hbr.
    set (s1 := {| progress := progress s; bdy := b'; reads := evs1; conns := conns s; reqs := reqs s |}).
    destruct (reset_live s1 evs2 Hp Hc Hrc) as (s2 & Hrs & Hg2 & Hp2 & Hr2).
    unfold rbind. rewrite Hrs. simpl in Hp2.
    rewrite <- Hp2, <- Hr2 in Hco.
    destruct (IH s2 (out, EFail) lenp n evs' Hg2 Hl Hco) as (s3 & out3 & e3 & Ha & A).
    exists s3, out3, e3. split; [exact Ha|]. rewrite <- Hp2. exact A.
  - destruct (body_read_live (bdy s) (progress s) lenp (reads s) ev evs1 Hd Hr Hp Hl Hn Hf)
      as (out & e & b1 & Hbr & Hlen & Hout & Hd1 & Hr1 & Hne & Hend & Heof & Hpos).
    rewrite <- Hlen in Hco. injection Hco as <- <-.
    rewrite Hbr.
    destruct e; [| |congruence];
      (eexists _, _, _; split; [reflexivity|]; cbn [progress bdy reads conns]; repeat split; auto; discriminate).
Qed.

Lemma read_call_live sched s lenp n evs' :
  Good s -> lenp <> 0 ->
  call_ok len (kind srv) sched lenp (progress s) (reads s) = Some (n, evs') ->
  exists s' out e, read_call srv sched s lenp = Ok (s', (out, e)) /\ Good s' /\
    progress s' = progress s + n /\ List.length out = n /\ reads s' = evs' /\
    out = firstn n (skipn (progress s) dat) /\
    e <> EFail /\ (progress s = len -> e = EEOF) /\ (progress s < len -> 1 <= n).
Proof.
  intros Hg Hl Hco. unfold read_call.
  destruct (attempts_live sched s ([], ENone) lenp n evs' Hg Hl Hco)
    as (s1 & out & e & Ha & Hp1 & Hlen & Hr1 & Hout & Hd1 & Hrest & Hc1 & Hne & Hend & Heof & Hpos).
  unfold rbind. rewrite Ha. eexists _, _, _; split; [reflexivity|].
  destruct Hg as (Hp & _).
  assert (Hle : progress s + n <= len).
  { subst n. rewrite Hout, firstn_length, skipn_length. fold len. lia. }
  unfold Good; cbn [progress bdy reads conns]. rewrite Hp1, Hlen. repeat split; auto.
Qed.

Lemma read_calls_live sched bufs : forall s,
  Good s -> tolerated len (kind srv) sched bufs (progress s) (reads s) = true ->
  exists s' outs, read_calls srv sched s bufs = Ok (s', outs) /\ Good s' /\
    progress s' = progress s + List.length (delivered outs) /\
    delivered outs = firstn (List.length (delivered outs)) (skipn (progress s) dat) /\
    Forall (fun o => snd o <> EFail) outs /\
    (len - progress s < List.length bufs -> Exists (fun o => snd o = EEOF) outs /\ progress s' = len).
Proof.
  induction bufs as [|lenp more IH]; intros s Hg Ht.
  - eexists _, _; split; [reflexivity|]. simpl. split; [exact Hg|]. split; [lia|].
    split; [reflexivity|]. split; [constructor | intros H; lia].
  - cbn [tolerated] in Ht. destruct lenp as [|lp]; [discriminate|].
    destruct (call_ok len (kind srv) sched (S lp) (progress s) (reads s)) as [[n evs']|] eqn:Hco; [|discriminate].
    destruct (read_call_live sched s (S lp) n evs' Hg ltac:(discriminate) Hco)
      as (s1 & out & e & Hrc & Hg1 & Hp1 & Hlen & Hr1 & Hout & Hne & Hend & Hpos).
    rewrite <- Hp1, <- Hr1 in Ht.
    destruct (IH s1 Hg1 Ht) as (s2 & outs & Hrs & Hg2 & Hp2 & Hdel & Hall & Hex).
    cbn [read_calls]. unfold rbind at 1. rewrite Hrc. unfold rbind. rewrite Hrs.
    eexists _, _; split; [reflexivity|].
    assert (Hd : delivered ((out, e) :: outs) = out ++ delivered outs) by reflexivity.
    split; [exact Hg2|]. split; [rewrite Hd, app_length; lia|]. split; [|split].
    + rewrite Hd, app_length, Hlen. rewrite Hout at 1. rewrite Hdel at 1. rewrite Hp1.
      rewrite <- skipn_skipn'. apply firstn_add_skipn.
    + constructor; [exact Hne | exact Hall].
    + cbn [List.length]. intros Hlt.
      destruct Hg as (Hp & _). destruct Hg2 as (Hp2' & _).
      destruct (Nat.eq_dec (progress s) len) as [Heq|Hneq].
      * split; [apply Exists_cons_hd; exact (Hend Heq) | lia].
      * assert (1 <= n) by (apply Hpos; lia).
        destruct Hex as [He Hpe]; [lia|]. split; [apply Exists_cons_tl; exact He | exact Hpe].
Qed.

Theorem session_live sched rds cns bufs :
  all_serve cns ->
  tolerated len (kind srv) sched bufs 0 rds = true ->
  len < List.length bufs ->
  exists s outs, session srv sched rds cns bufs = Ok (Some (s, outs)) /\ Complete dat outs.
Proof.
  intros Hc Ht Hlen. unfold session, open.
  set (s0 := {| progress := 0; bdy := {| rest := []; dead := true |}; reads := rds; conns := cns; reqs := [] |}).
  destruct (reset_live s0 rds) as (s1 & Hrs & Hg1 & Hp1 & Hr1); [simpl; lia | exact Hc | reflexivity |].
  unfold rbind at 1 2. rewrite Hrs. simpl in Hp1, Hr1.
  rewrite <- Hp1, <- Hr1 in Ht.
  destruct (read_calls_live sched bufs s1 Hg1 Ht) as (s2 & outs & Hrc & _ & Hp2 & Hdel & Hall & Hex).
  assert (Hlive : dead (bdy s1) = false) by apply Hg1.
  rewrite Hlive. cbn [andb negb].
  unfold rbind. rewrite Hrc. exists s2, outs. split; [reflexivity|].
  destruct Hex as [He Hpe]; [lia|]. rewrite Hp1 in *. simpl in Hp2, Hdel.
  split; [|split; [exact Hall | exact He]].
  rewrite Hdel. rewrite <- Hp2, Hpe. apply firstn_all.
Qed.

End Live.

(* ---------- the boolean form of [Complete] ---------------------------------- *)
Lemma complete_b_iff dat outs : complete_b dat outs = true <-> Complete dat outs.
Proof.
  unfold complete_b, Complete. rewrite !andb_true_iff.
  rewrite list_eqb_spec by apply N.eqb_eq.
  rewrite forallb_forall, Forall_forall, existsb_exists, Exists_exists.
  split.
  - intros [[A B] (o & Ho & C)]. split; [exact A|]. split.
    + intros o' Hin He. specialize (B o' Hin). rewrite He in B. discriminate.
    + exists o. split; [exact Ho|]. destruct (snd o); try discriminate. reflexivity.
  - intros (A & B & (o & Ho & C)). split; [split; [exact A|]|].
    + intros o' Hin. specialize (B o' Hin). destruct (snd o'); try reflexivity. congruence.
    + exists o. split; [exact Ho|]. rewrite C. reflexivity.
Qed.

(* ---------- the corners the completion theorem excludes are real ------------ *)
Definition count_failing (rds : list rd_ev) : nat := List.length (filter rfail rds).

(* a Range-honouring server, ONE fault in the whole download, arriving after
   the last byte was handed over but before end-of-file was seen: the resume
   asks for bytes=len-, is answered 416, and the Read reports an error *)
Lemma live_416_corner :
  exists srv rds bufs s outs,
    kind srv = HonoursRange /\ count_failing rds = 1 /\
    List.length (data srv) < List.length bufs /\ Forall (fun n => n <> 0) bufs /\
    session srv [true; true; false] rds [] bufs = Ok (Some (s, outs)) /\
    delivered outs = data srv /\
    Exists (fun o => snd o = EFail) outs /\ ~ Exists (fun o => snd o = EEOF) outs /\
    reqs s = [None; Some 3; Some 3; Some 3] /\
    tolerated (List.length (data srv)) (kind srv) [true; true; false] bufs 0 rds = false.
Proof.
  exists {| data := [1; 2; 3]%N; kind := HonoursRange; bare := false |}.
  exists [ {| rk := 3; rfail := false; reager := false |}; {| rk := 0; rfail := true; reager := false |} ].
  exists [3; 3; 3; 3]. eexists _, _.
  split; [reflexivity|]. split; [reflexivity|]. split; [simpl; lia|].
  split; [repeat constructor; discriminate|].
  split; [vm_compute; reflexivity|]. split; [reflexivity|].
  split; [apply Exists_cons_tl, Exists_cons_hd; reflexivity|].
  split; [|split; reflexivity].
  intros H. apply Exists_exists in H. destruct H as (o & Hin & He).
  simpl in Hin. repeat (destruct Hin as [<-|Hin]; [discriminate|]). exact Hin.
Qed.

(* a server without Range support, two faults inside one Read (the schedule
   has two [true] entries): the second one hits the restarted connection while
   the already-delivered prefix is being discarded; the reset fails and the Read
   reports an error although one retry is left *)
Lemma live_restart_cut :
  exists srv rds bufs s outs,
    kind srv = IgnoresRange /\ count_failing rds = 2 /\
    List.length (data srv) < List.length bufs /\ Forall (fun n => n <> 0) bufs /\
    session srv [true; true; false] rds [] bufs = Ok (Some (s, outs)) /\
    Exists (fun o => snd o = EFail) outs /\
    reqs s = [None; Some 2; Some 3] /\
    tolerated (List.length (data srv)) (kind srv) [true; true; false] bufs 0 rds = false.
Proof.
  exists {| data := [10; 20; 30; 40; 50]%N; kind := IgnoresRange; bare := false |}.
  exists [ {| rk := 2; rfail := false; reager := false |}; {| rk := 1; rfail := true; reager := false |};
           {| rk := 1; rfail := true; reager := false |} ].
  exists [2; 2; 2; 2; 2; 2]. eexists _, _.
  split; [reflexivity|]. split; [reflexivity|]. split; [simpl; lia|].
  split; [repeat constructor; discriminate|].
  split; [vm_compute; reflexivity|].
  split; [apply Exists_cons_tl, Exists_cons_hd; reflexivity|].
  split; reflexivity.
Qed.

(* a response that announces no length and is not chunked, closed cleanly after
   two of five bytes, no fault reported anywhere: the reader reports EOF *)
Lemma short_body_close_delimited :
  exists srv cns bufs s outs,
    session srv [true; true; false] [] cns bufs = Ok (Some (s, outs)) /\
    outs = [([1; 2]%N, ENone); ([], EEOF)] /\
    valid_outs (data srv) [] outs = ["viol:eof-before-complete"%string] /\
    reqs s = [None].
Proof.
  exists {| data := [1; 2; 3; 4; 5]%N; kind := HonoursRange; bare := false |}.
  exists [CCloseDelim HonoursRange 2], [4; 4]. eexists _, _.
  split; [vm_compute; reflexivity|]. split; [reflexivity|]. split; reflexivity.
Qed.
