(* C20 — Model.TransportReq (request headers as state, error responses with
   bodies, explicit status codes) refines Model.Transport for every shape of the
   text that is [shape_okb]; what follows from that. *)
From Apko Require Import Base.Prelude Generated.Transport Generated.TransportShape
  Model.Transport Model.TransportReq Spec.TransportSpec Proofs.TransportProofs.
Open Scope list_scope.

(* ---------- bodies: a closed body's remaining bytes are never looked at ------ *)
Definition body_rel (br b : body) : Prop := (dead br = true /\ dead b = true) \/ br = b.

Lemma body_rel_refl b : body_rel b b.
Proof. right; reflexivity. Qed.

Lemma body_rel_dead br b : dead br = true -> dead b = true -> body_rel br b.
Proof. intros; left; split; assumption. Qed.

Lemma body_read_rel br b lenp evs :
  body_rel br b ->
  exists out e br' b' evs',
    body_read br lenp evs = (out, e, br', evs') /\ body_read b lenp evs = (out, e, b', evs') /\ body_rel br' b'.
Proof.
  intros [[Hr Hb] | ->].
  - unfold body_read. rewrite Hr, Hb. eexists _, _, _, _, _. split; [reflexivity|]. split; [reflexivity|].
    apply body_rel_dead; assumption.
  - destruct (body_read b lenp evs) as [[[out e] b'] evs'].
    eexists _, _, _, _, _. split; [reflexivity|]. split; [reflexivity | apply body_rel_refl].
Qed.

(* ---------- the discard loop: the same loop, the body kept in the failing case -- *)
Lemma discard_r_eq fuel : forall left b evs,
  discard fuel left b evs =
  (do r <- discard_r fuel left b evs;
   let '(ok, b', evs') := r in Ok (if ok then Some b' else None, evs')).
Proof.
  induction fuel as [|fuel IH]; intros left b evs.
  - destruct left; reflexivity.
  - destruct left as [|l]; [reflexivity|]. cbn [discard discard_r].
    destruct (body_read b (Nat.min discard_buf (S l)) evs) as [[[out e] b'] evs'].
    destruct (S l - List.length out); [reflexivity|].
    destruct e; [apply IH | reflexivity | reflexivity].
Qed.

(* ---------- the relation between the two models' states ---------------------- *)
Record R (sr : st_r) (s : st) : Prop := {
  R_prog : rprogress sr = progress s;
  R_body : body_rel (rbdy sr) (bdy s);
  R_reads : rreads sr = reads s;
  R_conns : rconns sr = conns s;
  R_hdr : rprogress sr = 0 -> rhdr sr = [];
  R_sent : List.map (fun ph => hd_error (snd ph)) (rsent sr) = reqs s;
  R_sent_ok : Forall (fun ph => snd ph = range_values (fst ph)) (rsent sr)
}.

(* what reset leaves behind, before Read has dealt with a failure *)
Record Rw (sh : shape) (ok : bool) (sr : st_r) (s : st) : Prop := {
  W_prog : rprogress sr = progress s;
  W_body_ok : ok = true -> body_rel (rbdy sr) (bdy s);
  W_body_fail : ok = false -> dead (bdy s) = true /\ (install_early sh = false -> dead (rbdy sr) = true);
  W_reads : rreads sr = reads s;
  W_conns : rconns sr = conns s;
  W_hdr : rprogress sr = 0 -> rhdr sr = [];
  W_sent : List.map (fun ph => hd_error (snd ph)) (rsent sr) = reqs s;
  W_sent_ok : Forall (fun ph => snd ph = range_values (fst ph)) (rsent sr)
}.

Lemma shape_ok_hdr sh p h : shape_okb sh = true -> (p = 0 -> h = []) ->
  (match p with
   | O => if hdr_shared sh then h else []
   | _ => if range_add sh then (if hdr_shared sh then h else []) ++ [p] else [p]
   end) = range_values p.
Proof.
  unfold shape_okb. intros Hok Hh. apply andb_true_iff in Hok. destruct Hok as [Hok _].
  destruct p as [|p'].
  - rewrite (Hh eq_refl). destruct (hdr_shared sh); reflexivity.
  - destruct (range_add sh); [|reflexivity]. destruct (hdr_shared sh); [discriminate | reflexivity].
Qed.

Lemma shape_ok_body sh : shape_okb sh = true -> install_early sh = false \/ fail_closes sh = true.
Proof.
  unfold shape_okb. intros Hok. apply andb_true_iff in Hok. destruct Hok as [_ Hok].
  destruct (install_early sh); [right | left; reflexivity]. exact Hok.
Qed.

Lemma map_sent_app (l : list (nat * list nat)) p :
  List.map (fun ph => hd_error (snd ph)) (l ++ [(p, range_values p)]) =
  List.map (fun ph => hd_error (snd ph)) l ++ [match p with O => None | S n => Some (S n) end].
Proof. rewrite map_app. simpl. destruct p; reflexivity. Qed.

Lemma sent_ok_app (l : list (nat * list nat)) p :
  Forall (fun ph => snd ph = range_values (fst ph)) l ->
  Forall (fun ph => snd ph = range_values (fst ph)) (l ++ [(p, range_values p)]).
Proof. intros H. apply Forall_app. split; [exact H | constructor; [reflexivity | constructor]]. Qed.

(* the header kept for the next attempt is empty as long as progress is 0 *)
Lemma hkeep_inv sh p h : (p = 0 -> h = []) -> p = 0 ->
  (if hdr_shared sh then range_values p else h) = [].
Proof. intros Hh Hp. destruct (hdr_shared sh); [subst; reflexivity | apply Hh; exact Hp]. Qed.

Section Sim.
Variable sh : shape.
Variable srv : server_r.
Hypothesis Hsh : shape_okb sh = true.

Lemma reset_sim sr s s' ok : R sr s -> reset (base srv) s = Ok (s', ok) ->
  exists sr' o, reset_r sh srv sr = Ok (sr', o) /\ (o = RFail <-> ok = false) /\ Rw sh ok sr' s'.
Proof.
  intros [Hp Hb Hr Hc Hh Hs Hso].
  destruct sr as [pr br rr cr hr sn]; destruct s as [p b rds cns q]. cbn [rprogress rbdy rreads rconns rhdr rsent
    progress bdy reads conns reqs] in *. subst pr rr cr q.
  unfold reset, reset_r. cbn [rprogress rbdy rreads rconns rhdr rsent progress bdy reads conns reqs].
  rewrite (shape_ok_hdr sh p hr Hsh Hh).
  destruct (next_conn cns) as [c conns'].
  assert (Hk0 : forall (P : Prop), P -> P) by auto.
  pose proof (hkeep_inv sh p hr Hh) as Hkeep.
  pose proof (map_sent_app sn p) as Hmap. pose proof (sent_ok_app sn p Hso) as Hok'.
  (* closed bodies on both sides *)
  assert (Hcl : body_rel {| rest := rest br; dead := true |} {| rest := rest b; dead := true |})
    by (apply body_rel_dead; reflexivity).
  set (hk := if hdr_shared sh then range_values p else hr) in *.
  assert (Hfail : forall brx evs okb, (okb = false -> install_early sh = false -> dead brx = true) ->
            (okb = true -> dead brx = true) ->
            Rw sh okb
              {| rprogress := p; rbdy := brx; rreads := evs; rconns := conns'; rhdr := hk;
                 rsent := sn ++ [(p, range_values p)] |}
              {| progress := p; bdy := {| rest := rest b; dead := true |}; reads := evs; conns := conns';
                 reqs := List.map (fun ph => hd_error (snd ph)) sn ++ [match p with O => None | S n => Some (S n) end] |}).
  { intros brx evs okb H1 H2. constructor; cbn [rprogress rbdy rreads rconns rhdr rsent progress bdy reads conns reqs]; auto.
    all: intros E; first [apply body_rel_dead; [apply H2; exact E | reflexivity] | split; [reflexivity | apply H1; exact E]]. }
  assert (Hgood : forall bx evs,
            Rw sh true
              {| rprogress := p; rbdy := bx; rreads := evs; rconns := conns'; rhdr := hk;
                 rsent := sn ++ [(p, range_values p)] |}
              {| progress := p; bdy := bx; reads := evs; conns := conns';
                 reqs := List.map (fun ph => hd_error (snd ph)) sn ++ [match p with O => None | S n => Some (S n) end] |}).
  { intros bx evs. constructor; cbn [rprogress rbdy rreads rconns rhdr rsent progress bdy reads conns reqs]; auto.
    all: first [intros _; apply body_rel_refl | discriminate]. }
  assert (Hiff1 : RFail = RFail <-> false = false) by (split; reflexivity).
  assert (Hiff2 : forall st, RResp st = RFail <-> true = false) by (intros st; split; discriminate).
  unfold answer.
  destruct c as [| | |k0|k0 n0]; cbv beta iota zeta.
  - (* CServe *)
    destruct p as [|p']; cbn [range_values].
    { intros H; inversion H; subst; clear H. eexists _, _. split; [reflexivity|]. split; [apply Hiff2 | apply Hgood]. }
    destruct (kind (base srv)).
    + destruct (Nat.ltb (S p') (List.length (data (base srv)))); cbn [r_body r_status].
      * intros H; inversion H; subst; clear H. eexists _, _. split; [reflexivity|]. split; [apply Hiff2 | apply Hgood].
      * destruct (bare (base srv)); cbn [r_body r_status]; intros H; inversion H; subst; clear H;
          eexists _, _; (split; [reflexivity|]).
        -- split; [apply Hiff2 | apply Hfail; [discriminate | reflexivity]].
        -- split; [apply Hiff1 | apply Hfail; [intros _ E; rewrite E; reflexivity | discriminate]].
    + cbn [r_body r_status]. rewrite discard_r_eq.
      destruct (discard_r (S p') (S p') {| rest := data (base srv); dead := false |} rds) as [[[okd b'] evs']| | |];
        cbn [rbind]; try discriminate.
      destruct okd; intros H; inversion H; subst; clear H; eexists _, _; (split; [reflexivity|]).
      * split; [apply Hiff2 | apply Hgood].
      * split; [apply Hiff1 | apply Hfail; [intros _ E; rewrite E; reflexivity | discriminate]].
    + destruct (bare (base srv)); cbn [r_body r_status]; intros H; inversion H; subst; clear H;
        eexists _, _; (split; [reflexivity|]).
      * split; [apply Hiff2 | apply Hfail; [discriminate | reflexivity]].
      * split; [apply Hiff1 | apply Hfail; [intros _ E; rewrite E; reflexivity | discriminate]].
  - (* CErr *)
    intros H; inversion H; subst; clear H. eexists _, _. split; [reflexivity|].
    split; [apply Hiff1 | apply Hfail; [reflexivity | discriminate]].
  - (* CStatus *)
    destruct (bare (base srv)); cbn [r_body r_status]; intros H; inversion H; subst; clear H;
      eexists _, _; (split; [reflexivity|]).
    + split; [apply Hiff2 | apply Hfail; [discriminate | reflexivity]].
    + split; [apply Hiff1 | apply Hfail; [intros _ E; rewrite E; reflexivity | discriminate]].
  - (* CServeAs *)
    destruct p as [|p']; cbn [range_values].
    { intros H; inversion H; subst; clear H. eexists _, _. split; [reflexivity|]. split; [apply Hiff2 | apply Hgood]. }
    destruct k0.
    + destruct (Nat.ltb (S p') (List.length (data (base srv)))); cbn [r_body r_status].
      * intros H; inversion H; subst; clear H. eexists _, _. split; [reflexivity|]. split; [apply Hiff2 | apply Hgood].
      * destruct (bare (base srv)); cbn [r_body r_status]; intros H; inversion H; subst; clear H;
          eexists _, _; (split; [reflexivity|]).
        -- split; [apply Hiff2 | apply Hfail; [discriminate | reflexivity]].
        -- split; [apply Hiff1 | apply Hfail; [intros _ E; rewrite E; reflexivity | discriminate]].
    + cbn [r_body r_status]. rewrite discard_r_eq.
      destruct (discard_r (S p') (S p') {| rest := data (base srv); dead := false |} rds) as [[[okd b'] evs']| | |];
        cbn [rbind]; try discriminate.
      destruct okd; intros H; inversion H; subst; clear H; eexists _, _; (split; [reflexivity|]).
      * split; [apply Hiff2 | apply Hgood].
      * split; [apply Hiff1 | apply Hfail; [intros _ E; rewrite E; reflexivity | discriminate]].
    + destruct (bare (base srv)); cbn [r_body r_status]; intros H; inversion H; subst; clear H;
        eexists _, _; (split; [reflexivity|]).
      * split; [apply Hiff2 | apply Hfail; [discriminate | reflexivity]].
      * split; [apply Hiff1 | apply Hfail; [intros _ E; rewrite E; reflexivity | discriminate]].
  - (* CCloseDelim: error responses always carry a body *)
    destruct p as [|p']; cbn [range_values].
    { intros H; inversion H; subst; clear H. eexists _, _. split; [reflexivity|]. split; [apply Hiff2 | apply Hgood]. }
    destruct k0.
    + destruct (Nat.ltb (S p') (List.length (data (base srv)))); cbn [r_body r_status].
      * intros H; inversion H; subst; clear H. eexists _, _. split; [reflexivity|]. split; [apply Hiff2 | apply Hgood].
      * intros H; inversion H; subst; clear H. eexists _, _. split; [reflexivity|].
        split; [apply Hiff1 | apply Hfail; [intros _ E; rewrite E; reflexivity | discriminate]].
    + cbn [r_body r_status]. rewrite discard_r_eq.
      destruct (discard_r (S p') (S p') {| rest := firstn n0 (data (base srv)); dead := false |} rds) as [[[okd b'] evs']| | |];
        cbn [rbind]; try discriminate.
      destruct okd; intros H; inversion H; subst; clear H; eexists _, _; (split; [reflexivity|]).
      * split; [apply Hiff2 | apply Hgood].
      * split; [apply Hiff1 | apply Hfail; [intros _ E; rewrite E; reflexivity | discriminate]].
    + intros H; inversion H; subst; clear H. eexists _, _. split; [reflexivity|].
      split; [apply Hiff1 | apply Hfail; [intros _ E; rewrite E; reflexivity | discriminate]].
Qed.

Lemma Rw_R sr s : Rw sh true sr s -> R sr s.
Proof. intros [A B C D E F G H]. constructor; auto. Qed.

Lemma Rw_R_closed sr s : Rw sh false sr s -> R (if fail_closes sh then close_r sr else sr) s.
Proof.
  intros [A B C D E F G H]. destruct (C eq_refl) as [Hd He].
  destruct (fail_closes sh) eqn:Hfc.
  - constructor; cbn [close_r rprogress rbdy rreads rconns rhdr rsent]; auto. apply body_rel_dead; [reflexivity | exact Hd].
  - constructor; auto. apply body_rel_dead; [|exact Hd].
    destruct (shape_ok_body sh Hsh) as [Hi | Hf]; [apply He; exact Hi | congruence].
Qed.

Lemma attempts_sim sched : forall lenp sr s last s' o, R sr s ->
  attempts (base srv) sched lenp s last = Ok (s', o) ->
  exists sr', attempts_r sh srv sched lenp sr last = Ok (sr', o) /\ R sr' s'.
Proof.
  induction sched as [|retry more IH]; intros lenp sr s last s' o HR.
  - cbn [attempts attempts_r]. intros H; inversion H; subst. exists sr. split; [reflexivity | exact HR].
  - cbn [attempts attempts_r].
    destruct (body_read_rel (rbdy sr) (bdy s) lenp (rreads sr) (R_body _ _ HR)) as (out & e & br' & b' & evs' & H1 & H2 & Hrel).
    rewrite <- (R_reads _ _ HR). rewrite H1, H2.
    set (sr1 := {| rprogress := rprogress sr; rbdy := br'; rreads := evs'; rconns := rconns sr; rhdr := rhdr sr; rsent := rsent sr |}).
    set (s1 := {| progress := progress s; bdy := b'; reads := evs'; conns := conns s; reqs := reqs s |}).
    assert (HR1 : R sr1 s1).
    { destruct HR as [A B C D E F G]. constructor; cbn [sr1 s1 rprogress rbdy rreads rconns rhdr rsent progress bdy reads conns reqs]; auto. }
    destruct e.
    + intros H; inversion H; subst. exists sr1. split; [reflexivity | exact HR1].
    + intros H; inversion H; subst. exists sr1. split; [reflexivity | exact HR1].
    + destruct retry.
      * destruct (reset (base srv) s1) as [[s2 ok]| | |] eqn:Hrs; cbn [rbind]; try discriminate.
        destruct (reset_sim sr1 s1 s2 ok HR1 Hrs) as (sr2 & o2 & Hrr & Hiff & Hw).
        rewrite Hrr. cbn [rbind].
        destruct ok.
        -- destruct o2 as [|code]; [destruct Hiff as [Hx _]; specialize (Hx eq_refl); discriminate|].
           intros Ha. apply (IH lenp sr2 s2 (out, EFail) s' o (Rw_R _ _ Hw) Ha).
        -- destruct o2 as [|code]; [|destruct Hiff as [_ Hx]; specialize (Hx eq_refl); discriminate].
           intros H; inversion H; subst. eexists. split; [reflexivity | apply Rw_R_closed; exact Hw].
      * intros H; inversion H; subst. exists sr1. split; [reflexivity | exact HR1].
Qed.

Lemma read_call_sim sched sr s lenp s' o : R sr s ->
  read_call (base srv) sched s lenp = Ok (s', o) ->
  exists sr', read_call_r sh srv sched sr lenp = Ok (sr', o) /\ R sr' s'.
Proof.
  intros HR. unfold read_call, read_call_r.
  destruct (attempts (base srv) sched lenp s ([], ENone)) as [[s1 [out e]]| | |] eqn:Ha; cbn [rbind]; try discriminate.
  destruct (attempts_sim sched lenp sr s ([], ENone) s1 (out, e) HR Ha) as (sr1 & Har & HR1).
  rewrite Har. cbn [rbind]. intros H; inversion H; subst. eexists. split; [reflexivity|].
  destruct HR1 as [A B C D E F G].
  constructor; cbn [rprogress rbdy rreads rconns rhdr rsent progress bdy reads conns reqs]; auto.
  intros Hz. apply E. lia.
Qed.

Lemma read_calls_sim sched bufs : forall sr s s' outs, R sr s ->
  read_calls (base srv) sched s bufs = Ok (s', outs) ->
  exists sr', read_calls_r sh srv sched sr bufs = Ok (sr', outs) /\ R sr' s'.
Proof.
  induction bufs as [|n more IH]; intros sr s s' outs HR.
  - cbn [read_calls read_calls_r]. intros H; inversion H; subst. exists sr. split; [reflexivity | exact HR].
  - cbn [read_calls read_calls_r].
    destruct (read_call (base srv) sched s n) as [[s1 o]| | |] eqn:Hc; cbn [rbind]; try discriminate.
    destruct (read_call_sim sched sr s n s1 o HR Hc) as (sr1 & Hcr & HR1). rewrite Hcr. cbn [rbind].
    destruct (read_calls (base srv) sched s1 more) as [[s2 os]| | |] eqn:Hcs; cbn [rbind]; try discriminate.
    destruct (IH sr1 s1 s2 os HR1 Hcs) as (sr2 & Hcsr & HR2). rewrite Hcsr. cbn [rbind].
    intros H; inversion H; subst. exists sr2. split; [reflexivity | exact HR2].
Qed.

Lemma open_sim rds cns s ok : open (base srv) rds cns = Ok (s, ok) ->
  exists sr, open_r sh srv rds cns = Ok (sr, ok) /\ (ok = true -> R sr s).
Proof.
  unfold open, open_r.
  set (s0 := {| progress := 0; bdy := {| rest := []; dead := true |}; reads := rds; conns := cns; reqs := [] |}).
  assert (HR0 : R (init_r rds cns) s0).
  { constructor; cbn [init_r s0 rprogress rbdy rreads rconns rhdr rsent progress bdy reads conns reqs]; auto.
    apply body_rel_refl. }
  destruct (reset (base srv) s0) as [[s1 ok1]| | |] eqn:Hrs; cbn [rbind]; try discriminate.
  destruct (reset_sim _ _ _ _ HR0 Hrs) as (sr1 & o & Hrr & Hiff & Hw).
  rewrite Hrr. cbn [rbind]. intros H; inversion H; subst s1 ok; clear H.
  (* at progress 0 the answer is 200 with a live body, or a refusal *)
  revert Hrs Hrr. unfold reset, reset_r, s0, init_r.
  cbn [rprogress rbdy rreads rconns rhdr rsent progress bdy reads conns reqs].
  replace (if hdr_shared sh then [] else @nil nat) with (@nil nat) by (destruct (hdr_shared sh); reflexivity).
  destruct (next_conn cns) as [c conns']. unfold answer.
  destruct c as [| | |k0|k0 n0]; cbv beta iota zeta; cbn [r_body r_status];
    try (destruct (bare (base srv)); cbn [r_body r_status]);
    intros H1 H2; inversion H1; inversion H2; subst; clear H1 H2;
    cbn [andb negb dead bdy]; (eexists; split; [reflexivity|]); try discriminate;
    intros _; apply Rw_R; exact Hw.
Qed.

Definition sim_res (rr : option (st_r * list (list N * err))) (r : option (st * list (list N * err))) : Prop :=
  match rr, r with
  | Some (sr, outs_r), Some (s, outs) => outs_r = outs /\ R sr s
  | None, None => True
  | _, _ => False
  end.

Theorem session_sim sched rds cns bufs r :
  session (base srv) sched rds cns bufs = Ok r ->
  exists rr, session_r sh srv sched rds cns bufs = Ok rr /\ sim_res rr r.
Proof.
  unfold session, session_r.
  destruct (open (base srv) rds cns) as [[s0 ok]| | |] eqn:Ho; cbn [rbind]; try discriminate.
  destruct (open_sim rds cns s0 ok Ho) as (sr0 & Hor & HR0). rewrite Hor. cbn [rbind].
  destruct ok.
  - destruct (read_calls (base srv) sched s0 bufs) as [[s1 outs]| | |] eqn:Hc; cbn [rbind]; try discriminate.
    destruct (read_calls_sim sched bufs sr0 s0 s1 outs (HR0 eq_refl) Hc) as (sr1 & Hcr & HR1).
    rewrite Hcr. cbn [rbind]. intros H; inversion H; subst. eexists. split; [reflexivity|].
    split; [reflexivity | exact HR1].
  - intros H; inversion H; subst. exists None. split; [reflexivity | exact I].
Qed.

End Sim.

(* ---------- the invariant of the abstract model at the end of a session -------- *)
Lemma session_inv srv sched rds cns bufs s outs : sched_ok sched = true ->
  session srv sched rds cns bufs = Ok (Some (s, outs)) -> Inv srv false s.
Proof.
  intros Hok. unfold session.
  destruct (open_spec srv false rds cns) as (s0 & ok & Ho & _ & Hinv0); [discriminate|].
  rewrite Ho. cbn [rbind]. destruct ok; [|discriminate].
  destruct (read_calls_spec srv false sched Hok bufs s0 Hinv0) as (s1 & outs1 & Hr & Hinv1 & _).
  rewrite Hr. cbn [rbind]. intros H; inversion H; subst. exact Hinv1.
Qed.

(* ---------- statements in the shape Properties/C20.v exposes ------------------- *)
Definition first_ranges (s : st_r) : list (option nat) := List.map (fun ph => hd_error (snd ph)) (rsent s).

(* refinement: same Read results, same progress, and the server side sees the same offsets *)
Theorem session_refines sh srv sched rds cns bufs :
  shape_okb sh = true -> sched_ok sched = true ->
  exists r rr, session (base srv) sched rds cns bufs = Ok r /\ session_r sh srv sched rds cns bufs = Ok rr /\
    match rr, r with
    | Some (sr, outs_r), Some (s, outs) =>
        outs_r = outs /\ rprogress sr = progress s /\ first_ranges sr = reqs s /\ rreads sr = reads s /\ rconns sr = conns s
    | None, None => True
    | _, _ => False
    end.
Proof.
  intros Hsh Hok.
  destruct (session_prefix (base srv) sched rds cns bufs Hok) as (r & Hr & _).
  destruct (session_sim sh srv Hsh sched rds cns bufs r Hr) as (rr & Hrr & Hsim).
  exists r, rr. split; [exact Hr|]. split; [exact Hrr|].
  destruct rr as [[sr outs_r]|], r as [[s outs]|]; simpl in Hsim; try contradiction; auto.
  destruct Hsim as [E [A B C D F G H]]. unfold first_ranges. auto.
Qed.

Lemma session_r_of sh srv sched rds cns bufs :
  shape_okb sh = true -> sched_ok sched = true ->
  exists r rr, session (base srv) sched rds cns bufs = Ok r /\ session_r sh srv sched rds cns bufs = Ok rr /\ sim_res rr r.
Proof.
  intros Hsh Hok.
  destruct (session_prefix (base srv) sched rds cns bufs Hok) as (r & Hr & _).
  destruct (session_sim sh srv Hsh sched rds cns bufs r Hr) as (rr & Hrr & Hsim).
  exists r, rr. auto.
Qed.

(* every request carries exactly the Range values meant for the progress at
   which it was made: none at progress 0, the one value [progress] otherwise *)
Theorem session_range_header sh srv sched rds cns bufs sr outs :
  shape_okb sh = true -> sched_ok sched = true ->
  session_r sh srv sched rds cns bufs = Ok (Some (sr, outs)) ->
  Forall (fun ph => snd ph = range_values (fst ph)) (rsent sr).
Proof.
  intros Hsh Hok Hs.
  destruct (session_r_of sh srv sched rds cns bufs Hsh Hok) as (r & rr & Hr & Hrr & Hsim).
  rewrite Hs in Hrr. inversion Hrr; subst rr; clear Hrr.
  destruct r as [[s outs']|]; simpl in Hsim; [|contradiction].
  destruct Hsim as [_ HR]. exact (R_sent_ok _ _ HR).
Qed.

(* whatever bytes the error responses carry: what is handed over is a prefix of
   the server's bytes, and a body the reader still holds open afterwards is the
   server's bytes from [progress] on (up to the early end of a close-delimited
   response) — never the body of a response that was not 200 or 206 *)
Theorem session_error_body sh srv sched rds cns bufs :
  shape_okb sh = true -> sched_ok sched = true ->
  exists rr, session_r sh srv sched rds cns bufs = Ok rr /\
    forall sr outs, rr = Some (sr, outs) ->
      (exists suf, data (base srv) = delivered outs ++ suf) /\
      rprogress sr = List.length (delivered outs) /\
      (dead (rbdy sr) = false -> exists suf, skipn (rprogress sr) (data (base srv)) = rest (rbdy sr) ++ suf).
Proof.
  intros Hsh Hok.
  destruct (session_r_of sh srv sched rds cns bufs Hsh Hok) as (r & rr & Hr & Hrr & Hsim).
  exists rr. split; [exact Hrr|]. intros sr outs E; subst rr.
  destruct r as [[s outs']|]; simpl in Hsim; [|contradiction]. destruct Hsim as [<- HR].
  destruct (session_prefix (base srv) sched rds cns bufs Hok) as (r2 & Hr2 & Hp).
  rewrite Hr in Hr2. inversion Hr2; subst r2; clear Hr2.
  destruct (Hp s outs eq_refl) as [Hpre Hprog].
  split; [exact Hpre|]. split; [rewrite (R_prog _ _ HR); exact Hprog|].
  intros Hlive.
  destruct (R_body _ _ HR) as [[Hd _] | Heq]; [rewrite Hd in Hlive; discriminate|].
  pose proof (session_inv (base srv) sched rds cns bufs s outs Hok Hr) as (_ & Hpos & _).
  rewrite Heq in Hlive. destruct (Hpos Hlive) as (suf & Hsk & _).
  exists suf. rewrite (R_prog _ _ HR), Heq. exact Hsk.
Qed.

Theorem session_r_faithful sh srv sched rds cns bufs :
  shape_okb sh = true -> sched_ok sched = true -> framed cns ->
  exists rr, session_r sh srv sched rds cns bufs = Ok rr /\
    forall sr outs, rr = Some (sr, outs) ->
      Faithful (data (base srv)) outs /\ rprogress sr = List.length (delivered outs).
Proof.
  intros Hsh Hok Hfr.
  destruct (session_faithful (base srv) sched rds cns bufs Hok Hfr) as (r & Hr & Hf).
  destruct (session_sim sh srv Hsh sched rds cns bufs r Hr) as (rr & Hrr & Hsim).
  exists rr. split; [exact Hrr|]. intros sr outs E; subst rr.
  destruct r as [[s outs']|]; simpl in Hsim; [|contradiction]. destruct Hsim as [<- HR].
  destruct (Hf s outs eq_refl) as [A B]. split; [exact A | rewrite (R_prog _ _ HR); exact B].
Qed.

Theorem session_r_live sh srv sched rds cns bufs :
  shape_okb sh = true ->
  all_serve cns ->
  tolerated (List.length (data (base srv))) (kind (base srv)) sched bufs 0 rds = true ->
  List.length (data (base srv)) < List.length bufs ->
  exists sr outs, session_r sh srv sched rds cns bufs = Ok (Some (sr, outs)) /\ Complete (data (base srv)) outs.
Proof.
  intros Hsh Hc Ht Hl.
  destruct (session_live (base srv) sched rds cns bufs Hc Ht Hl) as (s & outs & Hs & Hcomp).
  destruct (session_sim sh srv Hsh sched rds cns bufs _ Hs) as (rr & Hrr & Hsim).
  destruct rr as [[sr outs_r]|]; simpl in Hsim; [|contradiction]. destruct Hsim as [-> _].
  exists sr, outs. split; [exact Hrr | exact Hcomp].
Qed.

(* ---------- the two facts about the text are not decoration --------------------- *)
(* Header.Add on the shared Header map (seeded change C20-4): after two faults at
   different offsets the second resumption carries [bytes=2-; bytes=3-], the
   server answers the first value, and byte 3 is handed over twice *)
Lemma range_appended_duplicates :
  exists srv rds bufs sr outs,
    session_r {| range_add := true; hdr_shared := true; install_early := false; fail_closes := true |}
      srv [true; true; false] rds [] bufs = Ok (Some (sr, outs)) /\
    List.map snd (rsent sr) = [[]; [2]; [2; 3]] /\
    delivered outs = [1; 2; 3; 3; 4]%N /\
    valid_outs (data (base srv)) [] outs <> [].
Proof.
  exists {| base := {| data := [1; 2; 3; 4; 5]%N; kind := HonoursRange; bare := false |}; ebody := [] |}.
  exists [ {| rk := 2; rfail := false; reager := false |}; {| rk := 0; rfail := true; reager := false |};
           {| rk := 1; rfail := false; reager := false |}; {| rk := 0; rfail := true; reager := false |} ].
  exists [2; 2; 2]. eexists _, _.
  split; [vm_compute; reflexivity|]. split; [reflexivity|]. split; [reflexivity|]. vm_compute. discriminate.
Qed.

(* ... and with a request copy that does not share the Header map, Add is harmless *)
Lemma range_appended_unshared_ok :
  shape_okb {| range_add := true; hdr_shared := false; install_early := false; fail_closes := true |} = true.
Proof. reflexivity. Qed.

(* r.body assigned before the status test and not closed when reset fails: the
   body of a 503 answered to a resumption is handed to the consumer *)
Lemma early_install_delivers_error_body :
  exists srv rds cns bufs sr outs,
    session_r {| range_add := false; hdr_shared := true; install_early := true; fail_closes := false |}
      srv [true; true; false] rds cns bufs = Ok (Some (sr, outs)) /\
    delivered outs = [1; 2; 66; 67]%N /\
    valid_outs (data (base srv)) [] outs <> [].
Proof.
  exists {| base := {| data := [1; 2; 3; 4; 5]%N; kind := HonoursRange; bare := false |}; ebody := [66; 67]%N |}.
  exists [ {| rk := 2; rfail := false; reager := false |}; {| rk := 0; rfail := true; reager := false |} ].
  exists [CServe; CStatus], [2; 2; 2]. eexists _, _.
  split; [vm_compute; reflexivity|]. split; [reflexivity|]. vm_compute. discriminate.
Qed.

(* the same order of statements with the close in place: the reader is right *)
Lemma early_install_closed_ok :
  shape_okb {| range_add := false; hdr_shared := true; install_early := true; fail_closes := true |} = true.
Proof. reflexivity. Qed.

(* ---------- completion for the retry budget read from the source ---------------- *)
Section Budget.
Variable len b : nat.

Lemma call_ok_budget lenp : lenp <> 0 -> forall evs cur p acc,
  cur <= b -> p <= acc ->
  runs_le b cur evs = true -> early_faults len acc evs = true ->
  exists n evs' acc', call_ok len HonoursRange (repeat true (b - cur) ++ [false]) lenp p evs = Some (n, evs') /\
    p + n <= acc' /\ runs_le b 0 evs' = true /\ early_faults len acc' evs' = true.
Proof.
  intros Hl. induction evs as [|ev t IH]; intros cur p acc Hcur Hp Hr He.
  - exists (Nat.min lenp (len - p)), [], (p + Nat.min lenp (len - p)).
    split; [destruct (b - cur); reflexivity|]. split; [lia | split; reflexivity].
  - cbn [runs_le early_faults] in Hr, He. destruct (rfail ev) eqn:Hf.
    + apply andb_true_iff in Hr. destruct Hr as [Hlt Hr]. apply Nat.ltb_lt in Hlt.
      apply andb_true_iff in He. destruct He as [Hal He]. apply Nat.ltb_lt in Hal.
      destruct (b - cur) as [|j] eqn:Hj; [lia|].
      cbn [repeat app call_ok]. rewrite Hf.
      assert (Hrc : reconnect_ok len HonoursRange p t = Some t).
      { unfold reconnect_ok. destruct p as [|p']; [reflexivity|].
        assert (Hx : Nat.ltb (S p') len = true) by (apply Nat.ltb_lt; lia). rewrite Hx. reflexivity. }
      rewrite Hrc. replace j with (b - S cur) by lia.
      apply (IH (S cur) p acc); auto; lia.
    + exists (Nat.min (Nat.max 1 (rk ev)) (Nat.min lenp (len - p))), t, (acc + Nat.max 1 (rk ev)).
      split; [destruct (b - cur); cbn [repeat app call_ok]; rewrite Hf; reflexivity|].
      split; [lia | split; assumption].
Qed.

Lemma tolerated_budget bufs : forall evs p acc,
  Forall (fun n => n <> 0) bufs -> p <= acc ->
  runs_le b 0 evs = true -> early_faults len acc evs = true ->
  tolerated len HonoursRange (repeat true b ++ [false]) bufs p evs = true.
Proof.
  induction bufs as [|lenp more IH]; intros evs p acc Hnz Hp Hr He; [reflexivity|].
  inversion Hnz as [|x l Hx Hrest]; subst.
  cbn [tolerated]. destruct lenp as [|lp]; [congruence|].
  destruct (call_ok_budget (S lp) Hx evs 0 p acc ltac:(lia) Hp Hr He) as (n & evs' & acc' & Hc & Hle & Hr' & He').
  rewrite Nat.sub_0_r in Hc. rewrite Hc. apply (IH evs' (p + n) acc'); auto.
Qed.

End Budget.

(* For a Range-honouring server, said on the script alone: at most [budget]
   failing body reads in a row, each while fewer bytes than the body holds can
   have been handed over; the schedule is [budget] retries and a last attempt. *)
Theorem session_r_live_budget sh srv budget rds cns bufs :
  shape_okb sh = true ->
  kind (base srv) = HonoursRange ->
  all_serve cns ->
  runs_le budget 0 rds = true ->
  early_faults (List.length (data (base srv))) 0 rds = true ->
  Forall (fun n => n <> 0) bufs ->
  List.length (data (base srv)) < List.length bufs ->
  exists sr outs, session_r sh srv (repeat true budget ++ [false]) rds cns bufs = Ok (Some (sr, outs)) /\
    Complete (data (base srv)) outs.
Proof.
  intros Hsh Hk Hc Hr He Hnz Hl.
  apply session_r_live; auto. rewrite Hk.
  apply (tolerated_budget _ budget bufs rds 0 0); auto.
Qed.

(* one failing body read more than the budget inside one Read: the Read reports
   an error (for every shape of the text that is shape_okb: by refinement) *)
Lemma budget_exceeded_fails sh : shape_okb sh = true ->
  exists srv rds bufs sr outs,
    kind (base srv) = HonoursRange /\
    runs_le 2 0 rds = false /\ runs_le 3 0 rds = true /\ early_faults (List.length (data (base srv))) 0 rds = true /\
    session_r sh srv (repeat true 2 ++ [false]) rds [] bufs = Ok (Some (sr, outs)) /\
    Exists (fun o => snd o = EFail) outs.
Proof.
  intros Hsh.
  set (srv := {| base := {| data := [1; 2; 3]%N; kind := HonoursRange; bare := false |}; ebody := [] |}).
  set (rds := [ {| rk := 0; rfail := true; reager := false |}; {| rk := 0; rfail := true; reager := false |};
                {| rk := 0; rfail := true; reager := false |} ]).
  assert (Habs : exists s outs, session (base srv) (repeat true 2 ++ [false]) rds [] [3; 3; 3; 3] = Ok (Some (s, outs)) /\
                   Exists (fun o => snd o = EFail) outs).
  { eexists _, _. split; [vm_compute; reflexivity|]. apply Exists_cons_hd. reflexivity. }
  destruct Habs as (s & outs & Hs & Hex).
  destruct (session_sim sh srv Hsh _ _ _ _ _ Hs) as (rr & Hrr & Hsim).
  destruct rr as [[sr outs_r]|]; simpl in Hsim; [|contradiction]. destruct Hsim as [-> _].
  exists srv, rds, [3; 3; 3; 3], sr, outs.
  split; [reflexivity|]. split; [reflexivity|]. split; [reflexivity|]. split; [reflexivity|].
  split; [exact Hrr | exact Hex].
Qed.
