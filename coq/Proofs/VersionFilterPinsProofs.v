(* C03 — pins and the disqualification map only REMOVE candidates: filterPackages over a list is the version filter
   (filter_one, which c03_filter_follows_order ties to the apk order) intersected with "not disqualified and not rejected
   by the pin rule", in the order of the input. *)
From Apko Require Import Base.Prelude Base.Regex Spec.VersionSpec Model.Version Model.VersionFilter Model.VersionFilterPins
  Proofs.VersionProofs Proofs.ConstraintProofs Proofs.VersionStringProofs Proofs.VersionFilterProofs
  Generated.Regexes Generated.VersionConsts Generated.C03Version Generated.C03Ladders.
Open Scope list_scope. Open Scope Z_scope.

Definition eligible (o : fpins) (k : fcand) : bool := negb (fc_dq k) && negb (pin_rejects o k).
Definition version_passes (c : constraint) (k : fcand) : bool := filter_one c (fc_ver k) (fc_provs k).

Lemma filter_filter_and {A} (p q : A -> bool) l : filter p (filter q l) = filter (fun x => p x && q x) l.
Proof.
  induction l as [|x l IH]; cbn [filter]; [reflexivity|].
  destruct (q x); cbn [filter]; [|rewrite andb_false_r; exact IH].
  rewrite andb_true_r. destruct (p x); rewrite IH; reflexivity.
Qed.

Lemma filter_loop_any c o cands : (c_dep c =? dep_versionAny) = true ->
  filter_loop c o cands = Some (filter (eligible o) cands).
Proof.
  intros Hd. induction cands as [|k t IH]; cbn [filter_loop filter]; [reflexivity|].
  unfold eligible at 1. rewrite IH, Hd. destruct (fc_dq k); [reflexivity|]. destruct (pin_rejects o k); reflexivity.
Qed.

Lemma filter_loop_bad_req c o cands : (c_dep c =? dep_versionAny) = false -> parse_version (c_version c) = None ->
  filter_loop c o cands = None \/ filter_loop c o cands = Some [].
Proof.
  intros Hd Hp. induction cands as [|k t IH]; cbn [filter_loop]; [right; reflexivity|].
  rewrite Hd, Hp. destruct (fc_dq k); [exact IH|]. destruct (pin_rejects o k); [exact IH|]. left; reflexivity.
Qed.

Lemma filter_loop_req c o cands req : (c_dep c =? dep_versionAny) = false -> parse_version (c_version c) = Some req ->
  filter_loop c o cands = Some (filter (fun k => eligible o k && version_passes c k) cands).
Proof.
  intros Hd Hp. induction cands as [|k t IH]; cbn [filter_loop filter]; [reflexivity|].
  unfold eligible at 1, version_passes at 1, filter_one. rewrite IH, Hd, Hp.
  destruct (fc_dq k); [reflexivity|]. destruct (pin_rejects o k); [reflexivity|]. cbn [negb andb].
  destruct (parse_version (fc_ver k)); [|reflexivity].
  destruct (satisfies (c_dep c) m req || existsb (prov_version_passes (c_dep c) req) (fc_provs k)); reflexivity.
Qed.

(* the whole function = version filter, then dq and pins; for every constraint, pin setting and candidate list *)
Theorem filter_list_is c o cands :
  filter_list c o cands = filter (eligible o) (filter (version_passes c) cands).
Proof.
  unfold filter_list. rewrite filter_filter_and.
  destruct (c_dep c =? dep_versionAny) eqn:Hd.
  - rewrite (filter_loop_any c o cands Hd).
    apply filter_ext. intros k. unfold version_passes, filter_one. rewrite Hd, andb_true_r. reflexivity.
  - destruct (parse_version (c_version c)) as [req|] eqn:Hp.
    + rewrite (filter_loop_req c o cands req Hd Hp). reflexivity.
    + replace (filter (fun x => eligible o x && version_passes c x) cands) with (@nil fcand).
      * destruct (filter_loop_bad_req c o cands Hd Hp) as [-> | ->]; reflexivity.
      * symmetry. induction cands as [|k t IH]; cbn [filter]; [reflexivity|].
        unfold version_passes at 1, filter_one. rewrite Hd, Hp, andb_false_r. exact IH.
Qed.

(* in C03's terms: what passes is a sub-list of what the version filter lets through - pins and dq only remove; every
   passed candidate passed by its version; a candidate that is neither disqualified nor pinned passes exactly by its version;
   with nothing disqualified and nothing pinned the function IS the version filter *)
Theorem filter_list_only_removes c o cands :
  (forall k, In k (filter_list c o cands) -> In k cands /\ version_passes c k = true /\ fc_dq k = false) /\
  (forall k, In k cands -> fc_dq k = false -> fc_pinned k = ""%string ->
     (In k (filter_list c o cands) <-> version_passes c k = true)) /\
  ((forall k, In k cands -> fc_dq k = false /\ fc_pinned k = ""%string) ->
     filter_list c o cands = filter (version_passes c) cands).
Proof.
  rewrite filter_list_is. split; [|split].
  - intros k H. apply filter_In in H. destruct H as [H E]. apply filter_In in H. destruct H as [H V].
    unfold eligible in E. apply andb_true_iff in E. destruct E as [E _]. apply negb_true_iff in E. auto.
  - intros k Hin Hdq Hpin. rewrite filter_In, filter_In. unfold eligible, pin_rejects. rewrite Hdq, Hpin. cbn. tauto.
  - intros Hall. rewrite filter_filter_and. apply filter_ext_in. intros k Hk.
    destruct (Hall k Hk) as [Hdq Hpin]. unfold eligible, pin_rejects. rewrite Hdq, Hpin. reflexivity.
Qed.

(* the pin rule, readably: an eligible candidate is not disqualified and is unpinned, or pinned to the allowed or the
   preferred repository, or is the very package (same URL) that is installed *)
Lemma eligible_iff o k : eligible o k = true <->
  fc_dq k = false /\
  (fc_pinned k = ""%string \/ fc_pinned k = fp_allow o \/ fc_pinned k = fp_prefer o \/ fp_installed o = Some (fc_url k)).
Proof.
  unfold eligible, pin_rejects. rewrite andb_true_iff, !negb_true_iff, !andb_false_iff, !negb_false_iff, !String.eqb_eq.
  split.
  - intros [Hd H]. split; [exact Hd|]. destruct H as [[[H|H]|H]|H]; auto.
    destruct (fp_installed o) as [u|]; [|discriminate]. apply negb_false_iff, String.eqb_eq in H. subst. auto.
  - intros [Hd H]. split; [exact Hd|]. destruct H as [H|[H|[H|H]]]; auto.
    right. rewrite H. apply negb_false_iff, String.eqb_eq. reflexivity.
Qed.
