(* filterPackages' operator dispatch follows the apk order (C03): the candidate
   passes exactly when its own version, or the version of one of its provides,
   stands in the spec's relation to the required version. *)
From Apko Require Import Base.Prelude Base.Regex Spec.VersionSpec Model.Version Model.VersionFilter
  Proofs.VersionProofs Proofs.ConstraintProofs Proofs.VersionStringProofs
  Generated.Regexes Generated.VersionConsts Generated.C03Version Generated.C03Ladders.
Open Scope Z_scope.

Definition rows_not_any : bool := forallb (fun row => negb (snd row =? dep_versionAny)) matcher_table.
Lemma rows_not_any_true : rows_not_any = true.
Proof. vm_compute. reflexivity. Qed.

Lemma row_not_any row : In row matcher_table -> (snd row =? dep_versionAny) = false.
Proof.
  intro Hin. pose proof rows_not_any_true as K. unfold rows_not_any in K.
  rewrite forallb_forall in K. specialize (K row Hin). now apply Bool.negb_true_iff in K.
Qed.

(* what a provide contributes, on the spec side *)
Definition spec_prov_passes (op : vop) (vr : ver) (prov : string) : Prop :=
  exists b vb, c_version (resolve_constraint prov) <> ""%string /\
               parse_version (c_version (resolve_constraint prov)) = Some b /\ abs b = Some vb /\
               spec_sat op vb vr = true.

Lemma prov_version_passes_spec row req vr prov :
  In row matcher_table -> abs req = Some vr ->
  prov_version_passes (snd row) req prov = true <-> spec_prov_passes (vop_of_string (fst row)) vr prov.
Proof.
  intros Hin Hr. unfold prov_version_passes, spec_prov_passes.
  destruct (String.eqb (c_version (resolve_constraint prov)) "") eqn:He.
  - apply String.eqb_eq in He. split; [discriminate|]. intros (b & vb & Hne & _). congruence.
  - apply String.eqb_neq in He.
    destruct (parse_version (c_version (resolve_constraint prov))) as [b|] eqn:Hp.
    + destruct (parse_abs _ _ Hp) as [vb Hb].
      rewrite (satisfies_is_spec row b req vb vr Hin Hb Hr).
      split.
      * intro H. exists b, vb. repeat split; assumption.
      * intros (b' & vb' & _ & Hp' & Hb' & Hs). inversion Hp'; subst b'. rewrite Hb in Hb'. inversion Hb'; subst vb'. exact Hs.
    + split; [discriminate|]. intros (b & vb & _ & Hp' & _). discriminate.
Qed.

Theorem filter_one_is_spec row cname pin sv pv ver a provs :
  In row matcher_table -> parse_version sv = Some pv -> parse_version ver = Some a ->
  exists va vr, abs a = Some va /\ abs pv = Some vr /\
    (filter_one {| c_name := cname; c_version := sv; c_dep := snd row; c_pin := pin |} ver provs = true <->
     spec_sat (vop_of_string (fst row)) va vr = true \/
     exists prov, In prov provs /\ spec_prov_passes (vop_of_string (fst row)) vr prov).
Proof.
  intros Hin Hsv Hver.
  destruct (parse_abs _ _ Hver) as [va Ha]. destruct (parse_abs _ _ Hsv) as [vr Hr].
  exists va, vr. split; [exact Ha|]. split; [exact Hr|].
  unfold filter_one. cbn [c_dep c_version]. rewrite (row_not_any row Hin), Hsv, Hver.
  rewrite Bool.orb_true_iff, existsb_exists, (satisfies_is_spec row a pv va vr Hin Ha Hr).
  split.
  - intros [H|(prov & Hp & H)]; [left; exact H|].
    right. exists prov. split; [exact Hp|]. apply (prov_version_passes_spec row pv vr prov Hin Hr). exact H.
  - intros [H|(prov & Hp & H)]; [left; exact H|].
    right. exists prov. split; [exact Hp|]. apply (prov_version_passes_spec row pv vr prov Hin Hr). exact H.
Qed.

(* without provides: exactly the operator on the two versions, for spellings that differ too *)
Corollary filter_one_own row cname pin sv pv ver a :
  In row matcher_table -> parse_version sv = Some pv -> parse_version ver = Some a ->
  exists va vr, abs a = Some va /\ abs pv = Some vr /\
    filter_one {| c_name := cname; c_version := sv; c_dep := snd row; c_pin := pin |} ver [] =
    spec_sat (vop_of_string (fst row)) va vr.
Proof.
  intros Hin Hsv Hver.
  destruct (parse_abs _ _ Hver) as [va Ha]. destruct (parse_abs _ _ Hsv) as [vr Hr].
  exists va, vr. split; [exact Ha|]. split; [exact Hr|].
  unfold filter_one. cbn [c_dep c_version existsb]. rewrite (row_not_any row Hin), Hsv, Hver, Bool.orb_false_r.
  apply (satisfies_is_spec row a pv va vr Hin Ha Hr).
Qed.

(* edges: a bare name lets everything through, an unparsable required version nothing,
   an unparsable candidate version never passes a versioned constraint *)
Lemma filter_one_edges cname pin ver provs :
  filter_one {| c_name := cname; c_version := ""; c_dep := dep_versionAny; c_pin := pin |} ver provs = true /\
  (forall row sv, In row matcher_table -> parse_version sv = None ->
     filter_one {| c_name := cname; c_version := sv; c_dep := snd row; c_pin := pin |} ver provs = false) /\
  (forall row sv, In row matcher_table -> parse_version ver = None ->
     filter_one {| c_name := cname; c_version := sv; c_dep := snd row; c_pin := pin |} ver provs = false).
Proof.
  split; [reflexivity|]. split.
  - intros row sv Hin Hp. unfold filter_one. cbn [c_dep c_version]. rewrite (row_not_any row Hin), Hp. reflexivity.
  - intros row sv Hin Hp. unfold filter_one. cbn [c_dep c_version]. rewrite (row_not_any row Hin), Hp.
    destruct (parse_version sv); reflexivity.
Qed.
