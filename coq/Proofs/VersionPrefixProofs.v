(* C03 — a version string prefixed with "0." (the rescaling ResolvePackageNameVersionPin applies to so: versions
   without a release suffix): "0." ++ v is accepted exactly like v and parses to the same fields with one more leading
   component 0; on the spec side a leading 0 on both sides changes neither the order nor the ~ prefix rule.  Also: the
   alphabet of the grammar (a parsed version string contains no operator character, no '@'). *)
From Coq Require Import ZifyBool ZifyN Lia.
From Apko Require Import Base.Prelude Base.Regex Spec.VersionSpec Model.Version
  Proofs.VersionProofs Proofs.ConstraintProofs Proofs.VersionStringProofs
  Generated.Regexes Generated.VersionConsts Generated.C03Version Generated.C03Ladders.
Open Scope string_scope. Open Scope list_scope. Open Scope Z_scope.

(* ---------- the alphabet of a regular expression ------------------------------ *)
Fixpoint alpha_ok (p : N -> bool) (r : re) : bool :=
  match r with
  | Emp | Eps | Bot | Eot => true
  | Lit bs => forallb p bs
  | Cls rs => forallb (fun q => (snd q <? 256)%N) rs && forallb (fun c => implb (in_ranges rs c) (p c)) all_bytes
  | Cat a b | Alt a b => alpha_ok p a && alpha_ok p b
  | Star a | Plus a | Opt a | Grp _ a => alpha_ok p a
  end.

Lemma in_ranges_bound rs c : forallb (fun q => (snd q <? 256)%N) rs = true -> in_ranges rs c = true -> (c < 256)%N.
Proof.
  unfold in_ranges. intros Hb H. apply existsb_exists in H. destruct H as (q & Hq & H).
  rewrite forallb_forall in Hb. specialize (Hb q Hq). lia.
Qed.

Lemma alpha_L p r s : L r s -> alpha_ok p r = true -> forallb p s = true.
Proof.
  induction 1; cbn [alpha_ok]; intros A; try reflexivity;
    try (apply andb_true_iff in A; destruct A as [A1 A2]);
    try (rewrite forallb_app; rewrite IHL1, IHL2 by assumption; reflexivity); auto.
  - cbn [forallb]. rewrite andb_true_r.
    pose proof (in_ranges_bound rs c A1 H) as Hc.
    rewrite forallb_forall in A2. specialize (A2 c (in_all_bytes c Hc)). rewrite H in A2. exact A2.
Qed.

(* the characters a version string is made of *)
Definition verchar (c : N) : bool :=
  is_digit c || is_lower c || (c =? 46)%N || (c =? 95)%N || (c =? 45)%N.

Lemma grammar_alphabet : alpha_ok verchar apk_version_re = true.
Proof. vm_compute. reflexivity. Qed.

Lemma verchar_facts c : verchar c = true ->
  not_at c = true /\ is_opchar c = false /\ is_namechar c = true /\ (c =? 61)%N = false /\ (c < 256)%N.
Proof. unfold verchar, not_at, is_namechar, is_opchar, is_digit, is_lower. intros H. repeat split; lia. Qed.

Lemma parsed_alphabet s m : parse_version s = Some m -> forallb verchar (bytes_of_string s) = true.
Proof. intros H. exact (alpha_L verchar _ _ (parse_accept_grammar s m H) grammar_alphabet). Qed.

(* ---------- the grammar: digits ( . digits )* tail ----------------------------- *)
Definition dots_re : re := Cat (lit ".") (Plus digit).
Definition ver_tail : re := match apk_version_re with Cat _ (Cat _ t) => t | _ => Eps end.

Lemma grammar_shape : apk_version_re = Cat (Plus digit) (Cat (Star dots_re) ver_tail).
Proof. reflexivity. Qed.

Lemma L_plus_digit_inv d : L (Plus digit) d -> d <> [] /\ forallb is_digit d = true.
Proof.
  intros H. pose proof (alpha_L is_digit _ _ H) as A.
  split; [|apply A; vm_compute; reflexivity].
  apply L_plus_inv in H. destruct H as (s1 & s2 & -> & H1 & _).
  apply L_cls_inv in H1. destruct H1 as (c & -> & _). discriminate.
Qed.

(* "0." in front of a grammatical string is grammatical *)
Lemma grammar_zero_dot s : L apk_version_re s -> L apk_version_re (48%N :: 46%N :: s).
Proof.
  rewrite grammar_shape. intros H.
  apply L_cat_inv in H. destruct H as (d & r & -> & Hd & H).
  apply L_cat_inv in H. destruct H as (r1 & r2 & -> & Hr1 & Hr2).
  change (48%N :: 46%N :: d ++ r1 ++ r2) with ([48%N] ++ (46%N :: d ++ r1 ++ r2)).
  apply L_cat.
  - change [48%N] with ([48%N] ++ []). apply L_plus; [apply L_cls; reflexivity | apply L_star0].
  - replace (46%N :: d ++ r1 ++ r2) with ((([46%N] ++ d) ++ r1) ++ r2) by (cbn; rewrite <- app_assoc; reflexivity).
    apply L_cat; [|exact Hr2]. apply L_star1; [|exact Hr1].
    unfold dots_re. apply L_cat; [apply L_lit | exact Hd].
Qed.

(* a grammatical string starts with a non-empty run of digits *)
Lemma grammar_first_digits s : L apk_version_re s ->
  exists c t, s = c :: t /\ is_digit c = true.
Proof.
  rewrite grammar_shape. intros H.
  apply L_cat_inv in H. destruct H as (d & r & -> & Hd & _).
  apply L_plus_digit_inv in Hd. destruct Hd as [Hne Hd].
  destruct d as [|c d']; [congruence|]. cbn [forallb] in Hd. apply andb_true_iff in Hd.
  exists c, (d' ++ r). split; [reflexivity | tauto].
Qed.

(* ---------- the tokenizer on "0." ++ s ------------------------------------------ *)
Lemma span_split (p : N -> bool) s a b : span p s = (a, b) -> s = a ++ b.
Proof.
  revert a b; induction s as [|c s IH]; cbn [span]; intros a b H.
  - inversion H; reflexivity.
  - destruct (p c).
    + destruct (span p s) as [a' b']. inversion H; subst. cbn. f_equal. apply IH. reflexivity.
    + inversion H; reflexivity.
Qed.

Lemma span_len (p : N -> bool) s a b : span p s = (a, b) -> (List.length b <= List.length s)%nat.
Proof. intros H. rewrite (span_split p s a b H), app_length. lia. Qed.

(* enough fuel is enough fuel *)
Lemma dotted_fuel : forall f1 f2 s, (List.length s <= f1)%nat -> (List.length s <= f2)%nat -> dotted f1 s = dotted f2 s.
Proof.
  induction f1 as [|f1 IH]; intros f2 s H1 H2.
  - destruct s; [|cbn in H1; lia]. destruct f2; reflexivity.
  - destruct f2 as [|f2]; [destruct s; [reflexivity | cbn in H2; lia]|].
    cbn [dotted]. destruct s as [|c t]; [reflexivity|].
    destruct (N.eq_dec c 46) as [->|Hc].
    + destruct (span is_digit t) as [ds r] eqn:Hs. destruct ds as [|d ds']; [reflexivity|].
      pose proof (span_len _ _ _ _ Hs) as Hl. cbn [List.length] in H1, H2.
      rewrite (IH f2 r) by lia. reflexivity.
    + (* not a dot: both sides stop *)
      destruct c as [|p]; [reflexivity|].
      repeat (destruct p as [p|p|]; try reflexivity); congruence.
Qed.

Lemma tokenize_zero_dot pt qt s d1 r1 : span is_digit s = (d1, r1) -> d1 <> [] ->
  let f := tokenize_with pt qt s in
  f_first f = d1 /\
  tokenize_with pt qt (48%N :: 46%N :: s) =
    {| f_first := [48%N]; f_rest := d1 :: f_rest f; f_letter := f_letter f; f_pre := f_pre f;
       f_pre_digits := f_pre_digits f; f_post := f_post f; f_post_digits := f_post_digits f;
       f_rev_digits := f_rev_digits f |}.
Proof.
  intros Hs Hne. unfold tokenize_with.
  change (span is_digit (48%N :: 46%N :: s)) with ([48%N], 46%N :: s).
  cbv beta iota.
  change (dotted (List.length (46%N :: s)) (46%N :: s)) with
    (let (ds, r) := span is_digit s in
     match ds with [] => ([], 46%N :: s) | _ => let (more, r') := dotted (List.length s) r in (ds :: more, r') end).
  rewrite Hs. destruct d1 as [|c0 d1']; [congruence|].
  rewrite (dotted_fuel (List.length s) (List.length r1) r1) by (pose proof (span_len _ _ _ _ Hs); lia).
  destruct (dotted (List.length r1) r1) as [ds r2].
  destruct (match r2 with
            | [] => (0, r2)
            | c :: t => if is_lower c then (Z.of_N c, t) else (0, r2)
            end) as [lt r3].
  destruct (take_suffix pt r3) as [[c1 r]|].
  - destruct (span is_digit r) as [d r'].
    destruct (take_suffix qt r') as [[c2 rr]|].
    + destruct (span is_digit rr) as [d' r'']. split; reflexivity.
    + split; reflexivity.
  - destruct (take_suffix qt r3) as [[c2 rr]|].
    + destruct (span is_digit rr) as [d' r'']. split; reflexivity.
    + split; reflexivity.
Qed.

(* ---------- ParseVersion on "0." ++ s -------------------------------------------- *)
Definition cons0m (m : mver) : mver :=
  {| m_nums := 0 :: m_nums m; m_letter := m_letter m; m_pre := m_pre m; m_pre_n := m_pre_n m;
     m_post := m_post m; m_post_n := m_post_n m; m_rev := m_rev m |}.

Lemma bytes_app a b : bytes_of_string (a ++ b) = bytes_of_string a ++ bytes_of_string b.
Proof.
  unfold bytes_of_string. induction a as [|c a IH]; [reflexivity|].
  cbn. f_equal. exact IH.
Qed.

Lemma bytes_zero_dot s : bytes_of_string ("0." ++ s) = 48%N :: 46%N :: bytes_of_string s.
Proof. reflexivity. Qed.

Theorem parse_zero_dot s m : parse_version s = Some m -> parse_version ("0." ++ s) = Some (cons0m m).
Proof.
  intros H. pose proof (parse_accept_grammar s m H) as HL.
  unfold parse_version in *. rewrite bytes_zero_dot.
  destruct (full_match version_regex s) eqn:Hm; [|discriminate].
  assert (Hm' : full_match version_regex ("0." ++ s) = true).
  { apply full_match_grammar. rewrite bytes_zero_dot. apply grammar_zero_dot. exact HL. }
  rewrite Hm'.
  destruct (grammar_first_digits _ HL) as (c & t & Hct & Hc).
  destruct (span is_digit (bytes_of_string s)) as [d1 r1] eqn:Hs.
  assert (Hne : d1 <> []).
  { rewrite Hct in Hs. cbn [span] in Hs. rewrite Hc in Hs. destruct (span is_digit t). inversion Hs. discriminate. }
  destruct (tokenize_zero_dot pre_suffix_table post_suffix_table _ d1 r1 Hs Hne) as [Hf Hg].
  unfold tokenize in *. rewrite Hg.
  set (f := tokenize_with pre_suffix_table post_suffix_table (bytes_of_string s)) in *.
  unfold version_of_fields in *. cbn [f_first f_rest f_letter f_pre f_pre_digits f_post f_post_digits f_rev_digits].
  rewrite Hf in H. cbn [atoi_all].
  change (atoi [48%N]) with (Some 0).
  destruct (atoi d1) as [n0|]; [|discriminate].
  destruct (atoi_all (f_rest f)) as [ns|]; [|discriminate].
  destruct (atoi_opt (f_pre_digits f)) as [pn|]; [|discriminate].
  destruct (atoi_opt (f_post_digits f)) as [qn|]; [|discriminate].
  destruct (atoi_opt (f_rev_digits f)) as [rv|]; [|discriminate].
  inversion H; subst m. reflexivity.
Qed.

(* ---------- the spec side: one more leading component 0 --------------------------- *)
Definition cons0 (v : ver) : ver :=
  {| nums := 0 :: nums v; letter := letter v; pre := pre v; pre_n := pre_n v;
     post := post v; post_n := post_n v; rev := rev v |}.

Lemma abs_cons0 m v : abs m = Some v -> abs (cons0m m) = Some (cons0 v).
Proof.
  unfold abs. cbn [cons0m m_pre m_post m_nums m_letter m_pre_n m_post_n m_rev].
  destruct (decode_pre (m_pre m)); [|discriminate]. destruct (decode_post (m_post m)); [|discriminate].
  intros H. inversion H; subst. reflexivity.
Qed.

(* comparing 0::a with 0::b is comparing a with b, and every later field follows unchanged *)
Lemma spec_cmp_cons0 a b : spec_cmp (cons0 a) (cons0 b) = spec_cmp a b.
Proof. reflexivity. Qed.

Lemma spec_tilde_cons0 a r : spec_tilde (cons0 a) (cons0 r) = spec_tilde a r.
Proof.
  unfold spec_tilde. cbn [cons0 nums letter pre pre_n post post_n rev is_prefix_z List.length].
  rewrite Z.eqb_refl. cbn [andb]. rewrite !Nat2Z.inj_succ.
  replace (Z.succ (Z.of_nat (List.length (nums r))) <? Z.succ (Z.of_nat (List.length (nums a))))
    with (Z.of_nat (List.length (nums r)) <? Z.of_nat (List.length (nums a))) by lia.
  reflexivity.
Qed.

Lemma spec_sat_cons0 op a r : spec_sat op (cons0 a) (cons0 r) = spec_sat op a r.
Proof. destruct op; cbn [spec_sat]; rewrite ?spec_cmp_cons0, ?spec_tilde_cons0; reflexivity. Qed.

(* ... and the rescaled string denotes that tuple *)
Corollary parse_zero_dot_abs s m v : parse_version s = Some m -> abs m = Some v ->
  exists m', parse_version ("0." ++ s) = Some m' /\ abs m' = Some (cons0 v).
Proof. intros Hp Ha. exists (cons0m m). split; [apply parse_zero_dot; exact Hp | apply abs_cons0; exact Ha]. Qed.
