(* C03 — proofs: the spec order is a total order; the model's CompareVersions,
   satisfies and includesVersion agree with it; acceptance vs grammar. *)
From Apko Require Import Base.Prelude Base.Regex Spec.VersionSpec Model.Version
  Generated.Regexes Generated.VersionConsts Generated.C03Version Generated.C03Ladders.
Open Scope Z_scope.

(* ---------- "good" comparisons: reflexive, antisymmetric, separating, transitive *)
Definition good {A} (c : A -> A -> comparison) : Prop :=
  (forall a, c a a = Eq) /\
  (forall a b, c a b = CompOpp (c b a)) /\
  (forall a b, c a b = Eq -> a = b) /\
  (forall a b d, c a b = Lt -> c b d = Lt -> c a d = Lt).

Lemma good_Z : good Z.compare.
Proof.
  repeat split.
  - apply Z.compare_refl.
  - intros a b. apply Z.compare_antisym.
  - intros a b. apply Z.compare_eq.
  - intros a b d H1 H2. rewrite Z.compare_lt_iff in *. lia.
Qed.

Lemma good_map {A B} (f : A -> B) (c : B -> B -> comparison) :
  (forall x y, f x = f y -> x = y) -> good c -> good (fun x y => c (f x) (f y)).
Proof.
  intros Hinj (R & S & E & T). repeat split; intros.
  - apply R.
  - apply S.
  - apply Hinj, E; assumption.
  - eapply T; eassumption.
Qed.

Definition lexp {A B} (c1 : A -> A -> comparison) (c2 : B -> B -> comparison) : A * B -> A * B -> comparison :=
  fun x y => lex (c1 (fst x) (fst y)) (c2 (snd x) (snd y)).

Lemma good_lex {A B} (c1 : A -> A -> comparison) (c2 : B -> B -> comparison) :
  good c1 -> good c2 -> good (lexp c1 c2).
Proof.
  intros (R1 & S1 & E1 & T1) (R2 & S2 & E2 & T2). unfold lexp. repeat split.
  - intros [a b]; simpl. rewrite R1. simpl. apply R2.
  - intros [a b] [a' b']; simpl. rewrite (S1 a a'). destruct (c1 a' a) eqn:H; simpl; auto.
  - intros [a b] [a' b']; simpl. destruct (c1 a a') eqn:H; simpl; try discriminate.
    intros H2. apply E1 in H. apply E2 in H2. subst; reflexivity.
  - intros [a b] [a' b'] [a'' b'']; simpl.
    destruct (c1 a a') eqn:H1; simpl; try discriminate.
    + apply E1 in H1; subst a'. destruct (c1 a a'') eqn:H2; simpl; try discriminate; auto.
      intros X Y. eapply T2; eassumption.
    + intros _. destruct (c1 a' a'') eqn:H2; simpl; try discriminate.
      * apply E1 in H2; subst a''. rewrite H1. reflexivity.
      * intros _. rewrite (T1 _ _ _ H1 H2). reflexivity.
Qed.

Lemma good_cmp_nums : good cmp_nums.
Proof.
  repeat split.
  - induction a as [|x a IH]; simpl; auto. rewrite Z.compare_refl. exact IH.
  - induction a as [|x a IH]; destruct b as [|y b]; simpl; auto.
    rewrite (Z.compare_antisym y x). destruct (y ?= x); simpl; auto.
  - induction a as [|x a IH]; destruct b as [|y b]; simpl; try discriminate; auto.
    destruct (x ?= y) eqn:H; try discriminate. intros H2.
    apply Z.compare_eq in H. apply IH in H2. subst; reflexivity.
  - induction a as [|x a IH]; destruct b as [|y b]; destruct d as [|z d]; simpl; try discriminate; auto.
    destruct (x ?= y) eqn:H1; try discriminate.
    + apply Z.compare_eq in H1; subst y. destruct (x ?= z) eqn:H2; try discriminate; auto.
      intros; eapply IH; eassumption.
    + intros _. destruct (y ?= z) eqn:H2; try discriminate.
      * apply Z.compare_eq in H2; subst z. rewrite H1; reflexivity.
      * intros _. rewrite Z.compare_lt_iff in *. assert (x < z) by lia.
        apply Z.compare_lt_iff in H. rewrite H. reflexivity.
Qed.

(* the tuple spec_cmp compares lexicographically *)
Definition tup (v : ver) : list Z * (Z * (Z * (Z * (Z * (Z * Z))))) :=
  (nums v, (letter v, (rank_pre (pre v), (pre_n v, (rank_post (post v), (post_n v, rev v)))))).

Lemma rank_pre_inj a b : rank_pre a = rank_pre b -> a = b.
Proof. destruct a, b; simpl; intros H; try reflexivity; discriminate. Qed.
Lemma rank_post_inj a b : rank_post a = rank_post b -> a = b.
Proof. destruct a, b; simpl; intros H; try reflexivity; discriminate. Qed.

Lemma tup_inj a b : tup a = tup b -> a = b.
Proof.
  destruct a, b; unfold tup; simpl. intros H. inversion H; subst.
  f_equal; [apply rank_pre_inj | apply rank_post_inj]; assumption.
Qed.

Definition tup_cmp :=
  lexp cmp_nums (lexp Z.compare (lexp Z.compare (lexp Z.compare (lexp Z.compare (lexp Z.compare Z.compare))))).

Lemma spec_cmp_tup a b : spec_cmp a b = tup_cmp (tup a) (tup b).
Proof. reflexivity. Qed.

Lemma good_spec_cmp : good spec_cmp.
Proof.
  assert (G : good tup_cmp).
  { unfold tup_cmp. repeat (apply good_lex; [first [exact good_cmp_nums | exact good_Z]|]). exact good_Z. }
  pose proof (good_map tup tup_cmp tup_inj G) as H.
  destruct H as (R & S & E & T). repeat split; intros.
  - rewrite spec_cmp_tup. apply R.
  - rewrite !spec_cmp_tup. apply S.
  - apply E. rewrite <- spec_cmp_tup. assumption.
  - rewrite spec_cmp_tup in *. eapply T; eassumption.
Qed.

(* the statements a reader expects of a total order *)
Lemma spec_cmp_total_order :
  (forall a, spec_cmp a a = Eq) /\
  (forall a b, spec_cmp a b = CompOpp (spec_cmp b a)) /\
  (forall a b, spec_cmp a b = Eq <-> a = b) /\
  (forall a b c, spec_cmp a b = Lt -> spec_cmp b c = Lt -> spec_cmp a c = Lt) /\
  (forall a b, spec_cmp a b = Lt \/ spec_cmp a b = Eq \/ spec_cmp a b = Gt).
Proof.
  destruct good_spec_cmp as (R & S & E & T). repeat split; auto.
  - intros ->. apply R.
  - intros a b. destruct (spec_cmp a b); auto.
Qed.

(* ---------- decoding the Go enum values through the generated switch tables *)
Definition name_of_code (table : list (string * Z)) (c : Z) : option string :=
  match find (fun row => snd row =? c) table with Some (n, _) => Some n | None => None end.

Definition decode_pre (c : Z) : option presuf :=
  match name_of_code pre_suffix_table c with Some n => presuf_of_string n | None => None end.
Definition decode_post (c : Z) : option postsuf :=
  match name_of_code post_suffix_table c with Some n => postsuf_of_string n | None => None end.

Definition abs (m : mver) : option ver :=
  match decode_pre (m_pre m), decode_post (m_post m) with
  | Some p, Some q => Some {| nums := m_nums m; letter := m_letter m; pre := p; pre_n := m_pre_n m;
                              post := q; post_n := m_post_n m; rev := m_rev m |}
  | _, _ => None
  end.

Definition enc (c : comparison) : Z :=
  match c with Gt => cmp_greater | Eq => cmp_equal | Lt => cmp_less end.

Definition codes (table : list (string * Z)) : list Z := List.map snd table.

Lemma name_of_code_in table c n : name_of_code table c = Some n -> In c (codes table).
Proof.
  unfold name_of_code. destruct (find _ table) as [[n' c']|] eqn:H; [|discriminate].
  intros _. apply find_some in H. destruct H as [Hin Heq]. simpl in Heq.
  apply Z.eqb_eq in Heq. subst c'. unfold codes. apply in_map_iff. exists (n', c). auto.
Qed.

Lemma decode_pre_in c p : decode_pre c = Some p -> In c (codes pre_suffix_table).
Proof. unfold decode_pre. destruct (name_of_code pre_suffix_table c) eqn:H; [|discriminate]. intros _. eapply name_of_code_in; eauto. Qed.
Lemma decode_post_in c p : decode_post c = Some p -> In c (codes post_suffix_table).
Proof. unfold decode_post. destruct (name_of_code post_suffix_table c) eqn:H; [|discriminate]. intros _. eapply name_of_code_in; eauto. Qed.

(* the readable hand-written forms; the model interprets the rungs goextract
   recognised in the source, and the two are convertible (checked below by
   reflexivity — this is what fails when a rung is reordered, dropped or altered) *)
Definition none_to_max (p : Z) : Z := if p =? pre_None then pre_Max else p.

Definition compare_versions_hand (a r : mver) : Z :=
  match cmp_numbers (m_nums a) (m_nums r) with
  | Some c => c
  | None =>
    ladder (Z.of_nat (List.length (m_nums a))) (Z.of_nat (List.length (m_nums r)))
   (ladder (m_letter a) (m_letter r)
   (ladder (none_to_max (m_pre a)) (none_to_max (m_pre r))
   (ladder (m_pre_n a) (m_pre_n r)
   (ladder (m_post a) (m_post r)
   (ladder (m_post_n a) (m_post_n r)
   (ladder (m_rev a) (m_rev r) cmp_equal))))))
  end.

Lemma compare_ladder_is_hand a r : compare_versions a r = compare_versions_hand a r.
Proof. reflexivity. Qed.

Definition includes_version_hand (a r : mver) : option bool :=
  if (Z.of_nat (List.length (m_nums a)) <? Z.of_nat (List.length (m_nums r))) then Some false
  else match loop_prefix (m_nums r) (m_nums a) with
  | None => None
  | Some false => Some false
  | Some true =>
  if (Z.of_nat (List.length (m_nums a)) >? Z.of_nat (List.length (m_nums r))) then Some true
  else if negb (m_letter r =? 0) && negb (m_letter a =? m_letter r) then Some false
  else if negb (m_pre r =? pre_None) && negb (m_pre a =? m_pre r) then Some false
  else if negb (m_pre_n r =? 0) && negb (m_pre_n a =? m_pre_n r) then Some false
  else if negb (m_post r =? post_None) && negb (m_post a =? m_post r) then Some false
  else if negb (m_post_n r =? 0) && negb (m_post_n a =? m_post_n r) then Some false
  else if negb (m_rev r =? 0) && negb (m_rev a =? m_rev r) then Some false
  else Some true
  end.

Lemma includes_ladder_is_hand a r : includes_version_res a r = includes_version_hand a r.
Proof. reflexivity. Qed.

(* the finite facts about the generated tables, decided by computation over
   ALL pairs of table entries (this is what breaks when an enum value, a
   switch row or the None->Max rewrite changes) *)
Definition rank_pre_o (o : option presuf) : Z := match o with Some p => rank_pre p | None => -1 end.
Definition rank_post_o (o : option postsuf) : Z := match o with Some p => rank_post p | None => -1 end.

Definition cmpb (a b : comparison) : bool :=
  match a, b with Eq, Eq | Lt, Lt | Gt, Gt => true | _, _ => false end.
Lemma cmpb_eq a b : cmpb a b = true -> a = b.
Proof. destruct a, b; simpl; congruence. Qed.

Definition pre_table_ok : bool :=
  forallb (fun c1 => forallb (fun c2 =>
    match decode_pre c1, decode_pre c2 with
    | Some p1, Some p2 =>
        cmpb (none_to_max c1 ?= none_to_max c2) (rank_pre p1 ?= rank_pre p2)
        && Bool.eqb (c1 =? c2) (rank_pre p1 =? rank_pre p2)
        && Bool.eqb (c1 =? pre_None) (rank_pre p1 =? rank_pre PNone)
    | _, _ => true
    end) (codes pre_suffix_table)) (codes pre_suffix_table).

Definition post_table_ok : bool :=
  forallb (fun c1 => forallb (fun c2 =>
    match decode_post c1, decode_post c2 with
    | Some p1, Some p2 =>
        cmpb (c1 ?= c2) (rank_post p1 ?= rank_post p2)
        && Bool.eqb (c1 =? c2) (rank_post p1 =? rank_post p2)
        && Bool.eqb (c1 =? post_None) (rank_post p1 =? rank_post SNone)
    | _, _ => true
    end) (codes post_suffix_table)) (codes post_suffix_table).

(* the three comparison results are distinct, greater > equal > less is not needed *)
Definition cmp_consts_ok : bool :=
  negb (cmp_greater =? cmp_equal) && negb (cmp_greater =? cmp_less) && negb (cmp_equal =? cmp_less)
  && (cmp_greater =? cmp_greater_v) && (cmp_equal =? cmp_equal_v) && (cmp_less =? cmp_less_v).

Lemma tables_ok : pre_table_ok = true /\ post_table_ok = true /\ cmp_consts_ok = true.
Proof. vm_compute. auto. Qed.

Lemma pre_pair c1 c2 p1 p2 : decode_pre c1 = Some p1 -> decode_pre c2 = Some p2 ->
  (none_to_max c1 ?= none_to_max c2) = (rank_pre p1 ?= rank_pre p2) /\
  ((c1 =? c2) = (rank_pre p1 =? rank_pre p2)) /\
  ((c1 =? pre_None) = (rank_pre p1 =? rank_pre PNone)).
Proof.
  intros H1 H2. destruct tables_ok as (T & _ & _). unfold pre_table_ok in T.
  rewrite forallb_forall in T. specialize (T c1 (decode_pre_in _ _ H1)).
  rewrite forallb_forall in T. specialize (T c2 (decode_pre_in _ _ H2)).
  rewrite H1, H2 in T. apply andb_true_iff in T. destruct T as [T T3].
  apply andb_true_iff in T. destruct T as [T1 T2].
  apply cmpb_eq in T1. apply Bool.eqb_prop in T2. apply Bool.eqb_prop in T3. auto.
Qed.

Lemma post_pair c1 c2 p1 p2 : decode_post c1 = Some p1 -> decode_post c2 = Some p2 ->
  (c1 ?= c2) = (rank_post p1 ?= rank_post p2) /\
  ((c1 =? c2) = (rank_post p1 =? rank_post p2)) /\
  ((c1 =? post_None) = (rank_post p1 =? rank_post SNone)).
Proof.
  intros H1 H2. destruct tables_ok as (_ & T & _). unfold post_table_ok in T.
  rewrite forallb_forall in T. specialize (T c1 (decode_post_in _ _ H1)).
  rewrite forallb_forall in T. specialize (T c2 (decode_post_in _ _ H2)).
  rewrite H1, H2 in T. apply andb_true_iff in T. destruct T as [T T3].
  apply andb_true_iff in T. destruct T as [T1 T2].
  apply cmpb_eq in T1. apply Bool.eqb_prop in T2. apply Bool.eqb_prop in T3. auto.
Qed.

(* ---------- CompareVersions = the spec order -------------------------------- *)
Lemma ladder_cmp x y k : ladder x y k = match x ?= y with Gt => cmp_greater | Lt => cmp_less | Eq => k end.
Proof.
  unfold ladder. destruct (x ?= y) eqn:H.
  - apply Z.compare_eq in H; subst. rewrite Z.gtb_ltb, Z.ltb_irrefl. reflexivity.
  - rewrite Z.compare_lt_iff in H. rewrite Z.gtb_ltb.
    destruct (y <? x) eqn:A; [apply Z.ltb_lt in A; lia|]. destruct (x <? y) eqn:B; [reflexivity | apply Z.ltb_ge in B; lia].
  - rewrite Z.compare_gt_iff in H. rewrite Z.gtb_ltb.
    destruct (y <? x) eqn:A; [reflexivity | apply Z.ltb_ge in A; lia].
Qed.

Lemma numbers_cmp a b k :
  match cmp_numbers a b with
  | Some c => c
  | None => ladder (Z.of_nat (List.length a)) (Z.of_nat (List.length b)) k
  end = match cmp_nums a b with Gt => cmp_greater | Lt => cmp_less | Eq => k end.
Proof.
  revert b; induction a as [|x a IH]; destruct b as [|y b]; cbn [cmp_numbers cmp_nums].
  - rewrite ladder_cmp. reflexivity.
  - rewrite ladder_cmp. cbn [List.length]. destruct (Z.of_nat 0 ?= Z.of_nat (S (List.length b))) eqn:H; try reflexivity.
    + apply Z.compare_eq in H. lia.
    + rewrite Z.compare_gt_iff in H. lia.
  - rewrite ladder_cmp. cbn [List.length]. destruct (Z.of_nat (S (List.length a)) ?= Z.of_nat 0) eqn:H; try reflexivity.
    + apply Z.compare_eq in H. lia.
    + rewrite Z.compare_lt_iff in H. lia.
  - rewrite Z.gtb_ltb. destruct (x ?= y) eqn:H.
    + apply Z.compare_eq in H; subst. rewrite Z.ltb_irrefl.
      rewrite <- IH. destruct (cmp_numbers a b); [reflexivity|].
      cbn [List.length]. rewrite !ladder_cmp. rewrite !Nat2Z.inj_succ.
      assert (E : (Z.succ (Z.of_nat (List.length a)) ?= Z.succ (Z.of_nat (List.length b))) =
                  (Z.of_nat (List.length a) ?= Z.of_nat (List.length b))).
      { destruct (Z.of_nat (List.length a) ?= Z.of_nat (List.length b)) eqn:E0.
        - apply Z.compare_eq in E0. rewrite E0. apply Z.compare_refl.
        - rewrite Z.compare_lt_iff in *. lia.
        - rewrite Z.compare_gt_iff in *. lia. }
      rewrite E. reflexivity.
    + rewrite Z.compare_lt_iff in H.
      destruct (y <? x) eqn:A; [apply Z.ltb_lt in A; lia|].
      destruct (x <? y) eqn:B; [reflexivity | apply Z.ltb_ge in B; lia].
    + rewrite Z.compare_gt_iff in H.
      destruct (y <? x) eqn:A; [reflexivity | apply Z.ltb_ge in A; lia].
Qed.

Lemma compare_is_spec a b va vb : abs a = Some va -> abs b = Some vb ->
  compare_versions a b = enc (spec_cmp va vb).
Proof.
  unfold abs. destruct (decode_pre (m_pre a)) as [pa|] eqn:Hpa; [|discriminate].
  destruct (decode_post (m_post a)) as [qa|] eqn:Hqa; [|discriminate].
  destruct (decode_pre (m_pre b)) as [pb|] eqn:Hpb; [|discriminate].
  destruct (decode_post (m_post b)) as [qb|] eqn:Hqb; [|discriminate].
  intros Ha Hb. inversion Ha; inversion Hb; subst; clear Ha Hb.
  rewrite compare_ladder_is_hand.
  unfold compare_versions_hand, spec_cmp; cbn [nums letter pre pre_n post post_n rev].
  rewrite numbers_cmp. rewrite !ladder_cmp.
  destruct (pre_pair _ _ _ _ Hpa Hpb) as (P & _ & _). rewrite P.
  destruct (post_pair _ _ _ _ Hqa Hqb) as (Q & _ & _). rewrite Q.
  repeat match goal with
  | |- context [match ?c with Eq => _ | Lt => _ | Gt => _ end] =>
      destruct c; cbn [lex enc]; try reflexivity
  end.
Qed.

(* ---------- includesVersion = the spec's ~ ---------------------------------- *)
Lemma loop_prefix_spec r a : (List.length r <= List.length a)%nat ->
  loop_prefix r a = Some (is_prefix_z r a).
Proof.
  revert a; induction r as [|x r IH]; destruct a as [|y a]; simpl; intros H; try reflexivity; try lia.
  destruct (x =? y); [apply IH; lia | reflexivity].
Qed.

Lemma is_prefix_z_len r a : is_prefix_z r a = true -> (List.length r <= List.length a)%nat.
Proof.
  revert a; induction r as [|x r IH]; destruct a as [|y a]; simpl; intros H; try lia; try discriminate.
  apply andb_true_iff in H. destruct H as [_ H]. apply IH in H. lia.
Qed.

(* includesVersion never indexes out of range and equals the spec's ~ *)
Lemma includes_is_spec a r va vr : abs a = Some va -> abs r = Some vr ->
  includes_version_res a r = Some (spec_tilde va vr).
Proof.
  unfold abs. destruct (decode_pre (m_pre a)) as [pa|] eqn:Hpa; [|discriminate].
  destruct (decode_post (m_post a)) as [qa|] eqn:Hqa; [|discriminate].
  destruct (decode_pre (m_pre r)) as [pr|] eqn:Hpr; [|discriminate].
  destruct (decode_post (m_post r)) as [qr|] eqn:Hqr; [|discriminate].
  intros Ha Hr. inversion Ha; inversion Hr; subst; clear Ha Hr.
  rewrite includes_ladder_is_hand.
  unfold includes_version_hand, spec_tilde; cbn [nums letter pre pre_n post post_n rev].
  destruct (pre_pair _ _ _ _ Hpa Hpr) as (_ & P1 & _).
  destruct (pre_pair _ _ _ _ Hpr Hpr) as (_ & _ & P2).
  destruct (post_pair _ _ _ _ Hqa Hqr) as (_ & Q1 & _).
  destruct (post_pair _ _ _ _ Hqr Hqr) as (_ & _ & Q2).
  unfold presuf_eqb, postsuf_eqb. rewrite <- P1, <- P2, <- Q1, <- Q2.
  set (la := Z.of_nat (List.length (m_nums a))). set (lr := Z.of_nat (List.length (m_nums r))).
  destruct (la <? lr) eqn:A.
  - apply Z.ltb_lt in A.
    destruct (is_prefix_z (m_nums r) (m_nums a)) eqn:Hp; [|reflexivity].
    apply is_prefix_z_len in Hp. unfold la, lr in A. lia.
  - apply Z.ltb_ge in A.
    rewrite loop_prefix_spec by (unfold la, lr in A; lia).
    destruct (is_prefix_z (m_nums r) (m_nums a)) eqn:Hp; [|reflexivity].
    cbn [andb]. rewrite Z.gtb_ltb.
    destruct (lr <? la); [reflexivity|].
    destruct (m_letter r =? 0), (m_letter a =? m_letter r), (m_pre r =? pre_None), (m_pre a =? m_pre r),
      (m_pre_n r =? 0), (m_pre_n a =? m_pre_n r), (m_post r =? post_None), (m_post a =? m_post r),
      (m_post_n r =? 0), (m_post_n a =? m_post_n r), (m_rev r =? 0), (m_rev a =? m_rev r); reflexivity.
Qed.

Lemma includes_bool_is_spec a r va vr : abs a = Some va -> abs r = Some vr ->
  includes_version a r = spec_tilde va vr.
Proof. intros Ha Hr. unfold includes_version. rewrite (includes_is_spec a r va vr Ha Hr). reflexivity. Qed.

(* ---------- operators ------------------------------------------------------- *)
Definition op_accepts (op : vop) (c : comparison) : bool :=
  match op, c with
  | OpAny, _ => true
  | OpEq, Eq | OpGt, Gt | OpLt, Lt => true
  | OpGe, Gt | OpGe, Eq | OpLe, Lt | OpLe, Eq => true
  | _, _ => false
  end.

Lemma spec_sat_accepts op a r : op <> OpTilde -> spec_sat op a r = op_accepts op (spec_cmp a r).
Proof. destruct op; simpl; intros H; try congruence; destruct (spec_cmp a r); reflexivity. Qed.

Definition table_accepts (dep : Z) (c : comparison) : bool :=
  match find (fun row => fst row =? dep) satisfies_table with
  | Some (_, accepted) => existsb (fun x => x =? enc c) accepted
  | None => false
  end.

Definition is_tilde (op : vop) : bool := match op with OpTilde => true | _ => false end.

(* every row of the operator switch, against every comparison result *)
Definition matcher_rows_ok : bool :=
  forallb (fun row : string * Z =>
    let op := vop_of_string (fst row) in
    if snd row =? dep_versionTilde then is_tilde op
    else negb (is_tilde op) &&
         forallb (fun c => Bool.eqb (table_accepts (snd row) c) (op_accepts op c)) [Gt; Eq; Lt])
    matcher_table.

Lemma matcher_rows_ok_true : matcher_rows_ok = true.
Proof. vm_compute. reflexivity. Qed.

Lemma satisfies_is_spec row a r va vr : In row matcher_table ->
  abs a = Some va -> abs r = Some vr ->
  satisfies (snd row) a r = spec_sat (vop_of_string (fst row)) va vr.
Proof.
  intros Hin Ha Hr. pose proof matcher_rows_ok_true as T. unfold matcher_rows_ok in T.
  rewrite forallb_forall in T. specialize (T row Hin). cbv zeta in T.
  unfold satisfies. destruct (snd row =? dep_versionTilde) eqn:Ht.
  - destruct (vop_of_string (fst row)); try discriminate. simpl. apply includes_bool_is_spec; assumption.
  - apply andb_true_iff in T. destruct T as [T1 T2].
    rewrite spec_sat_accepts by (intro E; rewrite E in T1; discriminate).
    rewrite (compare_is_spec a r va vr Ha Hr).
    rewrite forallb_forall in T2.
    assert (Hc : In (spec_cmp va vr) [Gt; Eq; Lt]) by (destruct (spec_cmp va vr); simpl; auto).
    specialize (T2 _ Hc). apply Bool.eqb_prop in T2. unfold table_accepts in T2. exact T2.
Qed.

(* ---------- acceptance and the grammar --------------------------------------- *)
Lemma version_regex_is_grammar :
  match anchored version_regex with Some r => strip_groups r = apk_version_re | None => False end.
Proof. vm_compute. reflexivity. Qed.

Lemma grammar_no_anchor : no_anchor apk_version_re = true.
Proof. vm_compute. reflexivity. Qed.

Lemma full_match_grammar s : full_match version_regex s = true <-> L apk_version_re (bytes_of_string s).
Proof.
  unfold full_match. pose proof version_regex_is_grammar as H.
  destruct (anchored version_regex) as [r|] eqn:Ha; [|contradiction].
  assert (NA : no_anchor r = true).
  { unfold anchored in Ha. destruct version_regex; try discriminate.
    destruct r0_1; try discriminate. destruct (strip_eot r0_2); try discriminate.
    destruct (no_anchor r0) eqn:E; inversion Ha; subst; exact E. }
  rewrite matches_L by exact NA. rewrite <- H. apply strip_groups_L.
Qed.

Lemma parse_accept_grammar s v : parse_version s = Some v -> L apk_version_re (bytes_of_string s).
Proof.
  unfold parse_version. destruct (full_match version_regex s) eqn:H; [|discriminate].
  intros _. apply full_match_grammar; exact H.
Qed.

(* numeric components fit the Go int *)
Definition fits (s : string) : Prop := version_of_fields (tokenize (bytes_of_string s)) <> None.

Lemma parse_accept_iff s :
  (exists v, parse_version s = Some v) <-> L apk_version_re (bytes_of_string s) /\ fits s.
Proof.
  unfold parse_version, fits. split.
  - intros [v H]. destruct (full_match version_regex s) eqn:Hm; [|discriminate].
    split; [apply full_match_grammar; exact Hm | congruence].
  - intros [HL Hf]. apply full_match_grammar in HL. rewrite HL.
    destruct (version_of_fields _) as [v|]; [exists v; reflexivity | congruence].
Qed.

Lemma atoi_fits ds : atoi ds <> None <-> digits_value ds <= max_int.
Proof.
  unfold atoi. destruct (digits_value ds <=? max_int) eqn:H.
  - apply Z.leb_le in H. split; [auto | congruence].
  - apply Z.leb_gt in H. split; [congruence | lia].
Qed.

(* the full "accepted iff grammatical" is false: a grammatical string the parser rejects *)
Lemma grammar_valid_rejected :
  exists s, L apk_version_re (bytes_of_string s) /\ parse_version s = None.
Proof.
  exists "99999999999999999999"%string. split.
  - apply matches_L; [apply grammar_no_anchor | vm_compute; reflexivity].
  - vm_compute. reflexivity.
Qed.
