(* C03 — the order and the operators lifted to version STRINGS through
   parse_version / satisfied_by: every accepted string decodes to a spec tuple,
   the relation CompareVersions induces on accepted strings is a total preorder
   whose equivalence is "same parsed tuple", and SatisfiedBy on a constraint
   whose version parses is the spec's operator on the two tuples. *)
From Apko Require Import Base.Prelude Base.Regex Spec.VersionSpec Model.Version
  Proofs.VersionProofs Proofs.ConstraintProofs
  Generated.Regexes Generated.VersionConsts Generated.C03Version Generated.C03Ladders.
Open Scope Z_scope.

(* ---------- a parsed version carries codes of the switch tables -------------- *)
Lemma take_suffix_in table : forall s c r, take_suffix table s = Some (c, r) -> In c (codes table).
Proof.
  induction table as [|[name code] more IH]; intros s c r H; [discriminate|].
  cbn [take_suffix] in H. unfold codes. cbn [List.map snd].
  destruct name as [|ch name'].
  - right. exact (IH _ _ _ H).
  - destruct (strip_prefix _ s) as [r'|].
    + inversion H; subst. left; reflexivity.
    + right. exact (IH _ _ _ H).
Qed.

Lemma tokenize_codes pt qt s :
  In (f_pre (tokenize_with pt qt s)) (lookup_empty pt :: codes pt) /\
  In (f_post (tokenize_with pt qt s)) (lookup_empty qt :: codes qt).
Proof.
  unfold tokenize_with.
  destruct (span is_digit s) as [d1 r1].
  destruct (dotted (List.length r1) r1) as [ds r2].
  destruct (match r2 with
            | [] => (0, r2)
            | c :: t => if is_lower c then (Z.of_N c, t) else (0, r2)
            end) as [lt r3].
  destruct (take_suffix pt r3) as [[c1 r]|] eqn:H1.
  - destruct (span is_digit r) as [d r'].
    destruct (take_suffix qt r') as [[c2 rr]|] eqn:H2.
    + destruct (span is_digit rr) as [d' r'']. cbn [f_pre f_post].
      split; right; eapply take_suffix_in; eassumption.
    + cbn [f_pre f_post]. split; [right; eapply take_suffix_in; eassumption | left; reflexivity].
  - destruct (take_suffix qt r3) as [[c2 rr]|] eqn:H2.
    + destruct (span is_digit rr) as [d' r'']. cbn [f_pre f_post].
      split; [left; reflexivity | right; eapply take_suffix_in; eassumption].
    + cbn [f_pre f_post]. split; left; reflexivity.
Qed.

Definition decodable_codes : bool :=
  forallb (fun c => match decode_pre c with Some _ => true | None => false end)
          (lookup_empty pre_suffix_table :: codes pre_suffix_table) &&
  forallb (fun c => match decode_post c with Some _ => true | None => false end)
          (lookup_empty post_suffix_table :: codes post_suffix_table).

Lemma decodable_codes_true : decodable_codes = true.
Proof. vm_compute. reflexivity. Qed.

(* every version the parser accepts decodes to a tuple of the spec *)
Lemma parse_abs s m : parse_version s = Some m -> exists v, abs m = Some v.
Proof.
  unfold parse_version. destruct (full_match version_regex s); [|discriminate].
  unfold version_of_fields. set (f := tokenize (bytes_of_string s)).
  destruct (atoi (f_first f)) as [n0|]; [|discriminate].
  destruct (atoi_all (f_rest f)) as [ns|]; [|discriminate].
  destruct (atoi_opt (f_pre_digits f)) as [pn|]; [|discriminate].
  destruct (atoi_opt (f_post_digits f)) as [qn|]; [|discriminate].
  destruct (atoi_opt (f_rev_digits f)) as [rv|]; [|discriminate].
  intros H. inversion H; subst m; clear H.
  destruct (tokenize_codes pre_suffix_table post_suffix_table (bytes_of_string s)) as [Hp Hq].
  fold tokenize in Hp, Hq. fold f in Hp, Hq.
  pose proof decodable_codes_true as T. unfold decodable_codes in T.
  apply andb_true_iff in T. destruct T as [Tp Tq].
  rewrite forallb_forall in Tp, Tq. specialize (Tp _ Hp). specialize (Tq _ Hq).
  unfold abs. cbn [m_pre m_post].
  destruct (decode_pre (f_pre f)); [|discriminate].
  destruct (decode_post (f_post f)); [|discriminate].
  eexists; reflexivity.
Qed.

(* decoding loses nothing: equal tuples come from equal Go structs *)
Lemma abs_inj a b v : abs a = Some v -> abs b = Some v -> a = b.
Proof.
  unfold abs.
  destruct (decode_pre (m_pre a)) as [pa|] eqn:Hpa; [|discriminate].
  destruct (decode_post (m_post a)) as [qa|] eqn:Hqa; [|discriminate].
  destruct (decode_pre (m_pre b)) as [pb|] eqn:Hpb; [|discriminate].
  destruct (decode_post (m_post b)) as [qb|] eqn:Hqb; [|discriminate].
  intros Ha Hb. rewrite <- Hb in Ha. inversion Ha; subst; clear Ha Hb.
  destruct (pre_pair _ _ _ _ Hpa Hpb) as (_ & P & _).
  destruct (post_pair _ _ _ _ Hqa Hqb) as (_ & Q & _).
  rewrite Z.eqb_refl in P, Q. apply Z.eqb_eq in P. apply Z.eqb_eq in Q.
  destruct a, b; cbn in *; subst; reflexivity.
Qed.

Lemma enc_inj c d : enc c = enc d -> c = d.
Proof.
  destruct tables_ok as (_ & _ & T). unfold cmp_consts_ok in T.
  repeat (apply andb_true_iff in T; destruct T as [T ?]).
  repeat match goal with H : negb (_ =? _) = true |- _ => apply negb_true_iff in H; apply Z.eqb_neq in H end.
  destruct c, d; simpl; intros E; try reflexivity; congruence.
Qed.

(* ---------- the spec order: <= is transitive too ----------------------------- *)
Lemma spec_le_trans a b c : spec_cmp a b <> Gt -> spec_cmp b c <> Gt -> spec_cmp a c <> Gt.
Proof.
  destruct spec_cmp_total_order as (_ & _ & Heq & Htr & _).
  intros H1 H2.
  destruct (spec_cmp a b) eqn:Eab; [| |congruence].
  - apply Heq in Eab. subst. exact H2.
  - destruct (spec_cmp b c) eqn:Ebc; [| |congruence].
    + apply Heq in Ebc. subst. rewrite Eab. discriminate.
    + rewrite (Htr _ _ _ Eab Ebc). discriminate.
Qed.

(* ---------- CompareVersions on accepted strings ------------------------------ *)
(* the three-valued relation on strings; None = one of them is not a version *)
Definition str_cmp (s t : string) : option Z :=
  match parse_version s, parse_version t with
  | Some a, Some b => Some (compare_versions a b)
  | _, _ => None
  end.

Definition str_le (s t : string) : Prop :=
  exists c, str_cmp s t = Some c /\ c <> cmp_greater.
Definition str_equiv (s t : string) : Prop := str_cmp s t = Some cmp_equal.

Lemma str_cmp_spec s t a b : parse_version s = Some a -> parse_version t = Some b ->
  exists va vb, abs a = Some va /\ abs b = Some vb /\ str_cmp s t = Some (enc (spec_cmp va vb)).
Proof.
  intros Hs Ht. destruct (parse_abs _ _ Hs) as [va Ha]. destruct (parse_abs _ _ Ht) as [vb Hb].
  exists va, vb. split; [exact Ha|]. split; [exact Hb|].
  unfold str_cmp. rewrite Hs, Ht. rewrite (compare_is_spec a b va vb Ha Hb). reflexivity.
Qed.

Lemma enc_gt c : enc c <> cmp_greater <-> c <> Gt.
Proof.
  split; intros H E.
  - subst. apply H. reflexivity.
  - apply H. apply enc_inj. exact E.
Qed.

Theorem preorder_on_strings :
  (* defined exactly on pairs of accepted strings, with one of three values *)
  (forall s t, (exists a b, parse_version s = Some a /\ parse_version t = Some b) <->
               (str_cmp s t = Some cmp_less \/ str_cmp s t = Some cmp_equal \/ str_cmp s t = Some cmp_greater)) /\
  (* reflexive *)
  (forall s a, parse_version s = Some a -> str_equiv s s) /\
  (* total and antisymmetric up to the equivalence *)
  (forall s t, str_cmp s t = Some cmp_less <-> str_cmp t s = Some cmp_greater) /\
  (forall s t, str_equiv s t <-> str_equiv t s) /\
  (forall s t a b, parse_version s = Some a -> parse_version t = Some b -> str_le s t \/ str_le t s) /\
  (* transitive *)
  (forall s t u, str_le s t -> str_le t u -> str_le s u) /\
  (forall s t u, str_cmp s t = Some cmp_less -> str_cmp t u = Some cmp_less -> str_cmp s u = Some cmp_less) /\
  (* the equivalence is "same parsed version" (the Go struct, hence the tuple) *)
  (forall s t, str_equiv s t <-> exists a, parse_version s = Some a /\ parse_version t = Some a) /\
  (forall s t, str_le s t -> str_le t s -> str_equiv s t).
Proof.
  destruct spec_cmp_total_order as (Hrefl & Hopp & Heq & Htr & Htot).
  assert (Hinv : forall s t c, str_cmp s t = Some c ->
            exists a b va vb, parse_version s = Some a /\ parse_version t = Some b /\
              abs a = Some va /\ abs b = Some vb /\ c = enc (spec_cmp va vb)).
  { intros s t c H. unfold str_cmp in H.
    destruct (parse_version s) as [a|] eqn:Hs; [|discriminate].
    destruct (parse_version t) as [b|] eqn:Ht; [|discriminate].
    destruct (str_cmp_spec s t a b Hs Ht) as (va & vb & Ha & Hb & Hc).
    unfold str_cmp in Hc. rewrite Hs, Ht in Hc.
    exists a, b, va, vb. repeat split; auto. congruence. }
  assert (Hfwd : forall s t a b va vb, parse_version s = Some a -> parse_version t = Some b ->
            abs a = Some va -> abs b = Some vb -> str_cmp s t = Some (enc (spec_cmp va vb))).
  { intros s t a b va vb Hs Ht Ha Hb. unfold str_cmp. rewrite Hs, Ht.
    rewrite (compare_is_spec a b va vb Ha Hb). reflexivity. }
  split; [|split; [|split; [|split; [|split; [|split; [|split; [|split]]]]]]].
  - intros s t. split.
    + intros (a & b & Hs & Ht). destruct (str_cmp_spec s t a b Hs Ht) as (va & vb & _ & _ & Hc).
      rewrite Hc. destruct (spec_cmp va vb); simpl; auto.
    + intros H. assert (exists c, str_cmp s t = Some c) as [c Hc] by (destruct H as [H|[H|H]]; eexists; exact H).
      destruct (Hinv _ _ _ Hc) as (a & b & _ & _ & Hs & Ht & _). exists a, b. auto.
  - intros s a Hs. destruct (parse_abs _ _ Hs) as [va Ha]. unfold str_equiv.
    rewrite (Hfwd s s a a va va Hs Hs Ha Ha). rewrite Hrefl. reflexivity.
  - intros s t. split; intros H; destruct (Hinv _ _ _ H) as (a & b & va & vb & Hs & Ht & Ha & Hb & Hc).
    + rewrite (Hfwd t s b a vb va Ht Hs Hb Ha). rewrite (Hopp vb va).
      change cmp_less with (enc Lt) in Hc. apply enc_inj in Hc. rewrite <- Hc. reflexivity.
    + rewrite (Hfwd s t b a vb va Ht Hs Hb Ha). rewrite (Hopp vb va).
      change cmp_greater with (enc Gt) in Hc. apply enc_inj in Hc. rewrite <- Hc. reflexivity.
  - intros s t. unfold str_equiv.
    split; intros H; destruct (Hinv _ _ _ H) as (a & b & va & vb & Hs & Ht & Ha & Hb & Hc);
      rewrite (Hfwd _ _ b a vb va Ht Hs Hb Ha), (Hopp vb va);
      change cmp_equal with (enc Eq) in Hc; apply enc_inj in Hc; rewrite <- Hc; reflexivity.
  - intros s t a b Hs Ht. destruct (parse_abs _ _ Hs) as [va Ha]. destruct (parse_abs _ _ Ht) as [vb Hb].
    unfold str_le. rewrite (Hfwd s t a b va vb Hs Ht Ha Hb), (Hfwd t s b a vb va Ht Hs Hb Ha).
    rewrite (Hopp vb va). destruct (spec_cmp va vb) eqn:E.
    + left. eexists; split; [reflexivity|]. apply enc_gt. discriminate.
    + left. eexists; split; [reflexivity|]. apply enc_gt. discriminate.
    + right. eexists; split; [reflexivity|]. apply enc_gt. discriminate.
  - intros s t u (c1 & H1 & N1) (c2 & H2 & N2).
    destruct (Hinv _ _ _ H1) as (a & b & va & vb & Hs & Ht & Ha & Hb & Hc1).
    destruct (Hinv _ _ _ H2) as (b' & c & vb' & vc & Ht' & Hu & Hb' & Hcc & Hc2).
    rewrite Ht in Ht'. inversion Ht'; subst b'. rewrite Hb in Hb'. inversion Hb'; subst vb'.
    subst c1 c2. apply enc_gt in N1. apply enc_gt in N2.
    exists (enc (spec_cmp va vc)). split; [apply (Hfwd s u a c va vc Hs Hu Ha Hcc)|].
    apply enc_gt. exact (spec_le_trans va vb vc N1 N2).
  - intros s t u H1 H2.
    destruct (Hinv _ _ _ H1) as (a & b & va & vb & Hs & Ht & Ha & Hb & Hc1).
    destruct (Hinv _ _ _ H2) as (b' & c & vb' & vc & Ht' & Hu & Hb' & Hcc & Hc2).
    rewrite Ht in Ht'. inversion Ht'; subst b'. rewrite Hb in Hb'. inversion Hb'; subst vb'.
    change cmp_less with (enc Lt) in Hc1, Hc2. apply enc_inj in Hc1. apply enc_inj in Hc2.
    rewrite (Hfwd s u a c va vc Hs Hu Ha Hcc). rewrite (Htr va vb vc); [reflexivity | auto | auto].
  - intros s t. unfold str_equiv. split.
    + intros H. destruct (Hinv _ _ _ H) as (a & b & va & vb & Hs & Ht & Ha & Hb & Hc).
      change cmp_equal with (enc Eq) in Hc. apply enc_inj in Hc. symmetry in Hc. apply Heq in Hc. subst vb.
      exists a. split; [exact Hs|]. rewrite Ht. f_equal. symmetry. exact (abs_inj a b va Ha Hb).
    + intros (a & Hs & Ht). destruct (parse_abs _ _ Hs) as [va Ha].
      rewrite (Hfwd s t a a va va Hs Ht Ha Ha). rewrite Hrefl. reflexivity.
  - intros s t (c1 & H1 & N1) (c2 & H2 & N2). unfold str_equiv.
    destruct (Hinv _ _ _ H1) as (a & b & va & vb & Hs & Ht & Ha & Hb & Hc1).
    rewrite (Hfwd t s b a vb va Ht Hs Hb Ha) in H2. inversion H2; subst c2. subst c1.
    apply enc_gt in N1. apply enc_gt in N2. rewrite (Hopp vb va) in N2.
    rewrite H1. destruct (spec_cmp va vb); simpl in *; [reflexivity | congruence | congruence].
Qed.

(* "1.01" and "1.1" are different strings and the same version *)
Lemma leading_zero_equivalent :
  "1.01"%string <> "1.1"%string /\ str_equiv "1.01" "1.1" /\
  parse_version "1.01" = parse_version "1.1" /\
  (exists a, parse_version "1.01" = Some a /\ m_nums a = [1; 1]).
Proof.
  split; [discriminate|]. split; [vm_compute; reflexivity|]. split; [vm_compute; reflexivity|].
  eexists. split; [vm_compute; reflexivity | reflexivity].
Qed.

(* ---------- SatisfiedBy on strings ------------------------------------------- *)
Lemma parse_empty : parse_version "" = None.
Proof. vm_compute. reflexivity. Qed.

(* a constraint (any name, any pin) whose operator is a row of the switch and
   whose version string parses, asked about a parsed version: the verdict is the
   spec's operator on the two tuples — for = > < >= <= by the order, for ~ by the
   component-prefix rule *)
Theorem satisfied_by_is_spec row cname pin sv pv a :
  In row matcher_table -> parse_version sv = Some pv ->
  forall s, parse_version s = Some a ->
  exists va vr, abs a = Some va /\ abs pv = Some vr /\
    satisfied_by {| c_name := cname; c_version := sv; c_dep := snd row; c_pin := pin |} a
      = Some (spec_sat (vop_of_string (fst row)) va vr).
Proof.
  intros Hin Hsv s Hs.
  destruct (parse_abs _ _ Hs) as [va Ha]. destruct (parse_abs _ _ Hsv) as [vr Hr].
  exists va, vr. split; [exact Ha|]. split; [exact Hr|].
  unfold satisfied_by. cbn [c_version c_dep].
  destruct sv as [|ch sv']; [rewrite parse_empty in Hsv; discriminate|].
  rewrite Hsv. f_equal. apply satisfies_is_spec; assumption.
Qed.

(* an empty version (bare package name) accepts everything; a version that does
   not parse is an error, never a verdict *)
Lemma satisfied_by_edges cname dep pin a :
  satisfied_by {| c_name := cname; c_version := ""; c_dep := dep; c_pin := pin |} a = Some true /\
  (forall sv, sv <> ""%string -> parse_version sv = None ->
     satisfied_by {| c_name := cname; c_version := sv; c_dep := dep; c_pin := pin |} a = None).
Proof.
  split; [reflexivity|]. intros sv Hne Hp. unfold satisfied_by. cbn [c_version].
  destruct sv; [congruence|]. rewrite Hp. reflexivity.
Qed.

(* the operator text of a switch row resolves to that row's code *)
Definition matcher_keys_ok : bool :=
  forallb (fun row : string * Z => dep_of_matcher (fst row) =? snd row) matcher_table.
Lemma matcher_keys_ok_true : matcher_keys_ok = true.
Proof. vm_compute. reflexivity. Qed.

(* from the constraint STRING to the verdict: a constraint assembled from clean
   parts whose operator is one of the six and whose version parses *)
Theorem constraint_string_is_spec s0 name ops v pin row pv s a :
  bytes_of_string s0 = (name ++ ops ++ v ++ pin_tail pin)%list ->
  no_so_prefix (bytes_of_string s0) ->
  clean name ops v pin ->
  In row matcher_table -> string_of_bytes ops = fst row ->
  parse_version (string_of_bytes v) = Some pv ->
  parse_version s = Some a ->
  exists va vr, abs a = Some va /\ abs pv = Some vr /\
    satisfied_by (resolve_constraint s0) a = Some (spec_sat (vop_of_string (fst row)) va vr).
Proof.
  intros Hs0 Hso Hcl Hin Hops Hpv Hs.
  rewrite (resolve_clean s0 name ops v pin Hs0 Hso Hcl). rewrite Hops.
  pose proof matcher_keys_ok_true as K. unfold matcher_keys_ok in K.
  rewrite forallb_forall in K. specialize (K row Hin). apply Z.eqb_eq in K. rewrite K.
  exact (satisfied_by_is_spec row _ _ _ pv a Hin Hpv s Hs).
Qed.
