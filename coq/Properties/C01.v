(* C01 — Builds are bit-for-bit reproducible.
   Property theorems only; each is closed by [exact] of a lemma proved in
   Proofs/ReproProofs.v (or Base/C01Lib.v) and followed by Print Assumptions.
   What these theorems carry: the logic that makes the output independent of
   Go map iteration order, goroutine completion order and the clock. What they
   do not carry (pgzip, scheduler, host environment, cache bytes) is explored
   by the build matrix of harness/cmd/c01 and labelled so in the evidence. *)
From Apko Require Import Base.Prelude Base.C01Lib Model.Repro Spec.ReproSpec
  Proofs.ReproProofs Generated.C01Calls.
From Coq Require Import Permutation Sorted.
Open Scope string_scope. Open Scope list_scope.

(* The tie: every sort / set call that the canonicaliser models stand for is
   present in the named function of the CURRENT source, after the map range
   that fills the slice and with the expected comparator; the build date
   comes from SOURCE_DATE_EPOCH or the packages; no image-producing file calls
   time.Now. Deleting or moving one of them makes this theorem fail to check. *)
Theorem c01_source_calls_present : forallb snd c01_calls = true.
Proof. vm_compute. reflexivity. Qed.
Print Assumptions c01_source_calls_present.

(* reusable: a sorted list is determined by its elements *)
Theorem c01_sort_unique : forall (A : Type) (le : A -> A -> Prop),
  (forall a b, le a b -> le b a -> a = b) -> (forall a b c, le a b -> le b c -> le a c) ->
  forall l l', Sorted le l -> Sorted le l' -> Permutation l l' -> l = l'.
Proof. intros A le Anti Trans. exact (Sorted_perm_unique le Anti Trans). Qed.
Print Assumptions c01_sort_unique.

(* package list: sets.List(sets.New(Packages...).Insert(ExtraPackages...)) — a
   function of the SET of names, strictly increasing *)
Theorem c01_canon_packages : forall p e p' e',
  (forall x, In x (p ++ e) <-> In x (p' ++ e')) ->
  canon_packages p e = canon_packages p' e' /\
  StrictlySortedStrings (canon_packages p e) /\
  (forall x, In x (canon_packages p e) <-> In x p \/ In x e).
Proof.
  intros p e p' e' H. split; [exact (canon_packages_set_invariant p e p' e' H) | exact (canon_packages_spec p e)].
Qed.
Print Assumptions c01_canon_packages.

(* world = SetWorld(packages ++ base image packages): any order of the
   configuration's packages, of --package-append and of the base image's
   installed list gives the same etc/apk/world, which is sorted *)
Theorem c01_canon_world : forall p e b p' e' b',
  Permutation p p' -> Permutation e e' -> Permutation b b' ->
  world_file p e b = world_file p' e' b' /\
  SortedStrings (canon_world p e b) /\
  (forall x, In x (canon_world p e b) <-> In x p \/ In x e \/ In x b).
Proof.
  intros p e b p' e' b' Pp Pe Pb. split; [exact (world_file_perm p e b p' e' b' Pp Pe Pb) | exact (canon_world_spec p e b)].
Qed.
Print Assumptions c01_canon_world.

(* repositories: the build-time union and the runtime list left in the image *)
Theorem c01_canon_repositories : forall b r xb xr b' r' xb' xr',
  Permutation b b' -> Permutation r r' -> Permutation xb xb' -> Permutation xr xr' ->
  canon_build_repos b r xb xr = canon_build_repos b' r' xb' xr' /\
  repositories_file r xr = repositories_file r' xr' /\
  StrictlySortedStrings (canon_runtime_repos r xr) /\
  (forall x, In x (canon_runtime_repos r xr) <-> In x r \/ In x xr).
Proof.
  intros b r xb xr b' r' xb' xr' Pb Pr Pxb Pxr.
  split; [exact (canon_build_repos_perm _ _ _ _ _ _ _ _ Pb Pr Pxb Pxr)|].
  split; [exact (repositories_file_perm _ _ _ _ Pr Pxr) | exact (canon_runtime_repos_spec r xr)].
Qed.
Print Assumptions c01_canon_repositories.

(* keyring: the list of key files handed to InitKeyring *)
Theorem c01_canon_keyring : forall k x k' x',
  Permutation k k' -> Permutation x x' ->
  canon_keyring k x = canon_keyring k' x' /\
  StrictlySortedStrings (canon_keyring k x) /\
  (forall y, In y (canon_keyring k x) <-> In y k \/ In y x).
Proof.
  intros k x k' x' Pk Px. split; [exact (canon_keyring_perm _ _ _ _ Pk Px) | exact (canon_keyring_spec k x)].
Qed.
Print Assumptions c01_canon_keyring.

(* environment: whatever order `range env` yields the entries in (and whatever
   order the defaults of the CURRENT source are visited in), Config.Env is the
   same sorted list of the same NAME=value strings *)
Theorem c01_canon_env : forall env defaults' ord ord',
  Permutation c01_env_defaults defaults' ->
  Permutation ord (env_with_defaults c01_env_defaults env) ->
  Permutation ord' (env_with_defaults defaults' env) ->
  canon_env ord = canon_env ord' /\
  SortedStrings (canon_env ord) /\ Permutation (canon_env ord) (List.map env_entry ord).
Proof.
  intros env d' ord ord' Pd P P'. split; [exact (canon_env_defaults _ _ env ord ord' Pd P P') | exact (canon_env_spec ord)].
Qed.
Print Assumptions c01_canon_env.

(* architectures of the index (and of the index SBOM), directory listings
   (ReadDir, hence fs.WalkDir and the tar writer), directory keys of the
   installed database: map keys sorted by < — independent of the iteration
   order, strictly increasing, same names; and ANY sorting function with the
   contract "sorted permutation" produces exactly this list *)
Theorem c01_canon_archs : forall ord ord', NoDup ord -> Permutation ord ord' ->
  canon_archs ord = canon_archs ord' /\
  StrictlySortedStrings (canon_archs ord) /\ (forall x, In x (canon_archs ord) <-> In x ord).
Proof. intros ord ord' N P. split; [exact (canon_archs_order_invariant ord ord' P) | exact (ssort_keys_spec ord N)]. Qed.
Print Assumptions c01_canon_archs.

Theorem c01_canon_readdir : forall ord ord', NoDup ord -> Permutation ord ord' ->
  canon_readdir ord = canon_readdir ord' /\
  StrictlySortedStrings (canon_readdir ord) /\ (forall x, In x (canon_readdir ord) <-> In x ord).
Proof. intros ord ord' N P. split; [exact (canon_readdir_order_invariant ord ord' P) | exact (ssort_keys_spec ord N)]. Qed.
Print Assumptions c01_canon_readdir.

Theorem c01_canon_dir_entries : forall ord ord', NoDup ord -> Permutation ord ord' ->
  canon_dir_entries ord = canon_dir_entries ord' /\
  StrictlySortedStrings (canon_dir_entries ord) /\ (forall x, In x (canon_dir_entries ord) <-> In x ord).
Proof. intros ord ord' N P. split; [exact (canon_dir_entries_order_invariant ord ord' P) | exact (ssort_keys_spec ord N)]. Qed.
Print Assumptions c01_canon_dir_entries.

Theorem c01_any_sort_is_canonical : forall (sort : list string -> list string) ord,
  Permutation (sort ord) ord -> SortedStrings (sort ord) -> sort ord = ssort ord.
Proof. exact any_sort_gives_canon. Qed.
Print Assumptions c01_any_sort_is_canonical.

(* layer groups: whatever order maps.Values(byOrigin) yields the groups in,
   and whatever (unstable) algorithm slices.SortFunc uses, the sorted list of
   groups is the same — given that groups are non-empty, pairwise disjoint
   sets of package names with tiebreaker = greatest name, which makes the
   explicit tie-breaker decide every size tie *)
Theorem c01_canon_groups : forall (sort : list group -> list group) ord ord',
  (forall g, In g ord -> g_pkgs g <> [] /\ g_tiebreaker g = tiebreaker_of (g_pkgs g)) ->
  (forall a b x, In a ord -> In b ord -> In x (g_pkgs a) -> In x (g_pkgs b) -> a = b) ->
  Permutation ord ord' ->
  canon_groups ord = canon_groups ord' /\
  (Permutation (sort ord) ord -> StronglySorted (lep group_leb) (sort ord) -> sort ord = canon_groups ord).
Proof.
  intros sort ord ord' WF Disj P.
  pose proof (tiebreakers_identify_groups ord WF Disj) as Inj.
  split; [exact (canon_groups_perm ord ord' Inj P) | exact (canon_groups_any_sort sort ord Inj)].
Qed.
Print Assumptions c01_canon_groups.

(* non-vacuity *)
Example c01_world_example :
  world_file ["b"; "a=1"; "b"] ["c"] ["z=1"] = world_file ["a=1"; "b"] ["c"; "b"] ["z=1"] /\
  canon_world ["b"; "a=1"; "b"] ["c"] ["z=1"] = ["a=1"; "b"; "c"; "z=1"].
Proof. vm_compute. split; reflexivity. Qed.

Example c01_env_example :
  canon_env (env_with_defaults c01_env_defaults [("ZED", "1"); ("PATH", "/bin")]) =
  ["PATH=/bin"; "SSL_CERT_FILE=/etc/ssl/certs/ca-certificates.crt"; "ZED=1"].
Proof. vm_compute. reflexivity. Qed.

Example c01_groups_example :
  let g1 := {| g_size := 10; g_tiebreaker := "bar"; g_pkgs := ["bar"] |} in
  let g2 := {| g_size := 10; g_tiebreaker := "baz"; g_pkgs := ["baz"; "bay"] |} in
  let g3 := {| g_size := 99; g_tiebreaker := "qux"; g_pkgs := ["qux"] |} in
  canon_groups [g2; g1; g3] = [g3; g1; g2] /\ canon_groups [g1; g3; g2] = [g3; g1; g2] /\
  tiebreaker_of ["baz"; "bay"] = "baz".
Proof. vm_compute. repeat split; reflexivity. Qed.

(* InitKeyring writes each key from its own goroutine. With distinct file
   names the key directory is the same for EVERY order in which the writes
   land, and holds exactly the configured content ... *)
Theorem c01_keyring_schedule : forall s s',
  NoDup (List.map fst s) -> Permutation s s' ->
  keys_dir s = keys_dir s' /\
  (forall k d, In (k, d) (keys_dir s) <-> exists v, d = Some v /\ In (k, v) s).
Proof. intros s s' N P. split; [exact (keys_dir_schedule s s' N P) | exact (keys_dir_content s N)]. Qed.
Print Assumptions c01_keyring_schedule.

(* ... whereas two keyring entries with the same base name and different
   content make the image depend on the schedule (candidate finding, see notes) *)
Theorem c01_keyring_collision_refuted : exists s s', Permutation s s' /\ keys_dir s <> keys_dir s'.
Proof. exact keys_dir_collision_refuted. Qed.
Print Assumptions c01_keyring_collision_refuted.

(* InstallPackages. For every package list, every expansion function, every
   install function (including failing ones), every initial state and EVERY
   schedule — the expansions finish in any order (any permutation of
   0..N-1), interleaved with any number of turns of the installer goroutine —
   the outcome after g.Wait() is the one of expanding and installing the
   packages one after the other in index order: same final state, or an error
   in both. In particular two schedules give the same outcome. *)
Theorem c01_install_schedule :
  forall (P E St : Type) (expand : P -> option E) (install : St -> nat -> P -> E -> option St)
         (pkgs : list P) (fs0 : St) (sched sched' : list event),
  Permutation (dones sched) (seq 0 (List.length pkgs)) ->
  Permutation (dones sched') (seq 0 (List.length pkgs)) ->
  outcome P E St expand install pkgs fs0 sched = seq_install P E St expand install 0 pkgs fs0 /\
  outcome P E St expand install pkgs fs0 sched = outcome P E St expand install pkgs fs0 sched'.
Proof.
  intros P E St expand install pkgs fs0 sched sched' H H'.
  split; [exact (install_schedule_perm P E St expand install pkgs fs0 sched H)
         | exact (install_two_schedules P E St expand install pkgs fs0 sched sched' H H')].
Qed.
Print Assumptions c01_install_schedule.

(* the build date: SOURCE_DATE_EPOCH when the variable is set (its parsed
   value, or the --build-date flag when it is blank), otherwise the latest of
   the flag and the installed packages' build times — whatever order
   GetInstalled lists them in *)
Theorem c01_bde : forall flag env times times',
  Permutation times times' ->
  build_date_epoch flag env times = build_date_epoch flag env times' /\
  (forall v, env = Some v -> build_date_epoch flag env times = resolve_sde flag env) /\
  (env = None -> IsLatest (build_date_epoch flag env times) (flag :: times)).
Proof.
  intros flag env times times' P. split; [exact (build_date_epoch_perm flag env times times' P) | exact (build_date_epoch_spec flag env times)].
Qed.
Print Assumptions c01_bde.

(* the multi-architecture date: the latest over the architectures whatever
   order their goroutines finish in; SOURCE_DATE_EPOCH itself when it is set *)
Theorem c01_bde_multiarch : forall sde completed completed',
  Permutation completed completed' ->
  multi_arch_bde sde completed = multi_arch_bde sde completed' /\
  IsLatest (multi_arch_bde sde completed) (sde :: completed) /\
  (Forall (fun b => b = sde) completed -> multi_arch_bde sde completed = sde).
Proof.
  intros sde c c' P. split; [exact (multi_arch_bde_perm sde c c' P)|].
  split; [exact (multi_arch_bde_latest sde c) | exact (multi_arch_bde_fixed sde c)].
Qed.
Print Assumptions c01_bde_multiarch.

(* c01_resolve_order — FULL (was refuted until fix c03e0c0, finding C01-F1).
   The install_if loop of GetPackageWithDependencies used to range over the Go
   map `added`: with two install_if packages triggered in one resolution the
   dependency list, hence the install order, hence lib/apk/db/installed, hence
   the layer digest, followed Go's map iteration.  It now walks the dependency
   list by index (appended entries included) and the model has no iteration
   order left to quantify over: for every install_if map and every dependency
   list the loop ends within its fuel with ONE list — the dependency list it
   started with, followed by names that are new, each once.  The tie to the
   code is the installif stage (every observed order, in process and in
   repeated identical CLI builds, must EQUAL this list). *)
Theorem c01_resolve_order : forall m deps,
  exists l, install_if_pass m deps = Some l /\
    exists extra, l = deps ++ extra /\ NoDup extra /\ (forall x, In x extra -> ~ In x deps).
Proof. exact install_if_one_order. Qed.
Print Assumptions c01_resolve_order.

(* c01_tarball_order — REFUTED (finding C01-F2): the member order of the
   output tarball follows the iteration order of go-containerregistry's image
   map; with one image it is unique (partial). *)
Theorem c01_tarball_order_refuted :
  exists imgs imgs' manifests, Permutation imgs imgs' /\ tar_members imgs manifests <> tar_members imgs' manifests.
Proof. exact tarball_order_refuted. Qed.
Print Assumptions c01_tarball_order_refuted.

Theorem c01_tarball_order_partial : forall img imgs' manifests,
  Permutation [img] imgs' -> tar_members [img] manifests = tar_members imgs' manifests.
Proof. exact tarball_order_single. Qed.
Print Assumptions c01_tarball_order_partial.

(* the validator run on the digests of real builds decides "same outputs" *)
Theorem c01_validator_decides : forall a b, differing a b = [] <-> SameOutputs a b.
Proof. exact differing_nil_iff. Qed.
Print Assumptions c01_validator_decides.

(* non-vacuity *)
Example c01_install_schedule_example :
  (* three packages; state = names installed so far; package "b" fails to install after "z" *)
  let expand := fun p : string => Some p in
  let install := fun (st : list string) (_ : nat) (p e : string) => Some (st ++ [e]) in
  outcome string string (list string) expand install ["a"; "b"; "c"] []
    [Step; Done 2; Step; Done 0; Step; Step; Done 1] = Some ["a"; "b"; "c"] /\
  outcome string string (list string) expand install ["a"; "b"; "c"] []
    [Done 1; Done 0; Step; Step; Step; Step; Done 2; Step] = Some ["a"; "b"; "c"] /\
  Permutation (dones [Step; Done 2; Step; Done 0; Step; Step; Done 1]) (seq 0 3).
Proof.
  vm_compute. repeat split; try reflexivity.
  apply Permutation_sym. eapply perm_trans; [|apply perm_swap]. apply perm_skip. apply perm_swap.
Qed.

Example c01_bde_example :
  build_date_epoch 0 None [1700000000; 1700009999; 1700000500]%Z = 1700009999%Z /\
  build_date_epoch 0 (Some (Some 1712345678%Z)) [1700000000; 1800000000]%Z = 1712345678%Z /\
  build_date_epoch 5 (Some None) [1700000000]%Z = 5%Z /\
  multi_arch_bde 0 [1700009999; 1700000001]%Z = multi_arch_bde 0 [1700000001; 1700009999]%Z.
Proof. vm_compute. repeat split; reflexivity. Qed.

(* the witness of the former refutation has one order; a chain (y after x1
   after d1) and a package with two triggers are appended when their last
   trigger has been visited *)
Example c01_resolve_order_example :
  install_if_pass ii_universe ["d1"; "d2"] = Some ["d1"; "d2"; "x1"; "x2"] /\
  install_if_pass ii_universe ["d2"; "d1"] = Some ["d2"; "d1"; "x2"; "x1"] /\
  install_if_pass (ii_build [{| ii_name := "y"; ii_if := ["x1"] |}; {| ii_name := "x1"; ii_if := ["d1"] |};
                             {| ii_name := "z"; ii_if := ["d1"; "d2"] |}]) ["d1"; "d2"]
    = Some ["d1"; "d2"; "x1"; "z"; "y"].
Proof. vm_compute. repeat split; reflexivity. Qed.
