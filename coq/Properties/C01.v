(* C01 — Builds are bit-for-bit reproducible.
   Property theorems only; each is closed by [exact] of a lemma proved in
   Proofs/ReproProofs.v (or Base/C01Lib.v) and followed by Print Assumptions.
   What these theorems carry: the logic that makes the output independent of
   Go map iteration order, goroutine completion order and the clock. What they
   do not carry (pgzip, scheduler, host environment, cache bytes) is explored
   by the build matrix of harness/cmd/c01 and labelled so in the evidence. *)
From Apko Require Import Base.Prelude Base.C01Lib Model.Repro Spec.ReproSpec
  Proofs.ReproProofs Generated.C01Calls.
From Coq Require Import Permutation Sorted.
Open Scope string_scope. Open Scope list_scope.

(* The tie: every sort / set call that the canonicaliser models stand for is
   present in the named function of the CURRENT source, after the map range
   that fills the slice and with the expected comparator; the build date
   comes from SOURCE_DATE_EPOCH or the packages; no image-producing file calls
   time.Now. Deleting or moving one of them makes this theorem fail to check. *)
Theorem c01_source_calls_present : forallb snd c01_calls = true.
Proof. vm_compute. reflexivity. Qed.
Print Assumptions c01_source_calls_present.

(* reusable: a sorted list is determined by its elements *)
Theorem c01_sort_unique : forall (A : Type) (le : A -> A -> Prop),
  (forall a b, le a b -> le b a -> a = b) -> (forall a b c, le a b -> le b c -> le a c) ->
  forall l l', Sorted le l -> Sorted le l' -> Permutation l l' -> l = l'.
Proof. intros A le Anti Trans. exact (Sorted_perm_unique le Anti Trans). Qed.
Print Assumptions c01_sort_unique.

(* package list: sets.List(sets.New(Packages...).Insert(ExtraPackages...)) — a
   function of the SET of names, strictly increasing *)
Theorem c01_canon_packages : forall p e p' e',
  (forall x, In x (p ++ e) <-> In x (p' ++ e')) ->
  canon_packages p e = canon_packages p' e' /\
  StrictlySortedStrings (canon_packages p e) /\
  (forall x, In x (canon_packages p e) <-> In x p \/ In x e).
Proof.
  intros p e p' e' H. split; [exact (canon_packages_set_invariant p e p' e' H) | exact (canon_packages_spec p e)].
Qed.
Print Assumptions c01_canon_packages.

(* world = SetWorld(packages ++ base image packages): any order of the
   configuration's packages, of --package-append and of the base image's
   installed list gives the same etc/apk/world, which is sorted *)
Theorem c01_canon_world : forall p e b p' e' b',
  Permutation p p' -> Permutation e e' -> Permutation b b' ->
  world_file p e b = world_file p' e' b' /\
  SortedStrings (canon_world p e b) /\
  (forall x, In x (canon_world p e b) <-> In x p \/ In x e \/ In x b).
Proof.
  intros p e b p' e' b' Pp Pe Pb. split; [exact (world_file_perm p e b p' e' b' Pp Pe Pb) | exact (canon_world_spec p e b)].
Qed.
Print Assumptions c01_canon_world.

(* repositories: the build-time union and the runtime list left in the image *)
Theorem c01_canon_repositories : forall b r xb xr b' r' xb' xr',
  Permutation b b' -> Permutation r r' -> Permutation xb xb' -> Permutation xr xr' ->
  canon_build_repos b r xb xr = canon_build_repos b' r' xb' xr' /\
  repositories_file r xr = repositories_file r' xr' /\
  StrictlySortedStrings (canon_runtime_repos r xr) /\
  (forall x, In x (canon_runtime_repos r xr) <-> In x r \/ In x xr).
Proof.
  intros b r xb xr b' r' xb' xr' Pb Pr Pxb Pxr.
  split; [exact (canon_build_repos_perm _ _ _ _ _ _ _ _ Pb Pr Pxb Pxr)|].
  split; [exact (repositories_file_perm _ _ _ _ Pr Pxr) | exact (canon_runtime_repos_spec r xr)].
Qed.
Print Assumptions c01_canon_repositories.

(* keyring: the list of key files handed to InitKeyring *)
Theorem c01_canon_keyring : forall k x k' x',
  Permutation k k' -> Permutation x x' ->
  canon_keyring k x = canon_keyring k' x' /\
  StrictlySortedStrings (canon_keyring k x) /\
  (forall y, In y (canon_keyring k x) <-> In y k \/ In y x).
Proof.
  intros k x k' x' Pk Px. split; [exact (canon_keyring_perm _ _ _ _ Pk Px) | exact (canon_keyring_spec k x)].
Qed.
Print Assumptions c01_canon_keyring.

(* environment: whatever order `range env` yields the entries in (and whatever
   order the defaults of the CURRENT source are visited in), Config.Env is the
   same sorted list of the same NAME=value strings *)
Theorem c01_canon_env : forall env defaults' ord ord',
  Permutation c01_env_defaults defaults' ->
  Permutation ord (env_with_defaults c01_env_defaults env) ->
  Permutation ord' (env_with_defaults defaults' env) ->
  canon_env ord = canon_env ord' /\
  SortedStrings (canon_env ord) /\ Permutation (canon_env ord) (List.map env_entry ord).
Proof.
  intros env d' ord ord' Pd P P'. split; [exact (canon_env_defaults _ _ env ord ord' Pd P P') | exact (canon_env_spec ord)].
Qed.
Print Assumptions c01_canon_env.

(* architectures of the index (and of the index SBOM), directory listings
   (ReadDir, hence fs.WalkDir and the tar writer), directory keys of the
   installed database: map keys sorted by < — independent of the iteration
   order, strictly increasing, same names; and ANY sorting function with the
   contract "sorted permutation" produces exactly this list *)
Theorem c01_canon_archs : forall ord ord', NoDup ord -> Permutation ord ord' ->
  canon_archs ord = canon_archs ord' /\
  StrictlySortedStrings (canon_archs ord) /\ (forall x, In x (canon_archs ord) <-> In x ord).
Proof. intros ord ord' N P. split; [exact (canon_archs_order_invariant ord ord' P) | exact (ssort_keys_spec ord N)]. Qed.
Print Assumptions c01_canon_archs.

Theorem c01_canon_readdir : forall ord ord', NoDup ord -> Permutation ord ord' ->
  canon_readdir ord = canon_readdir ord' /\
  StrictlySortedStrings (canon_readdir ord) /\ (forall x, In x (canon_readdir ord) <-> In x ord).
Proof. intros ord ord' N P. split; [exact (canon_readdir_order_invariant ord ord' P) | exact (ssort_keys_spec ord N)]. Qed.
Print Assumptions c01_canon_readdir.

Theorem c01_canon_dir_entries : forall ord ord', NoDup ord -> Permutation ord ord' ->
  canon_dir_entries ord = canon_dir_entries ord' /\
  StrictlySortedStrings (canon_dir_entries ord) /\ (forall x, In x (canon_dir_entries ord) <-> In x ord).
Proof. intros ord ord' N P. split; [exact (canon_dir_entries_order_invariant ord ord' P) | exact (ssort_keys_spec ord N)]. Qed.
Print Assumptions c01_canon_dir_entries.

Theorem c01_any_sort_is_canonical : forall (sort : list string -> list string) ord,
  Permutation (sort ord) ord -> SortedStrings (sort ord) -> sort ord = ssort ord.
Proof. exact any_sort_gives_canon. Qed.
Print Assumptions c01_any_sort_is_canonical.

(* layer groups: whatever order maps.Values(byOrigin) yields the groups in,
   and whatever (unstable) algorithm slices.SortFunc uses, the sorted list of
   groups is the same — given that groups are non-empty, pairwise disjoint
   sets of package names with tiebreaker = greatest name, which makes the
   explicit tie-breaker decide every size tie *)
Theorem c01_canon_groups : forall (sort : list group -> list group) ord ord',
  (forall g, In g ord -> g_pkgs g <> [] /\ g_tiebreaker g = tiebreaker_of (g_pkgs g)) ->
  (forall a b x, In a ord -> In b ord -> In x (g_pkgs a) -> In x (g_pkgs b) -> a = b) ->
  Permutation ord ord' ->
  canon_groups ord = canon_groups ord' /\
  (Permutation (sort ord) ord -> StronglySorted (lep group_leb) (sort ord) -> sort ord = canon_groups ord).
Proof.
  intros sort ord ord' WF Disj P.
  pose proof (tiebreakers_identify_groups ord WF Disj) as Inj.
  split; [exact (canon_groups_perm ord ord' Inj P) | exact (canon_groups_any_sort sort ord Inj)].
Qed.
Print Assumptions c01_canon_groups.

(* non-vacuity *)
Example c01_world_example :
  world_file ["b"; "a=1"; "b"] ["c"] ["z=1"] = world_file ["a=1"; "b"] ["c"; "b"] ["z=1"] /\
  canon_world ["b"; "a=1"; "b"] ["c"] ["z=1"] = ["a=1"; "b"; "c"; "z=1"].
Proof. vm_compute. split; reflexivity. Qed.

Example c01_env_example :
  canon_env (env_with_defaults c01_env_defaults [("ZED", "1"); ("PATH", "/bin")]) =
  ["PATH=/bin"; "SSL_CERT_FILE=/etc/ssl/certs/ca-certificates.crt"; "ZED=1"].
Proof. vm_compute. reflexivity. Qed.

Example c01_groups_example :
  let g1 := {| g_size := 10; g_tiebreaker := "bar"; g_pkgs := ["bar"] |} in
  let g2 := {| g_size := 10; g_tiebreaker := "baz"; g_pkgs := ["baz"; "bay"] |} in
  let g3 := {| g_size := 99; g_tiebreaker := "qux"; g_pkgs := ["qux"] |} in
  canon_groups [g2; g1; g3] = [g3; g1; g2] /\ canon_groups [g1; g3; g2] = [g3; g1; g2] /\
  tiebreaker_of ["baz"; "bay"] = "baz".
Proof. vm_compute. repeat split; reflexivity. Qed.
