(* C01 — Builds are bit-for-bit reproducible.
   Property theorems only; each is closed by [exact] of a lemma proved in
   Proofs/ReproProofs.v (or Base/C01Lib.v) and followed by Print Assumptions.
   What these theorems carry: the logic that makes the output independent of
   Go map iteration order, goroutine completion order and the clock. What they
   do not carry (pgzip, scheduler, host environment, cache bytes) is explored
   by the build matrix of harness/cmd/c01 and labelled so in the evidence. *)
From Apko Require Import Base.Prelude Base.C01Lib Model.Repro Spec.ReproSpec
  Proofs.ReproProofs Generated.C01Calls.
From Apko Require Import Model.BuildSteps Generated.C10Steps Model.Repro2 Proofs.Repro2Proofs Proofs.ReproGenerated.
From Apko Require Model.Resolver Proofs.ResolveProofs2 Proofs.ReproResolve Generated.C08Caches.
From Coq Require Import Permutation Sorted ZArith.
Open Scope string_scope. Open Scope list_scope.

(* The tie: every sort / set call that the canonicaliser models stand for is
   present in the named function of the CURRENT source, after the map range
   that fills the slice and with the expected comparator; the build date
   comes from SOURCE_DATE_EPOCH or the packages; no image-producing file calls
   time.Now. Deleting or moving one of them makes this theorem fail to check. *)
Theorem c01_source_calls_present : forallb snd c01_calls = true.
Proof. vm_compute. reflexivity. Qed.
Print Assumptions c01_source_calls_present.

(* reusable: a sorted list is determined by its elements *)
Theorem c01_sort_unique : forall (A : Type) (le : A -> A -> Prop),
  (forall a b, le a b -> le b a -> a = b) -> (forall a b c, le a b -> le b c -> le a c) ->
  forall l l', Sorted le l -> Sorted le l' -> Permutation l l' -> l = l'.
Proof. intros A le Anti Trans. exact (Sorted_perm_unique le Anti Trans). Qed.
Print Assumptions c01_sort_unique.

(* package list: sets.List(sets.New(Packages...).Insert(ExtraPackages...)) — a
   function of the SET of names, strictly increasing *)
Theorem c01_canon_packages : forall p e p' e',
  (forall x, In x (p ++ e) <-> In x (p' ++ e')) ->
  canon_packages p e = canon_packages p' e' /\
  StrictlySortedStrings (canon_packages p e) /\
  (forall x, In x (canon_packages p e) <-> In x p \/ In x e).
Proof.
  intros p e p' e' H. split; [exact (canon_packages_set_invariant p e p' e' H) | exact (canon_packages_spec p e)].
Qed.
Print Assumptions c01_canon_packages.

(* world = SetWorld(packages ++ base image packages): any order of the
   configuration's packages, of --package-append and of the base image's
   installed list gives the same etc/apk/world, which is sorted *)
Theorem c01_canon_world : forall p e b p' e' b',
  Permutation p p' -> Permutation e e' -> Permutation b b' ->
  world_file p e b = world_file p' e' b' /\
  SortedStrings (canon_world p e b) /\
  (forall x, In x (canon_world p e b) <-> In x p \/ In x e \/ In x b).
Proof.
  intros p e b p' e' b' Pp Pe Pb. split; [exact (world_file_perm p e b p' e' b' Pp Pe Pb) | exact (canon_world_spec p e b)].
Qed.
Print Assumptions c01_canon_world.

(* repositories: the build-time union and the runtime list left in the image *)
Theorem c01_canon_repositories : forall b r xb xr b' r' xb' xr',
  Permutation b b' -> Permutation r r' -> Permutation xb xb' -> Permutation xr xr' ->
  canon_build_repos b r xb xr = canon_build_repos b' r' xb' xr' /\
  repositories_file r xr = repositories_file r' xr' /\
  StrictlySortedStrings (canon_runtime_repos r xr) /\
  (forall x, In x (canon_runtime_repos r xr) <-> In x r \/ In x xr).
Proof.
  intros b r xb xr b' r' xb' xr' Pb Pr Pxb Pxr.
  split; [exact (canon_build_repos_perm _ _ _ _ _ _ _ _ Pb Pr Pxb Pxr)|].
  split; [exact (repositories_file_perm _ _ _ _ Pr Pxr) | exact (canon_runtime_repos_spec r xr)].
Qed.
Print Assumptions c01_canon_repositories.

(* keyring: the list of key files handed to InitKeyring *)
Theorem c01_canon_keyring : forall k x k' x',
  Permutation k k' -> Permutation x x' ->
  canon_keyring k x = canon_keyring k' x' /\
  StrictlySortedStrings (canon_keyring k x) /\
  (forall y, In y (canon_keyring k x) <-> In y k \/ In y x).
Proof.
  intros k x k' x' Pk Px. split; [exact (canon_keyring_perm _ _ _ _ Pk Px) | exact (canon_keyring_spec k x)].
Qed.
Print Assumptions c01_canon_keyring.

(* environment: whatever order `range env` yields the entries in (and whatever
   order the defaults of the CURRENT source are visited in), Config.Env is the
   same sorted list of the same NAME=value strings *)
Theorem c01_canon_env : forall env defaults' ord ord',
  Permutation c01_env_defaults defaults' ->
  Permutation ord (env_with_defaults c01_env_defaults env) ->
  Permutation ord' (env_with_defaults defaults' env) ->
  canon_env ord = canon_env ord' /\
  SortedStrings (canon_env ord) /\ Permutation (canon_env ord) (List.map env_entry ord).
Proof.
  intros env d' ord ord' Pd P P'. split; [exact (canon_env_defaults _ _ env ord ord' Pd P P') | exact (canon_env_spec ord)].
Qed.
Print Assumptions c01_canon_env.

(* architectures of the index (and of the index SBOM), directory listings
   (ReadDir, hence fs.WalkDir and the tar writer), directory keys of the
   installed database: map keys sorted by < — independent of the iteration
   order, strictly increasing, same names; and ANY sorting function with the
   contract "sorted permutation" produces exactly this list *)
Theorem c01_canon_archs : forall ord ord', NoDup ord -> Permutation ord ord' ->
  canon_archs ord = canon_archs ord' /\
  StrictlySortedStrings (canon_archs ord) /\ (forall x, In x (canon_archs ord) <-> In x ord).
Proof. intros ord ord' N P. split; [exact (canon_archs_order_invariant ord ord' P) | exact (ssort_keys_spec ord N)]. Qed.
Print Assumptions c01_canon_archs.

Theorem c01_canon_readdir : forall ord ord', NoDup ord -> Permutation ord ord' ->
  canon_readdir ord = canon_readdir ord' /\
  StrictlySortedStrings (canon_readdir ord) /\ (forall x, In x (canon_readdir ord) <-> In x ord).
Proof. intros ord ord' N P. split; [exact (canon_readdir_order_invariant ord ord' P) | exact (ssort_keys_spec ord N)]. Qed.
Print Assumptions c01_canon_readdir.

Theorem c01_canon_dir_entries : forall ord ord', NoDup ord -> Permutation ord ord' ->
  canon_dir_entries ord = canon_dir_entries ord' /\
  StrictlySortedStrings (canon_dir_entries ord) /\ (forall x, In x (canon_dir_entries ord) <-> In x ord).
Proof. intros ord ord' N P. split; [exact (canon_dir_entries_order_invariant ord ord' P) | exact (ssort_keys_spec ord N)]. Qed.
Print Assumptions c01_canon_dir_entries.

Theorem c01_any_sort_is_canonical : forall (sort : list string -> list string) ord,
  Permutation (sort ord) ord -> SortedStrings (sort ord) -> sort ord = ssort ord.
Proof. exact any_sort_gives_canon. Qed.
Print Assumptions c01_any_sort_is_canonical.

(* layer groups: whatever order maps.Values(byOrigin) yields the groups in,
   and whatever (unstable) algorithm slices.SortFunc uses, the sorted list of
   groups is the same — given that groups are non-empty, pairwise disjoint
   sets of package names with tiebreaker = greatest name, which makes the
   explicit tie-breaker decide every size tie *)
Theorem c01_canon_groups : forall (sort : list group -> list group) ord ord',
  (forall g, In g ord -> g_pkgs g <> [] /\ g_tiebreaker g = tiebreaker_of (g_pkgs g)) ->
  (forall a b x, In a ord -> In b ord -> In x (g_pkgs a) -> In x (g_pkgs b) -> a = b) ->
  Permutation ord ord' ->
  canon_groups ord = canon_groups ord' /\
  (Permutation (sort ord) ord -> StronglySorted (lep group_leb) (sort ord) -> sort ord = canon_groups ord).
Proof.
  intros sort ord ord' WF Disj P.
  pose proof (tiebreakers_identify_groups ord WF Disj) as Inj.
  split; [exact (canon_groups_perm ord ord' Inj P) | exact (canon_groups_any_sort sort ord Inj)].
Qed.
Print Assumptions c01_canon_groups.

(* non-vacuity *)
Example c01_world_example :
  world_file ["b"; "a=1"; "b"] ["c"] ["z=1"] = world_file ["a=1"; "b"] ["c"; "b"] ["z=1"] /\
  canon_world ["b"; "a=1"; "b"] ["c"] ["z=1"] = ["a=1"; "b"; "c"; "z=1"].
Proof. vm_compute. split; reflexivity. Qed.

Example c01_env_example :
  canon_env (env_with_defaults c01_env_defaults [("ZED", "1"); ("PATH", "/bin")]) =
  ["PATH=/bin"; "SSL_CERT_FILE=/etc/ssl/certs/ca-certificates.crt"; "ZED=1"].
Proof. vm_compute. reflexivity. Qed.

Example c01_groups_example :
  let g1 := {| g_size := 10; g_tiebreaker := "bar"; g_pkgs := ["bar"] |} in
  let g2 := {| g_size := 10; g_tiebreaker := "baz"; g_pkgs := ["baz"; "bay"] |} in
  let g3 := {| g_size := 99; g_tiebreaker := "qux"; g_pkgs := ["qux"] |} in
  canon_groups [g2; g1; g3] = [g3; g1; g2] /\ canon_groups [g1; g3; g2] = [g3; g1; g2] /\
  tiebreaker_of ["baz"; "bay"] = "baz".
Proof. vm_compute. repeat split; reflexivity. Qed.

(* InitKeyring writes each key from its own goroutine. With distinct file
   names the key directory is the same for EVERY order in which the writes
   land, and holds exactly the configured content ... *)
Theorem c01_keyring_schedule : forall s s',
  NoDup (List.map fst s) -> Permutation s s' ->
  keys_dir s = keys_dir s' /\
  (forall k d, In (k, d) (keys_dir s) <-> exists v, d = Some v /\ In (k, v) s).
Proof. intros s s' N P. split; [exact (keys_dir_schedule s s' N P) | exact (keys_dir_content s N)]. Qed.
Print Assumptions c01_keyring_schedule.

(* ... whereas two keyring entries with the same base name and different
   content make the image depend on the schedule (candidate finding, see notes) *)
Theorem c01_keyring_collision_refuted : exists s s', Permutation s s' /\ keys_dir s <> keys_dir s'.
Proof. exact keys_dir_collision_refuted. Qed.
Print Assumptions c01_keyring_collision_refuted.

(* InstallPackages. For every package list, every expansion function, every
   install function (including failing ones), every initial state and EVERY
   schedule — the expansions finish in any order (any permutation of
   0..N-1), interleaved with any number of turns of the installer goroutine —
   the outcome after g.Wait() is the one of expanding and installing the
   packages one after the other in index order: same final state, or an error
   in both. In particular two schedules give the same outcome. *)
Theorem c01_install_schedule :
  forall (P E St : Type) (expand : P -> option E) (install : St -> nat -> P -> E -> option St)
         (pkgs : list P) (fs0 : St) (sched sched' : list event),
  Permutation (dones sched) (seq 0 (List.length pkgs)) ->
  Permutation (dones sched') (seq 0 (List.length pkgs)) ->
  outcome P E St expand install pkgs fs0 sched = seq_install P E St expand install 0 pkgs fs0 /\
  outcome P E St expand install pkgs fs0 sched = outcome P E St expand install pkgs fs0 sched'.
Proof.
  intros P E St expand install pkgs fs0 sched sched' H H'.
  split; [exact (install_schedule_perm P E St expand install pkgs fs0 sched H)
         | exact (install_two_schedules P E St expand install pkgs fs0 sched sched' H H')].
Qed.
Print Assumptions c01_install_schedule.

(* ... and g.SetLimit(GOMAXPROCS + k), k read from the source (Generated
   c01_install_limit_extra).  The group runs at most that many goroutines: the
   expansions are STARTED in index order, each start waits for a free slot, the
   installer holds one while it runs (Model/Repro2.v, section Limit).
   (a) the limit only removes schedules: every complete run of the limited group
       is, with its starts erased, one of the schedules c01_install_schedule
       quantifies over — so its outcome is the sequential one;
   (b) which ones it removes: expansion i cannot finish (nor start) before
       i + 1 - limit (+1 while the installer runs) others have finished — with
       GOMAXPROCS = 1 only the index order is left;
   (c) it cannot block: GOMAXPROCS >= 1 and k >= 1 leave a slot beside the
       installer, so an unfinished run always has a start or a completion enabled;
   (d) a limit of one would: the installer takes it and waits for an expansion
       that is never started. *)
Theorem c01_install_limit_only_removes_schedules :
  forall (P E St : Type) (expand : P -> option E) (install : St -> nat -> P -> E -> option St)
         (pkgs : list P) (fs0 : St) (jobs : nat) (es : list levent),
  let limit := install_limit c01_install_limit_extra jobs in
  lvalid P E St expand install pkgs limit (linit St fs0) es = true ->
  all_finished P St pkgs (lrun P E St expand install pkgs (linit St fs0) es) = true ->
  Permutation (dones (erase es)) (seq 0 (List.length pkgs)) /\
  i_state St (finish P E St expand install pkgs (l_ist St (lrun P E St expand install pkgs (linit St fs0) es)))
    = seq_install P E St expand install 0 pkgs fs0.
Proof.
  intros P E St expand install pkgs fs0 jobs es limit V F.
  destruct (limited_run_is_schedule P E St expand install pkgs limit fs0 es V F) as [Pm R].
  split; [exact Pm|]. rewrite R. exact (install_schedule_perm P E St expand install pkgs fs0 (erase es) Pm).
Qed.
Print Assumptions c01_install_limit_only_removes_schedules.

Theorem c01_install_limit_removes :
  forall (P E St : Type) (expand : P -> option E) (install : St -> nat -> P -> E -> option St)
         (pkgs : list P) (fs0 : St) (jobs L : nat) (es1 es2 : list levent) (i : nat),
  install_limit c01_install_limit_extra jobs = Some L -> 1 <= L ->
  let s1 := lrun P E St expand install pkgs (linit St fs0) es1 in
  let installer := if alive P St pkgs (l_ist St s1) then 1 else 0 in
  (lvalid P E St expand install pkgs (Some L) (linit St fs0) (es1 ++ LDone i :: es2) = true ->
     i + installer < List.length (dones (erase es1)) + L) /\
  (lvalid P E St expand install pkgs (Some L) (linit St fs0) (es1 ++ LStart :: es2) = true ->
     l_started St s1 + installer < List.length (dones (erase es1)) + L).
Proof.
  intros P E St expand install pkgs fs0 jobs L es1 es2 i _ H1 s1 installer.
  split; [exact (limited_done_bound P E St expand install pkgs (Some L) fs0 es1 i es2 L eq_refl H1)
         | exact (limited_start_bound P E St expand install pkgs (Some L) fs0 es1 es2 L eq_refl)].
Qed.
Print Assumptions c01_install_limit_removes.

Theorem c01_install_limit_cannot_block :
  forall (P E St : Type) (expand : P -> option E) (install : St -> nat -> P -> E -> option St)
         (pkgs : list P) (fs0 : St) (jobs : nat) (es : list levent),
  1 <= jobs ->
  let limit := install_limit c01_install_limit_extra jobs in
  lvalid P E St expand install pkgs limit (linit St fs0) es = true ->
  all_finished P St pkgs (lrun P E St expand install pkgs (linit St fs0) es) = false ->
  exists e, e <> LStep /\ enabled P St pkgs limit (lrun P E St expand install pkgs (linit St fs0) es) e = true.
Proof.
  intros P E St expand install pkgs fs0 jobs es J limit.
  exact (limited_progress P E St expand install pkgs limit fs0 es (install_limit_good c01_install_limit_extra jobs install_limit_extra_ok J)).
Qed.
Print Assumptions c01_install_limit_cannot_block.

Theorem c01_install_limit_of_one_blocks_refuted :
  exists (pkgs : list string) (expand : string -> option string) (install : list string -> nat -> string -> string -> option (list string)),
  let s := linit (list string) [] in
  all_finished string (list string) pkgs s = false /\
  enabled string (list string) pkgs (Some 1) s LStart = false /\
  (forall i, enabled string (list string) pkgs (Some 1) s (LDone i) = false) /\
  lstep string string (list string) expand install pkgs s LStep = s.
Proof. eexists. eexists. eexists. exact limit_one_deadlocks. Qed.
Print Assumptions c01_install_limit_of_one_blocks_refuted.

(* the build date: SOURCE_DATE_EPOCH when the variable is set (its parsed
   value, or the --build-date flag when it is blank), otherwise the latest of
   the flag and the installed packages' build times — whatever order
   GetInstalled lists them in *)
(* Stated about the CODE of the loop as goextract read it this run
   (Generated c01_bde_fold: which two values `if <a>.After(<b>) { <c> = <d> }`
   compares and assigns, what the running value starts from, what is returned,
   what is returned when the variable is set) run by the interpreter of
   Model/Repro2.v: an edit that compares or returns something else changes
   the statement, and the running-maximum lemma it rests on fails to check. *)
Theorem c01_bde : forall flag env times times',
  Permutation times times' ->
  build_date c01_bde_fold flag env times = build_date c01_bde_fold flag env times' /\
  exists m, build_date c01_bde_fold flag env times = Some m /\
    (forall v, env = Some v -> m = resolve_sde flag env) /\
    (env = None -> IsLatest m (flag :: times)).
Proof. exact bde_generated. Qed.
Print Assumptions c01_bde.

(* the multi-architecture date (internal/cli/build.go buildImageComponents): the
   goroutines fold their dates into one variable under a mutex, in COMPLETION
   order; [completed] is that order.  Over the generated code of that statement
   (c01_multiarch_fold): the result is the same for every completion order, it is
   the latest of the configured date and the architectures' dates, and it is
   SOURCE_DATE_EPOCH itself when that is set (every architecture reports it). *)
Theorem c01_bde_multiarch : forall sde completed completed',
  Permutation completed completed' ->
  multi_arch_date c01_multiarch_fold sde completed = multi_arch_date c01_multiarch_fold sde completed' /\
  exists m, multi_arch_date c01_multiarch_fold sde completed = Some m /\
    IsLatest m (sde :: completed) /\
    (Forall (fun b => b = sde) completed -> m = sde).
Proof. exact multiarch_generated. Qed.
Print Assumptions c01_bde_multiarch.

(* ... which is a fact about THAT comparison: the same loop comparing the new date
   with the configured one instead of the running one lets the last finisher win *)
Theorem c01_bde_multiarch_last_finisher_refuted :
  exists sde completed completed', Permutation completed completed' /\
    multi_arch_date last_finisher_fold sde completed <> multi_arch_date last_finisher_fold sde completed'.
Proof. exact last_finisher_depends_on_order. Qed.
Print Assumptions c01_bde_multiarch_last_finisher_refuted.

(* /etc/apk/repositories of the final image is a function of the configuration
   (runtime repositories + --repository-append), never of a temp path.
   initializeApk (its lists read from the source: c01_init_repo_sources,
   c01_init_repo_appends) writes the union of all four lists and, on a base image,
   the path of the base image's auxiliary index — a file below the temp directory
   ([tmp], [tmp']): the build-time file names it.  The steps of the build are the
   generated lists of C10 (c10_steps, run by C10's interpreter from BuildLayers for
   EVERY valuation [cond] of the condition texts in them); SetRepositories writes
   the union of c10_setrepos_sources.  Whatever the temp path, a build that
   serialises a layer serialises the runtime list.  An early return in
   postBuildSetApk, a missing call of it, or other sources for the list make the
   lemmas under this theorem fail. *)
Theorem c01_repositories_file_independent_of_tempdir : forall cond c tmp tmp' st st',
  init_repos c01_init_repo_sources c01_init_repo_appends c (Some tmp) = Some st ->
  init_repos c01_init_repo_sources c01_init_repo_appends c (Some tmp') = Some st' ->
  In tmp st /\
  final_repos c10_steps c10_setrepos_sources cond c st = final_repos c10_steps c10_setrepos_sources cond c st' /\
  (final_repos c10_steps c10_setrepos_sources cond c st = None \/
   final_repos c10_steps c10_setrepos_sources cond c st = Some (Ok (canon_runtime_repos (rc_runtime c) (rc_xruntime c)))).
Proof. exact repositories_generated. Qed.
Print Assumptions c01_repositories_file_independent_of_tempdir.

(* ... without assuming what the other steps do (round 2).  In the theorem above every
   step other than SetRepositories leaves the file alone — a semantics given to step
   NAMES.  Here [other] is ARBITRARY: any step that is not one of C10's read-only calls
   (BuildSteps.pure_calls) may rewrite the file with anything, depending on anything
   (a package that ships etc/apk/repositories, the temp path of the base image), or
   fail.  What decides is the ORDER read from the source: for every valuation of the
   condition texts, SetRepositories is the last step before the serialiser that may
   change the filesystem (c10_set_last_before_serialise, computed over the generated
   step lists) — so a build that succeeds serialises the runtime list, whatever the
   initial file [st] and whatever the other steps wrote.  A step inserted between
   postBuildSetApk and the serialiser, or an early return, makes the computed fact false. *)
Theorem c01_repositories_file_whatever_the_other_steps_do :
  forall (other : string -> list string -> res (list string)) cond c st r,
  final_repos_any other c10_steps c10_setrepos_sources cond c st = Some (Ok r) ->
  r = canon_runtime_repos (rc_runtime c) (rc_xruntime c).
Proof. exact repositories_generated_any. Qed.
Print Assumptions c01_repositories_file_whatever_the_other_steps_do.

(* ... and the rewrite is what does it: with step lists that never call
   SetRepositories the two temp paths give two different files *)
Theorem c01_repositories_file_without_rewrite_refuted :
  exists defs c tmp tmp' st st',
    init_repos c01_init_repo_sources c01_init_repo_appends c (Some tmp) = Some st /\
    init_repos c01_init_repo_sources c01_init_repo_appends c (Some tmp') = Some st' /\
    final_repos defs c10_setrepos_sources (fun _ => true) c st <> final_repos defs c10_setrepos_sources (fun _ => true) c st'.
Proof. exact repositories_need_the_rewrite. Qed.
Print Assumptions c01_repositories_file_without_rewrite_refuted.

(* ---- wave 3: what a build must not inherit from what happened before ------------------------

   (1) the file the single layer is written to (ImageLayoutToLayer; a reused temp
   directory or tarball path may hold a longer earlier result): every call that
   opens it — flags read from the source, c01_layer_file_open — truncates or
   creates a new file, so the file is what this build writes whatever was there.
   An open without O_TRUNC makes layer_file_opens_fresh false. *)
Theorem c01_layer_file_independent_of_earlier_content : forall fl, In fl c01_layer_file_open ->
  forall (A : Type) (old old' new : list A), file_after fl old new = new /\ file_after fl old new = file_after fl old' new.
Proof. exact layer_file_generated. Qed.
Print Assumptions c01_layer_file_independent_of_earlier_content.

(* ... and so is the output tarball of `apko build` since fix 8ccf1a0 (was finding
   C01-F3): BuildIndex's os.OpenFile(outfile, O_CREATE|O_RDWR|O_TRUNC) — the flags
   are read from the source (c01_index_file_open), a revert changes them and
   index_file_opens_fresh stops checking.  The history stage keeps the replay
   (`apko build` onto the out.tar of a bigger build) with its tag armed. *)
Theorem c01_output_file_independent_of_earlier_content : forall fl, In fl c01_index_file_open ->
  forall (A : Type) (old old' new : list A), file_after fl old new = new /\ file_after fl old new = file_after fl old' new.
Proof. exact index_file_generated. Qed.
Print Assumptions c01_output_file_independent_of_earlier_content.

(* HYPOTHETICAL, the code before the fix: with the old flags (O_CREATE|O_RDWR) the tail
   of a longer earlier out.tar stayed behind the new archive — the former refutation *)
Theorem c01_output_file_before_fix_refuted :
  exists fl, In fl index_file_open_before_8ccf1a0 /\ exists old new : list nat, file_after fl old new <> new.
Proof. exact index_file_kept_tail_before_fix. Qed.
Print Assumptions c01_output_file_before_fix_refuted.

(* (2) GetRepositoryIndexes: one goroutine per repository, each stores its index at
   its own position (c01_indexes_by_position, in c01_calls) and the holes of missing
   indexes are dropped afterwards: for every completion order the list of indexes —
   hence which of two repositories offering the same name and version wins — is the
   repository order; appending in arrival order would depend on it. *)
Theorem c01_index_order_schedule : forall (A : Type) (results : list (option A)) sched sched',
  Permutation sched (seq 0 (List.length results)) -> Permutation sched' (seq 0 (List.length results)) ->
  indexes_by_position results sched = indexes_by_position results sched' /\
  indexes_by_position results sched = drop_holes results.
Proof. intros A. exact (@indexes_by_position_schedule A). Qed.
Print Assumptions c01_index_order_schedule.

Theorem c01_index_order_by_arrival_refuted :
  exists (results : list (option string)) sched sched', Permutation sched sched' /\
    indexes_by_arrival results sched <> indexes_by_arrival results sched'.
Proof. exact indexes_by_arrival_depends_on_order. Qed.
Print Assumptions c01_index_order_by_arrival_refuted.

(* (3) several images built in one process share the resolver's process-wide caches:
   every return of their Get methods is a copy (read by C08's generator; C08 proves
   the history independence of the cache model, the history stage builds images one
   after the other in one process and compares with a fresh process). *)
Theorem c01_caches_hand_out_copies :
  forallb (String.eqb "maps.Clone") C08Caches.dq_get_returns = true /\
  forallb (String.eqb "clone") C08Caches.resolver_get_returns = true.
Proof. exact caches_hand_out_copies. Qed.
Print Assumptions c01_caches_hand_out_copies.

(* c01_resolve_order — FULL (was refuted until fix c03e0c0, finding C01-F1).
   The install_if loop of GetPackageWithDependencies used to range over the Go
   map `added`: with two install_if packages triggered in one resolution the
   dependency list, hence the install order, hence lib/apk/db/installed, hence
   the layer digest, followed Go's map iteration.  It now walks the dependency
   list by index (appended entries included).  Stated over the ONE model of the
   resolver (Model/Resolver.v: iif_loop / iif_visit, versioned install_if entries
   `name=version` included; the lemmas of C02/C14 are imported): there is no
   iteration order to quantify over — for every universe and every dependency
   list, on the de-duplicated list GetPackageWithDependencies hands it, the loop
   ends within its fuel, neither fails nor panics, and returns ONE list: the list
   it started with followed by packages whose names are new, each once.  The tie
   to the code is the installif stage (every observed order, in process and in
   repeated identical CLI builds, must EQUAL Resolver.resolve's list). *)
Theorem c01_resolve_order : forall (U : Resolver.universe) (ds : list Resolver.pid),
  let R := Resolver.new_resolver U in
  exists r extra,
    Resolver.iif_loop (Resolver.fuel_bound R) R 0 (fst (Resolver.dedup_by_name R ds)) (snd (Resolver.dedup_by_name R ds)) = Ok r /\
    r = fst (Resolver.dedup_by_name R ds) ++ extra /\ NoDup (List.map (ResolveProofs2.nm R) r).
Proof. exact ReproResolve.iif_loop_after_dedup. Qed.
Print Assumptions c01_resolve_order.

(* c01_tarball_order — REFUTED (finding C01-F2): the member order of the
   output tarball follows the iteration order of go-containerregistry's image
   map; with one image it is unique (partial). *)
Theorem c01_tarball_order_refuted :
  exists imgs imgs' manifests, Permutation imgs imgs' /\ tar_members imgs manifests <> tar_members imgs' manifests.
Proof. exact tarball_order_refuted. Qed.
Print Assumptions c01_tarball_order_refuted.

Theorem c01_tarball_order_partial : forall img imgs' manifests,
  Permutation [img] imgs' -> tar_members [img] manifests = tar_members imgs' manifests.
Proof. exact tarball_order_single. Qed.
Print Assumptions c01_tarball_order_partial.

(* the validator run on the digests of real builds decides "same outputs" *)
Theorem c01_validator_decides : forall a b, differing a b = [] <-> SameOutputs a b.
Proof. exact differing_nil_iff. Qed.
Print Assumptions c01_validator_decides.

(* non-vacuity *)
Example c01_install_schedule_example :
  (* three packages; state = names installed so far; package "b" fails to install after "z" *)
  let expand := fun p : string => Some p in
  let install := fun (st : list string) (_ : nat) (p e : string) => Some (st ++ [e]) in
  outcome string string (list string) expand install ["a"; "b"; "c"] []
    [Step; Done 2; Step; Done 0; Step; Step; Done 1] = Some ["a"; "b"; "c"] /\
  outcome string string (list string) expand install ["a"; "b"; "c"] []
    [Done 1; Done 0; Step; Step; Step; Step; Done 2; Step] = Some ["a"; "b"; "c"] /\
  Permutation (dones [Step; Done 2; Step; Done 0; Step; Step; Done 1]) (seq 0 3).
Proof.
  vm_compute. repeat split; try reflexivity.
  apply Permutation_sym. eapply perm_trans; [|apply perm_swap]. apply perm_skip. apply perm_swap.
Qed.

Example c01_bde_example :
  build_date c01_bde_fold 0 None [1700000000; 1700009999; 1700000500]%Z = Some 1700009999%Z /\
  build_date c01_bde_fold 0 (Some (Some 1712345678%Z)) [1700000000; 1800000000]%Z = Some 1712345678%Z /\
  build_date c01_bde_fold 5 (Some None) [1700000000]%Z = Some 5%Z /\
  multi_arch_date c01_multiarch_fold 0 [1700009999; 1700000001]%Z = Some 1700009999%Z /\
  multi_arch_date c01_multiarch_fold 0 [1700000001; 1700009999]%Z = Some 1700009999%Z /\
  (* the fold that compares with the configured date: the last finisher wins *)
  multi_arch_date last_finisher_fold 0 [1700009999; 1700000001]%Z = Some 1700000001%Z.
Proof. vm_compute. repeat split; reflexivity. Qed.

(* an image on a base image: the build-time file names the temp path, the final one does not *)
Example c01_repositories_example :
  let c := {| rc_build := ["/b"]; rc_runtime := ["/r"; "/a"]; rc_xbuild := []; rc_xruntime := ["/a"] |} in
  init_repos c01_init_repo_sources c01_init_repo_appends c (Some "/tmp/apko-temp-1/APKINDEX") = Some ["/a"; "/b"; "/r"; "/tmp/apko-temp-1/APKINDEX"] /\
  final_repos c10_steps c10_setrepos_sources (single_layer_cond c10_steps) c ["/a"; "/b"; "/r"; "/tmp/apko-temp-1/APKINDEX"] = Some (Ok ["/a"; "/r"]).
Proof. vm_compute. split; reflexivity. Qed.

(* every other step scribbles the temp path into the file; the build still serialises the runtime list *)
Example c01_repositories_any_example :
  let c := {| rc_build := ["/b"]; rc_runtime := ["/r"; "/a"]; rc_xbuild := []; rc_xruntime := ["/a"] |} in
  let other := fun (call : string) (st : list string) => Ok (st ++ [String.append "/tmp/apko-temp-1/" call]) in
  final_repos_any other c10_steps c10_setrepos_sources (single_layer_cond c10_steps) c ["/tmp/x"] = Some (Ok ["/a"; "/r"]).
Proof. vm_compute. reflexivity. Qed.

(* the limit: GOMAXPROCS = 1 gives a limit of two — the installer and ONE expansion:
   the second expansion cannot start before the first has finished; with
   GOMAXPROCS = 2 it can, and may finish first *)
Example c01_install_limit_example :
  let expand := fun p : string => Some p in
  let install := fun (st : list string) (_ : nat) (p e : string) => Some (st ++ [e]) in
  let v := fun jobs => lvalid string string (list string) expand install ["a"; "b"] (install_limit c01_install_limit_extra jobs) (linit (list string) []) in
  v 1 [LStart; LStart] = false /\ v 1 [LStart; LDone 0; LStep; LStart; LDone 1; LStep] = true /\
  v 2 [LStart; LStart; LDone 1; LDone 0; LStep; LStep] = true.
Proof. vm_compute. repeat split; reflexivity. Qed.

(* install_if with versions: x installs with d1=1.0-r0 (the version resolved), y would
   with d1=2.0-r0, z is chained behind x; one order *)
Example c01_resolve_order_example :
  let P := fun n deps iif => Resolver.Build_pkg n "1.0-r0" "" deps [] iif 0%N "" "" in
  let U := [P "y" [] ["d1=2.0-r0"]; P "z" [] ["x"; "d2"]; P "x" [] ["d1=1.0-r0"]; P "d1" [] []; P "d2" [] []; P "top" ["d1"; "d2"] []] in
  option_map (List.map (fun i => Resolver.p_name (nth i U Resolver.dummy_pkg)))
    (match Resolver.resolve U ["top"] [] with Ok l => Some l | _ => None end) = Some ["d1"; "d2"; "x"; "z"; "top"].
Proof. vm_compute. reflexivity. Qed.
