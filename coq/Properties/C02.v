(* C02 — A successful resolution is a closed, consistent install set.
   Property theorems only; proofs are in Proofs/Resolve*.v.

   resolve U W dq0 = Model/Resolver.v: GetPackagesWithDependencies on the
   universe U (all indexes flattened), world W and initial disqualification set
   dq0.  (Until fix c03e0c0 the install_if loop ranged over a Go map and the
   model carried one visit schedule per request, over which every theorem
   quantified; the loop now walks the dependency list by index and the model
   is a function of (U, W, dq0) alone.) *)
From Apko Require Import Base.Prelude Generated.VersionConsts Generated.C03Version Model.Version Model.Resolver
  Spec.ResolveSpec Proofs.ResolveProofs Proofs.ResolveProofs2 Proofs.ResolveTheorems Proofs.ResolveEnvelope Proofs.ResolveNoPanic.
From Apko Require Proofs.ResolveClosure2.
Open Scope string_scope. Open Scope list_scope. Open Scope nat_scope.

(* the verified validator run on the implementation's results decides the specification *)
Theorem c02_validator_decides : forall U W S, closed_b U W S = true <-> Closed U W S.
Proof. exact closed_b_spec. Qed.
Print Assumptions c02_validator_decides.
Example c02_validator_example : closed_b U_F1 ["a"] (pkgs_of U_F1 [4; 0]) = true.
Proof. vm_compute. reflexivity. Qed.

(* at most one package per name *)
Theorem c02_nodup : forall U W dq0 S,
  resolve U W dq0 = Ok S -> NoDup (List.map p_name (pkgs_of U S)).
Proof. exact nodup_lemma. Qed.
Print Assumptions c02_nodup.
Example c02_nodup_example : resolve U_F1 ["a"; "b"] [] = Ok [4; 0; 1].
Proof. vm_compute. reflexivity. Qed.

(* every member is a package of the universe *)
Theorem c02_members_from_universe : forall U W dq0 S,
  resolve U W dq0 = Ok S -> incl (pkgs_of U S) U /\ forall j, In j S -> j < List.length U.
Proof. exact members_lemma. Qed.
Print Assumptions c02_members_from_universe.

(* success means every request had a candidate (under a disqualification set
   that extends the initial one) and a package of the chosen candidate's name
   is installed; a request that has no candidate under any such set — a name
   nothing provides, a version nothing satisfies — makes the resolution fail *)
Theorem c02_failure_is_error : forall U W dq0,
  (forall S, resolve U W dq0 = Ok S ->
     forall w, In w W -> exists dq i, incl dq0 dq /\ In i (candidates (new_resolver U) dq (cook_str w)) /\
                                      exists j, In j S /\ p_name (nth j U dummy_pkg) = p_name (nth i U dummy_pkg)) /\
  ((exists w, In w W /\ forall dq, incl dq0 dq -> candidates (new_resolver U) dq (cook_str w) = []) ->
   forall S, resolve U W dq0 <> Ok S).
Proof. exact failure_lemma. Qed.
Print Assumptions c02_failure_is_error.
Example c02_failure_example : resolve U_F1 ["a"; "nosuch"] [] = Err /\ resolve U_F1 ["c>9"] [] = Err.
Proof. vm_compute. split; reflexivity. Qed.

(* REFUTED: the stronger reading "a successful result satisfies every request"
   (request-unsat impossible) is false of the faithful model and of the real
   code.  F1c: world [k], d=2.0 provides k and depends on l, d=1.0 provides l:
   the requested d=2.0 is dropped by the de-duplication by name, result [d=1.0].
   F6: r -> a, c=5.0 (install_if a), c=1.0, world [r, c<2]: c=5.0 is added by
   the install_if loop without consulting dq, result [a, c=5.0, r].  Both are
   in the harness corpus and reproduce on the implementation. *)
Theorem c02_request_satisfied_refuted :
  request_refutes U_F1c ["k"] "k" "request-unsat/sibling-of-member" /\
  request_refutes U_F6 ["r"; "c<2"] "c<2" "request-unsat/install-if-member".
Proof. exact request_unsat_refuted_lemma. Qed.
Print Assumptions c02_request_satisfied_refuted.

(* the fuel the model gives getPackageDependencies — distinct package names + 2
   (fuel_bound) — never runs out, cycles included *)
Theorem c02_termination : forall U W dq0, resolve U W dq0 <> OutOfFuel.
Proof. exact termination_lemma. Qed.
Print Assumptions c02_termination.
Example c02_termination_example :
  resolve [wp "a" "1" ["b"] [] []; wp "b" "1" ["a"; "b"] [] []] ["a"] [] = Ok [1; 0].
Proof. vm_compute. reflexivity. Qed.

(* the `panic` at the end of conflictingVersion is unreachable (every package the
   name map lists under a name is named so or provides it): the resolver's own
   logic never panics, on any universe, world or initial set *)
Theorem c02_no_panic : forall U W dq0, resolve U W dq0 <> Panic.
Proof. exact resolve_no_panic. Qed.
Print Assumptions c02_no_panic.
Example c02_no_panic_example :
  resolve [wp "a" "1" [] ["v"; "v=2"] []; wp "b" "1" ["a"] ["v"; "a=1"] []] ["b"; "v"] [] = Ok [1].
Proof. vm_compute. reflexivity. Qed.

(* REFUTED: "a successful result is closed" is false of the faithful model and
   of the real code (each witness is replayed on the implementation by the
   harness corpus; the tag is what the validator reports there):
   F1 greedy leaf pick + de-duplication by name, F2 install_if member's
   dependencies, F3 self-provided dependency, F4 selected[name] branch,
   F5 cycle cut by name. *)
Theorem c02_closed_refuted :
  refutes U_F1 ["a"; "b"] "dep-unsat/same-name-other-version" /\
  refutes U_F2 ["w"] "dep-unsat/install-if-member" /\
  refutes U_F3 ["a"] "dep-unsat/self-provided" /\
  refutes U_F4 ["b"; "a"] "dep-unsat/provider-other-version" /\
  refutes U_F5 ["d"] "dep-unsat/absent".
Proof. exact closed_refuted_lemma. Qed.
Print Assumptions c02_closed_refuted.

(* PARTIAL in one sense only: it holds INSIDE THE ENVELOPE — no install_if, no
   dependency on a self-provided name, exactly one provider per name (own or
   provided), version operators only on package names
   (Spec.ResolveSpec.envelope_b; it is also the harness's in-envelope stream,
   where ANY validator failure is a VIOLATION).  There a successful result is
   CLOSED in the full sense of the Spec, all four clauses: no duplicate names,
   members from the universe, EVERY REQUEST IS SATISFIED (names are unique, so
   the very candidate chosen for a request is a member; the name map is sound;
   constrain has disqualified it unless its own version passes), and EVERY
   NON-CONFLICT DEPENDENCY OF EVERY MEMBER IS SATISFIED BY A MEMBER
   (Proofs/ResolveClosure2.v: invariant of getPackageDependencies — every
   holder of `selected` and every package handed to the recursion ends in the
   returned list; a dependency skipped through `selected` is satisfied by its
   holder, who is the unique provider and passes the version test; a dependency
   evaluated to options is chosen or later skipped; the cycle cut through
   `parents` skips only names being expanded higher up).  Outside the envelope
   the statement is false: c02_closed_refuted.  See notes/C02.md. *)
Theorem c02_closed_partial : forall U W dq0 S,
  envelope_b U W = true -> resolve U W dq0 = Ok S ->
  NoDup (List.map p_name (pkgs_of U S)) /\ incl (pkgs_of U S) U /\
  (forall w, In w W -> satisfies_dep (pkgs_of U S) w) /\
  (forall p d, In p (pkgs_of U S) -> In d (p_deps p) -> is_conflict d = false -> satisfies_dep (pkgs_of U S) d) /\
  Closed U W (pkgs_of U S) /\
  (forall w, In w W -> exists dq i, incl dq0 dq /\ In i (candidates (new_resolver U) dq (cook_str w)) /\ In i S).
Proof. exact ResolveClosure2.closed_partial_lemma3. Qed.
Print Assumptions c02_closed_partial.
(* inside the envelope: a cycle (a -> b -> c -> a), a versioned dependency on a
   package name, a virtual with one provider asked for twice, a self-dependency,
   a conflict entry *)
Example c02_closed_partial_example :
  let U := [wp "a" "1.0" ["b>0.5"; "v"; "a"] [] []; wp "b" "1.0" ["c"; "!zz"] ["v=2"] []; wp "c" "2.0" ["a<2"; "v"] [] []] in
  envelope_b U ["a"; "v"] = true /\ resolve U ["a"; "v"] [] = Ok [2; 1; 0] /\
  closed_b U ["a"; "v"] (pkgs_of U [2; 1; 0]) = true.
Proof. vm_compute. repeat split; reflexivity. Qed.
