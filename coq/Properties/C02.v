(* C02 — A successful resolution is a closed, consistent install set.
   Property theorems only; proofs are in Proofs/Resolve*.v.

   resolve U W dq0 = Model/Resolver.v: GetPackagesWithDependencies on the
   universe U (all indexes flattened), world W and initial disqualification set
   dq0.  (Until fix c03e0c0 the install_if loop ranged over a Go map and the
   model carried one visit schedule per request, over which every theorem
   quantified; the loop now walks the dependency list by index and the model
   is a function of (U, W, dq0) alone.) *)
From Apko Require Import Base.Prelude Generated.VersionConsts Generated.C03Version Model.Version Model.Resolver
  Spec.ResolveSpec Proofs.ResolveProofs Proofs.ResolveProofs2 Proofs.ResolveTheorems Proofs.ResolveEnvelope Proofs.ResolveNoPanic.
From Apko Require Proofs.ResolveClosure2.
From Apko Require Import Spec.ResolveMultiSpec Proofs.ResolveMulti Proofs.ResolveMulti2 Proofs.ResolveMultiWitness Proofs.ResolveConflicts.
From Apko Require Import Generated.C02Resolver Proofs.ResolveGenerated Proofs.ResolveMultiSubsumes.
Open Scope string_scope. Open Scope list_scope. Open Scope nat_scope.

(* the verified validator run on the implementation's results decides the specification *)
Theorem c02_validator_decides : forall U W S, closed_b U W S = true <-> Closed U W S.
Proof. exact closed_b_spec. Qed.
Print Assumptions c02_validator_decides.
Example c02_validator_example : closed_b U_F1 ["a"] (pkgs_of U_F1 [4; 0]) = true.
Proof. vm_compute. reflexivity. Qed.

(* at most one package per name *)
Theorem c02_nodup : forall U W dq0 S,
  resolve U W dq0 = Ok S -> NoDup (List.map p_name (pkgs_of U S)).
Proof. exact nodup_lemma. Qed.
Print Assumptions c02_nodup.
Example c02_nodup_example : resolve U_F1 ["a"; "b"] [] = Ok [4; 0; 1].
Proof. vm_compute. reflexivity. Qed.

(* every member is a package of the universe *)
Theorem c02_members_from_universe : forall U W dq0 S,
  resolve U W dq0 = Ok S -> incl (pkgs_of U S) U /\ forall j, In j S -> j < List.length U.
Proof. exact members_lemma. Qed.
Print Assumptions c02_members_from_universe.

(* success means every request had a candidate (under a disqualification set
   that extends the initial one) and a package of the chosen candidate's name
   is installed; a request that has no candidate under any such set — a name
   nothing provides, a version nothing satisfies — makes the resolution fail *)
Theorem c02_failure_is_error : forall U W dq0,
  (forall S, resolve U W dq0 = Ok S ->
     forall w, In w W -> exists dq i, incl dq0 dq /\ In i (candidates (new_resolver U) dq (cook_str w)) /\
                                      exists j, In j S /\ p_name (nth j U dummy_pkg) = p_name (nth i U dummy_pkg)) /\
  ((exists w, In w W /\ forall dq, incl dq0 dq -> candidates (new_resolver U) dq (cook_str w) = []) ->
   forall S, resolve U W dq0 <> Ok S).
Proof. exact failure_lemma. Qed.
Print Assumptions c02_failure_is_error.
Example c02_failure_example : resolve U_F1 ["a"; "nosuch"] [] = Err /\ resolve U_F1 ["c>9"] [] = Err.
Proof. vm_compute. split; reflexivity. Qed.

(* REFUTED: the stronger reading "a successful result satisfies every request"
   (request-unsat impossible) is false of the faithful model and of the real
   code.  F1c: world [k], d=2.0 provides k and depends on l, d=1.0 provides l:
   the requested d=2.0 is dropped by the de-duplication by name, result [d=1.0].
   F6: r -> a, c=5.0 (install_if a), c=1.0, world [r, c<2]: c=5.0 is added by
   the install_if loop without consulting dq, result [a, c=5.0, r].  Both are
   in the harness corpus and reproduce on the implementation. *)
Theorem c02_request_satisfied_refuted :
  request_refutes U_F1c ["k"] "k" "request-unsat/sibling-of-member" /\
  request_refutes U_F6 ["r"; "c<2"] "c<2" "request-unsat/install-if-member".
Proof. exact request_unsat_refuted_lemma. Qed.
Print Assumptions c02_request_satisfied_refuted.

(* the fuel the model gives getPackageDependencies — distinct package names + 2
   (fuel_bound) — never runs out, cycles included *)
Theorem c02_termination : forall U W dq0, resolve U W dq0 <> OutOfFuel.
Proof. exact termination_lemma. Qed.
Print Assumptions c02_termination.
Example c02_termination_example :
  resolve [wp "a" "1" ["b"] [] []; wp "b" "1" ["a"; "b"] [] []] ["a"] [] = Ok [1; 0].
Proof. vm_compute. reflexivity. Qed.

(* the `panic` at the end of conflictingVersion is unreachable (every package the
   name map lists under a name is named so or provides it): the resolver's own
   logic never panics, on any universe, world or initial set *)
Theorem c02_no_panic : forall U W dq0, resolve U W dq0 <> Panic.
Proof. exact resolve_no_panic. Qed.
Print Assumptions c02_no_panic.
Example c02_no_panic_example :
  resolve [wp "a" "1" [] ["v"; "v=2"] []; wp "b" "1" ["a"] ["v"; "a=1"] []] ["b"; "v"] [] = Ok [1].
Proof. vm_compute. reflexivity. Qed.

(* REFUTED: "a successful result is closed" is false of the faithful model and
   of the real code (each witness is replayed on the implementation by the
   harness corpus; the tag is what the validator reports there):
   F1 greedy leaf pick + de-duplication by name, F2 install_if member's
   dependencies, F3 self-provided dependency, F4 selected[name] branch,
   F5 cycle cut by name. *)
Theorem c02_closed_refuted :
  refutes U_F1 ["a"; "b"] "dep-unsat/same-name-other-version" /\
  refutes U_F2 ["w"] "dep-unsat/install-if-member" /\
  refutes U_F3 ["a"] "dep-unsat/self-provided" /\
  refutes U_F4 ["b"; "a"] "dep-unsat/provider-other-version" /\
  refutes U_F5 ["d"] "dep-unsat/absent".
Proof. exact closed_refuted_lemma. Qed.
Print Assumptions c02_closed_refuted.

(* PARTIAL in one sense only: it holds INSIDE THE ENVELOPE — no install_if, no
   dependency on a self-provided name, exactly one provider per name (own or
   provided), version operators only on package names
   (Spec.ResolveSpec.envelope_b; it is also the harness's in-envelope stream,
   where ANY validator failure is a VIOLATION).  There a successful result is
   CLOSED in the full sense of the Spec, all four clauses: no duplicate names,
   members from the universe, EVERY REQUEST IS SATISFIED (names are unique, so
   the very candidate chosen for a request is a member; the name map is sound;
   constrain has disqualified it unless its own version passes), and EVERY
   NON-CONFLICT DEPENDENCY OF EVERY MEMBER IS SATISFIED BY A MEMBER
   (Proofs/ResolveClosure2.v: invariant of getPackageDependencies — every
   holder of `selected` and every package handed to the recursion ends in the
   returned list; a dependency skipped through `selected` is satisfied by its
   holder, who is the unique provider and passes the version test; a dependency
   evaluated to options is chosen or later skipped; the cycle cut through
   `parents` skips only names being expanded higher up).  Outside the envelope
   the statement is false: c02_closed_refuted.  See notes/C02.md. *)
Theorem c02_closed_partial : forall U W dq0 S,
  envelope_b U W = true -> resolve U W dq0 = Ok S ->
  NoDup (List.map p_name (pkgs_of U S)) /\ incl (pkgs_of U S) U /\
  (forall w, In w W -> satisfies_dep (pkgs_of U S) w) /\
  (forall p d, In p (pkgs_of U S) -> In d (p_deps p) -> is_conflict d = false -> satisfies_dep (pkgs_of U S) d) /\
  Closed U W (pkgs_of U S) /\
  (forall w, In w W -> exists dq i, incl dq0 dq /\ In i (candidates (new_resolver U) dq (cook_str w)) /\ In i S).
Proof. exact ResolveClosure2.closed_partial_lemma3. Qed.
Print Assumptions c02_closed_partial.
(* inside the envelope: a cycle (a -> b -> c -> a), a versioned dependency on a
   package name, a virtual with one provider asked for twice, a self-dependency,
   a conflict entry *)
Example c02_closed_partial_example :
  let U := [wp "a" "1.0" ["b>0.5"; "v"; "a"] [] []; wp "b" "1.0" ["c"; "!zz"] ["v=2"] []; wp "c" "2.0" ["a<2"; "v"] [] []] in
  envelope_b U ["a"; "v"] = true /\ resolve U ["a"; "v"] [] = Ok [2; 1; 0] /\
  closed_b U ["a"; "v"] (pkgs_of U [2; 1; 0]) = true.
Proof. vm_compute. repeat split; reflexivity. Qed.

(* ======================= session 6: the wider envelope ============================================= *)
(* SEVERAL VERSIONS PER NAME (and several packages of one name per virtual).  Inside the wider envelope
   Spec.ResolveMultiSpec.menvelope_b — a decidable predicate on (universe, world), nine named clauses
   (m_clauses) — and for an initial disqualification set that holds the winner of a name only together
   with all packages of that name (dq0_ok_b; true of [] and of every set in the old envelope), a
   successful result is CLOSED in the full sense of the Spec, and every member is the WINNER of its
   name: the package bestPackage returns for an unconstrained request of that name on a fresh resolver.
   The side condition: no install_if; no dependency on a self-provided name; provided names are not
   package names; every key of the name map lists EITHER packages of one name, the winner of that name
   among them, and under that key the winner beats every other package listed both ways round (no
   transitivity of comparePackages is assumed), OR — a pure virtual with several provider names — winners
   only, each providing the key without a version; packages of one name share the origin and, if there
   are two or more, none is pinned; version operators only on package names; the winner passes every
   versioned dependency / request on its name with its own version (or no package of that name does);
   a conflict entry that excludes a winner excludes all packages of its name; no "!name" request.
   The findings C02-F1, F1b, F1c, F2, F3, F4, F5, F6 each violate a clause (next theorem).
   PARTIAL in this sense only: a virtual with several provider NAMES is inside only when it is provided
   without a version and only by the best version of each name (otherwise no violation is known either;
   left undone, notes/C02.md). *)
Theorem c02_closed_multi_version : forall U W dq0 S,
  menvelope_b U W = true -> dq0_ok_b U dq0 = true -> resolve U W dq0 = Ok S ->
  Closed U W (pkgs_of U S) /\
  (forall j, In j S -> is_winner (new_resolver U) j = true) /\
  (forall w, In w W -> satisfies_dep (pkgs_of U S) w) /\
  (forall p d, In p (pkgs_of U S) -> In d (p_deps p) -> is_conflict d = false -> satisfies_dep (pkgs_of U S) d).
Proof. exact closed_multi_lemma. Qed.
Print Assumptions c02_closed_multi_version.
(* four versions of c, two sharing the provide v=1, a versioned dependency and a versioned request on c,
   the cycle c=5.0 -> b -> c, a conflict entry; outside the old envelope *)
Example c02_closed_multi_version_example :
  menvelope_b U_multi ["a"; "b"; "c<9"] = true /\ envelope_b U_multi ["a"; "b"; "c<9"] = false /\
  dq0_ok_b U_multi [] = true /\ resolve U_multi ["a"; "b"; "c<9"] [] = Ok [1; 4; 0] /\
  closed_b U_multi ["a"; "b"; "c<9"] (pkgs_of U_multi [1; 4; 0]) = true.
Proof. exact multi_example. Qed.
(* a pure virtual with three provider names of different priorities, next to a name with two versions *)
Example c02_closed_multi_version_example_virtual :
  menvelope_b U_virtual ["tool"; "app"; "sh"] = true /\ envelope_b U_virtual ["tool"; "app"; "sh"] = false /\
  resolve U_virtual ["tool"; "app"; "sh"] [] = Ok [1; 6; 2; 7; 0] /\
  closed_b U_virtual ["tool"; "app"; "sh"] (pkgs_of U_virtual [1; 6; 2; 7; 0]) = true.
Proof. exact virtual_example. Qed.

(* the envelope of c02_closed_partial is a special case, whatever the initial disqualification set:
   c02_closed_multi_version is a strict widening (the two Examples above lie outside the old envelope) *)
Theorem c02_old_envelope_is_a_special_case : forall U W,
  envelope_b U W = true -> menvelope_b U W = true /\ forall dq0, dq0_ok_b U dq0 = true.
Proof. exact old_envelope_special_case. Qed.
Print Assumptions c02_old_envelope_is_a_special_case.

(* REFUTED: "the envelope minus one clause suffices", for the clauses at positions 0, 3, 4, 5, 6 of
   m_clauses: on each witness exactly that clause fails and the successful result is not closed.
   Every witness is a recorded finding replayed on the real code by the harness corpus (F2; F1c; F1
   through the origin preference and through a pinned sibling; F4; F1, F5, F1b).  The remaining clauses
   (1, 2, 7, 8) are not known to be necessary: Proofs/ResolveMultiWitness.v says why each is there. *)
Theorem c02_multi_envelope_minus_clause_refuted :
  (fails_exactly U_F2 ["w"] 0 /\ refutes U_F2 ["w"] "dep-unsat/install-if-member") /\
  (fails_exactly U_F1c ["k"] 3 /\ request_refutes U_F1c ["k"] "k" "request-unsat/sibling-of-member") /\
  (fails_exactly U_F1o ["m"; "n"] 4 /\ refutes U_F1o ["m"; "n"] "dep-unsat/same-name-other-version") /\
  (fails_exactly U_F1p ["c@edge"; "n"] 4 /\ refutes U_F1p ["c@edge"; "n"] "dep-unsat/same-name-other-version") /\
  (fails_exactly U_F4 ["b"; "a"] 5 /\ refutes U_F4 ["b"; "a"] "dep-unsat/provider-other-version") /\
  (fails_exactly U_F1 ["a"; "b"] 6 /\ refutes U_F1 ["a"; "b"] "dep-unsat/same-name-other-version") /\
  (fails_exactly U_F5 ["d"] 6 /\ refutes U_F5 ["d"] "dep-unsat/absent") /\
  (fails_exactly U_F1b ["b"; "a"] 6 /\ refutes U_F1b ["b"; "a"] "dep-unsat/same-name-other-version").
Proof. exact clauses_necessary_lemma. Qed.
Print Assumptions c02_multi_envelope_minus_clause_refuted.

(* ======================= conflict entries ("!name", "!name<ver") ==================================== *)
(* "consistent" spelled out for conflict entries (Spec.ResolveMultiSpec.ConflictFree): no member is
   excluded by a conflict entry of ANOTHER member.  The validator run on the implementation's results: *)
Theorem c02_conflict_validator_decides : forall S, conflict_check S = [] <-> ConflictFree S.
Proof. exact conflict_check_spec. Qed.
Print Assumptions c02_conflict_validator_decides.

(* REFUTED (finding C02-F7; seen from the lock side as C09-F6): a -> b, c; c -> !b; world [a] succeeds
   with [b c a]: b is chosen for a before c is expanded, c's entry then disqualifies b — which only
   keeps b from being chosen again.  Inside both envelopes. *)
Theorem c02_conflict_free_refuted : conflict_refutes U_F7 ["a"] "conflict/member-excluded-by-member".
Proof. exact conflict_refuted_lemma. Qed.
Print Assumptions c02_conflict_free_refuted.

(* PARTIAL: conflict entries are honoured FORWARD.  When getPackageDependencies expands package i
   (not cut as the name of an ancestor), everything one of i's conflict entries excludes — listed under
   the entry's name and passing filterPackages for it — is disqualified before any dependency of i is
   chosen: it is not among the packages that call returns and it is in the set handed on.  (Missing:
   packages chosen BEFORE i was expanded stay — c02_conflict_free_refuted.) *)
Theorem c02_conflict_entries_forward_partial : forall U fuel i pin parents st st' deps,
  let R := new_resolver U in
  get_deps fuel R i pin parents st = Ok (st', deps) -> mem_str (k_name (getp R i)) parents = false ->
  forall d c j, In d (k_deps (getp R i)) -> d_neg d = Some c -> entry_excludes R c j ->
    In j (st_dq st') /\ ~ In j deps.
Proof. intros U fuel i pin parents st st' deps R. exact (conflict_forward_lemma R fuel i pin parents st st' deps (proj1 (new_resolver_wf2 U))). Qed.
Print Assumptions c02_conflict_entries_forward_partial.
(* ... and a later walk never returns a disqualified package, and hands the set on *)
Theorem c02_disqualified_never_chosen : forall U fuel i pin parents st st' deps j,
  get_deps fuel (new_resolver U) i pin parents st = Ok (st', deps) -> In j (st_dq st) -> ~ In j deps /\ In j (st_dq st').
Proof. intros U fuel i pin parents st st' deps j. exact (walk_avoids_dq _ fuel i pin parents st st' deps j (proj1 (new_resolver_wf2 U))). Qed.
Print Assumptions c02_disqualified_never_chosen.
(* the hypotheses are satisfiable: the walk of c (package 2 of U_F7) succeeds and hands on b (package 1) as
   disqualified; the walk of a shows the other side — b and c both returned, b disqualified only afterwards —
   and that `selected` has grown *)
Example c02_conflict_entries_forward_hypotheses :
  let R := new_resolver U_F7 in
  let st0 := {| st_dq := []; st_selected := []; st_existing := []; st_origins := [] |} in
  get_deps 5 R 2 "" [] st0 = Ok ({| st_dq := [1]; st_selected := []; st_existing := []; st_origins := [] |}, []) /\
  hit R (cook_str "b") 1 = true /\
  get_deps 5 R 0 "" [] st0 = Ok ({| st_dq := [1]; st_selected := [("a", 0)]; st_existing := []; st_origins := [] |}, [1; 2]).
Proof. vm_compute. repeat split; reflexivity. Qed.
(* the order in which the entry of U_F7 is honoured: c expanded first, b cannot be had any more *)
Example c02_conflict_entries_forward_example : resolve U_F7 ["c"; "b"] [] = Err /\ resolve U_F7 ["c"; "a"] [] = Err.
Proof. exact conflict_honoured_example. Qed.

(* ======================= disqualifyConflicts / conflictingVersion / pick ============================= *)
(* after package p is chosen, EXACTLY the other packages the name map lists under a name p provides,
   for which conflictingVersion says yes, join the disqualification set *)
Theorem c02_disqualify_conflicts_exact : forall R p dq dq', disqualify_conflicts R p dq = Ok dq' ->
  incl dq dq' /\ (forall j, conflicts_with R p j -> In j dq') /\ (forall z, In z dq' -> In z dq \/ conflicts_with R p z).
Proof. exact disqualify_conflicts_spec. Qed.
Print Assumptions c02_disqualify_conflicts_exact.
(* conflictingVersion's table: a VERSIONED provide conflicts with every other provider, the same
   version included; an unversioned one with a package of that name unless its version is empty, and
   with another provider iff the first provide of that name it lists carries a version *)
Theorem c02_conflicting_version_table : forall c k,
  (c_version c <> "" -> conflicting_version c k = Some true) /\
  (c_version c = "" -> k_name k = c_name c -> conflicting_version c k = Some (negb (String.eqb (k_version k) ""))) /\
  (forall pv, c_version c = "" -> k_name k <> c_name c ->
     List.find (fun pv => String.eqb (s_name pv) (c_name c)) (k_provs k) = Some pv ->
     conflicting_version c k = Some (negb (String.eqb (s_version pv) ""))).
Proof.
  intros c k. split; [apply conflicting_version_versioned|]. split; [apply conflicting_version_virtual_named|].
  intros pv. apply conflicting_version_virtual_provider.
Qed.
Print Assumptions c02_conflicting_version_table.
(* together: once p is chosen, every OTHER package named, or providing, a name p provides WITH A
   VERSION is disqualified *)
Theorem c02_versioned_provide_excludes_other_providers : forall U p dq dq' pv j,
  let R := new_resolver U in
  disqualify_conflicts R p dq = Ok dq' -> In pv (k_provs (getp R p)) -> s_version pv <> "" ->
  valid R j -> j <> p -> (k_name (getp R j) = s_name pv \/ provides_name (getp R j) (s_name pv)) -> In j dq'.
Proof. exact disqualify_conflicts_versioned. Qed.
Print Assumptions c02_versioned_provide_excludes_other_providers.
Example c02_versioned_provide_example :
  let U := [wp "libfoo" "1.4.0-r0" [] ["so:libfoo.so.1=1"] []; wp "libfoo" "2.0.0-r0" [] ["so:libfoo.so.1=1"] []] in
  disqualify_conflicts (new_resolver U) 1 [] = Ok [0].
Proof. vm_compute. reflexivity. Qed.

(* pick records the package under its name, never overwrites an entry, and refuses a second,
   different package of a recorded name as well as a package that provides a recorded name *)
Theorem c02_pick : forall R i sel,
  (forall sel', pick R i sel = Ok sel' -> alookup (k_name (getp R i)) sel' = Some i) /\
  (forall sel' n j, pick R i sel = Ok sel' -> alookup n sel = Some j -> alookup n sel' = Some j) /\
  (forall j, alookup (k_name (getp R i)) sel = Some j -> j <> i -> pick R i sel = Err) /\
  (forall pv, alookup (k_name (getp R i)) sel = None -> In pv (k_provs (getp R i)) -> ahas (s_name pv) sel = true ->
     pick R i sel = Err).
Proof.
  intros R i sel. split; [intros sel'; apply pick_records|]. split; [intros sel' n j; apply pick_keeps|].
  split; [intros j; apply pick_refuses | intros pv; apply pick_refuses_provided].
Qed.
Print Assumptions c02_pick.
(* `selected` only grows along the dependency walk *)
Theorem c02_selected_monotone : forall R fuel i pin parents st st' deps,
  get_deps fuel R i pin parents st = Ok (st', deps) ->
  forall n j, alookup n (st_selected st) = Some j -> alookup n (st_selected st') = Some j.
Proof. exact get_deps_sel_mono. Qed.
Print Assumptions c02_selected_monotone.
Example c02_pick_example :
  let R := new_resolver U_F1 in pick R 3 [("c", 4)] = Err /\ pick R 4 [("c", 4)] = Ok [("c", 4)].
Proof. vm_compute. split; reflexivity. Qed.

(* ======================= the tie of these three functions to the source ============================== *)
(* goextract translates conflictingVersion, pick and disqualifyConflicts of pkg/apk/apk/repo.go statement
   by statement (Generated/C02Resolver.v, regenerated on every run); the translations ARE the model's
   functions.  Editing one of them in /repo changes the generated term and this proof fails. *)
Theorem c02_translated_functions_are_the_model :
  (forall c k, gen_conflicting_version c k = conflicting_version c k) /\
  (forall R i sel, gen_pick R i sel = pick R i sel) /\
  (forall R i dq, gen_disqualify_conflicts R i dq = disqualify_conflicts R i dq).
Proof. exact code_functions_are_the_model. Qed.
Print Assumptions c02_translated_functions_are_the_model.
(* two of the guarantees above, stated of the translated code itself *)
Theorem c02_code_versioned_provide_conflicts : forall c k, c_version c <> "" -> gen_conflicting_version c k = Some true.
Proof. exact code_versioned_provide_conflicts. Qed.
Print Assumptions c02_code_versioned_provide_conflicts.
Theorem c02_code_pick_refuses_second_package : forall R i sel j,
  alookup (k_name (getp R i)) sel = Some j -> j <> i -> gen_pick R i sel = Err.
Proof. exact code_pick_refuses_second. Qed.
Print Assumptions c02_code_pick_refuses_second_package.
Example c02_code_example :
  let R := new_resolver U_F1 in gen_pick R 3 [("c", 4)] = Err /\ gen_disqualify_conflicts R 4 [] = Ok [] /\
  gen_conflicting_version (resolve_constraint "so:x=1") (cook_pkg (wp "p" "1" [] ["so:x=1"] [])) = Some true.
Proof. vm_compute. repeat split; reflexivity. Qed.

(* session 7: constrain is translated too (Generated/C02Resolver.v gen_constrain: the range over the list, the
   "!" branch, the early exits on versionAny / unknown name, the parse error, both provider branches with their
   disqualifications) and IS the model's constrain *)
Theorem c02_translated_constrain_is_the_model : forall R cs dq, gen_constrain R cs dq = constrain R cs dq.
Proof. exact gen_constrain_eq. Qed.
Print Assumptions c02_translated_constrain_is_the_model.
(* what the translated code guarantees: the set only grows; every provider failing a versioned positive entry
   is in it; so is everything a conflict entry excludes *)
Theorem c02_code_constrain_covers : forall R cs dq dq', gen_constrain R cs dq = Ok dq' ->
  incl dq dq' /\
  (forall d providers req j, In d cs -> d_neg d = None -> (s_dep (d_pos d) =? dep_versionAny)%Z = false ->
     alookup (s_name (d_pos d)) (r_names R) = Some providers -> s_req (d_pos d) = Some req ->
     In j providers -> constrain_provider (d_pos d) req (getp R j) = true -> In j dq') /\
  (forall d c j, In d cs -> d_neg d = Some c -> entry_excludes R c j -> In j dq').
Proof. exact code_constrain_covers. Qed.
Print Assumptions c02_code_constrain_covers.
Example c02_code_constrain_example :
  let R := new_resolver U_F1 in
  gen_constrain R (List.map cook_dep ["c<4"; "!a"; "b"; "nosuch>1"]) [] = Ok [0; 4] /\
  gen_constrain R (List.map cook_dep ["c>abc"]) [] = Err.
Proof. vm_compute. split; reflexivity. Qed.
