(* C03 — Version comparison is the apk total order and constraints follow it.
   Property theorems only. [abs] decodes the Go enum values of a parsed
   version through the switch tables goextract read from ParseVersion, so the
   statements below are about the constants, tables and regular expression
   that are in version.go on this run. *)
From Apko Require Import Base.Prelude Base.Regex Spec.VersionSpec Model.Version Proofs.VersionProofs Proofs.ConstraintProofs
  Generated.Regexes Generated.VersionConsts Generated.C03Version Generated.C03Ladders.
Open Scope Z_scope.

(* the apk order is a total order on version tuples: reflexive, antisymmetric,
   Eq exactly on equal tuples, transitive, total *)
Theorem c03_total_order :
  (forall a, spec_cmp a a = Eq) /\
  (forall a b, spec_cmp a b = CompOpp (spec_cmp b a)) /\
  (forall a b, spec_cmp a b = Eq <-> a = b) /\
  (forall a b c, spec_cmp a b = Lt -> spec_cmp b c = Lt -> spec_cmp a c = Lt) /\
  (forall a b, spec_cmp a b = Lt \/ spec_cmp a b = Eq \/ spec_cmp a b = Gt).
Proof. exact spec_cmp_total_order. Qed.
Print Assumptions c03_total_order.

(* [compare_versions] and [includes_version_res] interpret the rungs goextract
   recognised, statement by statement, in CompareVersions / includesVersion on
   this run; here they are pinned to their readable hand-written forms *)
Theorem c03_ladders_are_the_source : forall a r,
  compare_versions a r = compare_versions_hand a r /\ includes_version_res a r = includes_version_hand a r.
Proof. intros; split; [apply compare_ladder_is_hand | apply includes_ladder_is_hand]. Qed.
Print Assumptions c03_ladders_are_the_source.

(* CompareVersions is that order, for all parsed versions (numeric components,
   letter, pre-suffix with alpha<beta<pre<rc<none, suffix number, post-suffix
   with none<cvs<svn<git<hg<p, suffix number, revision) *)
Theorem c03_compare_is_spec : forall a b va vb,
  abs a = Some va -> abs b = Some vb -> compare_versions a b = enc (spec_cmp va vb).
Proof. exact compare_is_spec. Qed.
Print Assumptions c03_compare_is_spec.

(* every operator row of ResolvePackageNameVersionPin's switch ("=", ">", "<",
   ">=", "<=", "~") accepts exactly what the order (or, for ~, the component
   prefix rule) dictates *)
Theorem c03_operators : forall row a r va vr, In row matcher_table ->
  abs a = Some va -> abs r = Some vr ->
  satisfies (snd row) a r = spec_sat (vop_of_string (fst row)) va vr.
Proof. exact satisfies_is_spec. Qed.
Print Assumptions c03_operators.

(* the six operators are all there *)
Theorem c03_operator_rows :
  List.map fst matcher_table = ["="; ">"; "<"; ">="; "<="; "~"]%string.
Proof. vm_compute. reflexivity. Qed.
Print Assumptions c03_operator_rows.

(* includesVersion never indexes out of range (Some) and computes the spec's ~ *)
Theorem c03_tilde : forall a r va vr, abs a = Some va -> abs r = Some vr ->
  includes_version_res a r = Some (spec_tilde va vr).
Proof. exact includes_is_spec. Qed.
Print Assumptions c03_tilde.

(* the regular expression in the source IS the apk grammar *)
Theorem c03_grammar_is_apk :
  match anchored version_regex with Some r => strip_groups r = apk_version_re | None => False end.
Proof. exact version_regex_is_grammar. Qed.
Print Assumptions c03_grammar_is_apk.

(* accepted => grammatical; accepted <=> grammatical and every numeric
   component fits a Go int. The unconditional "iff" of the property text is
   refuted by the witness below (finding C03-F1). *)
Theorem c03_accept_iff_grammar_partial : forall s,
  (exists v, parse_version s = Some v) <-> L apk_version_re (bytes_of_string s) /\ fits s.
Proof. exact parse_accept_iff. Qed.
Print Assumptions c03_accept_iff_grammar_partial.

Theorem c03_accept_iff_grammar_refuted :
  exists s, L apk_version_re (bytes_of_string s) /\ parse_version s = None.
Proof. exact grammar_valid_rejected. Qed.
Print Assumptions c03_accept_iff_grammar_refuted.

(* a constraint assembled from clean parts — a non-empty name without = < > ~ @,
   a non-empty operator run, a non-empty version without @ that does not start
   with an operator character, an optional alphanumeric pin — is accepted by
   the source's packageNameRegex and split into exactly those parts (the so:
   rewrite aside), for all such parts *)
Theorem c03_constraint_split : forall s0 name ops v pin,
  bytes_of_string s0 = (name ++ ops ++ v ++ pin_tail pin)%list ->
  no_so_prefix (bytes_of_string s0) ->
  clean name ops v pin ->
  resolve_constraint s0 =
    {| c_name := string_of_bytes name; c_version := string_of_bytes v;
       c_dep := dep_of_matcher (string_of_bytes ops); c_pin := string_of_bytes pin |}.
Proof. exact resolve_clean. Qed.
Print Assumptions c03_constraint_split.

Example c03_constraint_example :
  resolve_constraint "foo-bar>=1.2_rc1-r3@edge" =
    {| c_name := "foo-bar"; c_version := "1.2_rc1-r3"; c_dep := dep_versionGreaterEqual; c_pin := "edge" |}
  /\ clean (bytes_of_string "foo-bar") (bytes_of_string ">=") (bytes_of_string "1.2_rc1-r3") (bytes_of_string "edge").
Proof.
  split; [vm_compute; reflexivity|].
  constructor; try (vm_compute; repeat split; congruence).
  apply Forall_forall. intros c Hc. vm_compute in Hc.
  repeat (destruct Hc as [<-|Hc]; [reflexivity|]). contradiction.
Qed.

(* non-vacuity: real version strings parse, decode and compare *)
Example c03_example :
  exists a b va vb,
    parse_version "1.2.3_rc1-r4" = Some a /\ parse_version "1.2.3-r0" = Some b /\
    abs a = Some va /\ abs b = Some vb /\ spec_cmp va vb = Lt /\ compare_versions a b = cmp_less /\
    satisfies dep_versionLess a b = true.
Proof. eexists _, _, _, _. repeat split; vm_compute; reflexivity. Qed.
