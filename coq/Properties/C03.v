(* C03 — Version comparison is the apk total order and constraints follow it.
   Property theorems only. [abs] decodes the Go enum values of a parsed
   version through the switch tables goextract read from ParseVersion, so the
   statements below are about the constants, tables and regular expression
   that are in version.go on this run. *)
From Apko Require Import Base.Prelude Base.Regex Spec.VersionSpec Model.Version Model.VersionFilter Model.VersionFilterPins Model.SonameShapes Proofs.VersionProofs Proofs.ConstraintProofs
  Proofs.VersionStringProofs Proofs.VersionFilterProofs Proofs.VersionFilterPinsProofs Proofs.VersionPrefixProofs Proofs.SonameProofs Proofs.SonameOldProofs
  Generated.Regexes Generated.VersionConsts Generated.C03Version Generated.C03Ladders.
Open Scope Z_scope.

(* the apk order is a total order on version tuples: reflexive, antisymmetric,
   Eq exactly on equal tuples, transitive, total *)
Theorem c03_total_order :
  (forall a, spec_cmp a a = Eq) /\
  (forall a b, spec_cmp a b = CompOpp (spec_cmp b a)) /\
  (forall a b, spec_cmp a b = Eq <-> a = b) /\
  (forall a b c, spec_cmp a b = Lt -> spec_cmp b c = Lt -> spec_cmp a c = Lt) /\
  (forall a b, spec_cmp a b = Lt \/ spec_cmp a b = Eq \/ spec_cmp a b = Gt).
Proof. exact spec_cmp_total_order. Qed.
Print Assumptions c03_total_order.

(* [compare_versions] and [includes_version_res] interpret the rungs goextract
   recognised, statement by statement, in CompareVersions / includesVersion on
   this run; here they are pinned to their readable hand-written forms *)
Theorem c03_ladders_are_the_source : forall a r,
  compare_versions a r = compare_versions_hand a r /\ includes_version_res a r = includes_version_hand a r.
Proof. intros; split; [apply compare_ladder_is_hand | apply includes_ladder_is_hand]. Qed.
Print Assumptions c03_ladders_are_the_source.

(* CompareVersions is that order, for all parsed versions (numeric components,
   letter, pre-suffix with alpha<beta<pre<rc<none, suffix number, post-suffix
   with none<cvs<svn<git<hg<p, suffix number, revision) *)
Theorem c03_compare_is_spec : forall a b va vb,
  abs a = Some va -> abs b = Some vb -> compare_versions a b = enc (spec_cmp va vb).
Proof. exact compare_is_spec. Qed.
Print Assumptions c03_compare_is_spec.

(* every operator row of ResolvePackageNameVersionPin's switch ("=", ">", "<",
   ">=", "<=", "~") accepts exactly what the order (or, for ~, the component
   prefix rule) dictates *)
Theorem c03_operators : forall row a r va vr, In row matcher_table ->
  abs a = Some va -> abs r = Some vr ->
  satisfies (snd row) a r = spec_sat (vop_of_string (fst row)) va vr.
Proof. exact satisfies_is_spec. Qed.
Print Assumptions c03_operators.

(* the six operators are all there *)
Theorem c03_operator_rows :
  List.map fst matcher_table = ["="; ">"; "<"; ">="; "<="; "~"]%string.
Proof. vm_compute. reflexivity. Qed.
Print Assumptions c03_operator_rows.

(* includesVersion never indexes out of range (Some) and computes the spec's ~ *)
Theorem c03_tilde : forall a r va vr, abs a = Some va -> abs r = Some vr ->
  includes_version_res a r = Some (spec_tilde va vr).
Proof. exact includes_is_spec. Qed.
Print Assumptions c03_tilde.

(* the regular expression in the source IS the apk grammar *)
Theorem c03_grammar_is_apk :
  match anchored version_regex with Some r => strip_groups r = apk_version_re | None => False end.
Proof. exact version_regex_is_grammar. Qed.
Print Assumptions c03_grammar_is_apk.

(* accepted => grammatical; accepted <=> grammatical and every numeric
   component fits a Go int. The unconditional "iff" of the property text is
   refuted by the witness below (finding C03-F1). *)
Theorem c03_accept_iff_grammar_partial : forall s,
  (exists v, parse_version s = Some v) <-> L apk_version_re (bytes_of_string s) /\ fits s.
Proof. exact parse_accept_iff. Qed.
Print Assumptions c03_accept_iff_grammar_partial.

Theorem c03_accept_iff_grammar_refuted :
  exists s, L apk_version_re (bytes_of_string s) /\ parse_version s = None.
Proof. exact grammar_valid_rejected. Qed.
Print Assumptions c03_accept_iff_grammar_refuted.

(* a constraint assembled from clean parts — a non-empty name without = < > ~ @,
   a non-empty operator run, a non-empty version without @ that does not start
   with an operator character, an optional alphanumeric pin — is accepted by
   the source's packageNameRegex and split into exactly those parts (the so:
   rewrite aside), for all such parts *)
Theorem c03_constraint_split : forall s0 name ops v pin,
  bytes_of_string s0 = (name ++ ops ++ v ++ pin_tail pin)%list ->
  no_so_prefix (bytes_of_string s0) ->
  clean name ops v pin ->
  resolve_constraint s0 =
    {| c_name := string_of_bytes name; c_version := string_of_bytes v;
       c_dep := dep_of_matcher (string_of_bytes ops); c_pin := string_of_bytes pin |}.
Proof. exact resolve_clean. Qed.
Print Assumptions c03_constraint_split.

Example c03_constraint_example :
  resolve_constraint "foo-bar>=1.2_rc1-r3@edge" =
    {| c_name := "foo-bar"; c_version := "1.2_rc1-r3"; c_dep := dep_versionGreaterEqual; c_pin := "edge" |}
  /\ clean (bytes_of_string "foo-bar") (bytes_of_string ">=") (bytes_of_string "1.2_rc1-r3") (bytes_of_string "edge").
Proof.
  split; [vm_compute; reflexivity|].
  constructor; try (vm_compute; repeat split; congruence).
  apply Forall_forall. intros c Hc. vm_compute in Hc.
  repeat (destruct Hc as [<-|Hc]; [reflexivity|]). contradiction.
Qed.

(* ---- lifted to version STRINGS -------------------------------------------- *)

(* every version the parser accepts decodes to a tuple of the spec, so the
   hypotheses [abs _ = Some _] of the theorems above hold of every parsed version *)
Theorem c03_parsed_versions_decode : forall s m, parse_version s = Some m -> exists v, abs m = Some v.
Proof. exact parse_abs. Qed.
Print Assumptions c03_parsed_versions_decode.

(* On the strings ParseVersion accepts, the relation CompareVersions induces
   ([str_cmp], None when one side is not a version) is a total preorder: defined
   with one of the three results exactly on pairs of accepted strings, reflexive,
   less/greater mirrored, total, <= and < transitive; its equivalence ("equal")
   is NOT string equality but "same parsed version" (same Go struct, hence same
   tuple), and <= both ways is that equivalence. *)
Theorem c03_preorder_on_strings :
  (forall s t, (exists a b, parse_version s = Some a /\ parse_version t = Some b) <->
               (str_cmp s t = Some cmp_less \/ str_cmp s t = Some cmp_equal \/ str_cmp s t = Some cmp_greater)) /\
  (forall s a, parse_version s = Some a -> str_equiv s s) /\
  (forall s t, str_cmp s t = Some cmp_less <-> str_cmp t s = Some cmp_greater) /\
  (forall s t, str_equiv s t <-> str_equiv t s) /\
  (forall s t a b, parse_version s = Some a -> parse_version t = Some b -> str_le s t \/ str_le t s) /\
  (forall s t u, str_le s t -> str_le t u -> str_le s u) /\
  (forall s t u, str_cmp s t = Some cmp_less -> str_cmp t u = Some cmp_less -> str_cmp s u = Some cmp_less) /\
  (forall s t, str_equiv s t <-> exists a, parse_version s = Some a /\ parse_version t = Some a) /\
  (forall s t, str_le s t -> str_le t s -> str_equiv s t).
Proof. exact preorder_on_strings. Qed.
Print Assumptions c03_preorder_on_strings.

(* stated, not hidden: the preorder is not an order on strings *)
Example c03_leading_zero_equivalent :
  "1.01"%string <> "1.1"%string /\ str_equiv "1.01" "1.1" /\
  parse_version "1.01" = parse_version "1.1" /\
  (exists a, parse_version "1.01" = Some a /\ m_nums a = [1; 1]).
Proof. exact leading_zero_equivalent. Qed.

(* ParsedConstraint.SatisfiedBy on strings: a constraint (any name, any pin)
   whose operator is a row of the switch and whose version string parses, asked
   about a parsed version, answers the spec's operator on the two tuples *)
Theorem c03_operators_on_strings : forall row cname pin sv pv s a,
  In row matcher_table -> parse_version sv = Some pv -> parse_version s = Some a ->
  exists va vr, abs a = Some va /\ abs pv = Some vr /\
    satisfied_by {| c_name := cname; c_version := sv; c_dep := snd row; c_pin := pin |} a
      = Some (spec_sat (vop_of_string (fst row)) va vr).
Proof. intros row cname pin sv pv s a Hin Hsv Hs. exact (satisfied_by_is_spec row cname pin sv pv a Hin Hsv s Hs). Qed.
Print Assumptions c03_operators_on_strings.

(* the fuzzy operator on strings: the component-prefix rule *)
Theorem c03_tilde_on_strings : forall cname pin sv pv s a,
  parse_version sv = Some pv -> parse_version s = Some a ->
  exists va vr, abs a = Some va /\ abs pv = Some vr /\
    satisfied_by {| c_name := cname; c_version := sv; c_dep := dep_versionTilde; c_pin := pin |} a
      = Some (spec_tilde va vr).
Proof.
  intros cname pin sv pv s a Hsv Hs.
  exact (satisfied_by_is_spec ("~"%string, dep_versionTilde) cname pin sv pv a ltac:(vm_compute; auto 10) Hsv s Hs).
Qed.
Print Assumptions c03_tilde_on_strings.

(* bare names accept everything; an unparsable constraint version is an error, never a verdict *)
Theorem c03_satisfied_by_edges : forall cname dep pin a,
  satisfied_by {| c_name := cname; c_version := ""; c_dep := dep; c_pin := pin |} a = Some true /\
  (forall sv, sv <> ""%string -> parse_version sv = None ->
     satisfied_by {| c_name := cname; c_version := sv; c_dep := dep; c_pin := pin |} a = None).
Proof. exact satisfied_by_edges. Qed.
Print Assumptions c03_satisfied_by_edges.

(* from the constraint STRING to the verdict (c03_constraint_split composed with
   c03_operators_on_strings): clean parts, one of the six operators, a version that parses *)
Theorem c03_constraint_string_is_spec : forall s0 name ops v pin row pv s a,
  bytes_of_string s0 = (name ++ ops ++ v ++ pin_tail pin)%list ->
  no_so_prefix (bytes_of_string s0) ->
  clean name ops v pin ->
  In row matcher_table -> string_of_bytes ops = fst row ->
  parse_version (string_of_bytes v) = Some pv ->
  parse_version s = Some a ->
  exists va vr, abs a = Some va /\ abs pv = Some vr /\
    satisfied_by (resolve_constraint s0) a = Some (spec_sat (vop_of_string (fst row)) va vr).
Proof. exact constraint_string_is_spec. Qed.
Print Assumptions c03_constraint_string_is_spec.

Example c03_constraint_string_example :
  exists a, parse_version "1.2.3-r1" = Some a /\
    satisfied_by (resolve_constraint "foo-bar>=1.2_rc1-r3@edge") a = Some true /\
    satisfied_by (resolve_constraint "foo~1.2") a = Some true /\
    satisfied_by (resolve_constraint "foo~1.3") a = Some false /\
    satisfied_by (resolve_constraint "foo<1.2.3") a = Some false.
Proof. eexists. repeat split; vm_compute; reflexivity. Qed.

(* the resolver's own operator dispatch (filterPackages, one candidate that is neither disqualified nor pinned): a candidate
   answers a versioned constraint exactly when its own version, or the version of one of its provides, stands in the spec's
   relation to the required version - whatever the spelling of equal versions (1.2.3 and 1.2.3-r0, 1.06 and 1.6) *)
Theorem c03_filter_follows_order : forall row cname pin sv pv ver a provs,
  In row matcher_table -> parse_version sv = Some pv -> parse_version ver = Some a ->
  exists va vr, abs a = Some va /\ abs pv = Some vr /\
    (filter_one {| c_name := cname; c_version := sv; c_dep := snd row; c_pin := pin |} ver provs = true <->
     spec_sat (vop_of_string (fst row)) va vr = true \/
     exists prov, In prov provs /\ spec_prov_passes (vop_of_string (fst row)) vr prov).
Proof. exact filter_one_is_spec. Qed.
Print Assumptions c03_filter_follows_order.

Theorem c03_filter_own_version : forall row cname pin sv pv ver a,
  In row matcher_table -> parse_version sv = Some pv -> parse_version ver = Some a ->
  exists va vr, abs a = Some va /\ abs pv = Some vr /\
    filter_one {| c_name := cname; c_version := sv; c_dep := snd row; c_pin := pin |} ver [] =
    spec_sat (vop_of_string (fst row)) va vr.
Proof. exact filter_one_own. Qed.
Print Assumptions c03_filter_own_version.

(* a bare name lets every candidate through; an unparsable required version lets nothing through; a candidate whose own
   version does not parse never answers a versioned constraint *)
Theorem c03_filter_edges : forall cname pin ver provs,
  filter_one {| c_name := cname; c_version := ""; c_dep := dep_versionAny; c_pin := pin |} ver provs = true /\
  (forall row sv, In row matcher_table -> parse_version sv = None ->
     filter_one {| c_name := cname; c_version := sv; c_dep := snd row; c_pin := pin |} ver provs = false) /\
  (forall row sv, In row matcher_table -> parse_version ver = None ->
     filter_one {| c_name := cname; c_version := sv; c_dep := snd row; c_pin := pin |} ver provs = false).
Proof. exact filter_one_edges. Qed.
Print Assumptions c03_filter_edges.

Example c03_filter_example :
  filter_one (resolve_constraint "a=1.2.3") "1.2.3-r0" [] = true /\
  filter_one (resolve_constraint "a=1.6") "1.06" [] = true /\
  filter_one (resolve_constraint "a=2.0_rc0") "2.0_rc" [] = true /\
  filter_one (resolve_constraint "a>=2") "1.0" ["a=2.5.0"; "b"] = true /\
  filter_one (resolve_constraint "a>=2") "1.0" ["a=1.5"; "b"] = false /\
  filter_one (resolve_constraint "a<1_hg") "1_git" [] = true.
Proof. repeat split; vm_compute; reflexivity. Qed.

(* filterPackages as the whole loop over a candidate list, with the disqualification map, allowPin / preferPin and the
   installed package: it IS the version filter above (filter_one per candidate) followed by "not disqualified and not rejected
   by the pin rule", in input order - for every constraint, pin setting and candidate list *)
Theorem c03_filter_list_is_version_filter : forall c o cands,
  filter_list c o cands = filter (eligible o) (filter (version_passes c) cands).
Proof. exact filter_list_is. Qed.
Print Assumptions c03_filter_list_is_version_filter.

(* pins and dq only REMOVE: whoever passes is a candidate, passed by its version and is not disqualified; a candidate that is
   neither disqualified nor pinned passes exactly by its version; with nothing disqualified or pinned the function is the
   version filter; and the pin rule itself, readably *)
Theorem c03_filter_pins_only_remove : forall c o cands,
  (forall k, In k (filter_list c o cands) -> In k cands /\ version_passes c k = true /\ fc_dq k = false) /\
  (forall k, In k cands -> fc_dq k = false -> fc_pinned k = ""%string ->
     (In k (filter_list c o cands) <-> version_passes c k = true)) /\
  ((forall k, In k cands -> fc_dq k = false /\ fc_pinned k = ""%string) ->
     filter_list c o cands = filter (version_passes c) cands) /\
  (forall k, eligible o k = true <->
     fc_dq k = false /\
     (fc_pinned k = ""%string \/ fc_pinned k = fp_allow o \/ fc_pinned k = fp_prefer o \/ fp_installed o = Some (fc_url k))).
Proof.
  intros c o cands. destruct (filter_list_only_removes c o cands) as (A & B & C).
  exact (conj A (conj B (conj C (eligible_iff o)))).
Qed.
Print Assumptions c03_filter_pins_only_remove.

Example c03_filter_pins_example :
  let k v pin dq := {| fc_id := 0; fc_ver := v; fc_provs := []; fc_url := ("r/a-" ++ v ++ ".apk")%string; fc_pinned := pin; fc_dq := dq |} in
  let cands := [k "1.0" "" false; k "2.0" "edge" false; k "3.0" "" true; k "2.5" "" false]%string in
  List.map fc_ver (filter_list (resolve_constraint "a>=2") {| fp_allow := ""; fp_prefer := ""; fp_installed := None |} cands) = ["2.5"]%string /\
  List.map fc_ver (filter_list (resolve_constraint "a>=2") {| fp_allow := "edge"; fp_prefer := ""; fp_installed := None |} cands) = ["2.0"; "2.5"]%string /\
  List.map fc_ver (filter_list (resolve_constraint "a>=2") {| fp_allow := ""; fp_prefer := ""; fp_installed := Some "r/a-2.0.apk"%string |} cands) = ["2.0"; "2.5"]%string /\
  List.map fc_ver (filter (version_passes (resolve_constraint "a>=2")) cands) = ["2.0"; "3.0"; "2.5"]%string.
Proof. repeat split; vm_compute; reflexivity. Qed.

(* ---- shared-library names: the so: rescaling for ALL names and version strings (today's code, since fix C03-F2 = commit 0f275a6) ---- *)

(* "0." in front of an accepted version string is accepted and denotes the same tuple with one more leading component 0; a
   leading 0 on BOTH sides changes neither the order (every later field follows unchanged) nor the ~ prefix rule *)
Theorem c03_zero_dot_prefix :
  (forall s m v, parse_version s = Some m -> abs m = Some v ->
     exists m', parse_version ("0." ++ s)%string = Some m' /\ abs m' = Some (cons0 v)) /\
  (forall a b, spec_cmp (cons0 a) (cons0 b) = spec_cmp a b) /\
  (forall a r, spec_tilde (cons0 a) (cons0 r) = spec_tilde a r) /\
  (forall op a r, spec_sat op (cons0 a) (cons0 r) = spec_sat op a r).
Proof. exact (conj parse_zero_dot_abs (conj spec_cmp_cons0 (conj spec_tilde_cons0 spec_sat_cons0))). Qed.
Print Assumptions c03_zero_dot_prefix.

(* endsWithReleaseStr (the regenerated -r\d+$) accepts exactly the strings that end in "-r" and at least one digit *)
Theorem c03_release_suffix : forall l, Forall byte l ->
  (ends_release l = true <-> exists p ds, l = (p ++ 45%N :: 114%N :: ds)%list /\ ds <> [] /\ forallb is_digit ds = true).
Proof. exact ends_release_iff. Qed.
Print Assumptions c03_release_suffix.

(* HOW the so: block finds the start of the version, as goextract read it from ResolvePackageNameVersionPin on this run: the
   scan over the run of operator characters (not strings.Cut at "="); the model's rewrite, which interprets that shape, is the
   readable hand form.  A revert of the fix changes the first conjunct. *)
Theorem c03_soname_shape :
  so_rewrite_shape = SoOperatorRun "=><~" "0." /\ (forall s, so_rewrite s = so_rewrite_run s).
Proof. exact (conj so_shape_today so_rewrite_today). Qed.
Print Assumptions c03_soname_shape.

(* what "so:" ++ name ++ operator ++ version resolves to, for every row of the operator switch, every name made of name
   characters and every accepted version string (c03_constraint_split excluded so: names): the parts survive, and the version
   is moved to 0.V exactly when V has no release suffix - whatever the operator *)
Theorem c03_soname_resolve : forall row nm v pv,
  In row matcher_table -> namechars nm -> parse_version v = Some pv ->
  resolve_constraint ("so:" ++ nm ++ fst row ++ v)%string =
    {| c_name := ("so:" ++ nm)%string; c_version := so_version v; c_dep := snd row; c_pin := ""%string |}.
Proof. exact resolve_so. Qed.
Print Assumptions c03_soname_resolve.

(* the verdict of a so: constraint on the version of a so: provide (both through ResolvePackageNameVersionPin), for all six
   operators: both sides are scaled by the same rule (0.X unless X has a release suffix) - mixed kinds included -, and on
   versions of the same kind the rescaling cancels: the verdict is the spec's operator on the two versions *)
Theorem c03_soname_scale : forall row nm v w pv pw,
  In row matcher_table -> namechars nm -> parse_version v = Some pv -> parse_version w = Some pw ->
  exists a va vr, abs pw = Some va /\ abs pv = Some vr /\
    parse_version (c_version (resolve_constraint ("so:" ++ nm ++ "=" ++ w)%string)) = Some a /\
    satisfied_by (resolve_constraint ("so:" ++ nm ++ fst row ++ v)%string) a =
      Some (spec_sat (vop_of_string (fst row)) (scaled (negb (ends_release_s w)) va) (scaled (negb (ends_release_s v)) vr)) /\
    (ends_release_s v = ends_release_s w ->
     satisfied_by (resolve_constraint ("so:" ++ nm ++ fst row ++ v)%string) a = Some (spec_sat (vop_of_string (fst row)) va vr)).
Proof. exact so_verdict. Qed.
Print Assumptions c03_soname_scale.

Example c03_soname_example :
  In (">="%string, dep_versionGreaterEqual) matcher_table /\ In (">"%string, dep_versionGreater) matcher_table /\
  In ("~"%string, dep_versionTilde) matcher_table /\
  namechars "libc.musl-x86_64.so.1" /\
  (exists pv, parse_version "1.2" = Some pv) /\ (exists pw, parse_version "1.10" = Some pw) /\
  ends_release_s "1.2" = false /\ ends_release_s "1.10" = false /\ ends_release_s "1.2-r3" = true /\
  so_version "1.2" = "0.1.2"%string /\ so_version "1.2-r3" = "1.2-r3"%string /\
  (exists a, parse_version (c_version (resolve_constraint "so:libx.so.1=6")) = Some a /\
             satisfied_by (resolve_constraint "so:libx.so.1>1") a = Some true /\
             satisfied_by (resolve_constraint "so:libx.so.1<1") a = Some false /\
             satisfied_by (resolve_constraint "so:libx.so.1~6") a = Some true /\
             satisfied_by (resolve_constraint "so:libx.so.1>=1") a = Some true /\
             satisfied_by (resolve_constraint "so:libx.so.1<=1") a = Some false).
Proof. repeat split; try (vm_compute; auto 10; fail); try exact so_fixed_witness; eexists; vm_compute; reflexivity. Qed.

(* ---- HYPOTHETICAL OLD SHAPE (the code before fix C03-F2: strings.Cut at the first "="; Model/SonameShapes.v so_rewrite_old /
   resolve_constraint_old = the model's interpretation of the shape SoCutAt "=" "=0.").  NOT statements about today's code:
   they keep the repaired defect stated, and they are what the model becomes if the fix is reverted. ------------------------- *)

(* the concrete witness of the former finding C03-F2 (the same strings are regression replays in the soname corpus): the provide
   so:libx.so.1=6 was compared as 0.6 while the constraint so:libx.so.1>1 kept 1, so 6 > 1 was answered false *)
Theorem c03_soname_old_shape_refuted :
  exists a, parse_version (c_version (resolve_constraint_old "so:libx.so.1=6")) = Some a /\
            satisfied_by (resolve_constraint_old "so:libx.so.1>1") a = Some false /\
            satisfied_by (resolve_constraint_old "so:libx.so.1>=1") a = Some true /\
            satisfied_by (resolve_constraint_old "so:libx.so.1<=1") a = Some false.
Proof. exact so_old_witness. Qed.
Print Assumptions c03_soname_old_shape_refuted.

(* for all inputs: under the old shape a constraint with >, < or ~ was not rescaled, so a provide without release suffix was
   judged as 0.W against V; when V's first component is at least 1 the two versions did not matter at all - ">" never
   satisfied, "<" always, "~" never *)
Theorem c03_soname_old_shape_refuted_for_all : forall row nm v w pv pw,
  In row matcher_table -> has_eq (fst row) = false -> namechars nm ->
  parse_version v = Some pv -> parse_version w = Some pw -> ends_release_s w = false ->
  (exists a va vr, abs pw = Some va /\ abs pv = Some vr /\
     parse_version (c_version (resolve_constraint_old ("so:" ++ nm ++ "=" ++ w)%string)) = Some a /\
     satisfied_by (resolve_constraint_old ("so:" ++ nm ++ fst row ++ v)%string) a =
       Some (spec_sat (vop_of_string (fst row)) (cons0 va) vr)) /\
  (0 < hd 0 (m_nums pv) ->
   exists a, parse_version (c_version (resolve_constraint_old ("so:" ++ nm ++ "=" ++ w)%string)) = Some a /\
     satisfied_by (resolve_constraint_old ("so:" ++ nm ++ fst row ++ v)%string) a =
       Some (match vop_of_string (fst row) with OpLt => true | _ => false end)).
Proof.
  intros row nm v w pv pw Hin He Hn Hv Hw Hk.
  exact (conj (so_verdict_old_without_eq row nm v w pv pw Hin He Hn Hv Hw Hk)
              (so_verdict_old_without_eq_constant row nm v w pv pw Hin He Hn Hv Hw Hk)).
Qed.
Print Assumptions c03_soname_old_shape_refuted_for_all.

(* what the fix changed and what it did not: today's rewrite returns the same bytes as the old shape on every string that is
   not a so: name, on every so: string without an operator character, and on every so: string whose operator run ends in its
   only "=" (=, >=, <=) in front of something that is not an operator character *)
Theorem c03_soname_fix_conservative :
  (forall s, strip_prefix so_bytes s = None -> so_rewrite s = so_rewrite_old s) /\
  (forall rest, no_op (so_bytes ++ rest) = true -> so_rewrite (so_bytes ++ rest) = so_rewrite_old (so_bytes ++ rest)) /\
  (forall pre o v, no_op (so_bytes ++ pre) = true -> forallb is_opchar o = true -> no_eq o = true -> head_no_op v ->
     so_rewrite (so_bytes ++ pre ++ (o ++ [61%N]) ++ v) = so_rewrite_old (so_bytes ++ pre ++ (o ++ [61%N]) ++ v)).
Proof. exact so_rewrite_conservative. Qed.
Print Assumptions c03_soname_fix_conservative.

Example c03_soname_old_shape_example :
  In (">"%string, dep_versionGreater) matcher_table /\ has_eq ">" = false /\ has_eq ">=" = true /\
  (exists pv, parse_version "1.2" = Some pv /\ 0 < hd 0 (m_nums pv)) /\
  so_version_old ">=" "1.2" = "0.1.2"%string /\ so_version_old ">" "1.2" = "1.2"%string /\
  resolve_constraint_old "so:libx.so.1>=1" = resolve_constraint "so:libx.so.1>=1" /\
  resolve_constraint_old "so:libx.so.1=6" = resolve_constraint "so:libx.so.1=6" /\
  resolve_constraint_old "so:libx.so.1" = resolve_constraint "so:libx.so.1".
Proof. repeat split; try (vm_compute; auto 10; fail); eexists; split; vm_compute; reflexivity. Qed.

(* non-vacuity: real version strings parse, decode and compare *)
Example c03_example :
  exists a b va vb,
    parse_version "1.2.3_rc1-r4" = Some a /\ parse_version "1.2.3-r0" = Some b /\
    abs a = Some va /\ abs b = Some vb /\ spec_cmp va vb = Lt /\ compare_versions a b = cmp_less /\
    satisfies dep_versionLess a b = true.
Proof. eexists _, _, _, _. repeat split; vm_compute; reflexivity. Qed.
