(* C04 — Only repository indexes signed by a trusted key are used.
   Property theorems only; proofs are in Proofs/IndexProofs.v.

   The statements are about Model/Index.v (parseRepositoryIndex as it is after
   fix c87da01: with checking on, only the verified bytes are parsed). An
   archive is any list of gzip members, each any list of tar entries followed by
   an optional entry-less meta-header and zero blocks; key sets, signature
   entries, options are arbitrary. [raw], [hash], [verify] and the APKINDEX text
   parser are universally quantified: nothing is assumed about them, so the
   theorems speak about the verify oracle's answer on the digest of exactly the
   remaining raw bytes (no collision-resistance claim is made or needed). The
   signature-name regular expression, the signature-type switch, the file names
   and the IndexURL format are the ones goextract read from the source on this
   run (Generated.Regexes, Generated.IndexConsts). *)
From Apko Require Import Base.Prelude Base.Regex Generated.Regexes Generated.IndexConsts
  Model.Index Spec.IndexSpec Proofs.IndexProofs Model.IndexCache Proofs.IndexCacheProofs.
Open Scope string_scope. Open Scope list_scope.

(* With checking on, an accepted archive carries, in its first member, an entry
   named .SIGN.<RSA|RSA256>.<key> for a configured key whose body verifies under
   that key over the digest (SHA-1 / SHA-256 by type) of the raw bytes after the
   first member. *)
Theorem c04_accept_sound : forall B D raw hash verify parse_text keys a idx,
  parse_repository_index B D raw hash verify parse_text true keys a = POk idx ->
  exists m1 rest, a = m1 :: rest /\ Authentic B D raw hash verify keys m1 rest.
Proof.
  intros B D raw hash verify pt keys a idx H.
  destruct (accept_sound B D raw hash verify pt keys a idx H) as (m1 & rest & E & A & _). eauto.
Qed.
Print Assumptions c04_accept_sound.

(* ... and the index handed on is the parse of exactly those remaining members:
   whatever the (unsigned) first member contains or leaves behind — entries,
   a pending PAX/GNU meta-header, zero blocks — contributes nothing. Full
   strength since fix c87da01 (before it the parse pass re-read the first member
   and this held only when it left nothing behind). *)
Theorem c04_parsed_is_signed : forall B D raw hash verify parse_text keys a idx,
  parse_repository_index B D raw hash verify parse_text true keys a = POk idx ->
  exists m1 rest, a = m1 :: rest /\ index_from_archive parse_text rest = POk idx.
Proof.
  intros B D raw hash verify pt keys a idx H.
  destruct (accept_sound B D raw hash verify pt keys a idx H) as (m1 & rest & E & _ & I). eauto.
Qed.
Print Assumptions c04_parsed_is_signed.

(* the model meets the readable statement the validator decides *)
Theorem c04_holds : forall B D raw hash verify parse_text keys a idx,
  parse_repository_index B D raw hash verify parse_text true keys a = POk idx ->
  Holds B D raw hash verify parse_text keys a (Some (i_pkgs idx)).
Proof. exact model_holds. Qed.
Print Assumptions c04_holds.

(* rejections: anything not authentic in the sense above is an error ... *)
Theorem c04_reject_not_authentic : forall B D raw hash verify parse_text keys m1 rest,
  ~ Authentic B D raw hash verify keys m1 rest ->
  parse_repository_index B D raw hash verify parse_text true keys (m1 :: rest) = PErr.
Proof. exact reject_not_authentic. Qed.
Print Assumptions c04_reject_not_authentic.

(* ... in particular an archive whose first member has no signature-named entry, *)
Theorem c04_reject_unsigned : forall B D raw hash verify parse_text keys m1 rest,
  (forall e alg key, In e (m_entries m1) -> e_name e <> sig_entry_name alg key) ->
  parse_repository_index B D raw hash verify parse_text true keys (m1 :: rest) = PErr.
Proof. exact reject_unsigned. Qed.
Print Assumptions c04_reject_unsigned.

(* one signed only by keys that are not configured, *)
Theorem c04_reject_unknown_key : forall B D raw hash verify parse_text keys m1 rest,
  (forall e alg key, In e (m_entries m1) -> e_name e = sig_entry_name alg key -> ~ In key keys) ->
  parse_repository_index B D raw hash verify parse_text true keys (m1 :: rest) = PErr.
Proof. exact reject_unknown_keys. Qed.
Print Assumptions c04_reject_unknown_key.

(* one none of whose entries verifies for a configured key over the remaining
   bytes (altered content, altered signature, signature over other content), *)
Theorem c04_reject_unverified : forall B D raw hash verify parse_text keys m1 rest,
  (forall e key a, In e (m_entries m1) -> In key keys -> verify key a (hash a (raw rest)) (e_body e) = false) ->
  parse_repository_index B D raw hash verify parse_text true keys (m1 :: rest) = PErr.
Proof. exact reject_unverified. Qed.
Print Assumptions c04_reject_unverified.

(* and everything when no key is configured or there is no gzip member *)
Theorem c04_reject_no_keys : forall B D raw hash verify parse_text a,
  parse_repository_index B D raw hash verify parse_text true [] a = PErr.
Proof. exact reject_no_keys. Qed.
Print Assumptions c04_reject_no_keys.

Theorem c04_reject_empty_archive : forall B D raw hash verify parse_text keys,
  parse_repository_index B D raw hash verify parse_text true keys [] = PErr.
Proof. exact reject_empty_archive. Qed.
Print Assumptions c04_reject_empty_archive.

(* the only names the signature pass tolerates are the ones the generated
   regular expression matches; they all start with the prefix under which the
   index reader files an entry as a signature, and are never the names it takes
   packages or the description from (proved through Base/Regex.v's verified
   matcher on the regular expression read from index.go) *)
Theorem c04_tolerated_names_are_signatures : forall keys es sigs e,
  sig_pass keys es = Ok sigs -> In e es ->
  full_match signature_file_regex (e_name e) = true /\
  has_prefix sign_prefix (e_name e) = true /\
  e_name e <> apk_index_filename /\ e_name e <> description_filename.
Proof.
  intros keys es sigs e H He. pose proof (sig_pass_names keys es sigs H e He) as F.
  split; [exact F | apply tolerated_names_disjoint; exact F].
Qed.
Print Assumptions c04_tolerated_names_are_signatures.

(* opt-outs: checking is skipped exactly when signatures are ignored or the
   index URL is IndexURL(repo, arch) of a listed repository; without checking
   the archive is simply parsed *)
Theorem c04_optout_exact : forall ign listed index arch,
  should_check ign listed index arch = true <-> CheckRequired ign listed index arch.
Proof. exact should_check_iff. Qed.
Print Assumptions c04_optout_exact.

Theorem c04_index_url_pinned :
  index_url_args = ["repo"; "arch"; "indexFilename"] /\
  forall repo arch, index_url repo arch = (repo ++ "/" ++ arch ++ "/APKINDEX.tar.gz")%string.
Proof. split; [reflexivity | exact index_url_spec]. Qed.
Print Assumptions c04_index_url_pinned.

(* inside the stated envelope the tar walk of the model never answers
   "not modelled", so no theorem above holds for that reason *)
Theorem c04_envelope : forall parse_text a,
  toks_modelled None (toks_of a) = true -> index_from_archive parse_text a <> PUnmodelled.
Proof. intros pt a H. apply read_toks_modelled; exact H. Qed.
Print Assumptions c04_envelope.

(* the boolean validators run on the implementation's observed results decide
   exactly the readable statements *)
Theorem c04_validator_decides : forall B D raw hash verify parse_text keys a o,
  holds_tags B D raw hash verify parse_text keys a o = [] <->
  Holds B D raw hash verify parse_text keys a o.
Proof. exact holds_tags_iff. Qed.
Print Assumptions c04_validator_decides.

Theorem c04_optout_validator_decides : forall ign listed index arch,
  check_required_b ign listed index arch = true <-> CheckRequired ign listed index arch.
Proof. exact check_required_b_iff. Qed.
Print Assumptions c04_optout_validator_decides.

(* ---- non-vacuity --------------------------------------------------------------- *)
Definition ex_key := "k.rsa.pub".
Definition ex_sig : list N := [1; 2; 3]%N.
Definition ex_text : list N := [80; 58; 97]%N.
Definition ex_verify (key : string) (a : halg) (d : list member) (sig : list N) : bool :=
  String.eqb key ex_key && halg_eqb a SHA256 && list_eqb N.eqb sig ex_sig.
Definition ex_parse (b : list N) : option (list string) :=
  if list_eqb N.eqb b ex_text then Some ["a=1"; "b=2"] else if list_eqb N.eqb b (firstn 2 ex_text) then Some ["a=1"] else None.
Definition ex_rest : list member :=
  [ {| m_entries := [ {| e_name := "APKINDEX"; e_body := ex_text |} ]; m_pending := None; m_tail := TEOA |} ].
Definition ex_first (p : option meta) (t : tail) : member :=
  {| m_entries := [ {| e_name := ".SIGN.RSA256.k.rsa.pub"; e_body := ex_sig |} ]; m_pending := p; m_tail := t |}.

(* a validly signed archive is accepted with the signed package list *)
Example c04_accepts_signed :
  exists idx, parse_repository_index (list member) (list member) (fun r => r) (fun _ r => r) ex_verify ex_parse
                true [ex_key] (ex_first None TClean :: ex_rest) = POk idx /\ i_pkgs idx = ["a=1"; "b=2"].
Proof. eexists. split; vm_compute; reflexivity. Qed.

(* the fixed defect C04-F1 (regression witness): with a size record left pending
   by the signature member, parsing the WHOLE archive — what the code did before
   c87da01 — yields a package list that is not the signed one, while the fixed
   model hands on exactly the signed list *)
Example c04_whole_archive_parse_differs :
  let pend := Some {| mt_rename := None; mt_resize := Some 2%N |} in
  exists i_whole i_signed,
    index_from_archive ex_parse (ex_first pend TClean :: ex_rest) = POk i_whole /\
    index_from_archive ex_parse ex_rest = POk i_signed /\
    i_pkgs i_whole <> i_pkgs i_signed /\
    parse_repository_index (list member) (list member) (fun r => r) (fun _ r => r) ex_verify ex_parse
      true [ex_key] (ex_first pend TClean :: ex_rest) = POk i_signed.
Proof. eexists _, _. repeat split; try (vm_compute; reflexivity). vm_compute. discriminate. Qed.

(* C04-F2: an end-of-archive marker in the signature member used to end the
   walk before the signed bytes *)
Example c04_whole_archive_parse_stops_early :
  exists i_whole i_signed,
    index_from_archive ex_parse (ex_first None TEOA :: ex_rest) = POk i_whole /\ i_pkgs i_whole = [] /\
    parse_repository_index (list member) (list member) (fun r => r) (fun _ r => r) ex_verify ex_parse
      true [ex_key] (ex_first None TEOA :: ex_rest) = POk i_signed /\ i_pkgs i_signed = ["a=1"; "b=2"].
Proof. eexists _, _. repeat split; vm_compute; reflexivity. Qed.

(* hypotheses of the rejection theorems are satisfiable *)
Example c04_rejects_unknown_key :
  parse_repository_index (list member) (list member) (fun r => r) (fun _ r => r) ex_verify ex_parse
    true ["other.rsa.pub"] (ex_first None TClean :: ex_rest) = PErr.
Proof. vm_compute. reflexivity. Qed.
Example c04_optout_example :
  should_check false ["https://r/os"] "https://r/os/x86_64/APKINDEX.tar.gz" "x86_64" = false /\
  should_check false ["https://r/os/"] "https://r/os/x86_64/APKINDEX.tar.gz" "x86_64" = true.
Proof. split; vm_compute; reflexivity. Qed.

(* ---- the process-wide index cache (GetRepositoryIndexes, indexCache.get) ------
   For EVERY history of calls in one process — any repositories, any per-call key
   sets, ignore flags and exemption lists, any mix of cached and uncached
   transports — the cache model with the key of fix C04-F3 (URL + verification
   context) answers each call exactly as a cache-less evaluation of that call
   would, and therefore every index a call gets back was authorised BY THAT CALL:
   verification off, repository exempted, or signed by a key the call configured.
   Nothing an earlier call accepted leaks into a later one. *)
Theorem c04_cache_respects_context : forall signer loc arch cached cs,
  let out := run_history signer loc arch cached vctx vctx_eqb (ctx_fixed loc arch) [] cs in
  out = map (fresh_call signer loc arch) cs /\ HistoryHolds signer loc arch out.
Proof. exact cache_fixed_sound. Qed.
Print Assumptions c04_cache_respects_context.

(* the same for ANY key discipline that separates verification contexts *)
Theorem c04_cache_sound_for_separating_keys :
  forall signer loc arch cached (K : Type) (K_eqb : K -> K -> bool) (ctx : repo_call -> nat -> K),
  (forall a b, K_eqb a b = true -> a = b) ->
  (forall c c' r, ctx c r = ctx c' r -> authorised_b signer loc arch c r = authorised_b signer loc arch c' r) ->
  forall cs, HistoryHolds signer loc arch (run_history signer loc arch cached K K_eqb ctx [] cs).
Proof. intros signer loc arch cached K K_eqb ctx H1 H2 cs. exact (proj2 (cache_sound signer loc arch cached K K_eqb ctx H1 H2 cs)). Qed.
Print Assumptions c04_cache_sound_for_separating_keys.

(* what the source says the key is made of, on this run: every site that stores
   or looks up a parsed index uses a key that depends on verificationContext(...),
   which consults shouldCheckSignatureForIndex and the contents of the keys *)
Theorem c04_cache_key_shape :
  forallb snd index_cache_key_sites = true /\ index_cache_key_sites <> [] /\ index_cache_ctx_reads = (true, true).
Proof. split; [vm_compute; reflexivity|]. split; [discriminate | reflexivity]. Qed.
Print Assumptions c04_cache_key_shape.

(* with the URL-only key the code had before the fix the statement is false
   (finding C04-F3, now `fixed:`): an index stored by an ignore-signatures call is
   handed to a later call that trusts only another key *)
Theorem c04_cache_url_only_refuted :
  ~ HistoryHolds w_signer w_loc "x86_64"
      (run_history w_signer w_loc "x86_64" (fun _ => true) unit (fun _ _ => true) ctx_url_only [] w_calls) /\
  history_tags w_signer w_loc "x86_64"
      (run_history w_signer w_loc "x86_64" (fun _ => true) unit (fun _ _ => true) ctx_url_only [] w_calls)
    = ["viol:index-cache-ignores-verification-context"%string].
Proof. exact cache_url_only_refuted. Qed.
Print Assumptions c04_cache_url_only_refuted.

(* the validator run on the implementation's observed histories decides the statement *)
Theorem c04_history_validator_decides : forall signer loc arch calls,
  history_tags signer loc arch calls = [] <-> HistoryHolds signer loc arch calls.
Proof. exact history_validator_decides. Qed.
Print Assumptions c04_history_validator_decides.
