(* C04 — Only repository indexes signed by a trusted key are used.
   Property theorems only; proofs are in Proofs/IndexProofs.v. *)
From Apko Require Import Base.Prelude Base.Regex Generated.Regexes Generated.IndexConsts
  Model.Index Spec.IndexSpec Proofs.IndexProofs.
Open Scope string_scope. Open Scope list_scope.

(* the boolean validator run on the implementation's observed results decides
   exactly the readable statement *)
Theorem c04_validator_decides : forall B D raw hash verify parse_text keys a o,
  holds_tags B D raw hash verify parse_text keys a o = [] <->
  Holds B D raw hash verify parse_text keys a o.
Proof. exact holds_tags_iff. Qed.
Print Assumptions c04_validator_decides.
