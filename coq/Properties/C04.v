(* C04 — Only repository indexes signed by a trusted key are used.
   Property theorems only; proofs are in Proofs/IndexProofs.v.

   The statements are about Model/Index.v (parseRepositoryIndex as it is after
   fix c87da01: with checking on, only the verified bytes are parsed). An
   archive is any list of gzip members, each any list of tar entries followed by
   an optional entry-less meta-header and zero blocks; key sets, signature
   entries, options are arbitrary. [raw], [hash], [verify] and the APKINDEX text
   parser are universally quantified: nothing is assumed about them, so the
   theorems speak about the verify oracle's answer on the digest of exactly the
   remaining raw bytes (no collision-resistance claim is made or needed). The
   signature-name regular expression, the signature-type switch, the file names
   and the IndexURL format are the ones goextract read from the source on this
   run (Generated.Regexes, Generated.IndexConsts). *)
From Apko Require Import Base.Prelude Base.Regex Generated.Regexes Generated.IndexConsts Generated.IndexShapes
  Model.Index Spec.IndexSpec Proofs.IndexProofs Model.IndexCache Proofs.IndexCacheProofs
  Model.IndexBytes Spec.IndexBytesSpec Proofs.IndexBytesProofs Model.IndexVctx Proofs.IndexVctxProofs
  Model.IndexWiring Model.IndexCacheFiles Spec.IndexHistSpec Proofs.IndexHistProofs
  Model.IndexRsa Proofs.IndexRsaProofs Model.IndexCacheEtag.
Open Scope string_scope. Open Scope list_scope.

(* With checking on, an accepted archive carries, in its first member, an entry
   named .SIGN.<RSA|RSA256>.<key> for a configured key whose body verifies under
   that key over the digest (SHA-1 / SHA-256 by type) of the raw bytes after the
   first member. *)
Theorem c04_accept_sound : forall B D raw hash verify parse_text keys a idx,
  parse_repository_index B D raw hash verify parse_text true keys a = POk idx ->
  exists m1 rest, a = m1 :: rest /\ Authentic B D raw hash verify keys m1 rest.
Proof.
  intros B D raw hash verify pt keys a idx H.
  destruct (accept_sound B D raw hash verify pt keys a idx H) as (m1 & rest & E & A & _). eauto.
Qed.
Print Assumptions c04_accept_sound.

(* ... and the index handed on is the parse of exactly those remaining members:
   whatever the (unsigned) first member contains or leaves behind — entries,
   a pending PAX/GNU meta-header, zero blocks — contributes nothing. Full
   strength since fix c87da01 (before it the parse pass re-read the first member
   and this held only when it left nothing behind). *)
Theorem c04_parsed_is_signed : forall B D raw hash verify parse_text keys a idx,
  parse_repository_index B D raw hash verify parse_text true keys a = POk idx ->
  exists m1 rest i0, a = m1 :: rest /\ index_from_archive parse_text rest = POk i0 /\
    i_pkgs idx = i_pkgs i0 /\ i_desc idx = i_desc i0.
Proof.
  intros B D raw hash verify pt keys a idx H.
  destruct (accept_sound B D raw hash verify pt keys a idx H) as (m1 & rest & E & _ & i0 & I). eauto.
Qed.
Print Assumptions c04_parsed_is_signed.

(* ... its Signature field (`if index.Signature == nil { index.Signature =
   verifiedSignature }`) is the signed part's own .SIGN. entry when it has one and
   otherwise the body of an entry of the first member that verifies for a
   configured key over the remaining bytes — never anything else *)
Theorem c04_accepted_signature_field : forall B D raw hash verify parse_text keys a idx,
  parse_repository_index B D raw hash verify parse_text true keys a = POk idx ->
  exists m1 rest i0, a = m1 :: rest /\ index_from_archive parse_text rest = POk i0 /\
    match i_sig i0 with
    | Some sg => i_sig idx = Some sg
    | None => exists e alg a' key, i_sig idx = Some (e_body e) /\ In e (m_entries m1) /\
                e_name e = sig_entry_name alg key /\ supported alg = Some a' /\ In key keys /\
                verify key a' (hash a' (raw rest)) (e_body e) = true
    end.
Proof. exact accept_signature_field. Qed.
Print Assumptions c04_accepted_signature_field.

(* the verification loop (`for _, sig := range sigs`, flag `verified`): the signature
   that is used is the FIRST one, in the order of the entries, that verifies; every
   one before it failed; the loop ends unverified exactly when none verifies *)
Theorem c04_first_verifying_signature_wins : forall (ok : sigrec -> bool) sigs,
  (forall s, verify_loop ok sigs = Some s ->
     ok s = true /\ exists before after, sigs = before ++ s :: after /\ forallb (fun x => negb (ok x)) before = true) /\
  (verify_loop ok sigs = None <-> existsb ok sigs = false).
Proof.
  intros ok sigs. split; [|apply verify_loop_none].
  intros s H. destruct (verify_loop_some ok sigs s H) as (_ & A & B). split; [exact A | exact B].
Qed.
Print Assumptions c04_first_verifying_signature_wins.

(* the model meets the readable statement the validator decides *)
Theorem c04_holds : forall B D raw hash verify parse_text keys a idx,
  parse_repository_index B D raw hash verify parse_text true keys a = POk idx ->
  Holds B D raw hash verify parse_text keys a (Some (i_pkgs idx)).
Proof. exact model_holds. Qed.
Print Assumptions c04_holds.

(* rejections: anything not authentic in the sense above is an error ... *)
Theorem c04_reject_not_authentic : forall B D raw hash verify parse_text keys m1 rest,
  ~ Authentic B D raw hash verify keys m1 rest ->
  parse_repository_index B D raw hash verify parse_text true keys (m1 :: rest) = PErr.
Proof. exact reject_not_authentic. Qed.
Print Assumptions c04_reject_not_authentic.

(* ... in particular an archive whose first member has no signature-named entry, *)
Theorem c04_reject_unsigned : forall B D raw hash verify parse_text keys m1 rest,
  (forall e alg key, In e (m_entries m1) -> e_name e <> sig_entry_name alg key) ->
  parse_repository_index B D raw hash verify parse_text true keys (m1 :: rest) = PErr.
Proof. exact reject_unsigned. Qed.
Print Assumptions c04_reject_unsigned.

(* one signed only by keys that are not configured, *)
Theorem c04_reject_unknown_key : forall B D raw hash verify parse_text keys m1 rest,
  (forall e alg key, In e (m_entries m1) -> e_name e = sig_entry_name alg key -> ~ In key keys) ->
  parse_repository_index B D raw hash verify parse_text true keys (m1 :: rest) = PErr.
Proof. exact reject_unknown_keys. Qed.
Print Assumptions c04_reject_unknown_key.

(* one none of whose entries verifies for a configured key over the remaining
   bytes (altered content, altered signature, signature over other content), *)
Theorem c04_reject_unverified : forall B D raw hash verify parse_text keys m1 rest,
  (forall e key a, In e (m_entries m1) -> In key keys -> verify key a (hash a (raw rest)) (e_body e) = false) ->
  parse_repository_index B D raw hash verify parse_text true keys (m1 :: rest) = PErr.
Proof. exact reject_unverified. Qed.
Print Assumptions c04_reject_unverified.

(* one whose entries for configured keys all have a type that is not verified
   (RSA512, DSA — or anything the switch read from the source does not map to a
   digest): such an entry never counts as "a signature with a known key"
   (seeded change C04-5 made it count), *)
Theorem c04_reject_only_unverifiable_types : forall B D raw hash verify parse_text keys m1 rest,
  (forall e t key, In e (m_entries m1) -> e_name e = sig_entry_name t key -> In key keys -> supported t = None) ->
  parse_repository_index B D raw hash verify parse_text true keys (m1 :: rest) = PErr.
Proof.
  intros B D raw hash verify pt keys m1 rest H. apply reject_not_authentic.
  intros (e & t & a & key & He & Hn & S & Hk & _). rewrite (H e t key He Hn Hk) in S. discriminate.
Qed.
Print Assumptions c04_reject_only_unverifiable_types.

(* what the `switch signatureType` read from the source does with the four types the
   name pattern admits *)
Theorem c04_signature_types_pinned :
  sig_kind_of "RSA" = KAlg SHA1 /\ sig_kind_of "RSA256" = KAlg SHA256 /\
  sig_kind_of "RSA512" = KSkip /\ sig_kind_of "DSA" = KSkip /\
  forall t a, sig_kind_of t = KAlg a -> supported t = Some a.
Proof. repeat split; try reflexivity. exact sig_kind_supported'. Qed.
Print Assumptions c04_signature_types_pinned.

(* and everything when no key is configured or there is no gzip member *)
Theorem c04_reject_no_keys : forall B D raw hash verify parse_text a,
  parse_repository_index B D raw hash verify parse_text true [] a = PErr.
Proof. exact reject_no_keys. Qed.
Print Assumptions c04_reject_no_keys.

Theorem c04_reject_empty_archive : forall B D raw hash verify parse_text keys,
  parse_repository_index B D raw hash verify parse_text true keys [] = PErr.
Proof. exact reject_empty_archive. Qed.
Print Assumptions c04_reject_empty_archive.

(* the only names the signature pass tolerates are the ones the generated
   regular expression matches; they all start with the prefix under which the
   index reader files an entry as a signature, and are never the names it takes
   packages or the description from (proved through Base/Regex.v's verified
   matcher on the regular expression read from index.go) *)
Theorem c04_tolerated_names_are_signatures : forall keys es sigs e,
  sig_pass keys es = Ok sigs -> In e es ->
  full_match signature_file_regex (e_name e) = true /\
  has_prefix sign_prefix (e_name e) = true /\
  e_name e <> apk_index_filename /\ e_name e <> description_filename.
Proof.
  intros keys es sigs e H He. pose proof (sig_pass_names keys es sigs H e He) as F.
  split; [exact F | apply tolerated_names_disjoint; exact F].
Qed.
Print Assumptions c04_tolerated_names_are_signatures.

(* opt-outs: checking is skipped exactly when signatures are ignored or the
   index URL is IndexURL(repo, arch) of a listed repository; without checking
   the archive is simply parsed *)
Theorem c04_optout_exact : forall ign listed index arch,
  should_check ign listed index arch = true <-> CheckRequired ign listed index arch.
Proof. exact should_check_iff. Qed.
Print Assumptions c04_optout_exact.

Theorem c04_index_url_pinned :
  index_url_args = ["repo"; "arch"; "indexFilename"] /\
  forall repo arch, index_url repo arch = (repo ++ "/" ++ arch ++ "/APKINDEX.tar.gz")%string.
Proof. split; [reflexivity | exact index_url_spec]. Qed.
Print Assumptions c04_index_url_pinned.

(* inside the stated envelope the tar walk of the model never answers
   "not modelled", so no theorem above holds for that reason *)
Theorem c04_envelope : forall parse_text a,
  toks_modelled None (toks_of a) = true -> index_from_archive parse_text a <> PUnmodelled.
Proof. intros pt a H. apply read_toks_modelled; exact H. Qed.
Print Assumptions c04_envelope.

(* the boolean validators run on the implementation's observed results decide
   exactly the readable statements *)
Theorem c04_validator_decides : forall B D raw hash verify parse_text keys a o,
  holds_tags B D raw hash verify parse_text keys a o = [] <->
  Holds B D raw hash verify parse_text keys a o.
Proof. exact holds_tags_iff. Qed.
Print Assumptions c04_validator_decides.

Theorem c04_optout_validator_decides : forall ign listed index arch,
  check_required_b ign listed index arch = true <-> CheckRequired ign listed index arch.
Proof. exact check_required_b_iff. Qed.
Print Assumptions c04_optout_validator_decides.

(* ---- non-vacuity --------------------------------------------------------------- *)
Definition ex_key := "k.rsa.pub".
Definition ex_sig : list N := [1; 2; 3]%N.
Definition ex_text : list N := [80; 58; 97]%N.
Definition ex_verify (key : string) (a : halg) (d : list member) (sig : list N) : bool :=
  String.eqb key ex_key && halg_eqb a SHA256 && list_eqb N.eqb sig ex_sig.
Definition ex_parse (b : list N) : option (list string) :=
  if list_eqb N.eqb b ex_text then Some ["a=1"; "b=2"] else if list_eqb N.eqb b (firstn 2 ex_text) then Some ["a=1"] else None.
Definition ex_rest : list member :=
  [ {| m_entries := [ {| e_name := "APKINDEX"; e_body := ex_text |} ]; m_pending := None; m_tail := TEOA |} ].
Definition ex_first (p : option meta) (t : tail) : member :=
  {| m_entries := [ {| e_name := ".SIGN.RSA256.k.rsa.pub"; e_body := ex_sig |} ]; m_pending := p; m_tail := t |}.

(* a validly signed archive is accepted with the signed package list *)
Example c04_accepts_signed :
  exists idx, parse_repository_index (list member) (list member) (fun r => r) (fun _ r => r) ex_verify ex_parse
                true [ex_key] (ex_first None TClean :: ex_rest) = POk idx /\ i_pkgs idx = ["a=1"; "b=2"].
Proof. eexists. split; vm_compute; reflexivity. Qed.

(* the fixed defect C04-F1 (regression witness): with a size record left pending
   by the signature member, parsing the WHOLE archive — what the code did before
   c87da01 — yields a package list that is not the signed one, while the fixed
   model hands on exactly the signed list *)
Example c04_whole_archive_parse_differs :
  let pend := Some {| mt_rename := None; mt_resize := Some 2%N |} in
  exists i_whole i_signed i_got,
    index_from_archive ex_parse (ex_first pend TClean :: ex_rest) = POk i_whole /\
    index_from_archive ex_parse ex_rest = POk i_signed /\
    i_pkgs i_whole <> i_pkgs i_signed /\
    parse_repository_index (list member) (list member) (fun r => r) (fun _ r => r) ex_verify ex_parse
      true [ex_key] (ex_first pend TClean :: ex_rest) = POk i_got /\
    i_pkgs i_got = i_pkgs i_signed /\ i_sig i_got = Some ex_sig.
Proof. eexists _, _, _. repeat split; try (vm_compute; reflexivity). vm_compute. discriminate. Qed.

(* C04-F2: an end-of-archive marker in the signature member used to end the
   walk before the signed bytes *)
Example c04_whole_archive_parse_stops_early :
  exists i_whole i_signed,
    index_from_archive ex_parse (ex_first None TEOA :: ex_rest) = POk i_whole /\ i_pkgs i_whole = [] /\
    parse_repository_index (list member) (list member) (fun r => r) (fun _ r => r) ex_verify ex_parse
      true [ex_key] (ex_first None TEOA :: ex_rest) = POk i_signed /\ i_pkgs i_signed = ["a=1"; "b=2"].
Proof. eexists _, _. repeat split; vm_compute; reflexivity. Qed.

(* hypotheses of the rejection theorems are satisfiable *)
Example c04_rejects_unknown_key :
  parse_repository_index (list member) (list member) (fun r => r) (fun _ r => r) ex_verify ex_parse
    true ["other.rsa.pub"] (ex_first None TClean :: ex_rest) = PErr.
Proof. vm_compute. reflexivity. Qed.
Example c04_optout_example :
  should_check false ["https://r/os"] "https://r/os/x86_64/APKINDEX.tar.gz" "x86_64" = false /\
  should_check false ["https://r/os/"] "https://r/os/x86_64/APKINDEX.tar.gz" "x86_64" = true.
Proof. split; vm_compute; reflexivity. Qed.

(* ---- the process-wide index cache (GetRepositoryIndexes, indexCache.get) ------
   For EVERY history of calls in one process — any repositories, any per-call key
   sets, ignore flags and exemption lists, any mix of cached and uncached
   transports — the cache model with the key of fix C04-F3 (URL + verification
   context) answers each call exactly as a cache-less evaluation of that call
   would, and therefore every index a call gets back was authorised BY THAT CALL:
   verification off, repository exempted, or signed by a key the call configured.
   Nothing an earlier call accepted leaks into a later one. *)
Theorem c04_cache_respects_context : forall signer loc arch cached cs,
  let out := run_history signer loc arch cached vctx vctx_eqb (ctx_fixed loc arch) [] cs in
  out = map (fresh_call signer loc arch) cs /\ HistoryHolds signer loc arch out.
Proof. exact cache_fixed_sound. Qed.
Print Assumptions c04_cache_respects_context.

(* the same for ANY key discipline that separates verification contexts *)
Theorem c04_cache_sound_for_separating_keys :
  forall signer loc arch cached (K : Type) (K_eqb : K -> K -> bool) (ctx : repo_call -> nat -> K),
  (forall a b, K_eqb a b = true -> a = b) ->
  (forall c c' r, ctx c r = ctx c' r -> authorised_b signer loc arch c r = authorised_b signer loc arch c' r) ->
  forall cs, HistoryHolds signer loc arch (run_history signer loc arch cached K K_eqb ctx [] cs).
Proof. intros signer loc arch cached K K_eqb ctx H1 H2 cs. exact (proj2 (cache_sound signer loc arch cached K K_eqb ctx H1 H2 cs)). Qed.
Print Assumptions c04_cache_sound_for_separating_keys.

(* what the source says the key is made of, on this run: every site that stores
   or looks up a parsed index uses a key that depends on verificationContext(...),
   which consults shouldCheckSignatureForIndex and the contents of the keys *)
Theorem c04_cache_key_shape :
  forallb snd index_cache_key_sites = true /\ index_cache_key_sites <> [] /\ index_cache_ctx_reads = (true, true).
Proof. split; [vm_compute; reflexivity|]. split; [discriminate | reflexivity]. Qed.
Print Assumptions c04_cache_key_shape.

(* with the URL-only key the code had before the fix the statement is false
   (finding C04-F3, now `fixed:`): an index stored by an ignore-signatures call is
   handed to a later call that trusts only another key *)
Theorem c04_cache_url_only_refuted :
  ~ HistoryHolds w_signer w_loc "x86_64"
      (run_history w_signer w_loc "x86_64" (fun _ => true) unit (fun _ _ => true) ctx_url_only [] w_calls) /\
  history_tags w_signer w_loc "x86_64"
      (run_history w_signer w_loc "x86_64" (fun _ => true) unit (fun _ _ => true) ctx_url_only [] w_calls)
    = ["viol:index-cache-ignores-verification-context"%string].
Proof. exact cache_url_only_refuted. Qed.
Print Assumptions c04_cache_url_only_refuted.

(* the validator run on the implementation's observed histories decides the statement *)
Theorem c04_history_validator_decides : forall signer loc arch calls,
  history_tags signer loc arch calls = [] <-> HistoryHolds signer loc arch calls.
Proof. exact history_validator_decides. Qed.
Print Assumptions c04_history_validator_decides.

(* ---- parseRepositoryIndex over the BYTES of the archive (Model/IndexBytes.v) ---------
   The archive is a byte string b. The gzip reader of the signature pass, archive/tar,
   the hashes, RSAVerifyDigest and IndexFromArchive are universally quantified: nothing
   is assumed about them — in particular not where the gzip reader stops. The key map
   carries key MATERIAL (name -> bytes).

   Acceptance requires a verified entry: an entry of the signature stream named
   .SIGN.<type>.<key> whose type the `switch signatureType` read from the source maps to
   a digest (so RSA or RSA256 — an RSA512 or DSA entry, an entry for an unknown key, an
   entry that does not verify never counts), whose key name is configured, and whose body
   verifies UNDER THE BYTES STORED FOR THAT NAME over the digest, of that type, of
   b[readBytes:] — and the index handed on is IndexFromArchive of those very bytes. *)
Theorem c04_accept_requires_verified_entry :
  forall D gz_first tar_entries hash verify index_of_bytes keys b idx,
  parse_repository_index_bytes D gz_first tar_entries hash verify index_of_bytes true keys b = POk idx ->
  exists tarb n es e t kname kb a i0,
    gz_first b = Some (tarb, n) /\ tar_entries tarb = Some es /\ In e es /\
    e_name e = sig_entry_name t kname /\ sig_kind_of t = KAlg a /\ supported t = Some a /\
    In (kname, kb) keys /\
    verify kb a (hash a (skipn n b)) (e_body e) = true /\
    index_of_bytes (skipn n b) = Some i0 /\
    i_pkgs idx = i_pkgs i0 /\ i_desc idx = i_desc i0 /\
    i_sig idx = match i_sig i0 with Some sg => Some sg | None => Some (e_body e) end.
Proof. exact accept_requires_verified_entry. Qed.
Print Assumptions c04_accept_requires_verified_entry.

(* THE MUTANT ORACLE. Let Signed be the byte strings the holders of the configured keys
   signed, and assume the signature oracle is sound for them (what verifies under a
   configured key's bytes over the digest of x was signed: x is in Signed —
   unforgeability and collision resistance, idealised; a hypothesis of the theorem, named
   in the trusted base). Then for EVERY byte string b — every bit flip, byte change,
   truncation, deletion, insertion, splice, cross-over, appended member or hand-made tar
   block applied to a signed archive — the verdict is "rejected", or "accepted" with the
   package list IndexFromArchive reads from a suffix of b that is a signed byte string. *)
Theorem c04_mutant_oracle :
  forall D gz_first tar_entries hash verify index_of_bytes (Signed : list N -> Prop) keys,
  (forall kname kb a x sg, In (kname, kb) keys -> verify kb a (hash a x) sg = true -> Signed x) ->
  forall b,
  MutantHolds Signed (pkgs_of_bytes index_of_bytes) b
    (verdict_of (parse_repository_index_bytes D gz_first tar_entries hash verify index_of_bytes true keys b)).
Proof. exact mutant_oracle. Qed.
Print Assumptions c04_mutant_oracle.

(* a change that reaches the signed bytes (no suffix of the mutant is a signed byte
   string) is rejected *)
Theorem c04_mutant_not_signed_rejected :
  forall D gz_first tar_entries hash verify index_of_bytes (Signed : list N -> Prop) keys,
  (forall kname kb a x sg, In (kname, kb) keys -> verify kb a (hash a x) sg = true -> Signed x) ->
  forall b, (forall n, ~ Signed (skipn n b)) ->
  parse_repository_index_bytes D gz_first tar_entries hash verify index_of_bytes true keys b = PErr.
Proof. exact mutant_not_signed_rejected. Qed.
Print Assumptions c04_mutant_not_signed_rejected.

(* a change outside the signed bytes does not reach what is parsed: when x0 is the only
   byte string ever signed, whatever is done to the archive the verdict is "rejected" or
   "accepted with the package list of x0", the mutant then ending with x0 *)
Theorem c04_mutant_accepted_is_original :
  forall D gz_first tar_entries hash verify index_of_bytes keys x0 b,
  (forall kname kb a x sg, In (kname, kb) keys -> verify kb a (hash a x) sg = true -> x = x0) ->
  verdict_of (parse_repository_index_bytes D gz_first tar_entries hash verify index_of_bytes true keys b) = None \/
  (verdict_of (parse_repository_index_bytes D gz_first tar_entries hash verify index_of_bytes true keys b)
     = pkgs_of_bytes index_of_bytes x0 /\ exists n, skipn n b = x0).
Proof. exact mutant_accepted_is_original. Qed.
Print Assumptions c04_mutant_accepted_is_original.

(* the validator the sweep stage feeds with the real code's verdict on every mutant
   decides that statement: an empty tag list means the oracle holds for every byte string
   that ends with the rendered suffix, whatever precedes it *)
Theorem c04_mutant_validator_sound : forall signed suffix ending verdict,
  mutant_tags signed suffix ending verdict = [] ->
  forall pre, MutantHolds (SignedIn signed) (fun x => assoc_bytes x signed) (pre ++ suffix) verdict.
Proof. exact mutant_tags_sound. Qed.
Print Assumptions c04_mutant_validator_sound.

Theorem c04_mutant_validator_decides : forall signed suffix ending verdict,
  mutant_tags signed suffix ending verdict = [] <-> SuffixHolds signed suffix verdict.
Proof. exact mutant_tags_iff. Qed.
Print Assumptions c04_mutant_validator_decides.

(* the byte-level model and the member-structure model agree whenever the readers decode
   the byte string the way the structure pictures it (first gzip stream = first member,
   the gzip reader stops at its end, the rest are the raw bytes of the other members) *)
Theorem c04_bytes_model_refines_structure :
  forall D gz_first tar_entries hash verify index_of_bytes parse_text enc1 tarb1 raw keys m1 rest,
  gz_first (enc1 m1 ++ raw rest) = Some (tarb1 m1, List.length (enc1 m1)) ->
  tar_entries (tarb1 m1) = Some (m_entries m1) ->
  pres_of_option (index_of_bytes (raw rest)) = index_from_archive parse_text rest ->
  parse_repository_index_bytes D gz_first tar_entries hash verify index_of_bytes true keys (enc1 m1 ++ raw rest) =
  parse_repository_index (list N) D raw hash (fun name => verify (key_bytes keys name)) parse_text true (key_names keys) (m1 :: rest).
Proof. exact bytes_model_refines_structure. Qed.
Print Assumptions c04_bytes_model_refines_structure.

(* what the source says, on this run, about the statements the two models transcribe:
   the test after the signature loop, the flag of the verification loop and the only
   place it is set (under RSAVerifyDigest(...) == nil, then break), the four arguments of
   RSAVerifyDigest, and that the bytes that are hashed are the bytes that are parsed,
   b[len(b)-buf.Len():] for the reader buf the gzip reader consumes *)
Theorem c04_accept_guards_shape :
  no_sig_guard = "len($sigs)==0" /\ verified_init = "false" /\ verified_guard = "!$verified" /\
  verified_set_when = "sign.RSAVerifyDigest($digest[$sig.DigestAlgorithm],$sig.DigestAlgorithm,$sig.Signature,$keys[$sig.KeyID])==nil" /\
  verified_then = "break" /\
  verify_call = ["$digest[$sig.DigestAlgorithm]"; "$sig.DigestAlgorithm"; "$sig.Signature"; "$keys[$sig.KeyID]"].
Proof. repeat split; reflexivity. Qed.
Print Assumptions c04_accept_guards_shape.

Theorem c04_hashed_is_parsed_shape :
  digest_over = parsed_checked /\ digest_over = "$b[len($b)-bytes.NewReader($b).Len():]" /\
  gzip_reads_from = "bytes.NewReader($b)" /\ parsed_unchecked = "$b" /\
  signature_fill = "if $index.Signature==nil $index.Signature=$verifiedSignature".
Proof. repeat split; reflexivity. Qed.
Print Assumptions c04_hashed_is_parsed_shape.

(* the exemption test of shouldCheckSignatureForIndex as read from the source (a range
   loop or slices.ContainsFunc over opts.noSignatureIndexes): the exact comparison of
   IndexURL(elem, arch) with the index URL — c04_optout_exact above is about the model
   that interprets this text *)
Theorem c04_exempt_match_exact :
  exempt_match = "IndexURL($elem,$arch)==$index" /\
  should_check_shape = ["if $opts.ignoreSignatures return false";
                        "if exists $elem in $opts.noSignatureIndexes: IndexURL($elem,$arch)==$index return false";
                        "return true"] /\
  forall elem arch index, exempt_test elem arch index = String.eqb (elem ++ "/" ++ arch ++ "/APKINDEX.tar.gz")%string index.
Proof.
  split; [reflexivity|]. split; [reflexivity|]. intros. rewrite exempt_test_spec, index_url_spec. reflexivity.
Qed.
Print Assumptions c04_exempt_match_exact.

(* ---- verificationContext: the part of the index-cache key that names the context ------
   Model/IndexVctx.v interprets what goextract read from the source (guard, literals,
   sorted names, what is written into the hash per key). Under a collision-free hash the
   context string determines whether verification applies and, when it does, the SET OF
   (key name, key bytes) PAIRS — a context that left out the key bytes (seeded change
   C04-4) changes vctx_writes and breaks this proof. *)
Theorem c04_vctx_injective : forall (H : string -> string),
  (forall x y, H x = H y -> x = y) ->
  forall c1 k1 c2 k2,
  verification_context H c1 k1 = verification_context H c2 k2 ->
  c1 = c2 /\ (c1 = true -> forall p, In p k1 <-> In p k2).
Proof. exact verification_context_injective. Qed.
Print Assumptions c04_vctx_injective.

Theorem c04_vctx_shape :
  vctx_guard = "!shouldCheckSignatureForIndex($u,$arch,$opts)" /\ vctx_sorted = true /\
  vctx_domain = "names of $keys" /\ vctx_hash = "sha256.New" /\ vctx_encoding = "hex.EncodeToString($h.Sum(nil))" /\
  forall n k, vctx_entry n k = (field n ++ field k)%string.
Proof. repeat split; try reflexivity. exact vctx_entry_spec. Qed.
Print Assumptions c04_vctx_shape.

(* ... and with that string as the cache key (key identifiers naming (file name, bytes)
   pairs injectively) every history of calls is answered as without a cache and every
   index a call gets back was authorised by that call *)
Theorem c04_cache_real_context_sound : forall (H : string -> string),
  (forall x y, H x = H y -> x = y) ->
  forall signer loc arch (material : string -> string * string),
  (forall a b, material a = material b -> a = b) ->
  forall cached cs,
  let out := run_history signer loc arch cached string String.eqb (ctx_real H loc arch material) [] cs in
  out = map (fresh_call signer loc arch) cs /\ HistoryHolds signer loc arch out.
Proof. exact cache_real_context_sound. Qed.
Print Assumptions c04_cache_real_context_sound.

(* ---- non-vacuity of the new hypotheses ------------------------------------------------- *)
(* a signature oracle that is sound for Signed = {x0}, and an archive it accepts *)
Definition ex_x0 : list N := [7; 7; 7]%N.
Definition ex_b : list N := [1; 2]%N ++ ex_x0.
Definition ex_gz (b : list N) : option (list N * nat) := Some ([9]%N, 2%nat).
Definition ex_tar (_ : list N) : option (list entry) := Some [ {| e_name := ".SIGN.RSA256.k.rsa.pub"; e_body := ex_sig |} ].
Definition ex_vb (kb : list N) (a : halg) (d : list N) (sg : list N) : bool :=
  list_eqb N.eqb kb [42]%N && halg_eqb a SHA256 && list_eqb N.eqb d ex_x0 && list_eqb N.eqb sg ex_sig.
Definition ex_iob (x : list N) : option index :=
  if list_eqb N.eqb x ex_x0 then Some {| i_pkgs := ["a=1"]; i_desc := []; i_sig := None |} else None.
Example c04_mutant_oracle_hypothesis_satisfiable :
  (forall kname kb a x sg, In (kname, kb) [(ex_key, [42]%N)] -> ex_vb kb a ((fun _ y => y) a x) sg = true -> x = ex_x0) /\
  verdict_of (parse_repository_index_bytes (list N) ex_gz ex_tar (fun _ y => y) ex_vb ex_iob true [(ex_key, [42]%N)] ex_b) = Some ["a=1"] /\
  parse_repository_index_bytes (list N) ex_gz ex_tar (fun _ y => y) ex_vb ex_iob true [(ex_key, [42]%N)] ([1; 2; 7; 7; 8]%N) = PErr.
Proof.
  split; [|split; vm_compute; reflexivity].
  intros kname kb a x sg _ H. unfold ex_vb in H. repeat (apply andb_true_iff in H; destruct H as [H ?]).
  apply list_N_eqb_spec. assumption.
Qed.

(* the identity is a collision-free hash; two contexts that differ in key bytes only *)
Example c04_vctx_example :
  verification_context (fun x => x) true [("k.rsa.pub", "A")] <> verification_context (fun x => x) true [("k.rsa.pub", "B")] /\
  verification_context (fun x => x) true [("b", "y"); ("a", "x")] = verification_context (fun x => x) true [("a", "x"); ("b", "y")] /\
  verification_context (fun x => x) false [("a", "x")] = "unverified".
Proof. split; [vm_compute; discriminate | split; vm_compute; reflexivity]. Qed.

(* the hypothesis of c04_reject_only_unverifiable_types is satisfiable: a first member
   whose only entry is of type RSA512 for the configured key *)
Example c04_only_unverifiable_types_example :
  let m1 := {| m_entries := [ {| e_name := ".SIGN.RSA512.k.rsa.pub"; e_body := ex_sig |} ]; m_pending := None; m_tail := TClean |} in
  (forall e t key, In e (m_entries m1) -> e_name e = sig_entry_name t key -> In key [ex_key] -> supported t = None) /\
  parse_repository_index (list member) (list member) (fun r => r) (fun _ r => r) (fun _ _ _ _ => true) ex_parse true [ex_key] (m1 :: ex_rest) = PErr.
Proof.
  split; [|vm_compute; reflexivity].
  intros e t key [<-|[]] Hn [<-|[]]. unfold sig_entry_name, ex_key in Hn. simpl in Hn.
  inversion Hn as [E]. change "RSA512.k.rsa.pub" with ("RSA512" ++ ".k.rsa.pub")%string in E.
  change (t ++ String "." "k.rsa.pub")%string with (t ++ ".k.rsa.pub")%string in E.
  apply sapp_inj_r in E. subst t. reflexivity.
Qed.

(* ---- wave 3: the multi-architecture wiring ----------------------------------------------
   ResolveWorld of a context loads its own indexes and those of every other entry of its
   ByArch map (they feed the cross-architecture filter and so steer resolution). With the
   two ignore-signature arguments as the source has them on this run, for ALL sets of
   contexts (own key rings, flags, exemptions, any ByArch wiring) and all indexes: whenever
   the loads succeed, every index that reaches resolution — own or sibling — was authorised:
   verification off for the request, repository exempted in the context it belongs to, or
   signed by a key configured there. *)
Theorem c04_wiring_verifies_every_index : forall ctxs signer,
  WiringHolds ctxs signer (fun a => match resolve_loads ctxs signer a with Some _ => true | None => false end).
Proof. exact wiring_model_holds. Qed.
Print Assumptions c04_wiring_verifies_every_index.

(* what the source says about the two loads and about what APK.GetRepositoryIndexes hands on *)
Theorem c04_wiring_shape :
  resolve_own_ignore_arg = "$a.ignoreSignatures" /\ resolve_sibling_ignore_arg = "$a.ignoreSignatures" /\
  resolve_sibling_receiver = "$other" /\ resolve_sibling_range = "$a.ByArch" /\
  apk_index_options = ["WithIgnoreSignatures($ignore)"; "WithIgnoreSignatureForIndexes($a.noSignatureIndexes...)"].
Proof. repeat split; reflexivity. Qed.
Print Assumptions c04_wiring_shape.

(* a sibling load that ignores signatures (seeded change C04-7) refutes the statement: an
   unsigned index of another architecture reaches resolution *)
Theorem c04_wiring_sibling_ignore_refuted :
  ~ WiringHolds wit_ctxs wit_signer
      (fun a => match resolve_loads_with wit_ctxs wit_signer "$a.ignoreSignatures" "true" a with Some _ => true | None => false end) /\
  wiring_tags wit_ctxs wit_signer
      (fun a => match resolve_loads_with wit_ctxs wit_signer "$a.ignoreSignatures" "true" a with Some _ => true | None => false end)
    = ["viol:unverified-sibling-index-reaches-resolution"].
Proof. exact wiring_sibling_ignore_refuted. Qed.
Print Assumptions c04_wiring_sibling_ignore_refuted.

Theorem c04_wiring_validator_decides : forall ctxs signer ok,
  wiring_tags ctxs signer ok = [] <-> WiringHolds ctxs signer ok.
Proof. exact wiring_tags_iff. Qed.
Print Assumptions c04_wiring_validator_decides.

(* ---- wave 3: local index files rewritten between calls --------------------------------------
   The local-file branch of the index cache (entry per (repository, verification context):
   mtime + outcome, a FAILURE remembered like a success, re-read on a later mtime) over every
   history of rewrites and calls, from any initial files: every version a call returns is one
   the repository carried and is authorised by that call, and a repository whose version in
   place is visibly the newest (mtime later than every earlier one) is used only if THAT
   version is authorised by the call — however often the call is repeated and whatever was
   cached before. (A rewrite that keeps or lowers the mtime cannot be seen by this protocol;
   what is returned then is still a version that was verified in the same context.) *)
Theorem c04_local_rewrites_sound : forall loc arch evs w,
  FilesHold loc arch w (answered evs (frun loc arch vctx vctx_eqb (ctx_fixed loc arch) w [] evs)).
Proof. exact files_fixed_holds. Qed.
Print Assumptions c04_local_rewrites_sound.

Theorem c04_files_validator_decides : forall loc arch evs w,
  files_tags loc arch w evs = [] <-> FilesHold loc arch w evs.
Proof. intros. apply files_tags_iff. Qed.
Print Assumptions c04_files_validator_decides.

(* non-vacuity: good, replaced by a visibly newer unsigned file, loaded twice, repaired *)
Example c04_local_rewrites_example :
  let c := {| rc_repos := [0%nat]; rc_keys := ["alice"]; rc_ignore := false; rc_exempt := []; o_err := false; o_got := [] |} in
  frun (fun _ => "repo") "x86_64" vctx vctx_eqb (ctx_fixed (fun _ => "repo") "x86_64") (fun _ => []) []
    [ EvRewrite 0%nat {| fv_id := 1%nat; fv_signer := Some "alice"; fv_mtime := 10%N; fv_parses := true |}; EvCall c [];
      EvRewrite 0%nat {| fv_id := 2%nat; fv_signer := None; fv_mtime := 20%N; fv_parses := true |}; EvCall c []; EvCall c [];
      EvRewrite 0%nat {| fv_id := 3%nat; fv_signer := Some "alice"; fv_mtime := 30%N; fv_parses := true |}; EvCall c [] ]
  = [AnsRewrite; AnsCall false [(0%nat, 1%nat)]; AnsRewrite; AnsCall true []; AnsCall true []; AnsRewrite; AnsCall false [(0%nat, 3%nat)]].
Proof. vm_compute. reflexivity. Qed.

(* ---- RSAVerifyDigest in stages (final round) -------------------------------------------------
   The verify oracle of the byte-level model is opened up: Model/IndexRsa.v is the meaning of
   the statement list goextract reads from signature/rsa.go (digest length, first PEM block,
   PKIX parse, RSA type assertion, PKCS1v15), the four library calls being universally
   quantified. A verification succeeds exactly when the digest has the length of its type,
   the key file's first PEM block is a PKIX RSA public key, and PKCS1v15 accepts under it. *)
Theorem c04_rsa_verify_stages : forall DER K D digest_fits pem_first_block parse_pkix pkcs1v15 kb a d sig,
  rsa_verify_digest (list N) DER K D digest_fits pem_first_block parse_pkix pkcs1v15 kb a d sig = true <->
  digest_fits a d = true /\
  exists k, pkix_rsa_key (list N) DER K pem_first_block parse_pkix kb = Some k /\ pkcs1v15 k a d sig = true.
Proof. exact rsa_verify_digest_iff. Qed.
Print Assumptions c04_rsa_verify_stages.

(* a key file that is not a PKIX RSA key (no PEM block, a first block that is not PKIX DER —
   a PKCS#1 "RSA PUBLIC KEY" block, junk in front of the genuine block —, an ECDSA key)
   never verifies anything *)
Theorem c04_key_file_not_pkix_rsa_never_verifies :
  forall DER K D digest_fits pem_first_block parse_pkix pkcs1v15 kb,
  pkix_rsa_key (list N) DER K pem_first_block parse_pkix kb = None ->
  forall a d sig, rsa_verify_digest (list N) DER K D digest_fits pem_first_block parse_pkix pkcs1v15 kb a d sig = false.
Proof. exact not_pkix_rsa_never_verifies. Qed.
Print Assumptions c04_key_file_not_pkix_rsa_never_verifies.

(* parseRepositoryIndex over bytes with RSAVerifyDigest as its verifier: acceptance requires a
   configured key FILE whose first PEM block is a PKIX RSA public key under which an entry of a
   verifiable type verifies over the digest (of the right length) of the bytes that are parsed *)
Theorem c04_accept_requires_pkix_rsa_key :
  forall DER K D digest_fits pem_first_block parse_pkix pkcs1v15 gz_first tar_entries hash index_of_bytes keys b idx,
  parse_repository_index_bytes D gz_first tar_entries hash
    (rsa_verify_digest (list N) DER K D digest_fits pem_first_block parse_pkix pkcs1v15) index_of_bytes true keys b = POk idx ->
  exists n e t kname kb a k,
    In (kname, kb) keys /\ e_name e = sig_entry_name t kname /\ supported t = Some a /\
    pkix_rsa_key (list N) DER K pem_first_block parse_pkix kb = Some k /\
    digest_fits a (hash a (skipn n b)) = true /\
    pkcs1v15 k a (hash a (skipn n b)) (e_body e) = true.
Proof. exact accept_requires_pkix_rsa_key. Qed.
Print Assumptions c04_accept_requires_pkix_rsa_key.

Theorem c04_no_rsa_key_rejects_everything :
  forall DER K D digest_fits pem_first_block parse_pkix pkcs1v15 gz_first tar_entries hash index_of_bytes keys,
  (forall kname kb, In (kname, kb) keys -> pkix_rsa_key (list N) DER K pem_first_block parse_pkix kb = None) ->
  forall b, parse_repository_index_bytes D gz_first tar_entries hash
    (rsa_verify_digest (list N) DER K D digest_fits pem_first_block parse_pkix pkcs1v15) index_of_bytes true keys b = PErr.
Proof. exact no_rsa_key_rejects_everything. Qed.
Print Assumptions c04_no_rsa_key_rejects_everything.

(* the statement list as read from the source on this run *)
Theorem c04_rsa_verify_shape : rsa_verify_steps = rsa_verify_steps_expected /\ rsa_steps_known = true.
Proof. split; reflexivity. Qed.
Print Assumptions c04_rsa_verify_shape.

(* non-vacuity: a key file with a PKIX RSA key in its first block verifies the right signature;
   the same key behind a junk first block does not *)
Example c04_rsa_stages_example :
  let pem (kb : list N) := match kb with 1%N :: r => Some r | 2%N :: _ => Some [0%N] | _ => None end in
  let pkix (der : list N) := match der with [7%N] => Some (PubRSA 7%N) | [8%N] => Some PubOther | _ => None end in
  let pk (k : N) (a : halg) (d : list N) (sg : list N) := N.eqb k 7 && list_eqb N.eqb sg d in
  rsa_verify_digest (list N) (list N) N (list N) (fun _ _ => true) pem pkix pk [1; 7]%N SHA256 [5]%N [5]%N = true /\
  rsa_verify_digest (list N) (list N) N (list N) (fun _ _ => true) pem pkix pk [2; 1; 7]%N SHA256 [5]%N [5]%N = false /\
  rsa_verify_digest (list N) (list N) N (list N) (fun _ _ => true) pem pkix pk [1; 8]%N SHA256 [5]%N [5]%N = false /\
  pkix_rsa_key (list N) (list N) N pem pkix [9]%N = None.
Proof. repeat split; vm_compute; reflexivity. Qed.

(* ---- remote indexes served with an ETag (final round) -----------------------------------------
   The remote branch of the index cache: a result — index or error — per (repository, verification
   context, ETag), looked up by the exact ETag the server announces, the entry of the previously
   recorded ETag forgotten when a new one is fetched. Over every history in which the server's index
   changes between calls (the version record's fv_mtime carries the ETag's number): every version a
   call returns is one the repository served and is authorised by that call, and a repository whose
   version in place has a visibly new ETag (later than every earlier one) is used only if THAT
   version is authorised by the call. (A server that reuses an ETag for other content cannot be
   seen through; what is returned then was still verified in the same context.) *)
Theorem c04_etag_cache_sound : forall loc arch evs w,
  FilesHold loc arch w (answered evs (erun loc arch vctx vctx_eqb (ctx_fixed loc arch) w ([], []) evs)).
Proof. exact etag_fixed_holds. Qed.
Print Assumptions c04_etag_cache_sound.

(* non-vacuity: good under ETag 1, replaced by an unsigned index under ETag 2, asked twice, the server
   goes back to ETag 1 with the good index: fetched again, because the entry of ETag 1 was forgotten *)
Example c04_etag_example :
  let c := {| rc_repos := [0%nat]; rc_keys := ["alice"]; rc_ignore := false; rc_exempt := []; o_err := false; o_got := [] |} in
  erun (fun _ => "repo") "x86_64" vctx vctx_eqb (ctx_fixed (fun _ => "repo") "x86_64") (fun _ => []) ([], [])
    [ EvRewrite 0%nat {| fv_id := 1%nat; fv_signer := Some "alice"; fv_mtime := 1%N; fv_parses := true |}; EvCall c [];
      EvRewrite 0%nat {| fv_id := 2%nat; fv_signer := None; fv_mtime := 2%N; fv_parses := true |}; EvCall c []; EvCall c [];
      EvRewrite 0%nat {| fv_id := 3%nat; fv_signer := Some "alice"; fv_mtime := 1%N; fv_parses := true |}; EvCall c [] ]
  = [AnsRewrite; AnsCall false [(0%nat, 1%nat)]; AnsRewrite; AnsCall true []; AnsCall true []; AnsRewrite; AnsCall false [(0%nat, 3%nat)]].
Proof. vm_compute. reflexivity. Qed.
