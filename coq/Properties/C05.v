(* C05 — Installed package bytes are authenticated end to end.
   Property theorems only; proofs are in Proofs/PkgAuthProofs.v.

   Statements are about Model/PkgAuth.v: expandPackage with verifyExpanded (fix
   6d335fb), ExpandApk's per-file check, cachedPackage / cachePackage, the
   process-wide memo of expanded packages keyed by the pair (URL, checksum
   string) (fixes 9459281, d69e0fd), and the lazy and streaming installs. [b64] is
   base64.StdEncoding.DecodeString, universally quantified like the hashes.
   SHA-1 and SHA-256 are universally quantified functions: the chain theorems
   speak about equality of digests; the consequence for bytes
   (c05_data_authenticated) takes collision resistance as explicit hypotheses.
   [Chain h x] (Spec/PkgAuthSpec.v): the control section's SHA-1 is the checksum
   the handle records (Q1 prefix optional), every non-empty datahash it records
   is the hex SHA-256 of the data section, every regular file matches its
   recorded checksum. *)
From Apko Require Import Base.Prelude Model.PkgAuth Spec.PkgAuthSpec Proofs.PkgAuthProofs.
Open Scope string_scope. Open Scope list_scope.

(* Without a cache the chain holds for every handle, every served package and
   every state: no hypothesis at all. *)
Theorem c05_chain_no_cache : forall sha1 sha256 b64 m h served x k' m',
  expand_package sha1 sha256 b64 m None h served = (XOk x, k', m') -> Chain sha1 sha256 b64 h x.
Proof.
  intros sha1 sha256 b64 m h served x k' m' H. unfold expand_package in H.
  destruct (expand_uncached sha1 sha256 b64 None h served) as [r k1] eqn:E. inversion H; subst.
  eapply (expand_uncached_chain sha1 sha256 b64 None); eauto; exact I.
Qed.
Print Assumptions c05_chain_no_cache.

(* With a cache: if the process memo and the cache directory satisfy their
   invariants and an existing cache destination holds the same member (content
   addressing), every successful expansion — fetched, served from the warm cache,
   or answered from the memo — satisfies the chain, for EVERY handle, and the
   invariants are re-established; with c05_initial_state this extends to every
   sequence of requests of a process and every sequence of processes sharing a
   cache directory. (Unconditional in the handle since the memo key is the pair
   (URL, checksum string): fixes 9459281 and d69e0fd.) *)
Theorem c05_chain : forall sha1 sha256 b64 m k h served r k' m',
  memo_inv sha1 sha256 b64 m -> opt_cache_ok sha1 sha256 k -> opt_dst_same sha1 sha256 k served ->
  expand_package sha1 sha256 b64 m k h served = (r, k', m') ->
  (forall x, r = XOk x -> Chain sha1 sha256 b64 h x) /\ opt_cache_ok sha1 sha256 k' /\ memo_inv sha1 sha256 b64 m'.
Proof. exact expand_package_chain. Qed.
Print Assumptions c05_chain.

Theorem c05_initial_state : forall sha1 sha256 b64,
  memo_inv sha1 sha256 b64 [] /\ cache_ok sha1 sha256 empty_cache.
Proof. intros. split; [intros u r x H; discriminate H | apply empty_cache_ok]. Qed.
Print Assumptions c05_initial_state.

(* the two fixed memo defects as regression witnesses: requests that the
   URL-only key (C05-F1) resp. the joined URL@checksum key (C05-F2) identified
   with an earlier successful one are kept apart by the pair key and refused *)
Theorem c05_memo_key_separates :
  (h_url wit_h1 ++ "@" ++ h_chk wit_h1 = h_url wit_h2 ++ "@" ++ h_chk wit_h2)%string /\
  h_url wit_h1 = h_url wit_h3 /\
  exists r1 k1 m1,
    expand_package idf idf wit_b64 [] (Some empty_cache) wit_h1 (Some wit_apk) = (r1, k1, m1) /\
    (exists x, r1 = XOk x) /\
    fst (fst (expand_package idf idf wit_b64 m1 k1 wit_h2 (Some wit_apk))) = XErr EVerify /\
    fst (fst (expand_package idf idf wit_b64 m1 k1 wit_h3 (Some wit_apk))) = XErr EVerify.
Proof. exact pair_key_separates. Qed.
Print Assumptions c05_memo_key_separates.

(* what gets installed is the regular files of the expanded data section, byte
   for byte, on both install paths *)
Theorem c05_installed_bytes : forall lazy x out,
  install lazy x = Some out -> out = reg_files (data_section (d_files (x_dat x))).
Proof. intros lazy x out H. eapply install_files_view; exact H. Qed.
Print Assumptions c05_installed_bytes.

(* consequence under collision resistance (hypotheses on the oracles) and "what
   a control section says is determined by its bytes": if the handle records the
   SHA-1 of genuine control bytes that record a data hash, the installed control
   and data bytes are the genuine ones *)
Theorem c05_data_authenticated : forall sha1 sha256 b64 h x g,
  (forall a b, sha1 a = sha1 b -> a = b) ->
  (forall a b, hex (sha256 a) = hex (sha256 b) -> a = b) ->
  (forall c c', c_raw c = c_raw c' -> c_datahash c = c_datahash c') ->
  h_sum b64 h = Some (sha1 (c_raw (a_ctl g))) ->
  (exists dh, In dh (c_datahash (a_ctl g)) /\ dh <> "" /\ dh = hex (sha256 (d_raw (a_dat g)))) ->
  Chain sha1 sha256 b64 h x ->
  c_raw (x_ctl x) = c_raw (a_ctl g) /\ d_raw (x_dat x) = d_raw (a_dat g).
Proof. exact chain_pins_bytes. Qed.
Print Assumptions c05_data_authenticated.

(* per-file checksums, as the code has them: a regular file whose body
   disagrees with its recorded checksum aborts the expansion of fetched bytes; *)
Theorem c05_per_file_mismatch_aborts : forall sha1 sha256 b64 k h a f d,
  (match k with Some kc => cached_package b64 kc h | None => None end) = None ->
  In f (d_files (a_dat a)) -> f_kind f = FReg -> f_sum f = SumSome d -> d <> sha1 (f_body f) ->
  expand_uncached sha1 sha256 b64 k h (Some a) = (XErr ESums, k).
Proof. exact expand_uncached_file_mismatch. Qed.
Print Assumptions c05_per_file_mismatch_aborts.

(* a MISSING checksum passes that check; it aborts the lazy (tarfs) install ... *)
Theorem c05_missing_checksum_lazy_aborts : forall x f,
  In f (data_section (d_files (x_dat x))) -> (f_kind f = FReg \/ f_kind f = FSym) -> f_sum f = SumNone ->
  install true x = None.
Proof. intros x f. apply lazy_missing_aborts. Qed.
Print Assumptions c05_missing_checksum_lazy_aborts.

(* ... and is recomputed by the streaming install, which fails only on an
   undecodable record of a regular file *)
Theorem c05_missing_checksum_streaming_recomputed : forall x,
  (forall f, In f (data_section (d_files (x_dat x))) -> f_kind f = FReg -> f_sum f <> SumBad) ->
  install false x = Some (reg_files (data_section (d_files (x_dat x)))).
Proof. intros x. apply streaming_installs. Qed.
Print Assumptions c05_missing_checksum_streaming_recomputed.

(* the warm cache: a hit returns the members stored under the expected checksum
   and under the datahash the stored control records — found by NAME, nothing is
   re-hashed, [x_ctl_hash] is the expected checksum itself ... *)
Theorem c05_cache_addressing : forall b64 k h x,
  cached_package b64 k h = Some x ->
  h_q1 h = true /\ exists sum dh,
    h_sum b64 h = Some sum /\ In (sum, x_ctl x) (k_ctl k) /\
    c_datahash (x_ctl x) = [dh] /\ In (dh, x_dat x) (k_dat k) /\ x_ctl_hash x = sum.
Proof. exact cached_package_by_name. Qed.
Print Assumptions c05_cache_addressing.

(* ... so a hit is authenticated exactly when population was: under the
   population invariant it satisfies the chain, and population (which names
   entries by the COMPUTED digests, after the checks) maintains the invariant *)
Theorem c05_cache_hit_authentic : forall sha1 sha256 b64 k h x,
  cache_ok sha1 sha256 k -> cached_package b64 k h = Some x -> Chain sha1 sha256 b64 h x.
Proof. exact cached_package_chain. Qed.
Print Assumptions c05_cache_hit_authentic.

Theorem c05_cache_population : forall sha1 sha256 b64 k h served r k',
  opt_cache_ok sha1 sha256 k -> opt_dst_same sha1 sha256 k served ->
  expand_uncached sha1 sha256 b64 k h served = (r, k') -> opt_cache_ok sha1 sha256 k'.
Proof. exact expand_uncached_keeps_cache_ok. Qed.
Print Assumptions c05_cache_population.

(* the boolean validator run on what the implementation installed decides
   exactly the readable chain *)
Theorem c05_validator_decides : forall sha1 sha256 b64 sfx h x,
  chain_tags sha1 sha256 b64 sfx h x = [] <-> Chain sha1 sha256 b64 h x.
Proof. exact chain_tags_iff. Qed.
Print Assumptions c05_validator_decides.

(* ---- non-vacuity ------------------------------------------------------------------- *)
Definition ex_file (sum : recsum) : dfile := {| f_name := "etc/f"; f_kind := FReg; f_body := [7]%N; f_sum := sum |}.
Definition ex_apk (raw : N) (dh : list string) (sum : recsum) : apkfile :=
  {| a_ctl := {| c_raw := [raw]; c_desc := "d"; c_datahash := dh |};
     a_dat := {| d_raw := [9]%N; d_files := [ex_file sum] |} |}.
Definition ex_h : handle := {| h_url := "u"; h_chk := "Q11" |}.

(* the genuine package installs, cold and then warm (second call in a new process: empty memo) *)
Example c05_genuine_installs :
  exists x k m, expand_package idf idf wit_b64 [] (Some empty_cache) ex_h (Some (ex_apk 1 ["09"] (SumSome [7]%N))) = (XOk x, Some k, m) /\
    install true x = Some [("etc/f", [7]%N)] /\
    exists x', expand_package idf idf wit_b64 [] (Some k) ex_h None = (XOk x', Some k, [(("u", "Q11"), XOk x')]) /\ x_dat x' = x_dat x.
Proof. eexists _, _, _. split; [vm_compute; reflexivity|]. split; [vm_compute; reflexivity|]. eexists. split; vm_compute; reflexivity. Qed.

(* each substitution is refused *)
Example c05_substitutions_refused :
  fst (expand_uncached idf idf wit_b64 None ex_h (Some (ex_apk 2 ["09"] (SumSome [7]%N)))) = XErr EVerify /\   (* other control *)
  fst (expand_uncached idf idf wit_b64 None ex_h (Some (ex_apk 1 ["0a"] (SumSome [7]%N)))) = XErr EVerify /\   (* data hash disagrees *)
  fst (expand_uncached idf idf wit_b64 None ex_h (Some (ex_apk 1 ["09"] (SumSome [8]%N)))) = XErr ESums /\     (* per-file checksum *)
  fst (expand_uncached idf idf wit_b64 None ex_h None) = XErr EFetch.
Proof. repeat split; vm_compute; reflexivity. Qed.

(* a cache that something else wrote into is believed by name: the hit below
   returns control bytes [5] under the name of checksum [1] *)
Example c05_cache_believes_names :
  exists x, cached_package wit_b64 {| k_ctl := [([1]%N, {| c_raw := [5]%N; c_desc := "evil"; c_datahash := ["09"] |})];
                              k_dat := [("09", {| d_raw := [9]%N; d_files := [] |})] |} ex_h = Some x /\
            ~ Chain idf idf wit_b64 ex_h x.
Proof. eexists. split; [vm_compute; reflexivity|]. vm_compute. intros (A & _). discriminate A. Qed.
