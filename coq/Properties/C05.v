(* C05 — Installed package bytes are authenticated end to end.
   Property theorems only; proofs are in Proofs/PkgAuthProofs.v.

   Statements are about Model/PkgAuth.v: ExpandApk's cut of the served stream into
   gzip members and which hash covers which bytes, its per-file check,
   expandPackage with verifyExpanded (fix 6d335fb), cachedPackage / cachePackage
   over the three cache files, the process-wide memo of expanded packages keyed by
   the pair (URL, checksum string) (fixes 9459281, d69e0fd; successes only since
   6e5c862), and the lazy and streaming installs.
   SHA-1, SHA-256, base64 and the decoders (first tar header of a member, .PKGINFO
   of a control member, gunzip, untar) are universally quantified functions: the
   chain theorems speak about equality of digests; the consequences for bytes
   (c05_end_to_end, c05_data_authenticated, c05_content_addressing) take
   collision resistance as explicit hypotheses.
   [Chain h x] (Spec/PkgAuthSpec.v): the control section's SHA-1 is the checksum
   the handle records (Q1 prefix optional), the control file holds those bytes and
   what was read from it is what they say, every non-empty datahash it records is
   the hex SHA-256 of the data section, the entries installs read are the ones
   inside those hashed bytes, every regular file matches its recorded checksum.

   Fixed finding C05-F3 (ExpandApk, fix 3bc1979): a stream of exactly two members whose
   first member starts with a .SIGN.* entry used to be accepted with the first member as
   control section and the second — hashed with SHA-1, never run through checkSums — as
   data section. The cut of today refuses it (c05_sign_first_two_members_refused); the
   old cut is kept as [expand_apk_with ... true] for the regression statement
   c05_old_cut_refuted only. *)
From Apko Require Import Base.Prelude Generated.C05Sum Model.PkgAuth Spec.PkgAuthSpec Proofs.PkgAuthProofs.
Open Scope string_scope. Open Scope list_scope.

(* ---- (a) the cut: which bytes the hashes cover ------------------------------------------
   A successful ExpandApk accounts for EVERY byte served: nothing follows the last
   member; the control section is exactly one member — the first, or the second
   behind a signature member — and its hash is the SHA-1 of exactly that member;
   the data section is ALL remaining members together; what is handed on was
   decoded from exactly those bytes; the data hash is the SHA-256 of exactly the data
   bytes and every regular file in them passed the per-file check. No byte an
   installer reads lies outside the hashed ranges. *)
Theorem c05_hashes_cover_members : forall sha1 sha256 first_name ctl_view gunzip untar s e,
  expand_apk sha1 sha256 first_name ctl_view gunzip untar s = FOk e ->
  s_trail s = [] /\
  (exists pre rest, s_members s = pre ++ c_raw (e_ctl e) :: rest /\ (pre = [] \/ exists sg, pre = [sg]) /\
                    rest <> [] /\ e_gz e = List.concat rest) /\
  e_ch e = sha1 (c_raw (e_ctl e)) /\ mk_ctl ctl_view (c_raw (e_ctl e)) = Some (e_ctl e) /\
  dat_view gunzip untar (e_gz e) = Some (e_files e) /\ gunzip (e_gz e) = Some (e_tar e) /\
  e_dh e = sha256 (e_gz e) /\ check_sums sha1 (e_files e) = true.
Proof. exact hashes_cover_members. Qed.
Print Assumptions c05_hashes_cover_members.

(* fixed finding C05-F3: a stream of exactly two members whose first member starts with a
   .SIGN.* entry is refused, with or without a cache (unless the warm cache already
   answers the request), whatever the handle records ... *)
Theorem c05_sign_first_two_members_refused : forall sha1 sha256 b64 first_name ctl_view gunzip untar k h s,
  sig2 first_name s = true ->
  (match k with Some kc => fst (cached_package b64 ctl_view gunzip untar kc h) | None => None end) = None ->
  fst (expand_uncached sha1 sha256 b64 first_name ctl_view gunzip untar k h (Some s)) = XErr EExpand.
Proof. exact sig2_refused. Qed.
Print Assumptions c05_sign_first_two_members_refused.

(* ... REGRESSION WITNESS about the HYPOTHETICAL old cut only (ExpandApk before fix
   3bc1979 = [expand_apk_with ... true]; the model of today's code is [expand_apk]): for
   the stream [wit_sig2] it took the first member for the control section and the second
   for the data section, hashed the latter with the SHA-1 stand-in instead of the SHA-256
   one, and handed on a regular file whose body disagrees with its recorded checksum;
   today's cut refuses the same stream. *)
Theorem c05_old_cut_refuted :
  sig2 wit_first wit_sig2 = true /\
  expand_apk idf sha256' wit_first wit_ctl wit_gunzip wit_untar wit_sig2 = FErr EExpand /\
  exists e, expand_apk_with idf sha256' wit_first wit_ctl wit_gunzip wit_untar true wit_sig2 = FOk e /\
    c_raw (e_ctl e) = [9]%N /\ e_gz e = [6]%N /\
    e_dh e = idf (e_gz e) /\ e_dh e <> sha256' (e_gz e) /\ check_sums idf (e_files e) = false.
Proof. exact old_cut_unchecked. Qed.
Print Assumptions c05_old_cut_refuted.

(* ---- the chain ----------------------------------------------------------------------------
   Without a cache the chain holds for every handle, every served stream and every
   state: no hypothesis at all. *)
Theorem c05_chain_no_cache : forall sha1 sha256 b64 first_name ctl_view gunzip untar m h served x k' m',
  expand_package sha1 sha256 b64 first_name ctl_view gunzip untar m None h served = (XOk x, k', m') ->
  Chain sha1 sha256 b64 ctl_view gunzip untar h x.
Proof. exact expand_package_no_cache_chain. Qed.
Print Assumptions c05_chain_no_cache.

(* With a cache: if the process memo and the cache directory satisfy their invariants
   and an existing cache destination holds the same bytes (content addressing; a
   consequence of collision resistance, see c05_content_addressing), every successful
   expansion — fetched, served from the warm cache (with or without the uncompressed
   tar), or answered from the memo — satisfies the chain, for EVERY handle and every
   served stream, and the invariants are re-established; with c05_initial_state this
   extends to every sequence of requests of a process and every sequence of processes
   sharing a cache directory. *)
Theorem c05_chain : forall sha1 sha256 b64 first_name ctl_view gunzip untar m k h served r k' m',
  memo_inv sha1 sha256 b64 ctl_view gunzip untar m -> opt_cache_ok sha1 sha256 gunzip untar k ->
  opt_dst_same sha1 sha256 first_name ctl_view gunzip untar k served ->
  expand_package sha1 sha256 b64 first_name ctl_view gunzip untar m k h served = (r, k', m') ->
  (forall x, r = XOk x -> Chain sha1 sha256 b64 ctl_view gunzip untar h x) /\
  opt_cache_ok sha1 sha256 gunzip untar k' /\ memo_inv sha1 sha256 b64 ctl_view gunzip untar m'.
Proof. exact expand_package_chain. Qed.
Print Assumptions c05_chain.

Theorem c05_initial_state : forall sha1 sha256 b64 ctl_view gunzip untar,
  memo_inv sha1 sha256 b64 ctl_view gunzip untar [] /\ cache_ok sha1 sha256 gunzip untar empty_cache.
Proof. intros. split; [intros u r x H; discriminate H | apply empty_cache_ok]. Qed.
Print Assumptions c05_initial_state.

(* ---- end to end ----------------------------------------------------------------------------
   Hypotheses, all listed here: collision resistance of
   SHA-1 and of hex∘SHA-256 on the byte strings in play (stated for the oracles);
   the memo and cache invariants (which hold initially and are preserved, see above);
   the handle's checksum string
   decodes to C = SHA-1 of a control member [gc] (what the signed index promises,
   C04) which records a non-empty datahash = hex SHA-256 of data bytes [gd].
   Conclusion, for the cold, warm-cache and process-memo paths and both install paths
   alike: the control section used is [gc] (package info and control file), the data
   section is [gd], the installed tree is exactly the install of [gd]'s own entries —
   every installed file's bytes are the body of a regular entry of [gd] (of that name,
   or of the name a hard-link entry of [gd] refers to), each matching its recorded
   checksum — and the invariants hold again afterwards. *)
Theorem c05_end_to_end : forall sha1 sha256 b64 first_name ctl_view gunzip untar,
  (forall a b, sha1 a = sha1 b -> a = b) ->
  (forall a b, hex (sha256 a) = hex (sha256 b) -> a = b) ->
  forall m k h served x k' m' lazy out gc cg dh gd,
  memo_inv sha1 sha256 b64 ctl_view gunzip untar m -> opt_cache_ok sha1 sha256 gunzip untar k ->
  expand_package sha1 sha256 b64 first_name ctl_view gunzip untar m k h served = (XOk x, k', m') ->
  install lazy x = Some out ->
  h_sum b64 h = Some (sha1 gc) -> mk_ctl ctl_view gc = Some cg ->
  In dh (c_datahash cg) -> dh <> "" -> dh = hex (sha256 gd) ->
  (x_ctl x = cg /\ x_ctl_file x = gc /\ d_raw (x_dat x) = gd) /\
  (exists fs, dat_view gunzip untar gd = Some fs /\ d_files (x_dat x) = fs /\
     (forall f, In f fs -> file_ok sha1 f) /\
     install_files lazy [] (data_section fs) = Some out /\
     forall n b, In (n, b) out ->
       exists f, In f fs /\ f_kind f = FReg /\ f_body f = b /\
                 (f_name f = n \/ exists l, In l fs /\ f_kind l = FLink /\ f_name l = n)) /\
  opt_cache_ok sha1 sha256 gunzip untar k' /\ memo_inv sha1 sha256 b64 ctl_view gunzip untar m'.
Proof. exact end_to_end. Qed.
Print Assumptions c05_end_to_end.

(* the chain pins the installed members to the ones the index entry describes (the
   step of the theorem above that uses collision resistance) *)
Theorem c05_data_authenticated : forall sha1 sha256 b64 ctl_view gunzip untar,
  (forall a b, sha1 a = sha1 b -> a = b) ->
  (forall a b, hex (sha256 a) = hex (sha256 b) -> a = b) ->
  forall h x gc cg dh gd,
  h_sum b64 h = Some (sha1 gc) -> mk_ctl ctl_view gc = Some cg -> In dh (c_datahash cg) -> dh <> "" -> dh = hex (sha256 gd) ->
  Chain sha1 sha256 b64 ctl_view gunzip untar h x ->
  x_ctl x = cg /\ x_ctl_file x = gc /\ d_raw (x_dat x) = gd /\ dat_view gunzip untar gd = Some (d_files (x_dat x)).
Proof. exact chain_pins_bytes. Qed.
Print Assumptions c05_data_authenticated.

(* content addressing: under collision resistance and the population invariant, a
   destination that cachePackage finds already present holds the very bytes it was
   about to advertise — the hypothesis [opt_dst_same] of c05_chain *)
Theorem c05_content_addressing : forall sha1 sha256 first_name ctl_view gunzip untar,
  (forall a b, sha1 a = sha1 b -> a = b) ->
  (forall a b, hex (sha256 a) = hex (sha256 b) -> a = b) ->
  forall k served, opt_cache_ok sha1 sha256 gunzip untar k ->
  opt_dst_same sha1 sha256 first_name ctl_view gunzip untar k served.
Proof. exact opt_dst_same_of_cr. Qed.
Print Assumptions c05_content_addressing.

(* the two fixed memo defects as regression witnesses: requests that the
   URL-only key (C05-F1) resp. the joined URL@checksum key (C05-F2) identified
   with an earlier successful one are kept apart by the pair key and refused *)
Theorem c05_memo_key_separates :
  (h_url wit_h1 ++ "@" ++ h_chk wit_h1 = h_url wit_h2 ++ "@" ++ h_chk wit_h2)%string /\
  h_url wit_h1 = h_url wit_h3 /\
  exists r1 k1 m1,
    expand_package idf idf wit_b64 wit_first wit_ctl wit_gunzip wit_untar [] (Some empty_cache) wit_h1 (Some wit_apk) = (r1, k1, m1) /\
    (exists x, r1 = XOk x) /\
    fst (fst (expand_package idf idf wit_b64 wit_first wit_ctl wit_gunzip wit_untar m1 k1 wit_h2 (Some wit_apk))) = XErr EVerify /\
    fst (fst (expand_package idf idf wit_b64 wit_first wit_ctl wit_gunzip wit_untar m1 k1 wit_h3 (Some wit_apk))) = XErr EVerify.
Proof. exact pair_key_separates. Qed.
Print Assumptions c05_memo_key_separates.

(* ---- installation ---------------------------------------------------------------------------
   what gets installed under a name is, on both install paths, the body of a regular
   entry of that name in the expanded data section, or the name is a hard-link entry's
   and the bytes are the body of a regular entry of that data section *)
Theorem c05_installed_bytes : forall lazy x out n b,
  install lazy x = Some out -> In (n, b) out ->
  exists f, In f (data_section (d_files (x_dat x))) /\ f_name f = n /\
    ((f_kind f = FReg /\ f_body f = b) \/
     (f_kind f = FLink /\ exists g, In g (data_section (d_files (x_dat x))) /\ f_kind g = FReg /\ f_body g = b)).
Proof. exact installed_bytes. Qed.
Print Assumptions c05_installed_bytes.

(* (c) the two install paths and their difference: whenever the lazy install (tarfs)
   succeeds, the streaming install succeeds with the same bytes; and when only the
   streaming install succeeds, some regular file has NO recorded checksum (the
   streaming path recomputes it, the lazy path refuses) or some symlink has no
   decodable one (the streaming path never looks). Neither path compares a body with
   anything: that was done once, in ExpandApk. *)
Theorem c05_install_paths : forall x,
  (forall out, install true x = Some out -> install false x = Some out) /\
  (forall out, install false x = Some out -> install true x = None ->
     exists f, In f (data_section (d_files (x_dat x))) /\
       ((f_kind f = FReg /\ f_sum f = SumNone) \/ (f_kind f = FSym /\ forall d, f_sum f <> SumSome d))).
Proof. exact install_paths. Qed.
Print Assumptions c05_install_paths.

(* per-file checksums, as the code has them: a regular file whose body disagrees
   with its recorded checksum aborts the expansion of fetched bytes; *)
Theorem c05_per_file_mismatch_aborts : forall sha1 sha256 first_name ctl_view gunzip untar s u t fs f d,
  cut first_name s = Some u -> gunzip (u_dat u) = Some t -> untar t = Some fs ->
  In f fs -> f_kind f = FReg -> f_sum f = SumSome d -> d <> sha1 (f_body f) ->
  expand_apk sha1 sha256 first_name ctl_view gunzip untar s = FErr ESums.
Proof. exact file_mismatch_aborts. Qed.
Print Assumptions c05_per_file_mismatch_aborts.

(* a MISSING checksum passes that check; it aborts the lazy (tarfs) install ... *)
Theorem c05_missing_checksum_lazy_aborts : forall x f,
  In f (data_section (d_files (x_dat x))) -> (f_kind f = FReg \/ f_kind f = FSym) -> f_sum f = SumNone ->
  install true x = None.
Proof. intros x f. apply lazy_missing_aborts. Qed.
Print Assumptions c05_missing_checksum_lazy_aborts.

(* ... and is recomputed by the streaming install: the per-file check and the
   streaming install treat the package exactly like the one that records the right
   checksum in that place *)
Theorem c05_missing_checksum_streaming_recomputed : forall sha1 fs seen,
  install_files false seen (List.map (fill sha1) fs) = install_files false seen fs /\
  check_sums sha1 (List.map (fill sha1) fs) = check_sums sha1 fs.
Proof. intros. split; [apply streaming_recomputes | apply fill_check_sums]. Qed.
Print Assumptions c05_missing_checksum_streaming_recomputed.

(* (d) hard links and symlinks: the per-file check never looks at them — two data
   sections that differ only in where their links point pass or fail it together — so
   a link's target name is authenticated by the data hash alone (and by nothing when
   the control section records no datahash, Example c05_link_retargeted below) *)
Theorem c05_links_covered_by_datahash_only : forall sha1 fs gs,
  Forall2 same_but_links fs gs -> check_sums sha1 fs = check_sums sha1 gs.
Proof. exact check_sums_ignores_links. Qed.
Print Assumptions c05_links_covered_by_datahash_only.

(* ---- (b) the warm cache: a hit returns the members stored under the expected checksum
   and under the datahash the stored control records — found by NAME, nothing is
   re-hashed, [x_ctl_hash] is the expected checksum itself; the entries come from the
   uncompressed tar of that name when there is one, else from the compressed file,
   whose decompression is then stored under that name ... *)
Theorem c05_cache_addressing : forall b64 ctl_view gunzip untar k h x k',
  cached_package b64 ctl_view gunzip untar k h = (Some x, k') ->
  h_q1 h = true /\ exists sum dh t,
    h_sum b64 h = Some sum /\ In (sum, x_ctl_file x) (k_ctl k) /\ mk_ctl ctl_view (x_ctl_file x) = Some (x_ctl x) /\
    c_datahash (x_ctl x) = [dh] /\ assoc_s dh (k_gz k) = Some (d_raw (x_dat x)) /\ x_ctl_hash x = sum /\
    untar t = Some (d_files (x_dat x)) /\
    ((In (dh, t) (k_tar k) /\ k' = k) \/
     (assoc_s dh (k_tar k) = None /\ gunzip (d_raw (x_dat x)) = Some t /\
      k' = {| k_ctl := k_ctl k; k_gz := k_gz k; k_tar := (dh, t) :: k_tar k |})).
Proof. exact cached_package_by_name. Qed.
Print Assumptions c05_cache_addressing.

(* ... so a hit is authenticated exactly when population was: under the population
   invariant (every member stored under the digest of its own bytes, every stored data
   section passed the per-file check, every uncompressed tar is the decompression of
   the compressed file of its name) the members a hit returns have the hashes in their
   file names and the hit satisfies the chain *)
Theorem c05_cache_hit_authentic : forall sha1 sha256 b64 ctl_view gunzip untar k h x k',
  cache_ok sha1 sha256 gunzip untar k -> cached_package b64 ctl_view gunzip untar k h = (Some x, k') ->
  Chain sha1 sha256 b64 ctl_view gunzip untar h x /\ cache_ok sha1 sha256 gunzip untar k'.
Proof. exact cache_hit_authentic. Qed.
Print Assumptions c05_cache_hit_authentic.

(* Population — which names entries by the COMPUTED digests, after the checks —
   maintains the invariant, whatever the outcome of the request. *)
Theorem c05_cache_population : forall sha1 sha256 b64 first_name ctl_view gunzip untar k h served r k',
  opt_cache_ok sha1 sha256 gunzip untar k -> opt_dst_same sha1 sha256 first_name ctl_view gunzip untar k served ->
  expand_uncached sha1 sha256 b64 first_name ctl_view gunzip untar k h served = (r, k') -> opt_cache_ok sha1 sha256 gunzip untar k'.
Proof. exact expand_uncached_keeps_cache_ok. Qed.
Print Assumptions c05_cache_population.

(* ---- wave 3 ------------------------------------------------------------------------------------
   (7) the datahash of a control section, for EVERY .PKGINFO text: controlValue reads the
   whole entry and every line of it, however long — for a text made of the lines [ls] the
   values are those of every line of the form key=value, in the order of the lines (not the
   first, not the last: verifyExpanded holds the data section to EVERY non-empty one,
   cachedPackage wants exactly one), so a datahash line is found wherever it stands and
   whatever precedes it. *)
Theorem c05_datahash_of_every_line : forall key ls,
  ls <> [] -> (forall l, In l ls -> no_char "010"%char l) ->
  control_values (join_with "010"%char ls) key = List.flat_map (line_value key) ls.
Proof. exact control_values_lines. Qed.
Print Assumptions c05_datahash_of_every_line.

Theorem c05_datahash_line_is_found : forall key ls l v,
  ls <> [] -> (forall l, In l ls -> no_char "010"%char l) ->
  In l ls -> line_value key l = [v] -> In v (control_values (join_with "010"%char ls) key).
Proof. exact control_values_finds. Qed.
Print Assumptions c05_datahash_line_is_found.

(* (8) where fetched bytes come from: the origin, or — for an http(s) URL with a cache —
   the whole .apk found under the URL-derived name in the cache directory, which wins over
   the origin; OFFLINE the origin is never asked. Nothing on that path looks at the bytes:
   they reach expandPackage as [served], which c05_chain / c05_end_to_end quantify over, so
   both hold verbatim for [served := fetch http has_cache offline whole origin] — the
   offline build from a pre-populated cache directory is verified like any download. *)
Theorem c05_fetch_sources : forall http has_cache offline whole origin,
  (forall s, fetch http has_cache offline whole origin = Some s ->
     whole = Some s \/ (origin = Some s /\ (http && has_cache && offline = false))) /\
  fetch true true true whole origin = whole.
Proof. intros. split; [intro s; apply fetch_sources | apply fetch_offline]. Qed.
Print Assumptions c05_fetch_sources.

(* ... stated once explicitly: end to end whatever the source of the bytes — the origin over a
   local path or http, a whole .apk pre-populated in the cache directory, online or OFFLINE —
   under the hypotheses of c05_end_to_end: the control and data sections are the ones the
   index entry designates, what is installed was hashed, and it is the install of the
   designated data bytes' own entries *)
Theorem c05_end_to_end_every_source : forall sha1 sha256 b64 first_name ctl_view gunzip untar,
  (forall a b, sha1 a = sha1 b -> a = b) ->
  (forall a b, hex (sha256 a) = hex (sha256 b) -> a = b) ->
  forall http offline whole origin m k h x k' m' lazy out gc cg dh gd,
  memo_inv sha1 sha256 b64 ctl_view gunzip untar m -> opt_cache_ok sha1 sha256 gunzip untar k ->
  expand_package sha1 sha256 b64 first_name ctl_view gunzip untar m k h
    (fetch http (match k with Some _ => true | None => false end) offline whole origin) = (XOk x, k', m') ->
  install lazy x = Some out ->
  h_sum b64 h = Some (sha1 gc) -> mk_ctl ctl_view gc = Some cg ->
  In dh (c_datahash cg) -> dh <> "" -> dh = hex (sha256 gd) ->
  (x_ctl x = cg /\ x_ctl_file x = gc /\ d_raw (x_dat x) = gd) /\
  Installed_hashed sha1 x out /\
  (exists fs, dat_view gunzip untar gd = Some fs /\ d_files (x_dat x) = fs /\ install_files lazy [] (data_section fs) = Some out).
Proof. exact end_to_end_every_source. Qed.
Print Assumptions c05_end_to_end_every_source.

(* (9) what is installed was hashed: under the chain, every file either install path writes
   holds the body of a REGULAR entry of the data section that agrees with its recorded
   checksum — entries of any other type (contiguous files, devices, fifos, unknown flags),
   with or without a body and a record, are never written; this is the statement the
   validator checks on observed installs (tag installed-bytes-never-hashed) *)
Theorem c05_installed_was_hashed : forall sha1 sha256 b64 ctl_view gunzip untar h x lazy out,
  Chain sha1 sha256 b64 ctl_view gunzip untar h x -> install lazy x = Some out -> Installed_hashed sha1 x out.
Proof. exact chain_installed_hashed. Qed.
Print Assumptions c05_installed_was_hashed.

Theorem c05_installed_validator_decides : forall sha1 x out,
  installed_hashed_b sha1 x out = true <-> Installed_hashed sha1 x out.
Proof. exact installed_hashed_b_iff. Qed.
Print Assumptions c05_installed_validator_decides.

(* fixed finding C05-F4 (fix 950e586): a successful expansion — fetched with or without a
   cache, warm hit with or without the uncompressed tar — holds no sparse entry: the tar
   index, which serves the bytes at an entry's offset, refuses such an archive. (Before
   the fix the lazy install wrote the stored fragments and what follows them — bytes
   nothing had hashed — where checkSums and the streaming install saw the logical content.) *)
Theorem c05_sparse_entries_refused : forall sha1 sha256 b64 first_name ctl_view gunzip untar k h served x k',
  expand_uncached sha1 sha256 b64 first_name ctl_view gunzip untar k h served = (XOk x, k') ->
  forall f, In f (d_files (x_dat x)) -> f_sparse f = false.
Proof. exact expand_uncached_no_sparse. Qed.
Print Assumptions c05_sparse_entries_refused.

(* ---- checksumFromHeader, in the model (round 2): which record of a tar header is the
   per-file checksum and how it is decoded. Key and prefix are read from the source
   (Generated/C05Sum.v: pax_checksum_key, checksum_b64_prefix).
   A header without a record under that key — no PAX records at all, or only others —
   yields "no checksum" (skipped by checkSums, recomputed by the streaming install,
   refused by the lazy one): never an error and never a match. *)
Theorem c05_header_without_record_has_no_checksum : forall b64 recs,
  (forall k v, In (k, v) recs -> k <> pax_checksum_key) -> checksum_from_header b64 recs = SumNone.
Proof. exact checksum_absent. Qed.
Print Assumptions c05_header_without_record_has_no_checksum.

(* the digest a body is compared with is exactly the decoded value of that one record:
   base64 of what follows the prefix, or hex (either case) of the whole value *)
Theorem c05_compared_digest_is_the_decoded_record : forall b64 recs d,
  checksum_from_header b64 recs = SumSome d ->
  exists v, assoc_s pax_checksum_key recs = Some v /\
    ((String.prefix checksum_b64_prefix v = true /\ b64 (drop_prefix checksum_b64_prefix v) = Some d) \/
     (String.prefix checksum_b64_prefix v = false /\ unhex v = Some d)).
Proof. exact checksum_decoded. Qed.
Print Assumptions c05_compared_digest_is_the_decoded_record.

(* and the record apk-tools writes, the lower-case hex of a digest, is read back as exactly
   those bytes, for every byte string (hex.DecodeString inverts hex.EncodeToString; a hex
   string never has the base64 prefix) *)
Theorem c05_hex_record_round_trip : forall b64 recs d,
  (forall x, In x d -> (x < 256)%N) -> assoc_s pax_checksum_key recs = Some (hex d) ->
  checksum_from_header b64 recs = SumSome d.
Proof. exact checksum_of_hex_record. Qed.
Print Assumptions c05_hex_record_round_trip.

(* the source has three copies of checksumFromHeader (the one checkSums verifies with, the
   streaming installer's, the lazy installer's); goextract reads key and prefix of each: they
   agree, so the one model function stands for all three (a copy that drifts breaks this) *)
Theorem c05_checksum_sites_agree :
  List.length checksum_sites = 3%nat /\
  forall s k p, In (s, (k, p)) checksum_sites -> k = pax_checksum_key /\ p = checksum_b64_prefix.
Proof. exact checksum_sites_agree. Qed.
Print Assumptions c05_checksum_sites_agree.

Example c05_checksum_records :
  checksum_from_header wit_b64 [("SCHILY.xattr.user.x", "1")] = SumNone /\
  checksum_from_header wit_b64 [("APK-TOOLS.checksum.SHA1", "0aFf")] = SumSome [10; 255]%N /\
  checksum_from_header wit_b64 [("APK-TOOLS.checksum.SHA1", "Q11")] = SumSome [1]%N /\
  checksum_from_header wit_b64 [("APK-TOOLS.checksum.SHA1", "Q1!")] = SumBad /\
  checksum_from_header wit_b64 [("APK-TOOLS.checksum.SHA1", "abc")] = SumBad /\
  checksum_from_header wit_b64 [("apk-tools.checksum.sha1", "0a")] = SumNone.
Proof. repeat split; vm_compute; reflexivity. Qed.

(* the boolean validator run on what the implementation installed decides
   exactly the readable chain *)
Theorem c05_validator_decides : forall sha1 sha256 b64 ctl_view gunzip untar sfx h x,
  chain_tags sha1 sha256 b64 ctl_view gunzip untar sfx h x = [] <-> Chain sha1 sha256 b64 ctl_view gunzip untar h x.
Proof. exact chain_tags_iff. Qed.
Print Assumptions c05_validator_decides.

(* ---- non-vacuity ------------------------------------------------------------------- *)
(* oracles: identity hashes, members [1] (control, records datahash "09") / [2] (another
   control) / [9] (data member holding etc/f and a hard link to it) / [8] (same entries,
   the link retargeted) / [3] (signature member) *)
Definition ex_first (r : list N) : option string := if bytes_eqb r [3]%N then Some ".SIGN.RSA.k" else Some ".PKGINFO".
Definition nl : string := String "010" "".
Definition ex_ctl (r : list N) : option (string * string) :=
  if bytes_eqb r [1]%N then Some ("d", ("pkgname = p" ++ nl ++ "datahash = 09" ++ nl)%string)
  else if bytes_eqb r [4]%N then Some ("nd", ("pkgname = p" ++ nl)%string)
  else Some ("other", "datahash=09").
Definition ex_file (n : string) (b : N) (sum : recsum) : dfile := {| f_name := n; f_kind := FReg; f_body := [b]; f_sum := sum; f_link := ""; f_sparse := false |}.
Definition ex_link (n t : string) : dfile := {| f_name := n; f_kind := FLink; f_body := []; f_sum := SumNone; f_link := t; f_sparse := false |}.
Definition ex_untar (t : list N) : option (list dfile) :=
  if bytes_eqb t [9]%N || bytes_eqb t [9; 9]%N   (* entries after the end-of-archive marker are never read *)
  then Some [ex_file "etc/f" 7 (SumSome [7]%N); ex_file "etc/g" 6 (SumSome [6]%N); ex_link "etc/l" "etc/f"]
  else if bytes_eqb t [8]%N then Some [ex_file "etc/f" 7 (SumSome [7]%N); ex_file "etc/g" 6 (SumSome [6]%N); ex_link "etc/l" "etc/g"]
  else if bytes_eqb t [5]%N then Some [ex_file "etc/f" 7 (SumSome [6]%N)]
  else if bytes_eqb t [7]%N   (* a sparse regular file: its logical content agrees with its record *)
  then Some [{| f_name := "etc/s"; f_kind := FReg; f_body := [7]%N; f_sum := SumSome [7]%N; f_link := ""; f_sparse := true |}]
  else None.
Notation ex_expand_package := (expand_package idf idf wit_b64 ex_first ex_ctl wit_gunzip ex_untar).
Definition ex_h : handle := {| h_url := "u"; h_chk := "Q11" |}.
Definition ex_apk (sig : bool) (ctl dat : N) : stream :=
  {| s_members := (if sig then [[3]%N] else []) ++ [[ctl]; [dat]]; s_trail := [] |}.

(* the genuine package installs, signed or not, cold and then warm (second call in a new
   process: empty memo), also after the uncompressed tar was removed from the cache *)
Example c05_genuine_installs :
  exists x k m, ex_expand_package [] (Some empty_cache) ex_h (Some (ex_apk true 1 9)) = (XOk x, Some k, m) /\
    install true x = Some [("etc/f", [7]%N); ("etc/g", [6]%N); ("etc/l", [7]%N)] /\
    fst (fst (ex_expand_package [] None ex_h (Some (ex_apk false 1 9)))) = XOk x /\
    (exists x', ex_expand_package [] (Some k) ex_h None = (XOk x', Some k, [(("u", "Q11"), XOk x')]) /\ x_dat x' = x_dat x) /\
    (exists x', ex_expand_package [] (Some {| k_ctl := k_ctl k; k_gz := k_gz k; k_tar := [] |}) ex_h None = (XOk x', Some k, [(("u", "Q11"), XOk x')]) /\ x_dat x' = x_dat x).
Proof.
  eexists _, _, _. split; [vm_compute; reflexivity|]. split; [vm_compute; reflexivity|]. split; [vm_compute; reflexivity|].
  split; eexists; split; vm_compute; reflexivity.
Qed.

(* each substitution is refused *)
Example c05_substitutions_refused :
  fst (expand_uncached idf idf wit_b64 ex_first ex_ctl wit_gunzip ex_untar None ex_h (Some (ex_apk true 2 9))) = XErr EVerify /\   (* other control *)
  fst (expand_uncached idf idf wit_b64 ex_first ex_ctl wit_gunzip ex_untar None ex_h (Some (ex_apk true 1 8))) = XErr EVerify /\   (* other data: the datahash disagrees *)
  fst (expand_uncached idf idf wit_b64 ex_first ex_ctl wit_gunzip ex_untar None ex_h (Some (ex_apk true 1 5))) = XErr ESums /\     (* per-file checksum *)
  fst (expand_uncached idf idf (fun s => if String.eqb s "7" then Some [7]%N else wit_b64 s) ex_first
         (fun r => if bytes_eqb r [7]%N then Some ("s", "datahash = 07") else ex_ctl r) wit_gunzip ex_untar None
         {| h_url := "u"; h_chk := "7" |} (Some (ex_apk false 7 7))) = XErr EExpand /\                                               (* a sparse entry: the tar index refuses *)
  fst (expand_uncached idf idf wit_b64 ex_first ex_ctl wit_gunzip ex_untar None ex_h
         (Some {| s_members := [[3]; [1]; [9]]%N; s_trail := [0]%N |})) = XErr EExpand /\                                          (* bytes after the data member *)
  fst (expand_uncached idf idf wit_b64 ex_first ex_ctl wit_gunzip ex_untar None ex_h
         (Some {| s_members := [[3]; [1]; [9]; [9]]%N; s_trail := [] |})) = XErr EVerify /\                                         (* a further member: hashed with the data section *)
  fst (expand_uncached idf idf wit_b64 ex_first ex_ctl wit_gunzip ex_untar None ex_h None) = XErr EFetch.
Proof. repeat split; vm_compute; reflexivity. Qed.

(* without a recorded datahash a hard link can be retargeted: control [4] records no
   datahash; data [9] and [8] differ only in where etc/l points; both are accepted and
   install different bytes under etc/l (inside the stated tolerance: nothing but the
   per-file records authenticates such a data section, and they say nothing about links) *)
Definition ex_h4 : handle := {| h_url := "u"; h_chk := "4" |}.
Definition ex_b64 (s : string) : option (list N) := if String.eqb s "4" then Some [4]%N else wit_b64 s.
Example c05_link_retargeted :
  exists x y, fst (expand_uncached idf idf ex_b64 ex_first ex_ctl wit_gunzip ex_untar None ex_h4 (Some (ex_apk false 4 9))) = XOk x /\
              fst (expand_uncached idf idf ex_b64 ex_first ex_ctl wit_gunzip ex_untar None ex_h4 (Some (ex_apk false 4 8))) = XOk y /\
              install true x = Some [("etc/f", [7]%N); ("etc/g", [6]%N); ("etc/l", [7]%N)] /\
              install true y = Some [("etc/f", [7]%N); ("etc/g", [6]%N); ("etc/l", [6]%N)] /\
              Chain idf idf ex_b64 ex_ctl wit_gunzip ex_untar ex_h4 x /\ Chain idf idf ex_b64 ex_ctl wit_gunzip ex_untar ex_h4 y.
Proof.
  eexists _, _. split; [vm_compute; reflexivity|]. split; [vm_compute; reflexivity|].
  split; [vm_compute; reflexivity|]. split; [vm_compute; reflexivity|].
  split; apply chain_tags_iff with (sfx := ""); vm_compute; reflexivity.
Qed.

(* a cache that something else wrote into is believed by name: the hit below
   returns control bytes [5] under the name of checksum [1] *)
Example c05_cache_believes_names :
  exists x k', cached_package wit_b64 ex_ctl wit_gunzip ex_untar
                 {| k_ctl := [([1]%N, [5]%N)]; k_gz := [("09", [9]%N)]; k_tar := [] |} ex_h = (Some x, k') /\
               ~ Chain idf idf wit_b64 ex_ctl wit_gunzip ex_untar ex_h x.
Proof. eexists _, _. split; [vm_compute; reflexivity|]. vm_compute. intros (A & _). discriminate A. Qed.
