(* C05 — Installed package bytes are authenticated end to end.
   Property theorems only; proofs are in Proofs/PkgAuthProofs.v. *)
From Apko Require Import Base.Prelude Model.PkgAuth Spec.PkgAuthSpec Proofs.PkgAuthProofs.
Open Scope string_scope. Open Scope list_scope.

(* the boolean validator run on what the implementation installed decides
   exactly the readable chain *)
Theorem c05_validator_decides : forall sha1 sha256 sfx h x,
  chain_tags sha1 sha256 sfx h x = [] <-> Chain sha1 sha256 h x.
Proof. exact chain_tags_iff. Qed.
Print Assumptions c05_validator_decides.
