(* C06 — A layer tarball faithfully and canonically serialises the built
   filesystem.  Property theorems only; proofs are in Proofs/TarProofs.v. *)
From Apko Require Import Base.Prelude Model.Tar Spec.TarSpec Proofs.TarProofs.
From Coq Require Import Sorting.Sorted.
Open Scope string_scope. Open Scope list_scope.

(* the validator run on the entries found in the emitted layer decides exactly
   the readable statement [Faithful] *)
Theorem c06_validator_decides : forall us gs t es, validate us gs t es = [] <-> Faithful us gs t es.
Proof. exact validate_iff. Qed.
Print Assumptions c06_validator_decides.

(* Uname/Gname of every emitted entry are a passwd/group name of its numeric id
   (the one of the last entry with that id), and absent exactly when the id has
   no entry — for every tree, hard links or not *)
Theorem c06_names : forall ev f e, In e (walk ev f) ->
  NameOk (users ev) (e_uid e) (e_uname e) /\ NameOk (groups ev) (e_gid e) (e_gname e).
Proof. exact walk_names. Qed.
Print Assumptions c06_names.

Example c06_names_example :
  lookup_last [(0, "root"); (0, "toor"); (7, "x")]%Z 0%Z = Some "toor" /\
  lookup_last [(0, "root"); (0, "toor"); (7, "x")]%Z 5%Z = None.
Proof. split; reflexivity. Qed.

(* the advertised digest, diff-id and size are those of the compressed file, of
   the uncompressed tar stream and of the compressed file respectively, whatever
   gzip and sha256 are (oracles) *)
Theorem c06_digest : forall (bytes : Type) (gz : bytes -> bytes) (sha : bytes -> string) (blen : bytes -> N) tb,
  let l := layer_writer bytes gz sha blen tb in
  l_file _ l = gz tb /\ l_digest _ l = sha (l_file _ l) /\ l_diffid _ l = sha tb /\ l_size _ l = blen (l_file _ l).
Proof. exact layer_writer_digests. Qed.
Print Assumptions c06_digest.

(* c06_hardlinks — the full statement "every tree with hard links is serialised
   faithfully" is FALSE of the faithful model and of the code, in two ways:
   (1) an additional name created without a tar header (tarfs Link(), i.e. a
   `hardlink` path mutation, and every link on the plain memfs) is emitted as an
   independent regular file [finding C06-F1];
   (2) a recorded link is emitted where the walk meets it, so one that sorts
   before its target precedes it and extraction fails [finding C06-F2].
   What does hold: a recorded link whose target sorts first round-trips
   (Example below); trees without additional names: c06_extract_walk. *)
Theorem c06_hardlinks_refuted :
  (exists f, wf_names_forest f = true /\ ~ Faithful [] [] f (emitted env_nohdr f)) /\
  (exists f, wf_names_forest f = true /\ ~ Faithful [] [] f (emitted env_allhdr f)).
Proof. exact hardlinks_refuted. Qed.
Print Assumptions c06_hardlinks_refuted.

Example c06_hardlink_recorded_target_first :
  Faithful [] [] w_link_after (emitted env_allhdr w_link_after).
Proof. apply validate_iff. exact recorded_link_after_target_ok. Qed.

(* two attributes are lost outside the envelope of c06_extract_walk: sub-second
   modification times are rounded by the tar writer [C06-F3], and extended
   attributes of character devices are not written [C06-F4] *)
Theorem c06_attrs_refuted :
  (exists f, wf_names_forest f = true /\ ~ Faithful [] [] f (emitted env_allhdr f) /\ whole_seconds_forest f = false) /\
  (exists f, wf_names_forest f = true /\ ~ Faithful [] [] f (emitted env_allhdr f) /\ wf_forest f = false).
Proof. exact attrs_refuted. Qed.
Print Assumptions c06_attrs_refuted.
