(* C06 — A layer tarball faithfully and canonically serialises the built
   filesystem.  Property theorems only; proofs are in Proofs/TarProofs.v. *)
From Apko Require Import Base.Prelude Model.Tar Spec.TarSpec Proofs.TarProofs Proofs.TarRoundtrip Proofs.TarOrder Proofs.TarLinks.
From Apko Require Import Generated.C06Tar Model.TarBytes Spec.TarBytesSpec Proofs.TarBytesBlock Proofs.TarBytesProofs Proofs.TarBytesLayer Proofs.TarBytesFuel Proofs.TarBytesShape.
From Apko Require Import Model.TarFaults Proofs.TarFaults.
From Coq Require Import Sorting.Sorted.
Open Scope string_scope. Open Scope list_scope.

(* the validator run on the entries found in the emitted layer decides exactly
   the readable statement [Faithful] *)
Theorem c06_validator_decides : forall us gs t es, validate us gs t es = [] <-> Faithful us gs t es.
Proof. exact validate_iff. Qed.
Print Assumptions c06_validator_decides.

(* c06_extract_walk: for EVERY tree in the envelope [wf_forest] — directories,
   regular files (empty included), symlinks (dangling included), character
   devices; any depth, names, mode bits (setuid/setgid/sticky), uid/gid, xattrs
   on files and directories, mtimes; distinct child names; no additional
   hard-link names — and every passwd/group table, the reference extractor
   applied to the walk returns exactly the tree (children in ReadDir order).
   Every attribute is a field of both records: dropping one breaks the equation. *)
Theorem c06_extract_walk : forall ev f, wf_forest f = true -> extract (walk ev f) = Ok (canon_forest f).
Proof. exact extract_walk. Qed.
Print Assumptions c06_extract_walk.

Example c06_extract_walk_example :
  let m := {| m_mode := 2541 (* 04755 *); m_uid := 1000; m_gid := 42; m_mtime := 1700000000; m_mnsec := 7;
              m_xattrs := [("user.k", "v")] |} in
  let f := [("usr", Dir m [("z", File m0 (LSym "../nowhere") None); ("a", File m (LReg 0 0) None)]);
            ("dev", Dir m [("null", File m0 (LChr 1 3) None)])] in
  wf_forest f = true /\ extract (walk env_nohdr f) = Ok (canon_forest f) /\ forest_eqb (canon_forest f) f = false.
Proof. vm_compute. repeat split; reflexivity. Qed.

(* c06_walk_complete_nodup (order and uniqueness part): for every tree with
   distinct child names — hard links or not — the walk's paths are strictly
   increasing in the fixed order (component-wise, names bytewise), hence each
   path is listed once, siblings are sorted, and a directory precedes
   everything beneath it ([p] < [p ++ x :: s]).  That every path of the tree IS
   listed follows inside the envelope from c06_extract_walk (the extractor
   creates one node per entry and returns the whole tree). *)
Theorem c06_walk_complete_nodup : forall ev f, wf_names_forest f = true ->
  StronglySorted path_lt (map e_path (walk ev f)) /\
  Sorted path_lt (map e_path (walk ev f)) /\
  NoDup (map e_path (walk ev f)).
Proof. exact walk_sorted_nodup. Qed.
Print Assumptions c06_walk_complete_nodup.

Theorem c06_dir_before_contents : forall p x s, path_lt p (p ++ x :: s).
Proof. exact dir_before_contents. Qed.
Print Assumptions c06_dir_before_contents.

(* Uname/Gname of every emitted entry are a passwd/group name of its numeric id
   (the one of the last entry with that id), and absent exactly when the id has
   no entry — for every tree, hard links or not *)
Theorem c06_names : forall ev f e, In e (walk ev f) ->
  NameOk (users ev) (e_uid e) (e_uname e) /\ NameOk (groups ev) (e_gid e) (e_gname e).
Proof. exact walk_names. Qed.
Print Assumptions c06_names.

Example c06_names_example :
  lookup_last [(0, "root"); (0, "toor"); (7, "x")]%Z 0%Z = Some "toor" /\
  lookup_last [(0, "root"); (0, "toor"); (7, "x")]%Z 5%Z = None.
Proof. split; reflexivity. Qed.

(* the advertised digest, diff-id and size are those of the compressed file, of
   the uncompressed tar stream and of the compressed file respectively, whatever
   gzip and sha256 are (oracles) *)
Theorem c06_digest : forall (bytes : Type) (gz : bytes -> bytes) (sha : bytes -> string) (blen : bytes -> N) tb,
  let l := layer_writer bytes gz sha blen tb in
  l_file _ l = gz tb /\ l_digest _ l = sha (l_file _ l) /\ l_diffid _ l = sha tb /\ l_size _ l = blen (l_file _ l).
Proof. exact layer_writer_digests. Qed.
Print Assumptions c06_digest.

(* c06_extract_walk_links — the positive statement for trees WITH recorded hard
   links.  Envelope [wfl_forest (has_hdr ev) f] (Spec/TarSpec.v): child names
   distinct; xattrs only on regular files and directories; and every additional
   name [File m l (Some q)] at a path p
     (a) was recorded with a tar header (has_hdr ev p — tarfs node.hardlinks),
     (b) has a target q that sorts before p in the walk order (path_ltb q p),
     (c) q has only non-empty components without '/',
     (d) the node at q in the same tree is a non-directory with the same metadata
         and content (the inode is shared),
     (e) is not a symlink with a non-empty target.
   Then the reference extractor — which REQUIRES a link's target to exist when
   the link entry is applied — returns exactly the tree, inode sharing included
   (the link node carries [Some q]).  The boundary is exact clause by clause:
   without (a) finding C06-F1, without (b) C06-F2, without (d) C06-F5 (tarfs
   link() resolves a final symlink in the target name but records the unresolved
   name), without (e) the walkFS re-typing quirk (a state no tarfs operation
   produces); c06_links_boundary has a witness for each.  wf_forest (no links at
   all, c06_extract_walk) is the special case. *)
Theorem c06_extract_walk_links : forall ev f, wfl_forest (has_hdr ev) f = true ->
  extract (walk ev f) = Ok (canon_forest f).
Proof. exact extract_walk_links. Qed.
Print Assumptions c06_extract_walk_links.

Theorem c06_links_envelope_extends : forall hh f, wf_forest f = true -> wfl_forest hh f = true.
Proof. exact wf_forest_wfl. Qed.
Print Assumptions c06_links_envelope_extends.

(* the readable statement for the entries the tar writer leaves in the layer
   (whole-second mtimes: C06-F3 aside): extraction yields the tree, paths strictly
   increasing, names from passwd/group *)
Theorem c06_faithful_links : forall ev f, wfl_forest (has_hdr ev) f = true -> whole_seconds_forest f = true ->
  Faithful (users ev) (groups ev) f (emitted ev f).
Proof. exact faithful_links. Qed.
Print Assumptions c06_faithful_links.

Example c06_extract_walk_links_example :
  wfl_forest (has_hdr env_allhdr) w_links = true /\ wf_forest w_links = false /\
  whole_seconds_forest w_links = true /\ validate [] [] w_links (emitted env_allhdr w_links) = [].
Proof. vm_compute. repeat split; reflexivity. Qed.

Theorem c06_links_boundary :
  validate [] [] w_link_to_symlink (emitted env_allhdr w_link_to_symlink) <> [] /\
  validate [] [] w_link_names_symlink (emitted env_allhdr w_link_names_symlink) <> [] /\
  wfl_forest (has_hdr env_allhdr) w_link_to_symlink = false /\
  wfl_forest (has_hdr env_allhdr) w_link_names_symlink = false /\
  wfl_forest (has_hdr env_nohdr) w_link_after = false /\
  wfl_forest (has_hdr env_allhdr) w_link_before = false.
Proof. exact links_boundary. Qed.
Print Assumptions c06_links_boundary.

(* c06_hardlinks — the full statement "every tree with hard links is serialised
   faithfully" is FALSE of the faithful model and of the code, in two ways:
   (1) an additional name created without a tar header (tarfs Link(), i.e. a
   `hardlink` path mutation, and every link on the plain memfs) is emitted as an
   independent regular file [finding C06-F1];
   (2) a recorded link is emitted where the walk meets it, so one that sorts
   before its target precedes it and extraction fails [finding C06-F2].
   What does hold: recorded links whose targets sort first round-trip
   (c06_extract_walk_links); trees without additional names: c06_extract_walk. *)
Theorem c06_hardlinks_refuted :
  (exists f, wf_names_forest f = true /\ ~ Faithful [] [] f (emitted env_nohdr f)) /\
  (exists f, wf_names_forest f = true /\ ~ Faithful [] [] f (emitted env_allhdr f)).
Proof. exact hardlinks_refuted. Qed.
Print Assumptions c06_hardlinks_refuted.

Example c06_hardlink_recorded_target_first :
  Faithful [] [] w_link_after (emitted env_allhdr w_link_after).
Proof. apply validate_iff. exact recorded_link_after_target_ok. Qed.

(* two attributes are lost outside the envelope of c06_extract_walk: sub-second
   modification times are rounded by the tar writer [C06-F3], and extended
   attributes of character devices are not written [C06-F4] *)
Theorem c06_attrs_refuted :
  (exists f, wf_names_forest f = true /\ ~ Faithful [] [] f (emitted env_allhdr f) /\ whole_seconds_forest f = false) /\
  (exists f, wf_names_forest f = true /\ ~ Faithful [] [] f (emitted env_allhdr f) /\ wf_forest f = false).
Proof. exact attrs_refuted. Qed.
Print Assumptions c06_attrs_refuted.

(* ======================================================================
   The byte-level codec (Model/TarBytes.v): what archive/tar's Writer emits for
   the headers walkFS/writeTar hand it, and what archive/tar's Reader makes of
   those bytes.  [write_archive] is the writer with the two facts goextract
   reads from pkg/build/tarball.go: header.Format as walkFS leaves it
   (Generated.C06Tar.c06_header_format = FormatUnknown: ModTime rounded, USTAR
   else PAX else GNU) and writeTar's final tw.Close() (c06_writer_closes).
   ====================================================================== *)

(* c06_bytes_roundtrip — for EVERY list of members inside the envelope
   [member_okb] (Spec/TarBytesSpec.v: one of the seven standard typeflags, no
   trailing slash on a non-directory, no NUL in name / link target / user /
   group name, mode and device numbers below 8^7, uid / gid / size / mtime any
   int64 (size >= 0), whole-second mtime other than Go's zero time, PAX records
   of the caller with distinct non-empty keys without '=' / NUL that are not
   archive/tar's own, at most 1 MiB of PAX data, body length = Size for a
   regular file and no body for header-only types) the writer succeeds and the
   reader returns exactly the members, each header completed with the PAX
   records that were needed to carry it ([read_view]): names of any length and
   any bytes, ids beyond 2^21, sizes beyond 8 GiB, negative and large times,
   user / group names beyond 32 bytes, extended attributes with any bytes. *)
Theorem c06_bytes_roundtrip : forall ms, forallb member_okb ms = true ->
  exists bs, write_archive ms = Ok bs /\ read_archive bs = Ok (map read_view ms).
Proof. exact bytes_roundtrip. Qed.
Print Assumptions c06_bytes_roundtrip.

(* what [read_view] is: every field of the header and the body as they were;
   the PAX records of the caller are exactly the records of the view that are
   not archive/tar's own *)
Theorem c06_bytes_view : forall h b, hdr_okb h = true ->
  let h' := fst (read_view (h, b)) in
  h_type h' = h_type h /\ h_name h' = h_name h /\ h_link h' = h_link h /\ h_mode h' = h_mode h /\ h_uid h' = h_uid h /\
  h_gid h' = h_gid h /\ h_size h' = h_size h /\ h_mtime h' = h_mtime h /\ h_mnsec h' = h_mnsec h /\
  h_uname h' = h_uname h /\ h_gname h' = h_gname h /\ h_devmaj h' = h_devmaj h /\ h_devmin h' = h_devmin h /\
  user_records (h_pax h') = h_pax h /\ snd (read_view (h, b)) = b.
Proof. exact view_fields. Qed.
Print Assumptions c06_bytes_view.

Example c06_bytes_roundtrip_example : forallb member_okb ex_members = true /\
  match write_archive ex_members with
  | Ok bs => List.length bs = 4608%nat /\ read_archive bs = Ok (map read_view ex_members)
  | _ => False
  end.
Proof. exact ex_members_ok. Qed.

(* the pieces: an octal field (w bytes: w-1 digits and a NUL) read back, for
   every field width of a header and every value that fits; a header block
   assembled from fields of the right widths is accepted by the reader
   (checksum, magic) and yields those fields; a PAX record "<len> k=v\n" whose
   length counts its own digits is read back and leaves the rest *)
Theorem c06_bytes_octal : forall w x, (2 <= w <= 21)%nat -> fits_octal w x = true ->
  parse_numeric (fst (fmt_octal w x)) = Ok x /\ List.length (fst (fmt_octal w x)) = w.
Proof. exact octal_roundtrip. Qed.
Print Assumptions c06_bytes_octal.

Theorem c06_bytes_header_block : forall f, fields_ok f ->
  parse_header (block_of f) = parsed_fields f /\ List.length (block_of f) = 512%nat /\ all_zero (block_of f) = false.
Proof. intros f F. split; [apply parse_header_block | split; [apply block_length | apply block_not_zero]]; assumption. Qed.
Print Assumptions c06_bytes_header_block.

Theorem c06_bytes_pax_record : forall k v rest, valid_pax_record k v = true ->
  (N.of_nat (List.length (fmt_pax_record k v)) < 9223372036854775808)%N ->
  parse_pax_record (fmt_pax_record k v ++ rest) = Ok (k, v, rest) /\
  exists n, fmt_pax_record k v = dec_N (N.of_nat n) ++ " "%char :: k ++ "="%char :: v ++ [Nb 10] /\
            n = List.length (fmt_pax_record k v).
Proof. exact pax_record_roundtrip. Qed.
Print Assumptions c06_bytes_pax_record.

(* c06_bytes_blocks — for EVERY member list the writer accepts (any header, any
   of the three formats, inside the envelope or not) the stream is a whole number
   of 512-byte blocks and ends with two zero blocks (writeTar closes the writer) *)
Theorem c06_bytes_blocks : forall ms bs, write_archive ms = Ok bs ->
  (List.length bs mod 512 = 0)%nat /\ exists pre, bs = pre ++ zeros 1024 /\ (List.length pre mod 512 = 0)%nat.
Proof. exact bytes_blocks_all. Qed.
Print Assumptions c06_bytes_blocks.

(* c06_bytes_injective — canonicity: inside the envelope two different member
   lists never give the same bytes *)
Theorem c06_bytes_injective : forall a b bs, forallb member_okb a = true -> forallb member_okb b = true ->
  write_archive a = Ok bs -> write_archive b = Ok bs -> a = b.
Proof. exact bytes_injective. Qed.
Print Assumptions c06_bytes_injective.

(* the PAX key prefix of pkg/build/tarball.go (Generated.C06Tar.c06_xattr_prefix,
   used by hdr_of_entry) is the one under which archive/tar's reader files
   extended attributes: for every entry of the walk, the attributes read from
   the records of its header are the entry's attributes *)
Theorem c06_bytes_xattr_prefix : forall e, xattrs_of_pax (h_pax (hdr_of_entry e)) = e_xattrs e.
Proof. exact xattr_prefix_roundtrip. Qed.
Print Assumptions c06_bytes_xattr_prefix.

(* the typeflags for which walkFS copies extended attributes are those for
   which the walk of Model/Tar.v attaches them (regular files, directories) *)
Example c06_xattr_typeflags_modelled : c06_xattr_typeflags = [bN T_REG; bN T_DIR].
Proof. reflexivity. Qed.

(* c06_bytes_envelope_boundary — outside the envelope:
   (1) a modification time equal to Go's zero time.Time (0001-01-01T00:00:00Z)
       is written as the Unix epoch: the reader does not return the member;
   (2) an extended attribute whose name contains '=' is refused by the writer
       (PAX keys cannot contain '='): no stream at all;
   (3) a device number of 8^7 or more fits neither USTAR nor PAX: the writer
       falls back to the GNU format, which the model writes and reads back (the
       example), but which the round-trip theorem does not cover. *)
Theorem c06_bytes_envelope_boundary :
  (let m := (ex_hdr "f" 0 zero_time_sec [], lit "ab") in
   exists bs ms, write_archive [m] = Ok bs /\ read_archive bs = Ok ms /\ ms <> [read_view m] /\ member_okb m = false) /\
  write_archive [(ex_hdr "f" 0 0 [(lit "SCHILY.xattr.user.a=b", lit "c")], lit "ab")] = Err.
Proof. split; [exact zero_time_not_roundtrip | exact equals_in_key_refused]. Qed.
Print Assumptions c06_bytes_envelope_boundary.

(* c06_bytes_entries — from the bytes back to the entries of Model/Tar.v: for
   every list of entries inside [entry_okb] (the member made of the entry is in
   the byte envelope; path components non-empty without '/'; user / group names
   not empty; the content id of the body is the entry's) the members read from
   the stream written for them stand for exactly those entries, as the tar
   writer leaves them ([tar_written]: whole seconds). *)
Theorem c06_bytes_entries : forall cs cid_of es, forallb (entry_okb cs cid_of) es = true ->
  exists bs ms, write_archive (map (member_of_entry cs) es) = Ok bs /\ read_archive bs = Ok ms /\
    map (entry_of_member cid_of) ms = map (fun e => Some (tar_written e)) es.
Proof. exact entries_bytes_roundtrip. Qed.
Print Assumptions c06_bytes_entries.

Example c06_bytes_entries_example :
  forallb (entry_okb [(7%N, lit "abc")] (fun b => if is_nil b then 0%N else 7%N)) ex_entries = true.
Proof. exact ex_entries_ok. Qed.

(* c06_layer_bytes_faithful — the whole chain at the level of bytes: for every
   tree in the envelope of c06_extract_walk_links with whole-second times whose
   walk lies in the byte envelope, the layer's tar stream [layer_bytes] (walk,
   header synthesis with the PAX prefix of tarball.go, archive/tar's writer with
   the Format walkFS leaves, the final Close) is read back by archive/tar's
   reader as members that stand for entries which are Faithful to the tree:
   extraction yields exactly the tree, paths strictly increasing, names from
   passwd / group. *)
Theorem c06_layer_bytes_faithful : forall ev cs cid_of f,
  wfl_forest (has_hdr ev) f = true -> whole_seconds_forest f = true ->
  forallb (entry_okb cs cid_of) (walk ev f) = true ->
  exists bs ms, layer_bytes ev cs f = Ok bs /\ read_archive bs = Ok ms /\
    map (entry_of_member cid_of) ms = map Some (emitted ev f) /\
    Faithful (users ev) (groups ev) f (emitted ev f).
Proof. exact layer_bytes_faithful. Qed.
Print Assumptions c06_layer_bytes_faithful.

Example c06_layer_bytes_faithful_example :
  let cid_of := fun b : bytes => if is_nil b then 0%N else 9%N in
  let m := {| m_mode := 493; m_uid := 0; m_gid := 0; m_mtime := 1700000000; m_mnsec := 0; m_xattrs := [("user.k", "v")]%string |} in
  let f := [("bin"%string, Dir m [("a"%string, File m (LReg 9 2) None); ("b"%string, File m (LReg 9 2) (Some ["bin"; "a"]%string))])] in
  wfl_forest (has_hdr env_allhdr) f = true /\ whole_seconds_forest f = true /\
  forallb (entry_okb [(9%N, lit "hi")] cid_of) (walk env_allhdr f) = true.
Proof. vm_compute. repeat split; reflexivity. Qed.

(* c06_bytes_reader_total — the fuel of the reader model (length of the stream + 1
   for the archive loop, length of the data + 1 for the records of an extended
   header) is never exhausted, on ANY byte string: an answer of read_archive is an
   answer of the modelled Reader, never an artefact of the fuel *)
Theorem c06_bytes_reader_total : forall bs, read_archive bs <> OutOfFuel.
Proof. exact read_archive_fuel. Qed.
Print Assumptions c06_bytes_reader_total.

Theorem c06_bytes_pax_total : forall fuel s m, (List.length s < fuel)%nat -> parse_pax fuel s m <> OutOfFuel.
Proof. exact parse_pax_fuel. Qed.
Print Assumptions c06_bytes_pax_total.

(* ======================================================================
   Faults during serialisation (Model/TarFaults.v): the context is cancelled
   before or during the walk, or the filesystem reports an error.  [walk_faulty]
   is the model with the two facts goextract reads from the fs.WalkDir callback of
   walkFS: c06_ctx_err_returned (the callback returns the error of a cancelled
   context) and c06_root_err_checked (it tests the reported error before it skips
   the root path; true since commit 13a240b).
   ====================================================================== *)

(* c06_fault_reported — EVERY fault (context cancelled before the walk or while
   any entry is produced; Stat / ReadDir of the root, ReadDir of any directory,
   Readlink, Readnod, Open of any content failing) is reported to the consumer of
   walkFS — so writeTar fails and no layer is handed out — or came after the last
   entry, in which case the walk is complete.  Stated with the two facts read from
   the callback (c06_ctx_err_returned, c06_root_err_checked): it stops being
   provable when the callback ends the walk on a cancelled context or skips the
   root before testing the reported error. *)
Theorem c06_fault_reported : forall ev f ft,
  walk_faulty ev f ft = Err \/ walk_faulty ev f ft = Ok (walk ev f).
Proof. exact fault_reported_or_complete. Qed.
Print Assumptions c06_fault_reported.

(* c06_fault_root_before_fix_refuted — hypothetical, the callback as it was before
   commit 13a240b (root test first, root_checked = false): an error of Stat(".") /
   ReadDir(".") was dropped, the walk ended with nothing yielded and no error, and
   the layer of a non-empty filesystem was empty [C06-F6, fixed] *)
Theorem c06_fault_root_before_fix_refuted :
  walk_under_fault true false env_nohdr w_one FErrRoot = Ok [] /\ walk env_nohdr w_one <> [] /\ validate [] [] w_one [] <> [].
Proof. exact fault_root_before_fix. Qed.
Print Assumptions c06_fault_root_before_fix_refuted.

(* c06_link_target_verbatim — a symlink target is an OPAQUE string: whatever
   Readlink reports (in path.Clean normal form or not: "a/../b", "lib/", "./x",
   "a//b", "/.", dangling or not, any bytes) is the Linkname of the walk's entry, of
   the header handed to the tar writer, of the entry as written, and the target of
   the symlink the extractor creates.  Through the bytes this is part of
   c06_bytes_roundtrip (h_link of any length and bytes without NUL; > 100 bytes or
   non-ASCII via the PAX linkpath record) and of c06_layer_bytes_faithful /
   c06_extract_walk (the extracted tree has LSym tgt); here it is stated on its own
   together with the fact goextract reads from walkFS (c06_link_target_verbatim:
   the second argument of tar.FileInfoHeader is a local assigned exactly once, from
   Readlink), so that an edit which rewrites the target breaks this obligation. *)
Theorem c06_link_target_verbatim_thm :
  c06_link_target_verbatim = true /\
  forall ev p m tgt,
    let e := file_entry ev p m (LSym tgt) None in
    e_kind e = KSym /\ e_link e = tgt /\ str (h_link (hdr_of_entry e)) = tgt /\ e_link (tar_written e) = tgt /\
    payload_of [] (tar_written e) = Ok (File (meta_of (tar_written e)) (LSym tgt) None).
Proof. exact link_target_verbatim. Qed.
Print Assumptions c06_link_target_verbatim_thm.

(* c06_layer_bytes_faithful_tree — c06_layer_bytes_faithful with its envelope
   stated on the TREE: [forest_bytes_okb ev cs cid_of f] (Spec/TarBytesSpec.v) is
   decided node by node at the node's path — the entry walkFS makes of that node
   lies in the byte envelope — without reference to the walk.  For every tree
   such that wfl_forest, whole seconds and forest_bytes_okb hold, the bytes of the
   layer are read back as members that stand for entries extracting to exactly
   the tree.  c06_tree_envelope_walk is the bridge: the predicate on the tree
   implies the predicate on every entry of the walk, for every tree and env. *)
Theorem c06_tree_envelope_walk : forall ev cs cid_of f, forest_bytes_okb ev cs cid_of f = true ->
  forallb (entry_okb cs cid_of) (walk ev f) = true.
Proof. exact forest_bytes_ok_walk. Qed.
Print Assumptions c06_tree_envelope_walk.

Theorem c06_layer_bytes_faithful_tree : forall ev cs cid_of f,
  wfl_forest (has_hdr ev) f = true -> whole_seconds_forest f = true -> forest_bytes_okb ev cs cid_of f = true ->
  exists bs ms, layer_bytes ev cs f = Ok bs /\ read_archive bs = Ok ms /\
    map (entry_of_member cid_of) ms = map Some (emitted ev f) /\
    Faithful (users ev) (groups ev) f (emitted ev f).
Proof. exact layer_bytes_faithful_tree. Qed.
Print Assumptions c06_layer_bytes_faithful_tree.

Example c06_layer_bytes_faithful_tree_example :
  let cid_of := fun b : bytes => if is_nil b then 0%N else 9%N in
  let m := {| m_mode := 493; m_uid := 2097152; m_gid := 0; m_mtime := 1700000000; m_mnsec := 0; m_xattrs := [("user.k", "v")]%string |} in
  let f := [("usr"%string, Dir m [("bin"%string, Dir m [("a"%string, File m (LReg 9 2) None); ("l"%string, File m0 (LSym "a/../a") None);
                                                         ("z"%string, File m (LReg 9 2) (Some ["usr"; "bin"; "a"]%string))])])] in
  wfl_forest (has_hdr env_allhdr) f = true /\ whole_seconds_forest f = true /\
  forest_bytes_okb env_allhdr [(9%N, lit "hi")] cid_of f = true /\
  (* … and the predicate does reject: a NUL in a name, a device number of 8^7 *)
  forest_bytes_okb env_allhdr [] cid_of [(String Ascii.zero "x", File m0 (LSym "t") None)] = false /\
  forest_bytes_okb env_allhdr [] cid_of [("d"%string, File m0 (LChr 1 2097152) None)] = false.
Proof. vm_compute. repeat split; reflexivity. Qed.
