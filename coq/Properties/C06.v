(* C06 — A layer tarball faithfully and canonically serialises the built
   filesystem.  Property theorems only; proofs are in Proofs/TarProofs.v. *)
From Apko Require Import Base.Prelude Model.Tar Spec.TarSpec Proofs.TarProofs Proofs.TarRoundtrip Proofs.TarOrder Proofs.TarLinks.
From Coq Require Import Sorting.Sorted.
Open Scope string_scope. Open Scope list_scope.

(* the validator run on the entries found in the emitted layer decides exactly
   the readable statement [Faithful] *)
Theorem c06_validator_decides : forall us gs t es, validate us gs t es = [] <-> Faithful us gs t es.
Proof. exact validate_iff. Qed.
Print Assumptions c06_validator_decides.

(* c06_extract_walk: for EVERY tree in the envelope [wf_forest] — directories,
   regular files (empty included), symlinks (dangling included), character
   devices; any depth, names, mode bits (setuid/setgid/sticky), uid/gid, xattrs
   on files and directories, mtimes; distinct child names; no additional
   hard-link names — and every passwd/group table, the reference extractor
   applied to the walk returns exactly the tree (children in ReadDir order).
   Every attribute is a field of both records: dropping one breaks the equation. *)
Theorem c06_extract_walk : forall ev f, wf_forest f = true -> extract (walk ev f) = Ok (canon_forest f).
Proof. exact extract_walk. Qed.
Print Assumptions c06_extract_walk.

Example c06_extract_walk_example :
  let m := {| m_mode := 2541 (* 04755 *); m_uid := 1000; m_gid := 42; m_mtime := 1700000000; m_mnsec := 7;
              m_xattrs := [("user.k", "v")] |} in
  let f := [("usr", Dir m [("z", File m0 (LSym "../nowhere") None); ("a", File m (LReg 0 0) None)]);
            ("dev", Dir m [("null", File m0 (LChr 1 3) None)])] in
  wf_forest f = true /\ extract (walk env_nohdr f) = Ok (canon_forest f) /\ forest_eqb (canon_forest f) f = false.
Proof. vm_compute. repeat split; reflexivity. Qed.

(* c06_walk_complete_nodup (order and uniqueness part): for every tree with
   distinct child names — hard links or not — the walk's paths are strictly
   increasing in the fixed order (component-wise, names bytewise), hence each
   path is listed once, siblings are sorted, and a directory precedes
   everything beneath it ([p] < [p ++ x :: s]).  That every path of the tree IS
   listed follows inside the envelope from c06_extract_walk (the extractor
   creates one node per entry and returns the whole tree). *)
Theorem c06_walk_complete_nodup : forall ev f, wf_names_forest f = true ->
  StronglySorted path_lt (map e_path (walk ev f)) /\
  Sorted path_lt (map e_path (walk ev f)) /\
  NoDup (map e_path (walk ev f)).
Proof. exact walk_sorted_nodup. Qed.
Print Assumptions c06_walk_complete_nodup.

Theorem c06_dir_before_contents : forall p x s, path_lt p (p ++ x :: s).
Proof. exact dir_before_contents. Qed.
Print Assumptions c06_dir_before_contents.

(* Uname/Gname of every emitted entry are a passwd/group name of its numeric id
   (the one of the last entry with that id), and absent exactly when the id has
   no entry — for every tree, hard links or not *)
Theorem c06_names : forall ev f e, In e (walk ev f) ->
  NameOk (users ev) (e_uid e) (e_uname e) /\ NameOk (groups ev) (e_gid e) (e_gname e).
Proof. exact walk_names. Qed.
Print Assumptions c06_names.

Example c06_names_example :
  lookup_last [(0, "root"); (0, "toor"); (7, "x")]%Z 0%Z = Some "toor" /\
  lookup_last [(0, "root"); (0, "toor"); (7, "x")]%Z 5%Z = None.
Proof. split; reflexivity. Qed.

(* the advertised digest, diff-id and size are those of the compressed file, of
   the uncompressed tar stream and of the compressed file respectively, whatever
   gzip and sha256 are (oracles) *)
Theorem c06_digest : forall (bytes : Type) (gz : bytes -> bytes) (sha : bytes -> string) (blen : bytes -> N) tb,
  let l := layer_writer bytes gz sha blen tb in
  l_file _ l = gz tb /\ l_digest _ l = sha (l_file _ l) /\ l_diffid _ l = sha tb /\ l_size _ l = blen (l_file _ l).
Proof. exact layer_writer_digests. Qed.
Print Assumptions c06_digest.

(* c06_extract_walk_links — the positive statement for trees WITH recorded hard
   links.  Envelope [wfl_forest (has_hdr ev) f] (Spec/TarSpec.v): child names
   distinct; xattrs only on regular files and directories; and every additional
   name [File m l (Some q)] at a path p
     (a) was recorded with a tar header (has_hdr ev p — tarfs node.hardlinks),
     (b) has a target q that sorts before p in the walk order (path_ltb q p),
     (c) q has only non-empty components without '/',
     (d) the node at q in the same tree is a non-directory with the same metadata
         and content (the inode is shared),
     (e) is not a symlink with a non-empty target.
   Then the reference extractor — which REQUIRES a link's target to exist when
   the link entry is applied — returns exactly the tree, inode sharing included
   (the link node carries [Some q]).  The boundary is exact clause by clause:
   without (a) finding C06-F1, without (b) C06-F2, without (d) C06-F5 (tarfs
   link() resolves a final symlink in the target name but records the unresolved
   name), without (e) the walkFS re-typing quirk (a state no tarfs operation
   produces); c06_links_boundary has a witness for each.  wf_forest (no links at
   all, c06_extract_walk) is the special case. *)
Theorem c06_extract_walk_links : forall ev f, wfl_forest (has_hdr ev) f = true ->
  extract (walk ev f) = Ok (canon_forest f).
Proof. exact extract_walk_links. Qed.
Print Assumptions c06_extract_walk_links.

Theorem c06_links_envelope_extends : forall hh f, wf_forest f = true -> wfl_forest hh f = true.
Proof. exact wf_forest_wfl. Qed.
Print Assumptions c06_links_envelope_extends.

(* the readable statement for the entries the tar writer leaves in the layer
   (whole-second mtimes: C06-F3 aside): extraction yields the tree, paths strictly
   increasing, names from passwd/group *)
Theorem c06_faithful_links : forall ev f, wfl_forest (has_hdr ev) f = true -> whole_seconds_forest f = true ->
  Faithful (users ev) (groups ev) f (emitted ev f).
Proof. exact faithful_links. Qed.
Print Assumptions c06_faithful_links.

Example c06_extract_walk_links_example :
  wfl_forest (has_hdr env_allhdr) w_links = true /\ wf_forest w_links = false /\
  whole_seconds_forest w_links = true /\ validate [] [] w_links (emitted env_allhdr w_links) = [].
Proof. vm_compute. repeat split; reflexivity. Qed.

Theorem c06_links_boundary :
  validate [] [] w_link_to_symlink (emitted env_allhdr w_link_to_symlink) <> [] /\
  validate [] [] w_link_names_symlink (emitted env_allhdr w_link_names_symlink) <> [] /\
  wfl_forest (has_hdr env_allhdr) w_link_to_symlink = false /\
  wfl_forest (has_hdr env_allhdr) w_link_names_symlink = false /\
  wfl_forest (has_hdr env_nohdr) w_link_after = false /\
  wfl_forest (has_hdr env_allhdr) w_link_before = false.
Proof. exact links_boundary. Qed.
Print Assumptions c06_links_boundary.

(* c06_hardlinks — the full statement "every tree with hard links is serialised
   faithfully" is FALSE of the faithful model and of the code, in two ways:
   (1) an additional name created without a tar header (tarfs Link(), i.e. a
   `hardlink` path mutation, and every link on the plain memfs) is emitted as an
   independent regular file [finding C06-F1];
   (2) a recorded link is emitted where the walk meets it, so one that sorts
   before its target precedes it and extraction fails [finding C06-F2].
   What does hold: recorded links whose targets sort first round-trip
   (c06_extract_walk_links); trees without additional names: c06_extract_walk. *)
Theorem c06_hardlinks_refuted :
  (exists f, wf_names_forest f = true /\ ~ Faithful [] [] f (emitted env_nohdr f)) /\
  (exists f, wf_names_forest f = true /\ ~ Faithful [] [] f (emitted env_allhdr f)).
Proof. exact hardlinks_refuted. Qed.
Print Assumptions c06_hardlinks_refuted.

Example c06_hardlink_recorded_target_first :
  Faithful [] [] w_link_after (emitted env_allhdr w_link_after).
Proof. apply validate_iff. exact recorded_link_after_target_ok. Qed.

(* two attributes are lost outside the envelope of c06_extract_walk: sub-second
   modification times are rounded by the tar writer [C06-F3], and extended
   attributes of character devices are not written [C06-F4] *)
Theorem c06_attrs_refuted :
  (exists f, wf_names_forest f = true /\ ~ Faithful [] [] f (emitted env_allhdr f) /\ whole_seconds_forest f = false) /\
  (exists f, wf_names_forest f = true /\ ~ Faithful [] [] f (emitted env_allhdr f) /\ wf_forest f = false).
Proof. exact attrs_refuted. Qed.
Print Assumptions c06_attrs_refuted.
