(* C07 — File conflicts follow replaces/origin rules; the installed DB tells
   the truth. Property theorems only; proofs in Proofs/InstallProofs.v. *)
From Apko Require Import Base.Prelude Base.C07Lib Generated.C07Install Generated.FsConsts Model.Install Model.InstallInode Model.InstallDb Model.InstallRead Model.InstallLinkWin Spec.InstallSpec Proofs.InstallProofs Proofs.InstallProvProofs Proofs.InstallInodeProofs Proofs.InstallDbProofs Proofs.InstallReadProofs Proofs.InstallLinkWinProofs.
Open Scope string_scope. Open Scope list_scope.

(* tarfs.writeHeader decides exactly by the rule table whenever at least one of
   the two packages names an origin ... *)
Theorem c07_decide_lazy_is_spec : forall got want gs ws,
  (p_origin got <> "" \/ p_origin want <> "") ->
  decide_lazy got want gs ws =
  spec_decide (N.eqb gs ws) (declares got want) (declares want got)
              (spec_same_origin (p_origin got) (p_origin want)).
Proof. exact decide_lazy_is_spec. Qed.
Print Assumptions c07_decide_lazy_is_spec.

(* ... and when neither does it treats them as of the same origin: different
   content of two unrelated packages is overwritten silently (finding C07-F3) *)
Theorem c07_decide_lazy_empty_origins : forall got want gs ws,
  p_origin got = "" -> p_origin want = "" ->
  decide_lazy got want gs ws = spec_decide (N.eqb gs ws) (declares got want) (declares want got) true.
Proof. exact decide_lazy_empty_origins. Qed.
Print Assumptions c07_decide_lazy_empty_origins.

(* installRegularFile decides by the rule table whenever the package being
   installed names an origin and the existing file has a recorded owner ... *)
Theorem c07_decide_stream_is_spec : forall got want gs ws,
  p_origin want <> "" ->
  decide_stream (Some got) want (N.eqb gs ws) =
  SDec (spec_decide (N.eqb gs ws) (declares got want) (declares want got)
                    (spec_same_origin (p_origin got) (p_origin want))).
Proof. exact decide_stream_is_spec. Qed.
Print Assumptions c07_decide_stream_is_spec.

(* ... and when it names none, every clash is an error of another class, even
   for identical content or a declared replacement (finding C07-F4) *)
Theorem c07_decide_stream_empty_origin : forall owner want same,
  p_origin want = "" -> decide_stream owner want same = SErrExists.
Proof. exact decide_stream_empty_origin. Qed.
Print Assumptions c07_decide_stream_empty_origin.

Example c07_rows_inhabited :
  let a := {| p_name := "a"; p_origin := "o"; p_replaces := []; p_files := [] |} in
  let b := {| p_name := "b"; p_origin := "p"; p_replaces := ["a"]; p_files := [] |} in
  decide_lazy a b 1 2 = Overwrite /\ decide_lazy b a 1 2 = KeepOld /\
  decide_lazy a a 1 2 = Overwrite /\ decide_lazy a {| p_name := "c"; p_origin := "q"; p_replaces := []; p_files := [] |} 1 2 = Conflict /\
  decide_stream (Some a) b false = SDec Overwrite /\ decide_lazy no_pkg no_pkg 1 2 = Overwrite /\
  decide_stream (Some a) no_pkg true = SErrExists.
Proof. vm_compute. repeat split. Qed.

(* A Conflict decision always surfaces as the error of the whole install, and
   the state handed back is the state in which the clash was met: nothing of
   another package was replaced on that path. [pre]/[hpre] = the packages and
   headers installed before the clash, [s] = the state they lead to; for every
   backend, package list, initial tree. *)
Theorem c07_no_silent_overwrite : forall b pkgs init pre me post hpre h hpost s1 done1 s acc,
  pkgs = pre ++ me :: post ->
  p_files me = hpre ++ h :: hpost ->
  install_all b pkgs 0 {| s_fs := init; s_if := [] |} [] pre = IOk (s1, done1) ->
  install_files b pkgs (List.length pre) me s1 [] hpre = IOk (s, acc) ->
  conflict_at b pkgs me s h ->
  install b pkgs init = RFail (EConflict (h_path h)) s.
Proof. exact no_silent_overwrite. Qed.
Print Assumptions c07_no_silent_overwrite.

Example c07_conflict_inhabited :
  let dirs := wit_dirs in
  let x (sm : N) := {| h_path := ["usr"; "bin"; "x"]; h_kind := KReg; h_mode := 493; h_uid := 0; h_gid := 0; h_sum := sm; h_link := [] |} in
  let a := {| p_name := "a"; p_origin := "a"; p_replaces := []; p_files := dirs ++ [x 2%N] |} in
  let b := {| p_name := "b"; p_origin := "b"; p_replaces := []; p_files := dirs ++ [x 3%N] |} in
  forall bk, exists s, install bk [a; b] [] = RFail (EConflict ["usr"; "bin"; "x"]) s /\
    fs_get (s_fs s) ["usr"; "bin"; "x"] = Some (NFile 2 493 (Some 0) true).
Proof. intros dirs x a b bk. destruct bk; eexists; (split; [vm_compute; reflexivity | vm_compute; reflexivity]). Qed.

(* For EVERY ordered package list, backend and initial tree: after a successful
   install, whenever installedFiles names package i for a path, the node there
   is package i's regular file (its content and mode), the header is listed
   under package i after the DeleteFunc pruning and no other package lists a
   file or link of that path (directory headers are never pruned: their names
   end in "/" and are no keys of installedFiles).
   Hypothesis: no path is shipped as a regular file by one package and as a
   symbolic link by another — without it the statement fails on tarfs, see
   [c07_owner_invariant_mixed_kinds_refuted] (finding C07-F5). *)
Theorem c07_owner_invariant : forall b pkgs init f,
  no_sym_over_reg pkgs -> install b pkgs init = RDone f ->
  forall p i, if_get (f_if f) p = Some i ->
    exists h, In h (p_files (nth i pkgs no_pkg)) /\ h_kind h = KReg /\ h_path h = p /\
      fs_get (f_fs f) p = Some (NFile (h_sum h) (h_mode h) (Some i) true) /\
      In h (prune (f_if f) i (nth i (f_files f) [])) /\
      (forall k h', In h' (prune (f_if f) k (nth k (f_files f) [])) -> h_kind h' <> KDir -> h_path h' = p -> k = i).
Proof. exact owner_invariant. Qed.
Print Assumptions c07_owner_invariant.

Theorem c07_owner_invariant_mixed_kinds_refuted : exists pkgs f p i,
  install Lazy pkgs [] = RDone f /\ if_get (f_if f) p = Some i /\
  forall sm md ow dt, fs_get (f_fs f) p <> Some (NFile sm md ow dt).
Proof. exact owner_invariant_needs_no_sym_over_reg. Qed.
Print Assumptions c07_owner_invariant_mixed_kinds_refuted.

(* "every recorded entry exists with the recorded mode and owner" is false on
   every backend: header owners are never applied (C07-F1) ... *)
Theorem c07_db_matches_fs_refuted : forall b,
  ~ (forall pkgs init f, install b pkgs init = RDone f -> DbMatchesFs f).
Proof. exact db_matches_fs_refuted. Qed.
Print Assumptions c07_db_matches_fs_refuted.

(* ... and, all owners being root, a directory shipped with two modes keeps the
   first while both are recorded (C07-F2) *)
Theorem c07_db_matches_fs_refuted_root_owned : forall b,
  ~ (forall pkgs init f, install b pkgs init = RDone f ->
       (forall h, In h (all_hdrs pkgs) -> h_uid h = 0%N /\ h_gid h = 0%N) -> DbMatchesFs f).
Proof. exact db_matches_fs_refuted_root_owned. Qed.
Print Assumptions c07_db_matches_fs_refuted_root_owned.

(* What does hold, for every package list in which no package ships a path
   twice and no path is both a regular file and a symbolic link: every recorded
   REGULAR-FILE entry whose path has a recorded owner exists with the recorded
   content and mode, is that package's own, and has the recorded uid/gid exactly
   when the header says root. Missing from the full statement: directories
   (C07-F2), non-root owners (C07-F1), symbolic links and hard links (C07-F5,
   C07-F9), and paths nobody is recorded for — files kept because identical
   bytes were already there (C07-F8). *)
Theorem c07_db_matches_fs_partial : forall b pkgs init f,
  no_sym_over_reg pkgs -> nodup_paths pkgs -> install b pkgs init = RDone f ->
  forall k entries h, nth_error (f_db f) k = Some entries -> In h entries -> h_kind h = KReg ->
    if_get (f_if f) (h_path h) = None \/
    exists n, fs_get (f_fs f) (h_path h) = Some n /\
      n = NFile (h_sum h) (h_mode h) (Some k) true /\
      node_perm n = perm_of (h_mode h) /\
      (h_uid h = 0%N -> h_gid h = 0%N -> node_uid n = h_uid h /\ node_gid n = h_gid h).
Proof.
  intros b pkgs init f H1 H2 H3 k entries h H4 H5 H6.
  destruct (db_regular_entries_true b pkgs init f H1 H2 H3 k entries h H4 H5 H6) as [A|A]; [left; exact A|].
  right. eexists. split; [exact A|]. split; [reflexivity|]. split; [reflexivity|].
  intros U G. rewrite U, G. split; reflexivity.
Qed.
Print Assumptions c07_db_matches_fs_partial.

Example c07_partial_inhabited : exists f entries,
  install StreamMem [ {| p_name := "a"; p_origin := "a"; p_replaces := [];
                         p_files := wit_dirs ++ [ {| h_path := ["usr"; "bin"; "x"]; h_kind := KReg; h_mode := 493;
                                                     h_uid := 0; h_gid := 0; h_sum := 2; h_link := [] |} ] |} ] [] = RDone f /\
  nth_error (f_db f) 0 = Some entries /\ List.length entries = 3 /\
  if_get (f_if f) ["usr"; "bin"; "x"] = Some 0.
Proof. eexists _, _. repeat split; vm_compute; reflexivity. Qed.

(* Every recorded entry exists in the tree with the recorded KIND (the database
   text tells directories, F:, from everything else, R:): a recorded directory
   header is a directory of the tree, any other recorded header is a regular
   file or a link. For every backend, package list (no header with the empty
   path) and initial tree on which the model answers. With path resolution
   through symbolic links the statement is false, see
   [c07_db_kind_with_links_refuted] (finding C07-F11). *)
Theorem c07_db_kind_true : forall b pkgs init f,
  install b pkgs init = RDone f ->
  (forall h, In h (all_hdrs pkgs) -> h_path h <> []) ->
  forall k entries h, nth_error (f_db f) k = Some entries -> In h entries ->
    match h_kind h with
    | KDir => exists md, fs_get (f_fs f) (h_path h) = Some (NDir md)
    | _ => match fs_get (f_fs f) (h_path h) with
           | Some (NFile _ _ _ _) | Some (NSym _ _ _) => True
           | _ => False
           end
    end.
Proof. exact db_kind_true. Qed.
Print Assumptions c07_db_kind_true.

Theorem c07_db_kind_with_links_refuted : forall b, exists pkgs f entries h tg ow lk,
  install_l b pkgs [] = RDone f /\ nth_error (f_db f) 1 = Some entries /\ In h entries /\
  h_kind h = KDir /\ fs_get (f_fs f) (h_path h) = Some (NSym tg ow lk).
Proof.
  intro b. destruct (db_kind_links_witness b) as (f & entries & A & B & C & D).
  eexists _, f, entries, wit_x_dir, _, _, _. repeat split; eauto.
Qed.
Print Assumptions c07_db_kind_with_links_refuted.

(* [c07_db_matches_fs_partial] for SYMBOLIC-LINK entries. On the streaming
   backends (memfs, dirfs) the statement holds in full: every recorded link
   entry is in the tree with the recorded target and is that package's own (an
   identical link of a later package is skipped and not recorded, a different
   one fails the build). On tarfs it is false: the header is recorded whether or
   not the link was written, and a link that is later replaced by the rules
   stays recorded (finding C07-F5); what holds there is [c07_db_kind_true]. *)
Theorem c07_db_symlink_entries_stream : forall b pkgs init f,
  is_lazy b = false -> install b pkgs init = RDone f ->
  forall k entries h, nth_error (f_db f) k = Some entries -> In h entries -> h_kind h = KSym ->
    fs_get (f_fs f) (h_path h) = Some (NSym (h_sum h) (Some k) (h_link h)).
Proof. exact db_symlink_entries_stream. Qed.
Print Assumptions c07_db_symlink_entries_stream.

Theorem c07_db_symlink_entries_lazy_refuted : exists pkgs f entries h tg,
  install Lazy pkgs [] = RDone f /\ nth_error (f_db f) 0 = Some entries /\ In h entries /\ h_kind h = KSym /\
  fs_get (f_fs f) (h_path h) = Some (NSym tg (Some 1) []) /\ tg <> h_sum h.
Proof.
  destruct db_symlink_entry_stale_lazy as (pkgs & f & entries & A & B & C & D).
  exists pkgs, f, entries, (wit_sx 2), 3%N. repeat split; auto. discriminate.
Qed.
Print Assumptions c07_db_symlink_entries_lazy_refuted.

Example c07_symlink_entries_inhabited : exists f entries,
  install StreamMem [ {| p_name := "a"; p_origin := "a"; p_replaces := []; p_files := wit_dirs ++ [wit_sx 2] |} ] [] = RDone f /\
  nth_error (f_db f) 0 = Some entries /\ In (wit_sx 2) entries.
Proof. eexists _, _. split; [vm_compute; reflexivity|]. split; [vm_compute; reflexivity | vm_compute; tauto]. Qed.

(* ... for HARD-LINK entries: the entry exists as a non-directory
   ([c07_db_kind_true]); the recorded MODE is the link header's own while the
   node is the target's, so "exists with the recorded mode" is false on every
   backend (finding C07-F9: c ships usr/bin/l 0600, d ships the same bytes 0755
   and the hard link l.ln 0755: the first copy stays, the link shares it) *)
Theorem c07_db_hardlink_mode_refuted : forall b,
  ~ (forall pkgs init f, install b pkgs init = RDone f ->
       forall k entries h, nth_error (f_db f) k = Some entries -> In h entries -> h_kind h = KLink ->
         exists n, fs_get (f_fs f) (h_path h) = Some n /\ node_perm n = perm_of (h_mode h)).
Proof. exact db_hardlink_mode_refuted. Qed.
Print Assumptions c07_db_hardlink_mode_refuted.

(* A header that survives the DeleteFunc pruning IS written to the database
   whenever its package also ships a directory header for every ancestor (the
   condition under which sortTarHeaders reaches it; without it the entry is
   dropped, finding C07-F7). Paths of one component are never written unless
   they are directories with children (same finding). *)
Theorem c07_pruned_header_written : forall b pkgs init f k me h,
  install b pkgs init = RDone f ->
  nth_error pkgs k = Some me ->
  In h (prune (f_if f) k (nth k (f_files f) [])) ->
  (2 <= List.length (h_path h))%nat ->
  (forall q, In q (prefixes (parent (h_path h))) -> exists d, In d (p_files me) /\ h_path d = q /\ h_kind d = KDir) ->
  exists entries, nth_error (f_db f) k = Some entries /\ In h entries.
Proof. exact pruned_header_written. Qed.
Print Assumptions c07_pruned_header_written.

(* together with [c07_owner_invariant]: the owner's header of every owned path
   is written under the owner and under nobody else *)
Example c07_written_inhabited : exists f h,
  install Lazy [ {| p_name := "a"; p_origin := "a"; p_replaces := [];
                    p_files := wit_dirs ++ [ {| h_path := ["usr"; "bin"; "x"]; h_kind := KReg; h_mode := 493;
                                                h_uid := 0; h_gid := 0; h_sum := 2; h_link := [] |} ] |} ] [] = RDone f /\
  In h (prune (f_if f) 0 (nth 0 (f_files f) [])) /\ h_path h = ["usr"; "bin"; "x"].
Proof. eexists _, _. split; [vm_compute; reflexivity|]. split; [vm_compute; right; right; left; reflexivity | reflexivity]. Qed.

(* The model the correspondence runs, [install_l], resolves paths through
   symbolic links (getNode / MkdirAll / openFile of the three filesystems) where
   [install] declines; wherever [install] answers, success or error of the real
   code, [install_l] gives the same answer: every theorem above about [install]
   is a theorem about the compared model on those inputs. *)
Theorem c07_install_l_conservative : forall b pkgs init,
  (forall s, install b pkgs init <> RFail EUnsupported s) ->
  install_l b pkgs init = install b pkgs init.
Proof. exact install_l_conservative. Qed.
Print Assumptions c07_install_l_conservative.

(* ... and on inputs made of regular files and directories only (packages and
   initial tree) the declining model always answers: there every theorem of
   this file about [install] is a theorem about [install_l], with a hypothesis
   on the INPUT alone *)
Theorem c07_install_plain_answers : forall b pkgs init,
  plain_pkgs pkgs -> plain_fs init ->
  (forall s, install b pkgs init <> RFail EUnsupported s) /\ install_l b pkgs init = install b pkgs init.
Proof. exact install_plain_answers. Qed.
Print Assumptions c07_install_plain_answers.

Example c07_plain_inhabited :
  plain_pkgs [ {| p_name := "a"; p_origin := "a"; p_replaces := []; p_files := wit_dirs ++ [wit_file_1000] |} ] /\ plain_fs [].
Proof.
  split.
  - intros h Hh. cbn in Hh. repeat (destruct Hh as [Hh|Hh]; [subst h; cbn; auto|]). contradiction.
  - intros p n G. discriminate.
Qed.

Example c07_install_l_extends : forall b, exists s f,
  install b [ {| p_name := "a"; p_origin := "a"; p_replaces := []; p_files := wit_dirs ++ [wit_usr_lib; wit_x_link] |};
              {| p_name := "b"; p_origin := "b"; p_replaces := []; p_files := wit_dirs ++ [wit_x_dir] |} ] [] = RFail EUnsupported s /\
  install_l b [ {| p_name := "a"; p_origin := "a"; p_replaces := []; p_files := wit_dirs ++ [wit_usr_lib; wit_x_link] |};
                {| p_name := "b"; p_origin := "b"; p_replaces := []; p_files := wit_dirs ++ [wit_x_dir] |} ] [] = RDone f.
Proof. intro b. destruct b; eexists _, _; (split; vm_compute; reflexivity). Qed.

(* ---- the tie to the source text ------------------------------------------
   goextract writes the ORDER OF TESTS of the two decision procedures down as
   rows (condition, outcome) of Base/C07Lib.v, from the current source: reading
   the rows in source order gives exactly [decide_lazy] / [decide_stream].
   Reordering the tests in /repo (say, the Replaces test before the checksum
   test), dropping one, or changing an outcome changes the generated rows and
   this theorem no longer holds. *)
Theorem c07_lazy_order_is_source : forall got want gs ws,
  crun (env_lazy got want gs ws) c07_writeheader_rows c07_writeheader_default =
  out_of_decision (decide_lazy got want gs ws).
Proof. exact lazy_rows_are_source. Qed.
Print Assumptions c07_lazy_order_is_source.

Theorem c07_stream_order_is_source : forall owner want same,
  crun (env_stream owner want same) c07_installregular_rows c07_installregular_default =
  out_of_sdecision (decide_stream owner want same).
Proof. exact stream_rows_are_source. Qed.
Print Assumptions c07_stream_order_is_source.

(* writeOneFile tests the name with Stat, removes the old entry before an
   allowed overwrite and creates the file O_CREATE|O_EXCL (no O_TRUNC/O_APPEND):
   the node is NEW, with the header's mode, as [set_file] has it; installedFiles
   is updated for regular files only on both paths (what makes finding C07-F5);
   the database records mode & 0777 and leaves 0755 / 0644 out of the text; the
   nesting limit of the path resolution is maxLinks of both filesystems *)
Theorem c07_model_constants_are_source :
  creates_fresh_node c07_wof_exists_test c07_wof_open_flags c07_wof_removes_before_create = true /\
  (forall (s : st) i h loc,
     (s_if (set_file s i h) = if has_flag (kind_tar_name (h_kind h)) c07_lazy_tracked then if_set (s_if s) (h_path h) i else s_if s) /\
     (s_if (set_file s i h) = if has_flag (kind_tar_name (h_kind h)) c07_stream_tracked then if_set (s_if s) (h_path h) i else s_if s) /\
     s_if (set_at s i h loc) = s_if (set_file s i h)) /\
  (forall m, perm_of m = N.land m c07_db_perm_mask /\ c07_db_default_dir_perm = 493%N /\ c07_db_default_file_perm = 420%N) /\
  (max_links = tarfs_getnode_depth /\ max_links = memfs_getnode_depth /\
   max_links = tarfs_openfile_depth /\ max_links = memfs_openfile_depth).
Proof.
  exact (conj write_one_file_creates_fresh (conj tracked_kinds_are_source (conj db_perm_is_source max_links_is_source))).
Qed.
Print Assumptions c07_model_constants_are_source.

(* the rule-table validator run on the real code's observations decides the
   readable statement *)
Theorem c07_rules_validator_decides : forall pkgs e tree,
  agrees (spec_walk pkgs) e tree = true <-> RulesObeyed pkgs e tree.
Proof. exact rules_validator_decides. Qed.
Print Assumptions c07_rules_validator_decides.

(* ... and so does the per-entry validator (every recorded entry exists with the
   recorded kind, mode, owner and content) *)
Theorem c07_entry_validator_decides : forall b pre tree fm al th dp d,
  check_entry b pre tree fm al th dp d = [] <-> EntryTrue tree d.
Proof. exact entry_validator_decides. Qed.
Print Assumptions c07_entry_validator_decides.

(* ==== provenance of the tree; the database theorem derived from it ============
   Every non-directory node of the final tree is either still the node that was
   there before the install (and nobody is recorded as its owner), or was
   written by a header OF THAT PATH which its package ships and which is on the
   package's list of installed files: a regular-file header (then the node has
   the header's bytes and mode, its tar entry names the package and
   installedFiles names the package for the path), a symbolic-link header (the
   node has the header's target and names the package; on the streaming
   backends nobody is recorded for the path), or a hard-link header (the node is
   a regular file whose bytes are those of a regular-file header on some
   package's list, or were there before; nobody is recorded for the name).
   For every backend, package list and initial tree on which the model answers
   (no path reached through a symbolic link: finding C07-F14 is outside). *)
Theorem c07_provenance : forall b pkgs init f,
  install b pkgs init = RDone f ->
  forall p n, fs_get (f_fs f) p = Some n ->
    is_dir_node n \/
    (fs_get init p = Some n /\ if_get (f_if f) p = None) \/
    exists k h, In h (p_files (nth k pkgs no_pkg)) /\ In h (nth k (f_files f) []) /\ h_path h = p /\
      match h_kind h with
      | KReg => n = NFile (h_sum h) (h_mode h) (Some k) true /\ if_get (f_if f) p = Some k
      | KSym => n = NSym (h_sum h) (Some k) (h_link h) /\ (is_lazy b = false -> if_get (f_if f) p = None)
      | KLink => (exists sm md ow dt, n = NFile sm md ow dt) /\
                 content_src init (fun k => nth k (f_files f) []) n /\ if_get (f_if f) p = None
      | KDir => False
      end.
Proof. exact provenance. Qed.
Print Assumptions c07_provenance.

(* the invariant behind it is preserved by EVERY successful step of the model:
   any backend, any header kind, any state, no hypothesis on the package list *)
Theorem c07_provenance_preserved : forall b pkgs init i me s h s' app L acc,
  prov b init s (upd L i acc) ->
  step b pkgs i me s h = IOk (s', app) ->
  prov b init s' (upd L i (if app then acc ++ [h] else acc)).
Proof. exact prov_step. Qed.
Print Assumptions c07_provenance_preserved.

(* THE DATABASE TELLS THE TRUTH, inside the envelope: every path is shipped
   with one kind ([one_kind_per_path]: no regular file over a link or the
   reverse, C07-F5/F13, no regular file at a hard link's name), by no package
   twice ([nodup_paths], C07-F16), and nothing shipped as a file or link was in
   the tree before ([fresh_paths], C07-F8). Then for EVERY (package, header)
   record of the final database ([record_true], Proofs/InstallProvProofs.v):
     directory     -> the tree holds a directory there;
     regular file  -> the tree holds exactly this header's bytes and mode, the
                      node is this package's, installedFiles names this package
                      (the last writer by the rules), and no other stanza lists
                      the path;
     symbolic link -> the tree holds a link written by a link header of a
                      package that lists it (if the node names THIS package,
                      the last writer, it is this very record); on the
                      streaming backends it is
                      this record, on tarfs it carries this record's target
                      whenever the packages agree on the target ([links_agree];
                      otherwise the record may be stale: C07-F5, refuted above);
     hard link     -> the tree holds a regular file whose bytes are those of a
                      regular-file header on some package's list; nobody is
                      recorded as the owner of the name.
   Not claimed: the recorded MODE of directories and hard links (C07-F2, F9) and
   uid/gid (C07-F1) - see the _refuted theorems. *)
Theorem c07_db_records_true : forall b pkgs init f,
  install b pkgs init = RDone f ->
  nodup_paths pkgs -> one_kind_per_path pkgs -> fresh_paths pkgs init ->
  (forall h, In h (all_hdrs pkgs) -> h_path h <> []) ->
  forall k entries h, nth_error (f_db f) k = Some entries -> In h entries -> record_true b pkgs init f k h.
Proof. exact db_records_true. Qed.
Print Assumptions c07_db_records_true.

Example c07_db_records_true_inhabited :
  (nodup_paths wit_prov_pkgs /\ one_kind_per_path wit_prov_pkgs /\ fresh_paths wit_prov_pkgs [] /\
   links_agree wit_prov_pkgs /\ (forall h, In h (all_hdrs wit_prov_pkgs) -> h_path h <> [])) /\
  exists f ea eb,
    install Lazy wit_prov_pkgs [] = RDone f /\
    nth_error (f_db f) 0 = Some ea /\ nth_error (f_db f) 1 = Some eb /\
    In wit_hlx ea /\ In (wit_sx 2) ea /\ In (wit_sx 2) eb /\
    fs_get (f_fs f) ["usr"; "bin"; "lx"] = Some (NFile 2 493 (Some 0) true) /\
    fs_get (f_fs f) ["usr"; "bin"; "x"] = Some (NFile 3 448 (Some 1) true).
Proof. exact (conj wit_prov_in_envelope wit_prov_lazy). Qed.

(* without [fresh_paths] the statement is false on every backend (C07-F8): the
   file that was there stays, owned by nobody, and the header is recorded *)
Theorem c07_db_records_true_needs_fresh_refuted : forall b, exists pkgs init f entries h,
  install b pkgs init = RDone f /\ nth_error (f_db f) 0 = Some entries /\ In h entries /\ h_kind h = KReg /\
  fs_get (f_fs f) (h_path h) <> Some (NFile (h_sum h) (h_mode h) (Some 0) true) /\ if_get (f_if f) (h_path h) = None.
Proof.
  intro b. destruct (db_records_true_needs_fresh b) as (f & entries & A & B & C & D & E).
  eexists _, _, f, entries, wit_hx. repeat split; eauto. rewrite D. discriminate.
Qed.
Print Assumptions c07_db_records_true_needs_fresh_refuted.

(* ==== hard links ==============================================================
   In the three filesystems a hard link is a second NAME for one node.
   Model/InstallInode.v transcribes the install over names and a node heap
   ([alloc] a new node under a name, [bind] a second name, [mutate] re-pointing
   in place). goextract reads off tarfs.writeHeader that an allowed replacement
   stores a NEW node under the name and assigns to no field of the old one
   ([c07_lazy_replace_allocates]), and off both link functions that the new name
   is bound to the target's node itself. With that:
   no step changes a node in place, only the header's own name is (re-)bound,
   so EVERY OTHER NAME of a node keeps its content whatever the rule table does
   to the header's path: a later package that re-ships a link's TARGET replaces
   the target's name only. (Seeded change C07-4 re-pointed the node in place:
   the generated switch turns false, this proof and the next break, and the
   witness below shows what the tree then looks like.)
   What a READER of tarfs gets for such a node is another matter when ONE
   package ships the target's name twice: the bytes are fetched by the entry's
   name (finding C07-F17; Model/InstallRead.v, [c07_reader_view_plain] below). *)
Theorem c07_hardlink_names_keep_content : forall b pkgs i me x h y app,
  wf x -> step_i c07_lazy_replace_allocates b pkgs i me x h = ROk (y, app) ->
  (forall id, id < List.length (i_heap x) -> heap_get (i_heap y) id = heap_get (i_heap x) id) /\
  (h_kind h <> KDir ->
     (forall q, q <> h_path h -> nm_get (i_names y) q = nm_get (i_names x) q) /\
     (forall q, q <> h_path h -> fs_get (view_fs y) q = fs_get (view_fs x) q)).
Proof. exact hardlink_names_keep. Qed.
Print Assumptions c07_hardlink_names_keep_content.

(* the same in the flat model the correspondence runs: whatever a file, link or
   hard-link header does, it does to the node under ITS OWN path; in particular a
   later package that re-ships the target of a hard link leaves the link's name
   with the bytes, mode and owner it had *)
Theorem c07_reshipped_target_keeps_link : forall b pkgs i me s h s' app q,
  step b pkgs i me s h = IOk (s', app) -> h_kind h <> KDir -> q <> h_path h ->
  fs_get (s_fs s') q = fs_get (s_fs s) q.
Proof. exact step_only_own_path. Qed.
Print Assumptions c07_reshipped_target_keeps_link.

(* ... and the flat model of the theorems above (a hard link = a copy of the
   node) is exactly what a reader of the names-and-heap model sees, step by
   step, errors included: the whole install gives the same result *)
Theorem c07_inode_model_refines : forall b pkgs init,
  install_i c07_lazy_replace_allocates b pkgs init = install b pkgs init.
Proof. exact inode_refines. Qed.
Print Assumptions c07_inode_model_refines.

Theorem c07_link_and_replace_are_source :
  c07_lazy_replace_allocates = true /\ c07_lazy_replace_mutates = [] /\
  c07_tarfs_link_binds_target = true /\ c07_memfs_link_binds_target = true.
Proof. repeat split; reflexivity. Qed.
Print Assumptions c07_link_and_replace_are_source.

Example c07_hardlink_inhabited : exists x y,
  install_files_i true Lazy wit_ab 0 (nth 0 wit_ab no_pkg) (ist_of []) [] wit_a_files = ROk (x, wit_a_files) /\
  step_i true Lazy wit_ab 1 (nth 1 wit_ab no_pkg) x wit_b_x = ROk (y, true) /\
  fs_get (view_fs y) ["usr"; "bin"; "lx"] = Some (NFile 2 493 (Some 0) true) /\
  fs_get (view_fs y) ["usr"; "bin"; "x"] = Some (NFile 3 448 (Some 1) true).
Proof. exact fresh_keeps_other_names. Qed.

(* were the node re-pointed in place, the link's name would show b's bytes *)
Theorem c07_inplace_replace_changes_other_names_refuted : exists x y,
  install_files_i false Lazy wit_ab 0 (nth 0 wit_ab no_pkg) (ist_of []) [] wit_a_files = ROk (x, wit_a_files) /\
  wf x /\
  step_i false Lazy wit_ab 1 (nth 1 wit_ab no_pkg) x wit_b_x = ROk (y, true) /\
  fs_get (view_fs x) ["usr"; "bin"; "lx"] = Some (NFile 2 493 (Some 0) true) /\
  fs_get (view_fs y) ["usr"; "bin"; "lx"] = Some (NFile 3 448 (Some 1) true).
Proof. exact inplace_changes_other_names. Qed.
Print Assumptions c07_inplace_replace_changes_other_names_refuted.

(* ==== one package ships a path twice ==========================================
   Both decision procedures then meet the package's own earlier copy: *)
Theorem c07_self_clash_rows : forall me gs ws,
  decide_lazy me me gs ws = (if N.eqb gs ws then KeepOld else if declares me me then KeepOld else Overwrite) /\
  decide_stream (Some me) me (N.eqb gs ws) =
    (if String.eqb (p_origin me) "" then SErrExists
     else SDec (if N.eqb gs ws then KeepOld else if declares me me then KeepOld else Overwrite)).
Proof. exact self_rows. Qed.
Print Assumptions c07_self_clash_rows.

(* the LATER copy of a path wins inside one package (every backend; the
   streaming ones need an origin, C07-F4); identical bytes leave the FIRST copy
   in place, with its mode *)
Theorem c07_dup_later_copy_wins : forall b pkgs i s h1 h2,
  let me := nth i pkgs no_pkg in
  h_kind h1 = KReg -> h_kind h2 = KReg -> h_path h2 = h_path h1 ->
  dir_state (s_fs s) (parent (h_path h1)) = PDir ->
  fs_get (s_fs s) (h_path h1) = Some (NFile (h_sum h1) (h_mode h1) (Some i) true) ->
  if_get (s_if s) (h_path h1) = Some i ->
  declares me me = false ->
  (is_lazy b = false -> p_origin me <> "") ->
  step b pkgs i me s h2 = IOk (if N.eqb (h_sum h1) (h_sum h2) then s else set_file s i h2, true).
Proof. exact dup_later_copy_wins. Qed.
Print Assumptions c07_dup_later_copy_wins.

(* The database writer (sortTarHeaders) keeps ONE header per name - the last -
   and writes it once per occurrence ([db_of], Model/InstallDb.v: what the
   correspondence compares with the real text). When no package ships a path
   twice it writes exactly [f_db]: every theorem about [f_db] above is one about
   the compared writer. xattrs and times of the headers are written nowhere in
   the database (the model has no fields for them). *)
Theorem c07_db_writer_nodup : forall b pkgs init f,
  install b pkgs init = RDone f -> strict_nodup_paths pkgs -> top_childless_pkgs pkgs ->
  forall k entries, nth_error (db_of f) k = Some entries ->
    exists entries', nth_error (f_db f) k = Some entries' /\ forall y, In y entries <-> In y entries'.
Proof. exact db_of_nodup. Qed.
Print Assumptions c07_db_writer_nodup.

Example c07_db_writer_nodup_inhabited :
  strict_nodup_paths wit_prov_pkgs /\ top_childless_pkgs wit_prov_pkgs.
Proof.
  split.
  - intros pk Hpk. apply nodupb_ok. cbn in Hpk. destruct Hpk as [E|[E|[]]]; subst pk; vm_compute; reflexivity.
  - intros pk Hpk h c Hh Hc Hk Hl. cbn in Hpk. destruct Hpk as [E|[E|[]]]; subst pk; cbn in Hh;
      repeat (destruct Hh as [Hh|Hh]; [subst h; first [exfalso; apply Hk; reflexivity | discriminate Hl]|]); contradiction.
Qed.

(* the two facts of sortTarHeaders that [Model/InstallDb.v] rests on, read off the
   source by shape (goextract: in the loop over the header list, directly in its
   body, `m[name] = <the header>` and `c[dir] = append(c[dir], name)`): the header
   kept for a name is the LAST one, and a name is listed under its directory once
   per header. Keeping the first header, or listing a name once, flips a switch
   and this no longer holds. *)
Theorem c07_db_writer_is_source :
  (forall pr q, last_at pr q =
     find (fun h => path_eqb (h_path h) q) (if c07_sort_last_header_of_a_name_kept then rev pr else pr)) /\
  (forall pr q, count_path pr q =
     let n := List.length (filter (fun h => path_eqb (h_path h) q) pr) in
     if c07_sort_child_listed_per_header then n else Nat.min 1 n).
Proof. exact (conj (fun pr q => eq_refl) (fun pr q => eq_refl)). Qed.
Print Assumptions c07_db_writer_is_source.

(* ... and when a package does, the record is the last header's whatever the
   clash decided: the same bytes 0755 then 0700 leave the first copy (0755) in
   the tree and 0700 (twice) in the database, on every backend (C07-F16) *)
Theorem c07_dup_db_records_last_header_refuted : forall b,
  ~ (forall pkgs init f, install b pkgs init = RDone f ->
       forall k entries h, nth_error (db_of f) k = Some entries -> In h entries -> h_kind h = KReg ->
         exists sm ow dt, fs_get (f_fs f) (h_path h) = Some (NFile sm (h_mode h) ow dt)).
Proof. exact dup_records_last_refuted. Qed.
Print Assumptions c07_dup_db_records_last_header_refuted.

Example c07_dup_inhabited : forall b, exists f,
  install b [ {| p_name := "a"; p_origin := "a"; p_replaces := []; p_files := wit_dirs ++ [wit_hx; wit_x3] |} ] [] = RDone f /\
  nth_error (db_of f) 0 = Some (wit_dirs ++ [wit_x3; wit_x3]) /\
  fs_get (f_fs f) (h_path wit_x3) = Some (NFile 3 448 (Some 0) true).
Proof. exact dup_other_bytes. Qed.

(* ==== what a reader of the lazy backend sees ===================================
   tarfs fetches a node's bytes by the entry's NAME from the package's own index,
   which keeps the last entry of a name (Model/InstallRead.v: [lazy_view], what
   the correspondence compares the observed tree with). When no package ships a
   name twice this is the tree of the theorems above: every node that is not
   under a hard link's name reads exactly the bytes it was written with. With a
   name shipped twice it is not (finding C07-F17: the witness is the hard link of
   the harness's probe, replayed in the corpus on every backend). *)
Theorem c07_reader_view_plain : forall b pkgs init f,
  install b pkgs init = RDone f -> strict_nodup_paths pkgs -> init_unowned init ->
  forall q n, fs_get (f_fs f) q = Some n ->
    (forall k h, In h (p_files (nth k pkgs no_pkg)) -> h_kind h = KLink -> h_path h <> q) ->
    lazy_node pkgs q n = n.
Proof. exact lazy_node_plain. Qed.
Print Assumptions c07_reader_view_plain.

Definition wit_f17_pkgs : list pkg :=
  [ {| p_name := "a"; p_origin := "a"; p_replaces := [];
       p_files := wit_dirs ++ [wit_hx; wit_hlx; wit_x3] |} ].
Theorem c07_reader_view_by_name_refuted : exists f,
  install Lazy wit_f17_pkgs [] = RDone f /\
  (* the link's name is another name of the FIRST copy's node ... *)
  fs_get (f_fs f) ["usr"; "bin"; "lx"] = Some (NFile 2 493 (Some 0) true) /\
  (* ... and reads the LATER copy's bytes *)
  fs_get (lazy_view wit_f17_pkgs (f_fs f)) ["usr"; "bin"; "lx"] = Some (NFile 3 493 (Some 0) true).
Proof. eexists. split; [vm_compute; reflexivity|]. split; vm_compute; reflexivity. Qed.
Print Assumptions c07_reader_view_by_name_refuted.

(* ==== which link wins on tarfs ==================================================
   When packages ship one path as a symbolic link with DIFFERENT targets, tarfs
   lets the rule table decide (the streaming backends fail the build, C07-F6) and
   some records go stale (C07-F5). WHICH link the tree then holds is the one
   [sym_winner] names: the headers of the path, in install order, each meeting the
   link in place through writeHeader's decision. For every package list in which
   the path is shipped as a link only and was not in the tree before - so a link
   record of the database is true exactly when its target is the winner's. *)
Theorem c07_lazy_link_winner_by_rules : forall pkgs init f p k h,
  install Lazy pkgs init = RDone f ->
  fs_get init p = None ->
  (forall x, In x (all_hdrs pkgs) -> h_path x = p -> h_kind x = KSym) ->
  sym_winner pkgs p = Some (k, h) ->
  fs_get (f_fs f) p = Some (NSym (h_sum h) (Some k) (h_link h)).
Proof. exact lazy_link_winner. Qed.
Print Assumptions c07_lazy_link_winner_by_rules.

Example c07_lazy_link_winner_inhabited :
  sym_winner [ {| p_name := "a"; p_origin := "o"; p_replaces := []; p_files := wit_dirs ++ [wit_sx 2] |};
               {| p_name := "b"; p_origin := "o"; p_replaces := []; p_files := wit_dirs ++ [wit_sx 3] |} ]
             ["usr"; "bin"; "sx"] = Some (1, wit_sx 3) /\
  sym_winner [ {| p_name := "a"; p_origin := "a"; p_replaces := ["b"]; p_files := wit_dirs ++ [wit_sx 2] |};
               {| p_name := "b"; p_origin := "a"; p_replaces := []; p_files := wit_dirs ++ [wit_sx 3] |} ]
             ["usr"; "bin"; "sx"] = Some (0, wit_sx 2).
Proof. exact lazy_link_winner_witness. Qed.
