(* C07 — File conflicts follow replaces/origin rules; the installed DB tells
   the truth. Property theorems only; proofs in Proofs/InstallProofs.v. *)
From Apko Require Import Base.Prelude Base.C07Lib Generated.C07Install Generated.FsConsts Model.Install Spec.InstallSpec Proofs.InstallProofs.
Open Scope string_scope. Open Scope list_scope.

(* tarfs.writeHeader decides exactly by the rule table whenever at least one of
   the two packages names an origin ... *)
Theorem c07_decide_lazy_is_spec : forall got want gs ws,
  (p_origin got <> "" \/ p_origin want <> "") ->
  decide_lazy got want gs ws =
  spec_decide (N.eqb gs ws) (declares got want) (declares want got)
              (spec_same_origin (p_origin got) (p_origin want)).
Proof. exact decide_lazy_is_spec. Qed.
Print Assumptions c07_decide_lazy_is_spec.

(* ... and when neither does it treats them as of the same origin: different
   content of two unrelated packages is overwritten silently (finding C07-F3) *)
Theorem c07_decide_lazy_empty_origins : forall got want gs ws,
  p_origin got = "" -> p_origin want = "" ->
  decide_lazy got want gs ws = spec_decide (N.eqb gs ws) (declares got want) (declares want got) true.
Proof. exact decide_lazy_empty_origins. Qed.
Print Assumptions c07_decide_lazy_empty_origins.

(* installRegularFile decides by the rule table whenever the package being
   installed names an origin and the existing file has a recorded owner ... *)
Theorem c07_decide_stream_is_spec : forall got want gs ws,
  p_origin want <> "" ->
  decide_stream (Some got) want (N.eqb gs ws) =
  SDec (spec_decide (N.eqb gs ws) (declares got want) (declares want got)
                    (spec_same_origin (p_origin got) (p_origin want))).
Proof. exact decide_stream_is_spec. Qed.
Print Assumptions c07_decide_stream_is_spec.

(* ... and when it names none, every clash is an error of another class, even
   for identical content or a declared replacement (finding C07-F4) *)
Theorem c07_decide_stream_empty_origin : forall owner want same,
  p_origin want = "" -> decide_stream owner want same = SErrExists.
Proof. exact decide_stream_empty_origin. Qed.
Print Assumptions c07_decide_stream_empty_origin.

Example c07_rows_inhabited :
  let a := {| p_name := "a"; p_origin := "o"; p_replaces := []; p_files := [] |} in
  let b := {| p_name := "b"; p_origin := "p"; p_replaces := ["a"]; p_files := [] |} in
  decide_lazy a b 1 2 = Overwrite /\ decide_lazy b a 1 2 = KeepOld /\
  decide_lazy a a 1 2 = Overwrite /\ decide_lazy a {| p_name := "c"; p_origin := "q"; p_replaces := []; p_files := [] |} 1 2 = Conflict /\
  decide_stream (Some a) b false = SDec Overwrite /\ decide_lazy no_pkg no_pkg 1 2 = Overwrite /\
  decide_stream (Some a) no_pkg true = SErrExists.
Proof. vm_compute. repeat split. Qed.

(* A Conflict decision always surfaces as the error of the whole install, and
   the state handed back is the state in which the clash was met: nothing of
   another package was replaced on that path. [pre]/[hpre] = the packages and
   headers installed before the clash, [s] = the state they lead to; for every
   backend, package list, initial tree. *)
Theorem c07_no_silent_overwrite : forall b pkgs init pre me post hpre h hpost s1 done1 s acc,
  pkgs = pre ++ me :: post ->
  p_files me = hpre ++ h :: hpost ->
  install_all b pkgs 0 {| s_fs := init; s_if := [] |} [] pre = IOk (s1, done1) ->
  install_files b pkgs (List.length pre) me s1 [] hpre = IOk (s, acc) ->
  conflict_at b pkgs me s h ->
  install b pkgs init = RFail (EConflict (h_path h)) s.
Proof. exact no_silent_overwrite. Qed.
Print Assumptions c07_no_silent_overwrite.

Example c07_conflict_inhabited :
  let dirs := wit_dirs in
  let x (sm : N) := {| h_path := ["usr"; "bin"; "x"]; h_kind := KReg; h_mode := 493; h_uid := 0; h_gid := 0; h_sum := sm; h_link := [] |} in
  let a := {| p_name := "a"; p_origin := "a"; p_replaces := []; p_files := dirs ++ [x 2%N] |} in
  let b := {| p_name := "b"; p_origin := "b"; p_replaces := []; p_files := dirs ++ [x 3%N] |} in
  forall bk, exists s, install bk [a; b] [] = RFail (EConflict ["usr"; "bin"; "x"]) s /\
    fs_get (s_fs s) ["usr"; "bin"; "x"] = Some (NFile 2 493 (Some 0) true).
Proof. intros dirs x a b bk. destruct bk; eexists; (split; [vm_compute; reflexivity | vm_compute; reflexivity]). Qed.

(* For EVERY ordered package list, backend and initial tree: after a successful
   install, whenever installedFiles names package i for a path, the node there
   is package i's regular file (its content and mode), the header is listed
   under package i after the DeleteFunc pruning and no other package lists a
   file or link of that path (directory headers are never pruned: their names
   end in "/" and are no keys of installedFiles).
   Hypothesis: no path is shipped as a regular file by one package and as a
   symbolic link by another — without it the statement fails on tarfs, see
   [c07_owner_invariant_mixed_kinds_refuted] (finding C07-F5). *)
Theorem c07_owner_invariant : forall b pkgs init f,
  no_sym_over_reg pkgs -> install b pkgs init = RDone f ->
  forall p i, if_get (f_if f) p = Some i ->
    exists h, In h (p_files (nth i pkgs no_pkg)) /\ h_kind h = KReg /\ h_path h = p /\
      fs_get (f_fs f) p = Some (NFile (h_sum h) (h_mode h) (Some i) true) /\
      In h (prune (f_if f) i (nth i (f_files f) [])) /\
      (forall k h', In h' (prune (f_if f) k (nth k (f_files f) [])) -> h_kind h' <> KDir -> h_path h' = p -> k = i).
Proof. exact owner_invariant. Qed.
Print Assumptions c07_owner_invariant.

Theorem c07_owner_invariant_mixed_kinds_refuted : exists pkgs f p i,
  install Lazy pkgs [] = RDone f /\ if_get (f_if f) p = Some i /\
  forall sm md ow dt, fs_get (f_fs f) p <> Some (NFile sm md ow dt).
Proof. exact owner_invariant_needs_no_sym_over_reg. Qed.
Print Assumptions c07_owner_invariant_mixed_kinds_refuted.

(* "every recorded entry exists with the recorded mode and owner" is false on
   every backend: header owners are never applied (C07-F1) ... *)
Theorem c07_db_matches_fs_refuted : forall b,
  ~ (forall pkgs init f, install b pkgs init = RDone f -> DbMatchesFs f).
Proof. exact db_matches_fs_refuted. Qed.
Print Assumptions c07_db_matches_fs_refuted.

(* ... and, all owners being root, a directory shipped with two modes keeps the
   first while both are recorded (C07-F2) *)
Theorem c07_db_matches_fs_refuted_root_owned : forall b,
  ~ (forall pkgs init f, install b pkgs init = RDone f ->
       (forall h, In h (all_hdrs pkgs) -> h_uid h = 0%N /\ h_gid h = 0%N) -> DbMatchesFs f).
Proof. exact db_matches_fs_refuted_root_owned. Qed.
Print Assumptions c07_db_matches_fs_refuted_root_owned.

(* What does hold, for every package list in which no package ships a path
   twice and no path is both a regular file and a symbolic link: every recorded
   REGULAR-FILE entry whose path has a recorded owner exists with the recorded
   content and mode, is that package's own, and has the recorded uid/gid exactly
   when the header says root. Missing from the full statement: directories
   (C07-F2), non-root owners (C07-F1), symbolic links and hard links (C07-F5,
   C07-F9), and paths nobody is recorded for — files kept because identical
   bytes were already there (C07-F8). *)
Theorem c07_db_matches_fs_partial : forall b pkgs init f,
  no_sym_over_reg pkgs -> nodup_paths pkgs -> install b pkgs init = RDone f ->
  forall k entries h, nth_error (f_db f) k = Some entries -> In h entries -> h_kind h = KReg ->
    if_get (f_if f) (h_path h) = None \/
    exists n, fs_get (f_fs f) (h_path h) = Some n /\
      n = NFile (h_sum h) (h_mode h) (Some k) true /\
      node_perm n = perm_of (h_mode h) /\
      (h_uid h = 0%N -> h_gid h = 0%N -> node_uid n = h_uid h /\ node_gid n = h_gid h).
Proof.
  intros b pkgs init f H1 H2 H3 k entries h H4 H5 H6.
  destruct (db_regular_entries_true b pkgs init f H1 H2 H3 k entries h H4 H5 H6) as [A|A]; [left; exact A|].
  right. eexists. split; [exact A|]. split; [reflexivity|]. split; [reflexivity|].
  intros U G. rewrite U, G. split; reflexivity.
Qed.
Print Assumptions c07_db_matches_fs_partial.

Example c07_partial_inhabited : exists f entries,
  install StreamMem [ {| p_name := "a"; p_origin := "a"; p_replaces := [];
                         p_files := wit_dirs ++ [ {| h_path := ["usr"; "bin"; "x"]; h_kind := KReg; h_mode := 493;
                                                     h_uid := 0; h_gid := 0; h_sum := 2; h_link := [] |} ] |} ] [] = RDone f /\
  nth_error (f_db f) 0 = Some entries /\ List.length entries = 3 /\
  if_get (f_if f) ["usr"; "bin"; "x"] = Some 0.
Proof. eexists _, _. repeat split; vm_compute; reflexivity. Qed.

(* Every recorded entry exists in the tree with the recorded KIND (the database
   text tells directories, F:, from everything else, R:): a recorded directory
   header is a directory of the tree, any other recorded header is a regular
   file or a link. For every backend, package list (no header with the empty
   path) and initial tree on which the model answers. With path resolution
   through symbolic links the statement is false, see
   [c07_db_kind_with_links_refuted] (finding C07-F11). *)
Theorem c07_db_kind_true : forall b pkgs init f,
  install b pkgs init = RDone f ->
  (forall h, In h (all_hdrs pkgs) -> h_path h <> []) ->
  forall k entries h, nth_error (f_db f) k = Some entries -> In h entries ->
    match h_kind h with
    | KDir => exists md, fs_get (f_fs f) (h_path h) = Some (NDir md)
    | _ => match fs_get (f_fs f) (h_path h) with
           | Some (NFile _ _ _ _) | Some (NSym _ _ _) => True
           | _ => False
           end
    end.
Proof. exact db_kind_true. Qed.
Print Assumptions c07_db_kind_true.

Theorem c07_db_kind_with_links_refuted : forall b, exists pkgs f entries h tg ow lk,
  install_l b pkgs [] = RDone f /\ nth_error (f_db f) 1 = Some entries /\ In h entries /\
  h_kind h = KDir /\ fs_get (f_fs f) (h_path h) = Some (NSym tg ow lk).
Proof.
  intro b. destruct (db_kind_links_witness b) as (f & entries & A & B & C & D).
  eexists _, f, entries, wit_x_dir, _, _, _. repeat split; eauto.
Qed.
Print Assumptions c07_db_kind_with_links_refuted.

(* [c07_db_matches_fs_partial] for SYMBOLIC-LINK entries. On the streaming
   backends (memfs, dirfs) the statement holds in full: every recorded link
   entry is in the tree with the recorded target and is that package's own (an
   identical link of a later package is skipped and not recorded, a different
   one fails the build). On tarfs it is false: the header is recorded whether or
   not the link was written, and a link that is later replaced by the rules
   stays recorded (finding C07-F5); what holds there is [c07_db_kind_true]. *)
Theorem c07_db_symlink_entries_stream : forall b pkgs init f,
  is_lazy b = false -> install b pkgs init = RDone f ->
  forall k entries h, nth_error (f_db f) k = Some entries -> In h entries -> h_kind h = KSym ->
    fs_get (f_fs f) (h_path h) = Some (NSym (h_sum h) (Some k) (h_link h)).
Proof. exact db_symlink_entries_stream. Qed.
Print Assumptions c07_db_symlink_entries_stream.

Theorem c07_db_symlink_entries_lazy_refuted : exists pkgs f entries h tg,
  install Lazy pkgs [] = RDone f /\ nth_error (f_db f) 0 = Some entries /\ In h entries /\ h_kind h = KSym /\
  fs_get (f_fs f) (h_path h) = Some (NSym tg (Some 1) []) /\ tg <> h_sum h.
Proof.
  destruct db_symlink_entry_stale_lazy as (pkgs & f & entries & A & B & C & D).
  exists pkgs, f, entries, (wit_sx 2), 3%N. repeat split; auto. discriminate.
Qed.
Print Assumptions c07_db_symlink_entries_lazy_refuted.

Example c07_symlink_entries_inhabited : exists f entries,
  install StreamMem [ {| p_name := "a"; p_origin := "a"; p_replaces := []; p_files := wit_dirs ++ [wit_sx 2] |} ] [] = RDone f /\
  nth_error (f_db f) 0 = Some entries /\ In (wit_sx 2) entries.
Proof. eexists _, _. split; [vm_compute; reflexivity|]. split; [vm_compute; reflexivity | vm_compute; tauto]. Qed.

(* ... for HARD-LINK entries: the entry exists as a non-directory
   ([c07_db_kind_true]); the recorded MODE is the link header's own while the
   node is the target's, so "exists with the recorded mode" is false on every
   backend (finding C07-F9: c ships usr/bin/l 0600, d ships the same bytes 0755
   and the hard link l.ln 0755: the first copy stays, the link shares it) *)
Theorem c07_db_hardlink_mode_refuted : forall b,
  ~ (forall pkgs init f, install b pkgs init = RDone f ->
       forall k entries h, nth_error (f_db f) k = Some entries -> In h entries -> h_kind h = KLink ->
         exists n, fs_get (f_fs f) (h_path h) = Some n /\ node_perm n = perm_of (h_mode h)).
Proof. exact db_hardlink_mode_refuted. Qed.
Print Assumptions c07_db_hardlink_mode_refuted.

(* A header that survives the DeleteFunc pruning IS written to the database
   whenever its package also ships a directory header for every ancestor (the
   condition under which sortTarHeaders reaches it; without it the entry is
   dropped, finding C07-F7). Paths of one component are never written unless
   they are directories with children (same finding). *)
Theorem c07_pruned_header_written : forall b pkgs init f k me h,
  install b pkgs init = RDone f ->
  nth_error pkgs k = Some me ->
  In h (prune (f_if f) k (nth k (f_files f) [])) ->
  (2 <= List.length (h_path h))%nat ->
  (forall q, In q (prefixes (parent (h_path h))) -> exists d, In d (p_files me) /\ h_path d = q /\ h_kind d = KDir) ->
  exists entries, nth_error (f_db f) k = Some entries /\ In h entries.
Proof. exact pruned_header_written. Qed.
Print Assumptions c07_pruned_header_written.

(* together with [c07_owner_invariant]: the owner's header of every owned path
   is written under the owner and under nobody else *)
Example c07_written_inhabited : exists f h,
  install Lazy [ {| p_name := "a"; p_origin := "a"; p_replaces := [];
                    p_files := wit_dirs ++ [ {| h_path := ["usr"; "bin"; "x"]; h_kind := KReg; h_mode := 493;
                                                h_uid := 0; h_gid := 0; h_sum := 2; h_link := [] |} ] |} ] [] = RDone f /\
  In h (prune (f_if f) 0 (nth 0 (f_files f) [])) /\ h_path h = ["usr"; "bin"; "x"].
Proof. eexists _, _. split; [vm_compute; reflexivity|]. split; [vm_compute; right; right; left; reflexivity | reflexivity]. Qed.

(* The model the correspondence runs, [install_l], resolves paths through
   symbolic links (getNode / MkdirAll / openFile of the three filesystems) where
   [install] declines; wherever [install] answers, success or error of the real
   code, [install_l] gives the same answer: every theorem above about [install]
   is a theorem about the compared model on those inputs. *)
Theorem c07_install_l_conservative : forall b pkgs init,
  (forall s, install b pkgs init <> RFail EUnsupported s) ->
  install_l b pkgs init = install b pkgs init.
Proof. exact install_l_conservative. Qed.
Print Assumptions c07_install_l_conservative.

(* ... and on inputs made of regular files and directories only (packages and
   initial tree) the declining model always answers: there every theorem of
   this file about [install] is a theorem about [install_l], with a hypothesis
   on the INPUT alone *)
Theorem c07_install_plain_answers : forall b pkgs init,
  plain_pkgs pkgs -> plain_fs init ->
  (forall s, install b pkgs init <> RFail EUnsupported s) /\ install_l b pkgs init = install b pkgs init.
Proof. exact install_plain_answers. Qed.
Print Assumptions c07_install_plain_answers.

Example c07_plain_inhabited :
  plain_pkgs [ {| p_name := "a"; p_origin := "a"; p_replaces := []; p_files := wit_dirs ++ [wit_file_1000] |} ] /\ plain_fs [].
Proof.
  split.
  - intros h Hh. cbn in Hh. repeat (destruct Hh as [Hh|Hh]; [subst h; cbn; auto|]). contradiction.
  - intros p n G. discriminate.
Qed.

Example c07_install_l_extends : forall b, exists s f,
  install b [ {| p_name := "a"; p_origin := "a"; p_replaces := []; p_files := wit_dirs ++ [wit_usr_lib; wit_x_link] |};
              {| p_name := "b"; p_origin := "b"; p_replaces := []; p_files := wit_dirs ++ [wit_x_dir] |} ] [] = RFail EUnsupported s /\
  install_l b [ {| p_name := "a"; p_origin := "a"; p_replaces := []; p_files := wit_dirs ++ [wit_usr_lib; wit_x_link] |};
                {| p_name := "b"; p_origin := "b"; p_replaces := []; p_files := wit_dirs ++ [wit_x_dir] |} ] [] = RDone f.
Proof. intro b. destruct b; eexists _, _; (split; vm_compute; reflexivity). Qed.

(* ---- the tie to the source text ------------------------------------------
   goextract writes the ORDER OF TESTS of the two decision procedures down as
   rows (condition, outcome) of Base/C07Lib.v, from the current source: reading
   the rows in source order gives exactly [decide_lazy] / [decide_stream].
   Reordering the tests in /repo (say, the Replaces test before the checksum
   test), dropping one, or changing an outcome changes the generated rows and
   this theorem no longer holds. *)
Theorem c07_lazy_order_is_source : forall got want gs ws,
  crun (env_lazy got want gs ws) c07_writeheader_rows c07_writeheader_default =
  out_of_decision (decide_lazy got want gs ws).
Proof. exact lazy_rows_are_source. Qed.
Print Assumptions c07_lazy_order_is_source.

Theorem c07_stream_order_is_source : forall owner want same,
  crun (env_stream owner want same) c07_installregular_rows c07_installregular_default =
  out_of_sdecision (decide_stream owner want same).
Proof. exact stream_rows_are_source. Qed.
Print Assumptions c07_stream_order_is_source.

(* writeOneFile tests the name with Stat, removes the old entry before an
   allowed overwrite and creates the file O_CREATE|O_EXCL (no O_TRUNC/O_APPEND):
   the node is NEW, with the header's mode, as [set_file] has it; installedFiles
   is updated for regular files only on both paths (what makes finding C07-F5);
   the database records mode & 0777 and leaves 0755 / 0644 out of the text; the
   nesting limit of the path resolution is maxLinks of both filesystems *)
Theorem c07_model_constants_are_source :
  creates_fresh_node c07_wof_exists_test c07_wof_open_flags c07_wof_removes_before_create = true /\
  (forall (s : st) i h loc,
     (s_if (set_file s i h) = if has_flag (kind_tar_name (h_kind h)) c07_lazy_tracked then if_set (s_if s) (h_path h) i else s_if s) /\
     (s_if (set_file s i h) = if has_flag (kind_tar_name (h_kind h)) c07_stream_tracked then if_set (s_if s) (h_path h) i else s_if s) /\
     s_if (set_at s i h loc) = s_if (set_file s i h)) /\
  (forall m, perm_of m = N.land m c07_db_perm_mask /\ c07_db_default_dir_perm = 493%N /\ c07_db_default_file_perm = 420%N) /\
  (max_links = tarfs_getnode_depth /\ max_links = memfs_getnode_depth /\
   max_links = tarfs_openfile_depth /\ max_links = memfs_openfile_depth).
Proof.
  exact (conj write_one_file_creates_fresh (conj tracked_kinds_are_source (conj db_perm_is_source max_links_is_source))).
Qed.
Print Assumptions c07_model_constants_are_source.

(* the rule-table validator run on the real code's observations decides the
   readable statement *)
Theorem c07_rules_validator_decides : forall pkgs e tree,
  agrees (spec_walk pkgs) e tree = true <-> RulesObeyed pkgs e tree.
Proof. exact rules_validator_decides. Qed.
Print Assumptions c07_rules_validator_decides.

(* ... and so does the per-entry validator (every recorded entry exists with the
   recorded kind, mode, owner and content) *)
Theorem c07_entry_validator_decides : forall b pre tree fm al th d,
  check_entry b pre tree fm al th d = [] <-> EntryTrue tree d.
Proof. exact entry_validator_decides. Qed.
Print Assumptions c07_entry_validator_decides.
