(* C07 — File conflicts follow replaces/origin rules; the installed DB tells
   the truth. Property theorems only; proofs in Proofs/InstallProofs.v. *)
From Apko Require Import Base.Prelude Model.Install Spec.InstallSpec Proofs.InstallProofs.
Open Scope string_scope. Open Scope list_scope.

(* tarfs.writeHeader decides exactly by the rule table whenever at least one of
   the two packages names an origin ... *)
Theorem c07_decide_lazy_is_spec : forall got want gs ws,
  (p_origin got <> "" \/ p_origin want <> "") ->
  decide_lazy got want gs ws =
  spec_decide (N.eqb gs ws) (declares got want) (declares want got)
              (spec_same_origin (p_origin got) (p_origin want)).
Proof. exact decide_lazy_is_spec. Qed.
Print Assumptions c07_decide_lazy_is_spec.

(* ... and when neither does it treats them as of the same origin: different
   content of two unrelated packages is overwritten silently (finding C07-F3) *)
Theorem c07_decide_lazy_empty_origins : forall got want gs ws,
  p_origin got = "" -> p_origin want = "" ->
  decide_lazy got want gs ws = spec_decide (N.eqb gs ws) (declares got want) (declares want got) true.
Proof. exact decide_lazy_empty_origins. Qed.
Print Assumptions c07_decide_lazy_empty_origins.

(* installRegularFile decides by the rule table whenever the package being
   installed names an origin and the existing file has a recorded owner ... *)
Theorem c07_decide_stream_is_spec : forall got want gs ws,
  p_origin want <> "" ->
  decide_stream (Some got) want (N.eqb gs ws) =
  SDec (spec_decide (N.eqb gs ws) (declares got want) (declares want got)
                    (spec_same_origin (p_origin got) (p_origin want))).
Proof. exact decide_stream_is_spec. Qed.
Print Assumptions c07_decide_stream_is_spec.

(* ... and when it names none, every clash is an error of another class, even
   for identical content or a declared replacement (finding C07-F4) *)
Theorem c07_decide_stream_empty_origin : forall owner want same,
  p_origin want = "" -> decide_stream owner want same = SErrExists.
Proof. exact decide_stream_empty_origin. Qed.
Print Assumptions c07_decide_stream_empty_origin.

Example c07_rows_inhabited :
  let a := {| p_name := "a"; p_origin := "o"; p_replaces := []; p_files := [] |} in
  let b := {| p_name := "b"; p_origin := "p"; p_replaces := ["a"]; p_files := [] |} in
  decide_lazy a b 1 2 = Overwrite /\ decide_lazy b a 1 2 = KeepOld /\
  decide_lazy a a 1 2 = Overwrite /\ decide_lazy a {| p_name := "c"; p_origin := "q"; p_replaces := []; p_files := [] |} 1 2 = Conflict /\
  decide_stream (Some a) b false = SDec Overwrite /\ decide_lazy no_pkg no_pkg 1 2 = Overwrite /\
  decide_stream (Some a) no_pkg true = SErrExists.
Proof. vm_compute. repeat split. Qed.
