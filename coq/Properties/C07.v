(* C07 — File conflicts follow replaces/origin rules; the installed DB tells
   the truth. Property theorems only; proofs in Proofs/InstallProofs.v. *)
From Apko Require Import Base.Prelude Model.Install Spec.InstallSpec Proofs.InstallProofs.
Open Scope string_scope. Open Scope list_scope.

(* tarfs.writeHeader decides exactly by the rule table whenever at least one of
   the two packages names an origin ... *)
Theorem c07_decide_lazy_is_spec : forall got want gs ws,
  (p_origin got <> "" \/ p_origin want <> "") ->
  decide_lazy got want gs ws =
  spec_decide (N.eqb gs ws) (declares got want) (declares want got)
              (spec_same_origin (p_origin got) (p_origin want)).
Proof. exact decide_lazy_is_spec. Qed.
Print Assumptions c07_decide_lazy_is_spec.

(* ... and when neither does it treats them as of the same origin: different
   content of two unrelated packages is overwritten silently (finding C07-F3) *)
Theorem c07_decide_lazy_empty_origins : forall got want gs ws,
  p_origin got = "" -> p_origin want = "" ->
  decide_lazy got want gs ws = spec_decide (N.eqb gs ws) (declares got want) (declares want got) true.
Proof. exact decide_lazy_empty_origins. Qed.
Print Assumptions c07_decide_lazy_empty_origins.

(* installRegularFile decides by the rule table whenever the package being
   installed names an origin and the existing file has a recorded owner ... *)
Theorem c07_decide_stream_is_spec : forall got want gs ws,
  p_origin want <> "" ->
  decide_stream (Some got) want (N.eqb gs ws) =
  SDec (spec_decide (N.eqb gs ws) (declares got want) (declares want got)
                    (spec_same_origin (p_origin got) (p_origin want))).
Proof. exact decide_stream_is_spec. Qed.
Print Assumptions c07_decide_stream_is_spec.

(* ... and when it names none, every clash is an error of another class, even
   for identical content or a declared replacement (finding C07-F4) *)
Theorem c07_decide_stream_empty_origin : forall owner want same,
  p_origin want = "" -> decide_stream owner want same = SErrExists.
Proof. exact decide_stream_empty_origin. Qed.
Print Assumptions c07_decide_stream_empty_origin.

Example c07_rows_inhabited :
  let a := {| p_name := "a"; p_origin := "o"; p_replaces := []; p_files := [] |} in
  let b := {| p_name := "b"; p_origin := "p"; p_replaces := ["a"]; p_files := [] |} in
  decide_lazy a b 1 2 = Overwrite /\ decide_lazy b a 1 2 = KeepOld /\
  decide_lazy a a 1 2 = Overwrite /\ decide_lazy a {| p_name := "c"; p_origin := "q"; p_replaces := []; p_files := [] |} 1 2 = Conflict /\
  decide_stream (Some a) b false = SDec Overwrite /\ decide_lazy no_pkg no_pkg 1 2 = Overwrite /\
  decide_stream (Some a) no_pkg true = SErrExists.
Proof. vm_compute. repeat split. Qed.

(* A Conflict decision always surfaces as the error of the whole install, and
   the state handed back is the state in which the clash was met: nothing of
   another package was replaced on that path. [pre]/[hpre] = the packages and
   headers installed before the clash, [s] = the state they lead to; for every
   backend, package list, initial tree. *)
Theorem c07_no_silent_overwrite : forall b pkgs init pre me post hpre h hpost s1 done1 s acc,
  pkgs = pre ++ me :: post ->
  p_files me = hpre ++ h :: hpost ->
  install_all b pkgs 0 {| s_fs := init; s_if := [] |} [] pre = IOk (s1, done1) ->
  install_files b pkgs (List.length pre) me s1 [] hpre = IOk (s, acc) ->
  conflict_at b pkgs me s h ->
  install b pkgs init = RFail (EConflict (h_path h)) s.
Proof. exact no_silent_overwrite. Qed.
Print Assumptions c07_no_silent_overwrite.

Example c07_conflict_inhabited :
  let dirs := wit_dirs in
  let x (sm : N) := {| h_path := ["usr"; "bin"; "x"]; h_kind := KReg; h_mode := 493; h_uid := 0; h_gid := 0; h_sum := sm; h_link := [] |} in
  let a := {| p_name := "a"; p_origin := "a"; p_replaces := []; p_files := dirs ++ [x 2%N] |} in
  let b := {| p_name := "b"; p_origin := "b"; p_replaces := []; p_files := dirs ++ [x 3%N] |} in
  forall bk, exists s, install bk [a; b] [] = RFail (EConflict ["usr"; "bin"; "x"]) s /\
    fs_get (s_fs s) ["usr"; "bin"; "x"] = Some (NFile 2 493 (Some 0) true).
Proof. intros dirs x a b bk. destruct bk; eexists; (split; [vm_compute; reflexivity | vm_compute; reflexivity]). Qed.

(* For EVERY ordered package list, backend and initial tree: after a successful
   install, whenever installedFiles names package i for a path, the node there
   is package i's regular file (its content and mode), the header is listed
   under package i after the DeleteFunc pruning and under no other package.
   Hypothesis: no path is shipped as a regular file by one package and as a
   symbolic link by another — without it the statement fails on tarfs, see
   [c07_owner_invariant_mixed_kinds_refuted] (finding C07-F5). *)
Theorem c07_owner_invariant : forall b pkgs init f,
  no_sym_over_reg pkgs -> install b pkgs init = RDone f ->
  forall p i, if_get (f_if f) p = Some i ->
    exists h, In h (p_files (nth i pkgs no_pkg)) /\ h_kind h = KReg /\ h_path h = p /\
      fs_get (f_fs f) p = Some (NFile (h_sum h) (h_mode h) (Some i) true) /\
      In h (prune (f_if f) i (nth i (f_files f) [])) /\
      (forall k h', In h' (prune (f_if f) k (nth k (f_files f) [])) -> h_path h' = p -> k = i).
Proof. exact owner_invariant. Qed.
Print Assumptions c07_owner_invariant.

Theorem c07_owner_invariant_mixed_kinds_refuted : exists pkgs f p i,
  install Lazy pkgs [] = RDone f /\ if_get (f_if f) p = Some i /\
  forall sm md ow dt, fs_get (f_fs f) p <> Some (NFile sm md ow dt).
Proof. exact owner_invariant_needs_no_sym_over_reg. Qed.
Print Assumptions c07_owner_invariant_mixed_kinds_refuted.

(* "every recorded entry exists with the recorded mode and owner" is false on
   every backend: header owners are never applied (C07-F1) ... *)
Theorem c07_db_matches_fs_refuted : forall b,
  ~ (forall pkgs init f, install b pkgs init = RDone f -> DbMatchesFs f).
Proof. exact db_matches_fs_refuted. Qed.
Print Assumptions c07_db_matches_fs_refuted.

(* ... and, all owners being root, a directory shipped with two modes keeps the
   first while both are recorded (C07-F2) *)
Theorem c07_db_matches_fs_refuted_root_owned : forall b,
  ~ (forall pkgs init f, install b pkgs init = RDone f ->
       (forall h, In h (all_hdrs pkgs) -> h_uid h = 0%N /\ h_gid h = 0%N) -> DbMatchesFs f).
Proof. exact db_matches_fs_refuted_root_owned. Qed.
Print Assumptions c07_db_matches_fs_refuted_root_owned.

(* What does hold, for every package list in which no package ships a path
   twice and no path is both a regular file and a symbolic link: every recorded
   REGULAR-FILE entry whose path has a recorded owner exists with the recorded
   content and mode, is that package's own, and has the recorded uid/gid exactly
   when the header says root. Missing from the full statement: directories
   (C07-F2), non-root owners (C07-F1), symbolic links and hard links (C07-F5,
   C07-F9), and paths nobody is recorded for — files kept because identical
   bytes were already there (C07-F8). *)
Theorem c07_db_matches_fs_partial : forall b pkgs init f,
  no_sym_over_reg pkgs -> nodup_paths pkgs -> install b pkgs init = RDone f ->
  forall k entries h, nth_error (f_db f) k = Some entries -> In h entries -> h_kind h = KReg ->
    if_get (f_if f) (h_path h) = None \/
    exists n, fs_get (f_fs f) (h_path h) = Some n /\
      n = NFile (h_sum h) (h_mode h) (Some k) true /\
      node_perm n = perm_of (h_mode h) /\
      (h_uid h = 0%N -> h_gid h = 0%N -> node_uid n = h_uid h /\ node_gid n = h_gid h).
Proof.
  intros b pkgs init f H1 H2 H3 k entries h H4 H5 H6.
  destruct (db_regular_entries_true b pkgs init f H1 H2 H3 k entries h H4 H5 H6) as [A|A]; [left; exact A|].
  right. eexists. split; [exact A|]. split; [reflexivity|]. split; [reflexivity|].
  intros U G. rewrite U, G. split; reflexivity.
Qed.
Print Assumptions c07_db_matches_fs_partial.

Example c07_partial_inhabited : exists f entries,
  install StreamMem [ {| p_name := "a"; p_origin := "a"; p_replaces := [];
                         p_files := wit_dirs ++ [ {| h_path := ["usr"; "bin"; "x"]; h_kind := KReg; h_mode := 493;
                                                     h_uid := 0; h_gid := 0; h_sum := 2; h_link := [] |} ] |} ] [] = RDone f /\
  nth_error (f_db f) 0 = Some entries /\ List.length entries = 3 /\
  if_get (f_if f) ["usr"; "bin"; "x"] = Some 0.
Proof. eexists _, _. repeat split; vm_compute; reflexivity. Qed.

(* the rule-table validator run on the real code's observations decides the
   readable statement *)
Theorem c07_rules_validator_decides : forall pkgs e tree,
  agrees (spec_walk pkgs) e tree = true <-> RulesObeyed pkgs e tree.
Proof. exact rules_validator_decides. Qed.
Print Assumptions c07_rules_validator_decides.

(* ... and so does the per-entry validator (every recorded entry exists with the
   recorded kind, mode, owner and content) *)
Theorem c07_entry_validator_decides : forall b pre tree fm d,
  check_entry b pre tree fm d = [] <-> EntryTrue tree d.
Proof. exact entry_validator_decides. Qed.
Print Assumptions c07_entry_validator_decides.
