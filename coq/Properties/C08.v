(* C08 — Resolution is a pure function of its inputs.
   Property theorems only; proofs live in Proofs/CachesProofs.v and
   Proofs/CachesBridgeProofs.v.

   The cache layer (shameful_global_caches.go, PkgResolver.Clone, the memo
   tables) is modelled over an explicit store (Model/Caches.v). The resolver
   core is a parameter [core] about which the FRAME HYPOTHESIS is assumed:
     CoreWritesOnlyOwned      it writes only selected and the disqualification map it was handed
     CoreKeepsLength          it never shrinks the store
     CoreReadsThroughHandles  its result depends only on what is reachable from its handles
   c08_pure_cores_satisfy_frame discharges it for every core given by a pure
   function of the view, in particular for the sequential resolver model of
   Model/Resolver.v (c08_history_independent_resolver). *)
From Apko Require Import Base.Prelude Model.Caches Spec.CachesSpec Proofs.CachesProofs
  Model.CachesBridge Proofs.CachesBridgeProofs.
From Apko Require Model.Version Model.Resolver Generated.C08Caches Proofs.ResolveProofs Proofs.ResolveProofs2 Proofs.ResolveInstallIf.
From Apko Require Import Model.CachesClone Proofs.CachesCloneProofs Proofs.CachesCloneShapes Model.CachesIndex Proofs.CachesIndexProofs.
From Apko Require Proofs.ResolveInstallIf2.
From Apko Require Import Model.CachesGrouped Proofs.CachesGroupedProofs.
From Coq Require Import Permutation.
Open Scope string_scope. Open Scope list_scope.

(* THE SOURCE HAS THE SHAPE THE MODEL TRANSCRIBES (regenerated from /repo on every
   run by goextract/gen_c08.go). Model/Caches.v: clone_resolver shares the
   index list, allocates new map objects for nameMap / installIfMap whose
   values are the SAME slices (maps.Clone is shallow) and a new empty selected;
   resolver_get / dq_get hand out a clone on every path, under the mutex; the
   memo tables are sync.Maps; the two explicit tie-breaks are present. *)
Theorem c08_source_shape :
  C08Caches.clone_shape = [("indexes", "shared"); ("installIfMap", "maps.Clone"); ("nameMap", "maps.Clone"); ("selected", "fresh-empty")] /\
  C08Caches.resolver_get_returns = ["clone"; "clone"] /\ C08Caches.resolver_get_locked = true /\
  C08Caches.dq_get_returns = ["maps.Clone"; "maps.Clone"] /\ C08Caches.dq_get_locked = true /\
  C08Caches.memo_table_types = [("parsedConstraints", "sync.Map"); ("parsedVersions", "sync.Map")] /\
  C08Caches.lowest_tiebreak_present = true /\ C08Caches.compare_ends_with_names = true.
Proof. repeat split; reflexivity. Qed.
Print Assumptions c08_source_shape.

(* FRAME. Whatever history came before, a call changes NO object that existed
   when it started: no cached prototype, none of the slices shared by the
   clones' maps, no cached disqualification map. Its writes go to references
   allocated by its own clones. *)
Theorem c08_frame : forall mk_names mk_iif dq_diff dkey R core,
  CoreWritesOnlyOwned R core -> CoreKeepsLength R core ->
  forall hist c r,
    let x := run_history mk_names mk_iif dq_diff dkey R core true hist in
    r < List.length (st x) ->
    sget (st (fst (call_step mk_names mk_iif dq_diff dkey R core true x c))) r = sget (st x) r.
Proof. exact call_frame. Qed.
Print Assumptions c08_frame.

(* ... in particular every cached prototype still is what newPkgResolver built
   for its key, with an EMPTY selected (observed on the real code through the
   hook VerifResolverPrototype after every history) *)
Theorem c08_frame_prototypes : forall mk_names mk_iif dq_diff dkey R core,
  CoreWritesOnlyOwned R core -> CoreKeepsLength R core ->
  forall hist k h,
    find_key k (rcache (run_history mk_names mk_iif dq_diff dkey R core true hist)) = Some h ->
    view_ok mk_names mk_iif (st (run_history mk_names mk_iif dq_diff dkey R core true hist)) h k.
Proof. exact cached_prototypes_pristine. Qed.
Print Assumptions c08_frame_prototypes.

(* HISTORY INDEPENDENCE, for ANY key function of the disqualification cache. For
   EVERY history and call: the result after the history is the result on an empty
   store - provided no earlier call with the same disqualification-cache key had
   a different disqualifyDifference.  For the key the code uses since fix 3541d7b
   (the trie path AND the grouping) the proviso holds of every history:
   c08_grouping_key_compatible, c08_history_independent_every_history below; for
   the former key (the path alone) it cannot be dropped:
   c08_dq_cache_concatenation_key_refuted. *)
Theorem c08_history_independent : forall mk_names mk_iif dq_diff dkey R core,
  CoreWritesOnlyOwned R core -> CoreKeepsLength R core -> CoreReadsThroughHandles R core ->
  forall hist c,
    GroupingCompatible dq_diff dkey hist c ->
    result_after mk_names mk_iif dq_diff dkey R core true hist c =
    result_fresh mk_names mk_iif dq_diff dkey R core true c.
Proof. exact history_independent. Qed.
Print Assumptions c08_history_independent.

(* the proviso in the form "no earlier call used the same index set with
   another architecture grouping" *)
Theorem c08_history_independent_same_grouping : forall mk_names mk_iif dq_diff dkey R core,
  CoreWritesOnlyOwned R core -> CoreKeepsLength R core -> CoreReadsThroughHandles R core ->
  forall hist c,
    (forall c', In c' hist -> dkey (cl_archs c') = dkey (cl_archs c) -> cl_archs c' = cl_archs c) ->
    result_after mk_names mk_iif dq_diff dkey R core true hist c =
    result_fresh mk_names mk_iif dq_diff dkey R core true c.
Proof.
  intros mk_names mk_iif dq_diff dkey R core H1 H2 H3 hist c G.
  exact (history_independent mk_names mk_iif dq_diff dkey R core H1 H2 H3 hist c
           (same_grouping_compatible dq_diff dkey hist c G)).
Qed.
Print Assumptions c08_history_independent_same_grouping.

(* the frame hypothesis holds of every core that is a pure function of what it
   reads through its handles and writes back selected / dq only *)
Theorem c08_pure_cores_satisfy_frame : forall R f (fail : R),
  CoreWritesOnlyOwned R (core_of f fail) /\ CoreKeepsLength R (core_of f fail) /\
  CoreReadsThroughHandles R (core_of f fail).
Proof. intros R f fail. exact (conj (core_of_frame R f fail) (conj (core_of_len R f fail) (core_of_reads R f fail))). Qed.
Print Assumptions c08_pure_cores_satisfy_frame.

(* ... and is not vacuous: a core that sorts a shared slice in place violates it *)
Theorem c08_frame_hypothesis_not_vacuous : ~ CoreWritesOnlyOwned unit slice_writer.
Proof. exact slice_writer_breaks_frame. Qed.
Print Assumptions c08_frame_hypothesis_not_vacuous.

(* THE KEY OF THE DISQUALIFICATION CACHE SINCE FIX 3541d7b (was finding C08-F2).
   grouping_key u archs = the trie path (concatenation of the map's values sorted
   by Name()) together with the grouping itself, listed by architecture name
   (Model/CachesGrouped.v: the cache layer of Model/Caches.v with this key function
   is the trie whose nodes keep one entry per grouping).  Equal keys: the two maps
   are the same Go map (their listings are permutations of each other), and
   disqualifyDifference does not depend on the listing: the proviso of
   c08_history_independent holds of EVERY history and call. *)
Theorem c08_grouping_key_compatible : forall u,
  (forall a b, grouping_key u a = grouping_key u b -> dq_key u a = dq_key u b /\ Permutation a b) /\
  (forall a b, Permutation a b -> dq_difference u a = dq_difference u b) /\
  (forall hist c, GroupingCompatible (dq_difference u) (grouping_key u) hist c).
Proof.
  intros u. split; [|split].
  - intros a b E. split; [exact (proj1 (grouping_key_inj u a b E)) | exact (grouping_key_perm u a b E)].
  - exact (dq_difference_perm u).
  - exact (grouping_compatible_all u).
Qed.
Print Assumptions c08_grouping_key_compatible.

(* ... AND CONVERSELY: the same Go map (distinct architectures; the two listings are
   permutations of each other) along the same trie path has the same key - the model
   finds an entry whenever the code does.  Together with the first conjunct above:
   grouping_key u a = grouping_key u b  <->  same path and same Go map.  (The listing
   by architecture name is canonical: sorted listings of one map are equal.) *)
Theorem c08_grouping_key_same_map_same_key : forall u a b,
  NoDup (List.map fst a) -> Permutation a b -> dq_key u a = dq_key u b ->
  grouping_key u a = grouping_key u b.
Proof. exact grouping_key_complete. Qed.
Print Assumptions c08_grouping_key_same_map_same_key.
Example c08_grouping_key_same_map_same_key_example :
  grouping_key f2_universe [("x", [0]); ("y", [1])] = grouping_key f2_universe [("y", [1]); ("x", [0])] /\
  grouping_key f2_universe [("b", [1]); ("a", [0]); ("c", [0; 1])] = grouping_key f2_universe [("c", [0; 1]); ("b", [1]); ("a", [0])].
Proof. exact grouping_key_listing_order. Qed.

(* HISTORY INDEPENDENCE WITHOUT PROVISO (was refuted: C08-F2).  For every universe,
   every resolver core satisfying the frame hypothesis, EVERY history and call:
   the result after the history is the result on an empty store. *)
Theorem c08_history_independent_every_history : forall u mk_names mk_iif R core,
  CoreWritesOnlyOwned R core -> CoreKeepsLength R core -> CoreReadsThroughHandles R core ->
  forall hist c,
    result_after mk_names mk_iif (dq_difference u) (grouping_key u) R core true hist c =
    result_fresh mk_names mk_iif (dq_difference u) (grouping_key u) R core true c.
Proof. exact history_independent_grouped. Qed.
Print Assumptions c08_history_independent_every_history.

(* A REQUEST IS HANDED THE DIFFERENCE OF ITS OWN GROUPING, after every history (the
   positive form of the former c08_dq_cache_key_refuted) *)
Theorem c08_dq_handed_own_grouping : forall u mk_names mk_iif R core,
  CoreWritesOnlyOwned R core -> CoreKeepsLength R core ->
  forall hist c,
    dq_handed mk_names mk_iif (dq_difference u) (grouping_key u) R core hist c = dq_difference u (cl_archs c).
Proof. exact dq_handed_own_grouping. Qed.
Print Assumptions c08_dq_handed_own_grouping.
(* the former witnesses: {x:[i0], y:[i1]} and {x:[i0,i1]} still share the trie path,
   no longer the key; each is handed its own difference in both orders and when
   the two alternate *)
Example c08_dq_handed_own_grouping_example :
  let handed := dq_handed f2_names ex_none (dq_difference f2_universe) (grouping_key f2_universe) _ toy_core in
  dq_key f2_universe (cl_archs f2_multi) = dq_key f2_universe (cl_archs f2_single) /\
  grouping_key f2_universe (cl_archs f2_multi) <> grouping_key f2_universe (cl_archs f2_single) /\
  handed [f2_multi] f2_single = [] /\ handed [f2_single] f2_multi = [(0, 0)] /\
  handed [f2_multi; f2_single] f2_multi = [(0, 0)] /\ handed [f2_single; f2_multi] f2_single = [].
Proof. exact f2_fixed. Qed.

(* INSTANCE for the sequential resolver model: after ANY history a call returns
   what Resolver.resolve_with returns for the resolver of the call's own
   indexes, an empty selected and the disqualification set of the call's own
   grouping - whatever the resolution leaves behind in its selected / dq maps
   ([fsel], [fdq]).  No proviso (it had the grouping proviso until fix 3541d7b). *)
Theorem c08_history_independent_resolver : forall u fsel fdq hist c,
  result_after (mk_names_of u) (mk_iif_of u) (dq_difference u) (grouping_key u) _ (resolver_core u fsel fdq) true hist c =
  lift_res u (cl_indexes c)
    (Resolver.resolve_with
       (resolver_of_view u (fresh_view (mk_names_of u) (mk_iif_of u) (dq_difference u) c (cl_archs c)))
       (cl_world c) (flat_pids u (cl_indexes c) (dq_difference u (cl_archs c)))).
Proof. exact resolver_history_independent_grouped. Qed.
Print Assumptions c08_history_independent_resolver.

(* NON-VACUITY: with the clone removed (`return pr`, `return dq`) the statement
   is false - two consecutive resolutions of different worlds over one index *)
Theorem c08_no_clone_refuted :
  (exists hist c, result_after ex_names ex_none ex_dq ex_key _ toy_core false hist c <>
                  result_fresh ex_names ex_none ex_dq ex_key _ toy_core false c /\
                  result_after ex_names ex_none ex_dq ex_key _ toy_core true hist c =
                  result_fresh ex_names ex_none ex_dq ex_key _ toy_core true c /\
                  cl_world c = ["a"; "b"]) /\
  (exists hist c, result_after ex_names ex_none ex_dq ex_key _ toy_core false hist c <>
                  result_fresh ex_names ex_none ex_dq ex_key _ toy_core false c /\
                  result_after ex_names ex_none ex_dq ex_key _ toy_core true hist c =
                  result_fresh ex_names ex_none ex_dq ex_key _ toy_core true c /\
                  cl_world c = ["b"]).
Proof.
  split.
  - exists [ex_call ["a"]], (ex_call ["a"; "b"]). destruct no_clone_selected_leaks as [A [B C]].
    rewrite A. split; [rewrite B; discriminate|]. split; [rewrite C; vm_compute; reflexivity | reflexivity].
  - exists [ex_call ["!b"]], (ex_call ["b"]). destruct no_clone_dq_leaks as [A [B C]].
    rewrite A. split; [rewrite B; discriminate|]. split; [rewrite C; vm_compute; reflexivity | reflexivity].
Qed.
Print Assumptions c08_no_clone_refuted.

(* MEMO TABLES. Whatever was looked up before, cachedParseVersion returns what
   ParseVersion returns and cachedResolvePackageNameVersionPin what
   ResolvePackageNameVersionPin returns (the C03 models of both). *)
Theorem c08_memo_transparent :
  (forall history k,
     fst (memo_get string Version.mver String.eqb Version.parse_version
            (memo_run string Version.mver String.eqb Version.parse_version [] history) k)
     = Version.parse_version k) /\
  (forall history k,
     fst (memo_get string Version.constraint String.eqb (fun s => Some (Version.resolve_constraint s))
            (memo_run string Version.constraint String.eqb (fun s => Some (Version.resolve_constraint s)) [] history) k)
     = Some (Version.resolve_constraint k)).
Proof.
  split; intros history k.
  - exact (memo_transparent string Version.mver String.eqb String.eqb_eq Version.parse_version history k).
  - exact (memo_transparent string Version.constraint String.eqb String.eqb_eq _ history k).
Qed.
Print Assumptions c08_memo_transparent.

(* what a call is handed in general: the disqualifyDifference of SOME call of
   the history (or itself) that has the same key *)
Theorem c08_dq_handed : forall mk_names mk_iif dq_diff dkey R core,
  CoreWritesOnlyOwned R core -> CoreKeepsLength R core ->
  forall hist c,
    exists a, In a (List.map cl_archs (hist ++ [c])) /\ dkey a = dkey (cl_archs c) /\
              dq_handed mk_names mk_iif dq_diff dkey R core hist c = dq_diff a.
Proof. exact dq_handed_spec. Qed.
Print Assumptions c08_dq_handed.

(* [refuted] NON-VACUITY of "one entry per grouping" (this was finding C08-F2 until fix
   3541d7b).  With the trie path ALONE as key - the concatenation of all
   architectures' indexes sorted by pin name - {x:[i0], y:[i1]} and {x:[i0,i1]}
   share an entry: after the first, the second is handed a set that disqualifies
   only1 (and fails, where a fresh process succeeds); in the other order the
   two-architecture call is handed the empty set.  The real code is replayed on
   these histories in every run (corpus/fixed/F2): a regression is a VIOLATION. *)
Theorem c08_dq_cache_concatenation_key_refuted :
  let handed := dq_handed f2_names ex_none (dq_difference f2_universe) (dq_key f2_universe) _ toy_core in
  dq_key f2_universe (cl_archs f2_multi) = dq_key f2_universe (cl_archs f2_single) /\
  dq_difference f2_universe (cl_archs f2_multi) = [(0, 0)] /\
  dq_difference f2_universe (cl_archs f2_single) = [] /\
  handed [f2_multi] f2_single = [(0, 0)] /\ handed [] f2_single = [] /\
  handed [f2_single] f2_multi = [] /\ handed [] f2_multi = [(0, 0)] /\
  result_after f2_names ex_none (dq_difference f2_universe) (dq_key f2_universe) _ toy_core true [f2_multi] f2_single
    <> result_fresh f2_names ex_none (dq_difference f2_universe) (dq_key f2_universe) _ toy_core true f2_single /\
  result_after f2_names ex_none (dq_difference f2_universe) (dq_key f2_universe) _ toy_core true [f2_single] f2_multi
    <> result_fresh f2_names ex_none (dq_difference f2_universe) (dq_key f2_universe) _ toy_core true f2_multi.
Proof. exact dq_cache_key_refuted. Qed.
Print Assumptions c08_dq_cache_concatenation_key_refuted.

(* ORDER AND MEMBERS ARE DETERMINED (full; was refuted until fix c03e0c0, findings
   C08-F1 and C08-F3).  GetPackageWithDependencies' install_if loop used to
   range over the Go map `added` while inserting into it: two runs of the same
   resolution could install the install_if packages in different orders
   (C08-F1) and a chained install_if package was installed or not depending on
   whether the iteration reached the key inserted on the way (C08-F3).  The
   loop now walks the dependency list by index, the entries it appends
   included; the model transcribes that (Resolver.iif_loop) and takes nothing
   but the universe, the world and the initial disqualification set: for every
   U, world and dq0 there is ONE result - members and order.  The statement is
   as plain as it looks because no iteration-order parameter is left in the
   model; what makes it a statement about the code is the correspondence
   (stages res / seq: every resolution is repeated in the same and in fresh
   processes and each run must EQUAL this model). *)
Theorem c08_order_deterministic : forall U world dq0 r1 r2,
  Resolver.resolve U world dq0 = r1 -> Resolver.resolve U world dq0 = r2 -> r1 = r2.
Proof. exact order_deterministic. Qed.
Print Assumptions c08_order_deterministic.

(* the witnesses of the two former refutations have one answer each.
   f1: w -> a, b; a-x install_if a; b-x install_if b  (was [a b a-x b-x w] or [a b b-x a-x w]);
   f3: w -> a; b install_if a; c install_if b         (was [a b w] or [a b c w]) *)
Example c08_order_deterministic_example :
  (loop_start f1_universe "w" = Ok ([1; 2], ["a"; "b"]) /\
   Resolver.resolve f1_universe ["w"] [] = Ok [1; 2; 3; 4; 0]) /\
  (loop_start f3_universe "w" = Ok ([1], ["a"]) /\
   Resolver.resolve f3_universe ["w"] [] = Ok [1; 3; 2; 0]).
Proof. exact (conj f1_one_answer f3_one_answer). Qed.

(* CHAIN COMPLETENESS (full; the positive form of what C08-F3 refuted for the
   map-range loop).  One call of GetPackageWithDependencies, any universe,
   request, disqualification set, selected / existing maps: in the dependency
   list it returns, every install_if package of the universe ALL of whose
   install_if entries are, literally, names of entries of that list has a
   package of its name in the list - also when the trigger was itself appended
   by the loop (a-x-y install_if a-x install_if a), whatever the order of the
   packages in the index.  (For the map-range loop this held only for the
   iteration orders that happened to reach the inserted key.)  Stated for
   entries that are names of members: name=version keys are looked up only when
   no package has the bare name as an entry, and entries with another operator
   are never keys - both quirks are in the model and in the corpora. *)
Theorem c08_install_if_chain_complete : forall U w dq sel ex dq' sel' i deps,
  let R := Resolver.new_resolver U in
  Resolver.get_pkg R w dq sel ex = Ok (dq', sel', i, deps) ->
  forall q, ResolveProofs.valid R q -> Resolver.k_iifs (Resolver.getp R q) <> [] ->
    (forall e, In e (Resolver.k_iifs (Resolver.getp R q)) ->
       In (Resolver.s_raw e) (List.map (ResolveProofs2.nm R) deps)) ->
    In (ResolveProofs2.nm R q) (List.map (ResolveProofs2.nm R) deps).
Proof. exact ResolveInstallIf.get_pkg_iif_complete. Qed.
Print Assumptions c08_install_if_chain_complete.
(* c (listed BEFORE b in the index) install_if b, b install_if a, w -> a: the
   dependency list of the request w is [a b c] *)
Example c08_install_if_chain_complete_example :
  let R := Resolver.new_resolver f3_universe in
  (exists dq sel, Resolver.get_pkg R (Resolver.cook_str "w") [] [] [] = Ok (dq, sel, 0, [1; 3; 2])) /\
  List.map Resolver.s_raw (Resolver.k_iifs (Resolver.getp R 2)) = ["b"] /\
  List.map (ResolveProofs2.nm R) [1; 3; 2] = ["a"; "b"; "c"].
Proof. split; [eexists _, _; vm_compute; reflexivity | split; vm_compute; reflexivity]. Qed.

(* ---- session 4: install_if over a WHOLE resolution, and versioned entries ------------------ *)

(* VERSIONED ENTRIES (full, with the side condition the code imposes).  An entry
   of an install_if package is MET by member j of the dependency list either
   literally (it is j's name) or as name=version: it has j's name and, as text,
   j's version, its raw text is "<name>=<version>", and NO package of the universe
   has the bare name as an install_if entry (the loop consults
   installIfMap[name=version] only when installIfMap[name] does not exist).  One
   call of GetPackageWithDependencies, any inputs: every install_if package all of
   whose entries are met by members of the returned list has its name in the list.
   c08_install_if_chain_complete is the special case "all entries literal". *)
Theorem c08_install_if_versioned_complete : forall U w dq sel ex dq' sel' i deps,
  let R := Resolver.new_resolver U in
  Resolver.get_pkg R w dq sel ex = Ok (dq', sel', i, deps) ->
  forall q, ResolveProofs.valid R q -> Resolver.k_iifs (Resolver.getp R q) <> [] ->
    (forall e, In e (Resolver.k_iifs (Resolver.getp R q)) -> ResolveInstallIf2.met_in R deps e) ->
    In (ResolveProofs2.nm R q) (List.map (ResolveProofs2.nm R) deps).
Proof. exact ResolveInstallIf2.get_pkg_iif_complete_v. Qed.
Print Assumptions c08_install_if_versioned_complete.

(* [refuted] without the side condition it is false: b-v install_if b=2.0 is not
   installed next to b-2.0 when some other package (b-any install_if b nosuch)
   has the bare entry b; drop b-any and it is (the hypotheses of the theorem
   above then hold: third conjunct) *)
Theorem c08_install_if_versioned_shadowed_refuted :
  Resolver.resolve ResolveInstallIf2.shadow_universe ["w"] [] = Ok [1; 0] /\
  Resolver.resolve ResolveInstallIf2.noshadow_universe ["w"] [] = Ok [1; 2; 0] /\
  (let R := Resolver.new_resolver ResolveInstallIf2.noshadow_universe in
   forall e, In e (Resolver.k_iifs (Resolver.getp R 2)) -> ResolveInstallIf2.met_in R [1; 2] e) /\
  (let R := Resolver.new_resolver ResolveInstallIf2.shadow_universe in
   forall e, In e (Resolver.k_iifs (Resolver.getp R 2)) ->
     Resolver.s_name e = ResolveProofs2.nm R 1 /\ Resolver.s_version e = ResolveInstallIf2.ver R 1 /\
     Resolver.s_raw e = ResolveInstallIf2.vkey R 1 /\ Resolver.alookup (ResolveProofs2.nm R 1) (Resolver.r_iif R) <> None).
Proof. exact ResolveInstallIf2.versioned_key_shadowed. Qed.
Print Assumptions c08_install_if_versioned_shadowed_refuted.

(* A WHOLE RESOLUTION (full).  GetPackagesWithDependencies runs the install_if loop
   once per requested package, on that request's dependency list.
   [resolve_trace] returns these lists (one per entry of the world, install_if
   additions included).  Whenever the resolution succeeds: every member of every
   list is installed, and every install_if package ALL of whose entries are met
   inside ONE request's list is installed. *)
Theorem c08_install_if_request_complete : forall U world dq0 l,
  let R := Resolver.new_resolver U in
  Resolver.resolve U world dq0 = Ok l ->
  exists tr, ResolveInstallIf2.resolve_trace U world dq0 = Ok tr /\ List.length tr = List.length world /\
    forall deps, In deps tr ->
      (forall j, In j deps -> In (ResolveProofs2.nm R j) (List.map (ResolveProofs2.nm R) l)) /\
      forall q, ResolveProofs.valid R q -> Resolver.k_iifs (Resolver.getp R q) <> [] ->
        (forall e, In e (Resolver.k_iifs (Resolver.getp R q)) -> ResolveInstallIf2.met_in R deps e) ->
        In (ResolveProofs2.nm R q) (List.map (ResolveProofs2.nm R) l).
Proof. exact ResolveInstallIf2.request_complete. Qed.
Print Assumptions c08_install_if_request_complete.
(* w -> a, b; j install_if a b: the list of the request w is [a b j] *)
Example c08_install_if_request_complete_example :
  Resolver.resolve ResolveInstallIf2.cross_universe ["w"] [] = Ok [2; 3; 4; 5] /\
  ResolveInstallIf2.resolve_trace ResolveInstallIf2.cross_universe ["w"] [] = Ok [[2; 3; 4]].
Proof. destruct ResolveInstallIf2.cross_request_not_installed as [_ [_ [_ [_ [A B]]]]]. exact (conj A B). Qed.

(* [refuted] ... but NOT across requests, and not when the trigger is the requested
   package itself (quirks of the code, in the model).  (1) w1 -> a, w2 -> b,
   j install_if a b, world [w1; w2]: a and b are installed, j is not - each
   request's list holds one trigger.  (2) a-x install_if a, world [a]: a is
   installed, a-x is not - a requested package is not a member of its own
   dependency list; world [w] with w -> a installs it. *)
Theorem c08_install_if_cross_request_refuted :
  (exists U world l q,
     let R := Resolver.new_resolver U in
     Resolver.resolve U world [] = Ok l /\ ResolveProofs.valid R q /\ Resolver.k_iifs (Resolver.getp R q) <> [] /\
     (forall e, In e (Resolver.k_iifs (Resolver.getp R q)) -> In (Resolver.s_raw e) (List.map (ResolveProofs2.nm R) l)) /\
     ~ In (ResolveProofs2.nm R q) (List.map (ResolveProofs2.nm R) l) /\ List.length world = 2) /\
  (exists U world l q,
     let R := Resolver.new_resolver U in
     Resolver.resolve U world [] = Ok l /\ ResolveProofs.valid R q /\ Resolver.k_iifs (Resolver.getp R q) <> [] /\
     (forall e, In e (Resolver.k_iifs (Resolver.getp R q)) -> In (Resolver.s_raw e) (List.map (ResolveProofs2.nm R) l)) /\
     ~ In (ResolveProofs2.nm R q) (List.map (ResolveProofs2.nm R) l) /\ List.length world = 1).
Proof.
  split.
  - exists ResolveInstallIf2.cross_universe, ["w1"; "w2"], [2; 0; 3; 1], 4. cbn zeta.
    destruct ResolveInstallIf2.cross_request_not_installed as [A _]. split; [exact A|].
    split; [vm_compute; repeat constructor|]. split; [vm_compute; discriminate|]. split.
    + intros e He. vm_compute in He. destruct He as [<-|[<-|[]]]; vm_compute; tauto.
    + split; [|reflexivity]. vm_compute. intros [H|[H|[H|[H|[]]]]]; discriminate.
  - exists ResolveInstallIf2.itself_universe, ["a"], [0], 1. cbn zeta.
    destruct ResolveInstallIf2.requested_itself_not_trigger as [A _]. split; [exact A|].
    split; [vm_compute; repeat constructor|]. split; [vm_compute; discriminate|]. split.
    + intros e He. vm_compute in He. destruct He as [<-|[]]. vm_compute. tauto.
    + split; [|reflexivity]. vm_compute. intros [H|[]]. discriminate.
Qed.
Print Assumptions c08_install_if_cross_request_refuted.

(* ---- session 4: the resolver cache as an object, Clone field by field, the index cache ---- *)

(* THE SOURCE HAS THE SHAPE THE NEW MODELS TRANSCRIBE (regenerated on every run):
   resolverCache.Get looks up, builds from and fills under THE LIST AS GIVEN;
   indexCache.get records the modification time under the key the parsed result
   is stored under and re-reads when there is no recorded time or the file's time
   is After it; GetRepositoryIndexes has one slot per repository line, goroutine
   i writes slot i, nil slots are deleted after Wait, the slots are returned;
   a leaf of the disqualification trie keeps one entry per grouping: find returns
   the entry whose grouping equals the request's map (maps.EqualFunc over
   slices.Equal), fill appends an entry with a COPY of the grouping (what
   Model/CachesGrouped.grouping_key transcribes; the former shape reads
   "find:the-one-set-of-the-node"). *)
Theorem c08_source_shape_dq_node :
  C08Caches.dq_cache_node =
  ["find:entry-with-an-equal-grouping"; "equal:same-architectures-and-the-same-index-objects-in-the-same-order";
   "fill:appends-an-entry-with-a-copy-of-the-grouping"].
Proof. reflexivity. Qed.
Print Assumptions c08_source_shape_dq_node.

Theorem c08_source_shape_keys_and_index_cache :
  C08Caches.resolver_get_key = ["find:the-list-as-given"; "build:the-list-as-given"; "fill:the-list-as-given"] /\
  C08Caches.index_modtimes_keys = ["entry-key"; "entry-key"] /\
  C08Caches.index_refresh_condition = "no-recorded-time-or-file-time-after-recorded" /\
  C08Caches.get_indexes_collect = ["slots:one-per-line"; "write:slot-of-own-line"; "holes:nil-deleted"; "returns:the-slots"].
Proof. repeat split; reflexivity. Qed.
Print Assumptions c08_source_shape_keys_and_index_cache.

(* CLONE PURITY.  [clone_by_shape C08Caches.clone_shape] is the clone function READ
   OFF the struct literal PkgResolver.Clone returns (field by field: shared /
   maps.Clone / fresh-empty); the resolver trie is keyed by the list as given.
   After EVERY history of earlier resolutions a resolution through the cached and
   cloned resolver returns what a resolution through a FRESH resolver returns -
   newPkgResolver and disqualifyDifference in an empty process, no cache, no
   clone.  (Frame hypothesis on the core as in c08_history_independent; stated for
   any key function of the disqualification cache, hence with the proviso;
   c08_clone_fresh_every_history is the instance for the code's key.) *)
Theorem c08_clone_fresh : forall mk_names mk_iif dq_diff dkey R core,
  CoreWritesOnlyOwned R core -> CoreKeepsLength R core -> CoreReadsThroughHandles R core ->
  forall hist c,
    GroupingCompatible dq_diff dkey hist c ->
    result_after_g mk_names mk_iif dq_diff dkey R core (fun l => l) (clone_by_shape C08Caches.clone_shape) hist c =
    result_direct mk_names mk_iif dq_diff R core c.
Proof. exact clone_fresh. Qed.
Print Assumptions c08_clone_fresh.
(* ... for the key of the code: no proviso *)
Theorem c08_clone_fresh_every_history : forall u mk_names mk_iif R core,
  CoreWritesOnlyOwned R core -> CoreKeepsLength R core -> CoreReadsThroughHandles R core ->
  forall hist c,
    result_after_g mk_names mk_iif (dq_difference u) (grouping_key u) R core (fun l => l) (clone_by_shape C08Caches.clone_shape) hist c =
    result_direct mk_names mk_iif (dq_difference u) R core c.
Proof. exact clone_fresh_grouped. Qed.
Print Assumptions c08_clone_fresh_every_history.
(* the hypotheses are satisfiable, and the generalised layer is the layer of c08_history_independent *)
Example c08_clone_fresh_example :
  (forall s h, clone_by_shape C08Caches.clone_shape s h = clone_resolver s h) /\
  GroupingCompatible ex_dq ex_key [ex_call ["a"]] (ex_call ["a"; "b"]) /\
  result_after_g ex_names ex_none ex_dq ex_key _ toy_core (fun l => l) (clone_by_shape C08Caches.clone_shape) [ex_call ["a"]] (ex_call ["a"; "b"])
    = [Some (0, 0); Some (0, 2)].
Proof. split; [exact clone_by_shape_code | split; [intros c' _ _; reflexivity | vm_compute; reflexivity]]. Qed.

(* ... and for EVERY shape of the literal that keeps indexes / nameMap / installIfMap
   (shared or copied) and renews selected (a copy or an empty map): what matters in
   Clone is that `selected` is not the prototype's; the maps.Clone of the two maps
   is not needed for purity as long as the core never writes them (the frame
   hypothesis).  The frame proof redone over an arbitrary clone function
   (CachesCloneShapes.CloneOk). *)
Theorem c08_clone_fresh_every_good_shape : forall mk_names mk_iif dq_diff dkey R core shape,
  good_shape shape = true ->
  CoreWritesOnlyOwned R core -> CoreKeepsLength R core -> CoreReadsThroughHandles R core ->
  forall hist c,
    GroupingCompatible dq_diff dkey hist c ->
    result_after_g mk_names mk_iif dq_diff dkey R core (fun l => l) (clone_by_shape shape) hist c =
    result_direct mk_names mk_iif dq_diff R core c.
Proof. exact clone_fresh_good_shapes. Qed.
Print Assumptions c08_clone_fresh_every_good_shape.
Example c08_clone_fresh_every_good_shape_example :
  good_shape C08Caches.clone_shape = true /\
  good_shape [("indexes", "shared"); ("installIfMap", "shared"); ("nameMap", "shared"); ("selected", "fresh-empty")] = true /\
  good_shape [("indexes", "shared"); ("installIfMap", "maps.Clone"); ("nameMap", "maps.Clone"); ("selected", "shared")] = false.
Proof. repeat split; reflexivity. Qed.

(* [refuted] with `selected: p.selected` in the literal the statement is false (the
   second resolution skips what the first selected) - while a COPY of the
   prototype's selected would do as well as the empty literal *)
Theorem c08_clone_shared_selected_refuted :
  exists hist c,
    result_after_g ex_names ex_none ex_dq ex_key _ toy_core (fun l => l)
      (clone_by_shape [("indexes", "shared"); ("installIfMap", "maps.Clone"); ("nameMap", "maps.Clone"); ("selected", "shared")]) hist c
    <> result_direct ex_names ex_none ex_dq _ toy_core c.
Proof.
  exists [ex_call ["a"]], (ex_call ["a"; "b"]). destruct shared_selected_leaks as [A B].
  unfold shape_shared_selected in A. rewrite A, B. discriminate.
Qed.
Print Assumptions c08_clone_shared_selected_refuted.

(* [refuted] THE ORDER OF THE INDEX LIST IS PART OF THE KEY.  With the trie keyed by a
   sorted copy of the list (the resolver still built from the list as given)
   [0;1] and [1;0] share a slot: two indexes carry "base", the call [1;0] after
   the call [0;1] takes it from index 0, a fresh resolver from index 1 - as the
   layer keyed by the list as given does (third conjunct). *)
Theorem c08_resolver_cache_sorted_key_refuted :
  result_after_g ord_names ex_none ex_dq ex_key _ toy_core sorted_key (clone_by_shape C08Caches.clone_shape) [ord_call [0; 1]] (ord_call [1; 0])
    <> result_direct ord_names ex_none ex_dq _ toy_core (ord_call [1; 0]) /\
  result_after_g ord_names ex_none ex_dq ex_key _ toy_core (fun l => l) (clone_by_shape C08Caches.clone_shape) [ord_call [0; 1]] (ord_call [1; 0])
    = result_direct ord_names ex_none ex_dq _ toy_core (ord_call [1; 0]).
Proof. destruct sorted_key_leaks as [A [B C]]. rewrite A, B, C. split; [discriminate | reflexivity]. Qed.
Print Assumptions c08_resolver_cache_sorted_key_refuted.

(* THE INDEX CACHE IS TRANSPARENT (local repositories).  For every parser, every
   initial set of files and every history of rewrites of index files and
   requests under any cache entries (path x verification context x repository
   name): each request returns what a process that has never seen the file
   returns - the parse of the file's present bytes under the request's own key,
   or "missing" - PROVIDED every rewrite moves the file's modification time
   strictly forward (see the next theorem for why the proviso cannot be dropped). *)
Theorem c08_index_cache_fresh : forall (C I : Type) (parse : ekey -> C -> option I) fs evs,
  mtimes_increase fs evs ->
  ic_run parse fs ic_empty evs = fresh_run parse fs evs.
Proof. exact ic_fresh. Qed.
Print Assumptions c08_index_cache_fresh.
(* satisfiable: load under "", rewrite with a later time, load under "local", "" again *)
Example c08_index_cache_fresh_example :
  mtimes_increase [] four_steps /\
  ic_run w_parse [] ic_empty four_steps = [GGot (Some ("", "v1")); GGot (Some ("local", "v2")); GGot (Some ("", "v2"))].
Proof. destruct path_keyed_stale as [A [_ B]]. exact (conj A B). Qed.

(* [refuted] C08-F5.  A file rewritten with an UNCHANGED modification time keeps being
   served from the cache (`mod.After(before)`): write v1 at time 5, request, write
   v2 at time 5, request - the cache answers v1, a fresh process v2.  Replayed on
   the real code: indexhist corpus/finding/F5. *)
Theorem c08_index_cache_same_mtime_refuted :
  exists evs, ic_run w_parse [] ic_empty evs <> fresh_run w_parse [] evs.
Proof.
  exists [IWrite 0 5%Z "v1"; IGet (w_key ""); IWrite 0 5%Z "v2"; IGet (w_key "")].
  destruct ic_same_mtime_stale as [A B]. rewrite A, B. discriminate.
Qed.
Print Assumptions c08_index_cache_same_mtime_refuted.

(* [refuted] NON-VACUITY of "the time is recorded PER CACHE ENTRY": with the time recorded
   per path (and an entry without a result parsed once) c08_index_cache_fresh
   fails although the times increase - load under X, rewrite, load under Y, X again *)
Theorem c08_index_cache_path_keyed_times_refuted :
  mtimes_increase [] four_steps /\
  ic_run_path_keyed [] ic_empty four_steps <> fresh_run w_parse [] four_steps.
Proof.
  destruct path_keyed_stale as [A [B _]]. split; [exact A|]. rewrite B. vm_compute. discriminate.
Qed.
Print Assumptions c08_index_cache_path_keyed_times_refuted.

(* THE SOURCE HAS THE SHAPE Model/CachesIndex.rc_get TRANSCRIBES (regenerated on every
   run; local names are discovered from the statements that bind them): without an
   ETag the index is fetched and parsed and nothing is stored; with one the result -
   index or error - is stored once (sync.Once per key) under <entry key>@<etag>, the
   entry key being the key the local branch uses; the entry of the ETag recorded
   before is forgotten, the ETag is recorded, what is stored under the key is returned. *)
Theorem c08_source_shape_remote_index_cache :
  C08Caches.index_remote_shape =
  ["no-etag:fetched-and-parsed-nothing-stored"; "key:entry-key@etag"; "once-per-key"; "forgets:the-entry-of-the-previous-etag";
   "stores:the-index-or-the-error"; "records:the-etag-of-the-entry-key"; "returns:what-is-stored-under-the-key"].
Proof. reflexivity. Qed.
Print Assumptions c08_source_shape_remote_index_cache.

(* THE REMOTE BRANCH OF THE INDEX CACHE IS TRANSPARENT when the ETag names the bytes.
   A remote index is stored once under cacheURL@ETag and handed to every later
   request with that key; without an ETag it is fetched and parsed every time
   (a Last-Modified header is not looked at).  For every parser and every history
   of publications (path, ETag the server sends or none, bytes) and requests: each
   request returns the parse of what the server holds at request time - provided
   whatever is published at a path under an ETag e is ONE content (content_of). *)
Theorem c08_remote_index_cache_fresh : forall (C I E : Type) (E_eqb : E -> E -> bool),
  (forall a b, E_eqb a b = true <-> a = b) ->
  forall (parse : ekey -> C -> option I) (content_of : nat -> E -> C) evs,
    etags_name_bytes content_of evs ->
    rc_run E_eqb parse [] rc_empty evs = rfresh_run parse [] evs.
Proof. exact rc_fresh. Qed.
Print Assumptions c08_remote_index_cache_fresh.

(* [refuted] NON-VACUITY: a version header that does not name the bytes used as the key - the
   Last-Modified second, under which two publications inside one second look alike:
   the second request gets the first publication; sent as what it is (no ETag)
   nothing is cached (third conjunct) *)
Theorem c08_remote_index_cache_version_by_second_refuted :
  let evs : list (rev string string) := [RPublish 0 (Some "t10") "v1"; RGet (w_key ""); RPublish 0 (Some "t10") "v2"; RGet (w_key "")] in
  let evs' : list (rev string string) := [RPublish 0 None "v1"; RGet (w_key ""); RPublish 0 None "v2"; RGet (w_key "")] in
  rc_run String.eqb w_parse [] rc_empty evs <> @rfresh_run string _ string w_parse [] evs /\
  rc_run String.eqb w_parse [] rc_empty evs' = @rfresh_run string _ string w_parse [] evs'.
Proof. cbn zeta. split; [vm_compute; discriminate | vm_compute; reflexivity]. Qed.
Print Assumptions c08_remote_index_cache_version_by_second_refuted.

(* THE INDEX LIST HAS THE ORDER OF THE REPOSITORY LINES UNDER EVERY SCHEDULE.
   GetRepositoryIndexes starts one goroutine per line; whatever the order in
   which they run (local branch: take the cache's mutex), the list returned is
   the per-line answers in the order of the lines, missing local repositories
   dropped - and the cache left behind answers every later request as the cache
   before the call would have.  (The order matters: a name-version present in two
   repositories is installed from the one listed first.) *)
Theorem c08_index_list_schedule_independent : forall (C I : Type) (parse : ekey -> C -> option I) fs x keys sched,
  Permutation sched (seq 0 (List.length keys)) ->
  snd (get_indexes parse fs x keys sched) = in_repo_order parse fs x keys /\
  (forall k, snd (ic_get parse fs (fst (get_indexes parse fs x keys sched)) k) = snd (ic_get parse fs x k)).
Proof. exact get_indexes_schedule_independent. Qed.
Print Assumptions c08_index_list_schedule_independent.
Example c08_index_list_schedule_independent_example :
  Permutation [1; 0] (seq 0 (List.length [w_key "a"; w_key "b"])) /\
  snd (get_indexes w_parse [(0, (5%Z, "v1"))] ic_empty [w_key "a"; w_key "b"] [1; 0]) = Some [("a", "v1"); ("b", "v1")].
Proof. split; [apply perm_swap | vm_compute; reflexivity]. Qed.

(* the boolean validator run on the implementation's observed outcomes decides
   exactly the readable statement *)
Theorem c08_validator_decides : forall obs oracle,
  history_independent_b obs oracle = true <-> HistoryIndependent obs oracle.
Proof. exact history_independent_b_iff. Qed.
Print Assumptions c08_validator_decides.
