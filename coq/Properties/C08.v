(* C08 — Resolution is a pure function of its inputs.
   Property theorems only; proofs live in Proofs/CachesProofs.v and
   Proofs/CachesBridgeProofs.v.

   The cache layer (shameful_global_caches.go, PkgResolver.Clone, the memo
   tables) is modelled over an explicit store (Model/Caches.v). The resolver
   core is a parameter [core] about which the FRAME HYPOTHESIS is assumed:
     CoreWritesOnlyOwned      it writes only selected and the disqualification map it was handed
     CoreKeepsLength          it never shrinks the store
     CoreReadsThroughHandles  its result depends only on what is reachable from its handles
   c08_pure_cores_satisfy_frame discharges it for every core given by a pure
   function of the view, in particular for the sequential resolver model of
   Model/Resolver.v (c08_history_independent_resolver). *)
From Apko Require Import Base.Prelude Model.Caches Spec.CachesSpec Proofs.CachesProofs
  Model.CachesBridge Proofs.CachesBridgeProofs.
From Apko Require Model.Version Model.Resolver Generated.C08Caches Proofs.ResolveProofs Proofs.ResolveProofs2 Proofs.ResolveInstallIf.
Open Scope string_scope. Open Scope list_scope.

(* THE SOURCE HAS THE SHAPE THE MODEL TRANSCRIBES (regenerated from /repo on every
   run by goextract/gen_c08.go). Model/Caches.v: clone_resolver shares the
   index list, allocates new map objects for nameMap / installIfMap whose
   values are the SAME slices (maps.Clone is shallow) and a new empty selected;
   resolver_get / dq_get hand out a clone on every path, under the mutex; the
   memo tables are sync.Maps; the two explicit tie-breaks are present. *)
Theorem c08_source_shape :
  C08Caches.clone_shape = [("indexes", "shared"); ("installIfMap", "maps.Clone"); ("nameMap", "maps.Clone"); ("selected", "fresh-empty")] /\
  C08Caches.resolver_get_returns = ["clone"; "clone"] /\ C08Caches.resolver_get_locked = true /\
  C08Caches.dq_get_returns = ["maps.Clone"; "maps.Clone"] /\ C08Caches.dq_get_locked = true /\
  C08Caches.memo_table_types = [("parsedConstraints", "sync.Map"); ("parsedVersions", "sync.Map")] /\
  C08Caches.lowest_tiebreak_present = true /\ C08Caches.compare_ends_with_names = true.
Proof. repeat split; reflexivity. Qed.
Print Assumptions c08_source_shape.

(* FRAME. Whatever history came before, a call changes NO object that existed
   when it started: no cached prototype, none of the slices shared by the
   clones' maps, no cached disqualification map. Its writes go to references
   allocated by its own clones. *)
Theorem c08_frame : forall mk_names mk_iif dq_diff dkey R core,
  CoreWritesOnlyOwned R core -> CoreKeepsLength R core ->
  forall hist c r,
    let x := run_history mk_names mk_iif dq_diff dkey R core true hist in
    r < List.length (st x) ->
    sget (st (fst (call_step mk_names mk_iif dq_diff dkey R core true x c))) r = sget (st x) r.
Proof. exact call_frame. Qed.
Print Assumptions c08_frame.

(* ... in particular every cached prototype still is what newPkgResolver built
   for its key, with an EMPTY selected (observed on the real code through the
   hook VerifResolverPrototype after every history) *)
Theorem c08_frame_prototypes : forall mk_names mk_iif dq_diff dkey R core,
  CoreWritesOnlyOwned R core -> CoreKeepsLength R core ->
  forall hist k h,
    find_key k (rcache (run_history mk_names mk_iif dq_diff dkey R core true hist)) = Some h ->
    view_ok mk_names mk_iif (st (run_history mk_names mk_iif dq_diff dkey R core true hist)) h k.
Proof. exact cached_prototypes_pristine. Qed.
Print Assumptions c08_frame_prototypes.

(* HISTORY INDEPENDENCE. For EVERY history and call: the result after the
   history is the result on an empty store - provided no earlier call with the
   same disqualification-cache key had a different disqualifyDifference (see
   c08_dq_cache_key_refuted for why the proviso cannot be dropped). *)
Theorem c08_history_independent : forall mk_names mk_iif dq_diff dkey R core,
  CoreWritesOnlyOwned R core -> CoreKeepsLength R core -> CoreReadsThroughHandles R core ->
  forall hist c,
    GroupingCompatible dq_diff dkey hist c ->
    result_after mk_names mk_iif dq_diff dkey R core true hist c =
    result_fresh mk_names mk_iif dq_diff dkey R core true c.
Proof. exact history_independent. Qed.
Print Assumptions c08_history_independent.

(* the proviso in the form "no earlier call used the same index set with
   another architecture grouping" *)
Theorem c08_history_independent_same_grouping : forall mk_names mk_iif dq_diff dkey R core,
  CoreWritesOnlyOwned R core -> CoreKeepsLength R core -> CoreReadsThroughHandles R core ->
  forall hist c,
    (forall c', In c' hist -> dkey (cl_archs c') = dkey (cl_archs c) -> cl_archs c' = cl_archs c) ->
    result_after mk_names mk_iif dq_diff dkey R core true hist c =
    result_fresh mk_names mk_iif dq_diff dkey R core true c.
Proof.
  intros mk_names mk_iif dq_diff dkey R core H1 H2 H3 hist c G.
  exact (history_independent mk_names mk_iif dq_diff dkey R core H1 H2 H3 hist c
           (same_grouping_compatible dq_diff dkey hist c G)).
Qed.
Print Assumptions c08_history_independent_same_grouping.

(* the frame hypothesis holds of every core that is a pure function of what it
   reads through its handles and writes back selected / dq only *)
Theorem c08_pure_cores_satisfy_frame : forall R f (fail : R),
  CoreWritesOnlyOwned R (core_of f fail) /\ CoreKeepsLength R (core_of f fail) /\
  CoreReadsThroughHandles R (core_of f fail).
Proof. intros R f fail. exact (conj (core_of_frame R f fail) (conj (core_of_len R f fail) (core_of_reads R f fail))). Qed.
Print Assumptions c08_pure_cores_satisfy_frame.

(* ... and is not vacuous: a core that sorts a shared slice in place violates it *)
Theorem c08_frame_hypothesis_not_vacuous : ~ CoreWritesOnlyOwned unit slice_writer.
Proof. exact slice_writer_breaks_frame. Qed.
Print Assumptions c08_frame_hypothesis_not_vacuous.

(* INSTANCE for the sequential resolver model: after any history a call returns
   what Resolver.resolve_with returns for the resolver of the call's own
   indexes, an empty selected and the disqualification set of the call's own
   grouping - whatever the resolution leaves behind in its selected / dq maps
   ([fsel], [fdq]). *)
Theorem c08_history_independent_resolver : forall u fsel fdq hist c,
  GroupingCompatible (dq_difference u) (dq_key u) hist c ->
  result_after (mk_names_of u) (mk_iif_of u) (dq_difference u) (dq_key u) _ (resolver_core u fsel fdq) true hist c =
  lift_res u (cl_indexes c)
    (Resolver.resolve_with
       (resolver_of_view u (fresh_view (mk_names_of u) (mk_iif_of u) (dq_difference u) c (cl_archs c)))
       (cl_world c) (flat_pids u (cl_indexes c) (dq_difference u (cl_archs c)))).
Proof. exact resolver_history_independent. Qed.
Print Assumptions c08_history_independent_resolver.

(* NON-VACUITY: with the clone removed (`return pr`, `return dq`) the statement
   is false - two consecutive resolutions of different worlds over one index *)
Theorem c08_no_clone_refuted :
  (exists hist c, result_after ex_names ex_none ex_dq ex_key _ toy_core false hist c <>
                  result_fresh ex_names ex_none ex_dq ex_key _ toy_core false c /\
                  result_after ex_names ex_none ex_dq ex_key _ toy_core true hist c =
                  result_fresh ex_names ex_none ex_dq ex_key _ toy_core true c /\
                  cl_world c = ["a"; "b"]) /\
  (exists hist c, result_after ex_names ex_none ex_dq ex_key _ toy_core false hist c <>
                  result_fresh ex_names ex_none ex_dq ex_key _ toy_core false c /\
                  result_after ex_names ex_none ex_dq ex_key _ toy_core true hist c =
                  result_fresh ex_names ex_none ex_dq ex_key _ toy_core true c /\
                  cl_world c = ["b"]).
Proof.
  split.
  - exists [ex_call ["a"]], (ex_call ["a"; "b"]). destruct no_clone_selected_leaks as [A [B C]].
    rewrite A. split; [rewrite B; discriminate|]. split; [rewrite C; vm_compute; reflexivity | reflexivity].
  - exists [ex_call ["!b"]], (ex_call ["b"]). destruct no_clone_dq_leaks as [A [B C]].
    rewrite A. split; [rewrite B; discriminate|]. split; [rewrite C; vm_compute; reflexivity | reflexivity].
Qed.
Print Assumptions c08_no_clone_refuted.

(* MEMO TABLES. Whatever was looked up before, cachedParseVersion returns what
   ParseVersion returns and cachedResolvePackageNameVersionPin what
   ResolvePackageNameVersionPin returns (the C03 models of both). *)
Theorem c08_memo_transparent :
  (forall history k,
     fst (memo_get string Version.mver String.eqb Version.parse_version
            (memo_run string Version.mver String.eqb Version.parse_version [] history) k)
     = Version.parse_version k) /\
  (forall history k,
     fst (memo_get string Version.constraint String.eqb (fun s => Some (Version.resolve_constraint s))
            (memo_run string Version.constraint String.eqb (fun s => Some (Version.resolve_constraint s)) [] history) k)
     = Some (Version.resolve_constraint k)).
Proof.
  split; intros history k.
  - exact (memo_transparent string Version.mver String.eqb String.eqb_eq Version.parse_version history k).
  - exact (memo_transparent string Version.constraint String.eqb String.eqb_eq _ history k).
Qed.
Print Assumptions c08_memo_transparent.

(* what a call is handed in general: the disqualifyDifference of SOME call of
   the history (or itself) that has the same key *)
Theorem c08_dq_handed : forall mk_names mk_iif dq_diff dkey R core,
  CoreWritesOnlyOwned R core -> CoreKeepsLength R core ->
  forall hist c,
    exists a, In a (List.map cl_archs (hist ++ [c])) /\ dkey a = dkey (cl_archs c) /\
              dq_handed mk_names mk_iif dq_diff dkey R core hist c = dq_diff a.
Proof. exact dq_handed_spec. Qed.
Print Assumptions c08_dq_handed.

(* [refuted] C08-F2. The key is the concatenation of all architectures' indexes
   sorted by pin name: {x:[i0], y:[i1]} and {x:[i0,i1]} share an entry. After
   the first, the second is handed a set that disqualifies only1 (and fails,
   where a fresh process succeeds); in the other order the two-architecture
   call is handed the empty set. Replayed on the real code: corpus/finding/F2. *)
Theorem c08_dq_cache_key_refuted :
  let handed := dq_handed f2_names ex_none (dq_difference f2_universe) (dq_key f2_universe) _ toy_core in
  dq_key f2_universe (cl_archs f2_multi) = dq_key f2_universe (cl_archs f2_single) /\
  dq_difference f2_universe (cl_archs f2_multi) = [(0, 0)] /\
  dq_difference f2_universe (cl_archs f2_single) = [] /\
  handed [f2_multi] f2_single = [(0, 0)] /\ handed [] f2_single = [] /\
  handed [f2_single] f2_multi = [] /\ handed [] f2_multi = [(0, 0)] /\
  result_after f2_names ex_none (dq_difference f2_universe) (dq_key f2_universe) _ toy_core true [f2_multi] f2_single
    <> result_fresh f2_names ex_none (dq_difference f2_universe) (dq_key f2_universe) _ toy_core true f2_single /\
  result_after f2_names ex_none (dq_difference f2_universe) (dq_key f2_universe) _ toy_core true [f2_single] f2_multi
    <> result_fresh f2_names ex_none (dq_difference f2_universe) (dq_key f2_universe) _ toy_core true f2_multi.
Proof. exact dq_cache_key_refuted. Qed.
Print Assumptions c08_dq_cache_key_refuted.

(* ORDER AND MEMBERS ARE DETERMINED (full; was refuted until fix c03e0c0, findings
   C08-F1 and C08-F3).  GetPackageWithDependencies' install_if loop used to
   range over the Go map `added` while inserting into it: two runs of the same
   resolution could install the install_if packages in different orders
   (C08-F1) and a chained install_if package was installed or not depending on
   whether the iteration reached the key inserted on the way (C08-F3).  The
   loop now walks the dependency list by index, the entries it appends
   included; the model transcribes that (Resolver.iif_loop) and takes nothing
   but the universe, the world and the initial disqualification set: for every
   U, world and dq0 there is ONE result - members and order.  The statement is
   as plain as it looks because no iteration-order parameter is left in the
   model; what makes it a statement about the code is the correspondence
   (stages res / seq: every resolution is repeated in the same and in fresh
   processes and each run must EQUAL this model). *)
Theorem c08_order_deterministic : forall U world dq0 r1 r2,
  Resolver.resolve U world dq0 = r1 -> Resolver.resolve U world dq0 = r2 -> r1 = r2.
Proof. exact order_deterministic. Qed.
Print Assumptions c08_order_deterministic.

(* the witnesses of the two former refutations have one answer each.
   f1: w -> a, b; a-x install_if a; b-x install_if b  (was [a b a-x b-x w] or [a b b-x a-x w]);
   f3: w -> a; b install_if a; c install_if b         (was [a b w] or [a b c w]) *)
Example c08_order_deterministic_example :
  (loop_start f1_universe "w" = Ok ([1; 2], ["a"; "b"]) /\
   Resolver.resolve f1_universe ["w"] [] = Ok [1; 2; 3; 4; 0]) /\
  (loop_start f3_universe "w" = Ok ([1], ["a"]) /\
   Resolver.resolve f3_universe ["w"] [] = Ok [1; 3; 2; 0]).
Proof. exact (conj f1_one_answer f3_one_answer). Qed.

(* CHAIN COMPLETENESS (full; the positive form of what C08-F3 refuted for the
   map-range loop).  One call of GetPackageWithDependencies, any universe,
   request, disqualification set, selected / existing maps: in the dependency
   list it returns, every install_if package of the universe ALL of whose
   install_if entries are, literally, names of entries of that list has a
   package of its name in the list - also when the trigger was itself appended
   by the loop (a-x-y install_if a-x install_if a), whatever the order of the
   packages in the index.  (For the map-range loop this held only for the
   iteration orders that happened to reach the inserted key.)  Stated for
   entries that are names of members: name=version keys are looked up only when
   no package has the bare name as an entry, and entries with another operator
   are never keys - both quirks are in the model and in the corpora. *)
Theorem c08_install_if_chain_complete : forall U w dq sel ex dq' sel' i deps,
  let R := Resolver.new_resolver U in
  Resolver.get_pkg R w dq sel ex = Ok (dq', sel', i, deps) ->
  forall q, ResolveProofs.valid R q -> Resolver.k_iifs (Resolver.getp R q) <> [] ->
    (forall e, In e (Resolver.k_iifs (Resolver.getp R q)) ->
       In (Resolver.s_raw e) (List.map (ResolveProofs2.nm R) deps)) ->
    In (ResolveProofs2.nm R q) (List.map (ResolveProofs2.nm R) deps).
Proof. exact ResolveInstallIf.get_pkg_iif_complete. Qed.
Print Assumptions c08_install_if_chain_complete.
(* c (listed BEFORE b in the index) install_if b, b install_if a, w -> a: the
   dependency list of the request w is [a b c] *)
Example c08_install_if_chain_complete_example :
  let R := Resolver.new_resolver f3_universe in
  (exists dq sel, Resolver.get_pkg R (Resolver.cook_str "w") [] [] [] = Ok (dq, sel, 0, [1; 3; 2])) /\
  List.map Resolver.s_raw (Resolver.k_iifs (Resolver.getp R 2)) = ["b"] /\
  List.map (ResolveProofs2.nm R) [1; 3; 2] = ["a"; "b"; "c"].
Proof. split; [eexists _, _; vm_compute; reflexivity | split; vm_compute; reflexivity]. Qed.

(* the boolean validator run on the implementation's observed outcomes decides
   exactly the readable statement *)
Theorem c08_validator_decides : forall obs oracle,
  history_independent_b obs oracle = true <-> HistoryIndependent obs oracle.
Proof. exact history_independent_b_iff. Qed.
Print Assumptions c08_validator_decides.
