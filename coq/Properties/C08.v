(* C08 — Resolution is a pure function of its inputs.
   Property theorems only; proofs live in Proofs/CachesProofs.v. *)
From Apko Require Import Base.Prelude Model.Caches Spec.CachesSpec Proofs.CachesProofs.

(* the boolean validator run on the implementation's observed outcomes decides
   exactly the readable statement *)
Theorem c08_validator_decides : forall obs oracle,
  history_independent_b obs oracle = true <-> HistoryIndependent obs oracle.
Proof. exact history_independent_b_iff. Qed.
Print Assumptions c08_validator_decides.
