(* C09 — Locking is a fixpoint of resolution. Property theorems only. *)
From Apko Require Import Base.Prelude Base.Regex Base.C12Lib Model.Version Model.Lock Spec.LockSpec
  Proofs.LockProofs Generated.Regexes Generated.C09Lock.

(* pkg/build/lock.go carries a private copy of the resolver's constraint
   grammar: the two regular expressions are the same *)
Theorem c09_regex_copy : lock_package_name_regex = package_name_regex.
Proof. exact lock_regex_is_resolver_regex. Qed.
Print Assumptions c09_regex_copy.
