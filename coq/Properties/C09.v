(* C09 — Locking is a fixpoint of resolution. Property theorems only; each is
   closed by [exact] of a lemma of Proofs/LockProofs.v and followed by Print
   Assumptions. The regular expression, the delimiter sets, the entry / pin /
   range formats, the range arithmetic of LockCmd and the field copies of
   NewAPKResolved are the ones goextract read from /repo on this run
   (Generated/C09Lock.v). *)
From Apko Require Import Base.Prelude Base.Regex Base.C12Lib Model.Version Model.Lock Spec.LockSpec
  Proofs.LockProofs Generated.Regexes Generated.VersionConsts Generated.C09Lock.
From Apko Require Model.Resolver Spec.ResolveSpec Proofs.ResolveTheorems Proofs.LockFixpointResolver Proofs.LockFixpointSuccess.
From Apko Require Import Model.LockArchOrder Proofs.LockUnifyOrder Proofs.LockPinProofs.
From Apko Require Proofs.LockFixpointPinned Model.LockBuild Proofs.LockBuildProofs.
From Apko Require Import Base.C09Lib Generated.C09Build Model.LockGuard Proofs.LockGuardProofs.
From Coq Require Import Permutation Sorted.
Open Scope string_scope. Open Scope list_scope.

(* pkg/build/lock.go carries a private copy of the resolver's constraint
   grammar: the two regular expressions are the same *)
Theorem c09_regex_copy : lock_package_name_regex = package_name_regex.
Proof. exact lock_regex_is_resolver_regex. Qed.
Print Assumptions c09_regex_copy.

(* unify does not depend on the order in which Go hands out the elements of
   acc.packages (UnsortedList, once per architecture) nor on the order of the
   range over acc.provided: for ALL such orders the result is the same *)
Theorem c09_unify_order_independent : forall ord ord' ordp ordp' originals inputs,
  (forall i l, Permutation (ord i l) l) -> (forall i l, Permutation (ord' i l) l) ->
  (forall l, Permutation (ordp l) l) -> (forall l, Permutation (ordp' l) l) ->
  unify ord ordp originals inputs = unify ord' ordp' originals inputs.
Proof. exact unify_order_independent. Qed.
Print Assumptions c09_unify_order_independent.

(* the shared ("index") lock: sorted, and its entries are EXACTLY name=version[@pin]
   for the names resolved on every architecture to one and the same version
   (inputs as LockImageConfiguration builds them: packages = keys(versions)) *)
Theorem c09_unify_index : forall ord ordp originals r0 rest bya mba,
  (forall i l, Permutation (ord i l) l) -> originals <> [] ->
  Forall wf_resolved (r0 :: rest) ->
  ~ In unify_index_key (List.map r_arch (r0 :: rest)) ->
  unify ord ordp originals (r0 :: rest) = Ok (bya, mba) ->
  exists idx, alookup unify_index_key bya = Some idx /\ StronglySorted sle idx /\
    IndexSound (unify_pin originals) r0 rest idx /\
    forall e, In e idx <->
      exists n, In n (r_packages r0) /\ e = lock_entry (unify_pin originals) (r_versions r0) n /\
                forall r, In r rest -> In n (r_packages r) /\ vget n (r_versions r) = vget n (r_versions r0).
Proof.
  intros ord ordp originals r0 rest bya mba Ho Hne W Nidx H.
  destruct (unify_index_exact ord ordp originals r0 rest bya mba Ho Hne W Nidx H) as (idx & E & S & X).
  exists idx. split; [exact E | split; [exact S | split; [|exact X]]].
  intros e He. apply X in He. exact He.
Qed.
Print Assumptions c09_unify_index.

(* each per-architecture lock is exactly the sorted list of name=version[@pin]
   of that architecture's resolution *)
Theorem c09_unify_per_arch : forall ord ordp originals inputs bya mba,
  originals <> [] -> NoDup (List.map r_arch inputs) -> ~ In unify_index_key (List.map r_arch inputs) ->
  unify ord ordp originals inputs = Ok (bya, mba) ->
  forall r, In r inputs ->
    exists l, alookup (r_arch r) bya = Some l /\ ArchLockExact (unify_pin originals) r l.
Proof.
  intros ord ordp originals inputs bya mba Hne ND Nidx H r Hr.
  eexists. split; [exact (unify_per_arch_exact ord ordp originals inputs bya mba Hne ND Nidx H r Hr)|].
  apply arch_lock_exact_b_iff. unfold arch_lock_exact_b. apply (list_eqb_spec String.eqb String.eqb_eq). reflexivity.
Qed.
Print Assumptions c09_unify_per_arch.

(* the order of the ARCHITECTURES (a Go map range in LockImageConfiguration)
   does matter: same request, same resolutions, success one way and an error
   the other (finding C09-F3; replayed on the real unify by the harness) *)
Theorem c09_unify_arch_order_refuted :
  exists originals r1 r2 ok,
    wf_resolved r1 /\ wf_resolved r2 /\
    unify id_ord id_ordp originals [r1; r2] = Ok ok /\ unify id_ord id_ordp originals [r2; r1] = Err.
Proof.
  destruct unify_arch_order_refuted as [H1 H2].
  eexists _, _, _, _. split; [|split; [|split; [exact H1 | exact H2]]];
    intro n; vm_compute; tauto.
Qed.
Print Assumptions c09_unify_arch_order_refuted.

(* ... but only in whether there is a result: per-architecture lists never
   depend on it (missing part: the shared list, see notes) *)
Theorem c09_unify_arch_order_partial : forall ord ordp originals inputs inputs' bya mba bya' mba',
  originals <> [] -> Permutation inputs inputs' ->
  NoDup (List.map r_arch inputs) -> ~ In unify_index_key (List.map r_arch inputs) ->
  unify ord ordp originals inputs = Ok (bya, mba) ->
  unify ord ordp originals inputs' = Ok (bya', mba') ->
  forall r, In r inputs -> alookup (r_arch r) bya = alookup (r_arch r) bya'.
Proof. exact unify_arch_order_partial. Qed.
Print Assumptions c09_unify_arch_order_partial.

(* lock.json: for every package file made of the three members sig ++ ctl ++ dat
   (sizes and hashes as expandapk reports them, copied by NewAPKResolved as
   translated, ranges computed by LockCmd's translated arithmetic): the recorded
   byte ranges cut the file exactly into its members — contiguous, disjoint,
   covering [0, total) — the signature section is emitted iff there is one, and
   the recorded checksums are those of the three members (hash functions and
   base64 are parameters) *)
Theorem c09_ranges : forall (sha1 sha256 : list N -> list N) (b64 : list N -> string) (sig ctl dat : list N),
  let e := expand sha1 sha256 sig ctl dat in
  let file := sig ++ ctl ++ dat in
  ((signature_emitted e = false <-> sig = []) /\
   (signature_emitted e = true -> slice (n_lo (signature_nums e)) (n_hi (signature_nums e)) file = sig) /\
   slice (n_lo (control_nums e)) (n_hi (control_nums e)) file = ctl /\
   slice (n_lo (data_nums e)) (n_hi (data_nums e)) file = dat /\
   (ctl <> [] -> dat <> [] ->
    RangesTile (signature_emitted e) (signature_nums e) (control_nums e) (data_nums e) (Z.of_nat (List.length file)))) /\
  (s_checksum (control_section b64 e) = (lock_control_checksum_prefix ++ b64 (sha1 ctl))%string /\
   s_checksum (data_section b64 e) = (lock_data_checksum_prefix ++ b64 (sha256 dat))%string /\
   (sig <> [] -> s_checksum (signature_section b64 e) = (lock_signature_checksum_prefix ++ b64 (sha1 sig))%string) /\
   (sig = [] -> signature_section b64 e = {| s_range := ""; s_checksum := "" |}) /\
   s_range (control_section b64 e) =
     fmt_s lock_control_range_format [dec (n_lo (control_nums e)); dec (n_hi (control_nums e))] /\
   s_range (data_section b64 e) =
     fmt_s lock_data_range_format [dec (n_lo (data_nums e)); dec (n_hi (data_nums e))] /\
   (sig <> [] -> s_range (signature_section b64 e) =
     fmt_s lock_signature_range_format [dec (n_hi (signature_nums e))])).
Proof. intros. split; [exact (ranges_exact sha1 sha256 sig ctl dat) | exact (checksums_exact sha1 sha256 b64 sig ctl dat)]. Qed.
Print Assumptions c09_ranges.

(* a lock entry name=version is read back by the resolver as the constraint
   (name, "=", version, no pin), and filterPackages admits through it exactly:
   the candidates (= packages called [name] or providing it) that are not
   disqualified, come from an untagged repository, have a parsable version and
   either compare equal to [version] or carry ANY provides entry — of whatever
   name — whose version compares equal. The last clause and "providing it" are
   where the round trip can leave the locked set. *)
Theorem c09_lock_entries_exact : forall name v (cands : list cand) (k : cand),
  clean_name name -> clean_version v ->
  resolve_constraint (name ++ "=" ++ v) =
    {| c_name := name; c_version := v; c_dep := dep_versionEqual; c_pin := "" |} /\
  (In k (filter_for (resolve_constraint (name ++ "=" ++ v)) cands) <->
   In k cands /\ k_dq k = false /\ k_pinned k = "" /\
   exists req, parse_version v = Some req /\ Admits req k).
Proof.
  intros name v cands k Hn Hv. split; [exact (lock_entry_parses name v Hn Hv) | exact (lock_entry_admits_exactly name v cands k Hn Hv)].
Qed.
Print Assumptions c09_lock_entries_exact.

Theorem c09_lock_entry_admits_foreign :
  exists q, k_name q <> "b" /\ In q (filter_for (resolve_constraint "b=1.0-r0") [q]).
Proof. eexists. split; [|exact lock_entry_admits_foreign]. discriminate. Qed.
Print Assumptions c09_lock_entry_admits_foreign.

(* installing from a lock: the packages handed to the installer are exactly the
   entries of the requested architecture, in file order, each with its url and
   checksum; an entry without checksum is an error; and what gets installed is
   that list, element by element: no resolution takes place *)
Theorem c09_lock_install : forall (P : Type) (fetch : installable -> option P) pkgs arch,
  (forall ps, build_from_lock fetch pkgs arch = Ok ps ->
     List.map Some ps = List.map fetch (List.map to_installable (for_arch arch pkgs))) /\
  (forall l, installable_for_arch pkgs arch = Ok l ->
     l = List.map to_installable (for_arch arch pkgs) /\ Forall (fun p => lp_checksum p <> "") (for_arch arch pkgs)) /\
  (Forall (fun p => lp_checksum p <> "") (for_arch arch pkgs) ->
     installable_for_arch pkgs arch = Ok (List.map to_installable (for_arch arch pkgs))) /\
  installable_for_arch pkgs arch <> Panic /\ installable_for_arch pkgs arch <> OutOfFuel.
Proof.
  intros P fetch pkgs arch. split; [intros ps H; exact (build_from_lock_exact fetch pkgs arch ps H) | exact (installable_exact pkgs arch)].
Qed.
Print Assumptions c09_lock_install.

(* the fixpoint, against an abstract resolver over a universe U.
   Full statement: [Fixpoint_statement U resolve]. It is NOT a theorem of the
   real resolver (findings C09-F1, C09-F2, replayed by the harness). Proved: for
   every resolver that is sound (its result is inside U, answers every world
   entry and is closed under positive dependencies), minimal (no proper subset
   of its result is such a solution) and finds a solution of an exact lock that
   has one — whenever every member answers its own entry and nothing else in U
   is admitted by a member's entry, re-resolving the lock returns exactly the
   members. For the resolver model (Model/Resolver.v) the three hypotheses are
   examined one by one in c09_fixpoint_resolver_partial below. *)
Theorem c09_fixpoint_partial : forall (U : list cand) (resolve : list string -> option (list cand)),
  (forall W S, resolve W = Some S -> solution U W S) ->
  (forall W S S', resolve W = Some S -> solution U W S' -> incl S' S -> incl S S') ->
  (forall S, solution U (lock_of S) S -> exists R, resolve (lock_of S) = Some R) ->
  forall W S, resolve W = Some S ->
    (forall k, In k S -> admitted U (lock_entry_of k) k) ->
    (forall k k', In k S -> In k' U -> admitted U (lock_entry_of k) k' -> k' = k) ->
    exists R, resolve (lock_of S) = Some R /\ forall k, In k R <-> In k S.
Proof. exact fixpoint_partial. Qed.
Print Assumptions c09_fixpoint_partial.

(* the fixpoint against the RESOLVER MODEL (Model/Resolver.v = repo.go +
   filterPackages; resolve U W dq0 as in Properties/C02.v), inside the
   envelope of c02_closed_partial (Spec.ResolveSpec.envelope_b), for members
   whose names and versions survive the lock's  name=version  text (lockable).
   The three hypotheses of c09_fixpoint_partial, for that model:
     sound    PROVED: the result is closed (all four clauses, C02);
     minimal  PROVED as an upper bound (LockFixpointResolver.resolve_upper): a
              result holds nothing but listed providers of world entries and
              of positive dependencies of its members;
     finds the solution of an exact lock: FALSE in general
              (c09_fixpoint_resolver_refuted), PROVED (LockFixpointSuccess) when
              every member answers its own entry (envelope hypothesis (i) of
              c09_fixpoint_partial: untagged repository, parsable version), no
              member is excluded by a member's conflict entry, and no
              dependency of a member carries a version without a known operator.
   Statement, for EVERY list L of the lock entries name=version of the members
   (lists_lock_entries: any order — lock.go sorts them — repetitions allowed;
   lock_world = lock_of of the members is one): L is again inside the envelope;
   envelope hypothesis (ii) of c09_fixpoint_partial ("nothing else in U is
   admitted by a member's entry") holds by itself (one provider per name);
   WHENEVER L resolves it resolves to exactly the members it was derived from;
   and under the three extra hypotheses it DOES resolve.  (The resolver model
   has no install_if schedule parameter any more, fix c03e0c0.)
   PARTIAL: only inside the envelope and under those hypotheses. *)
Theorem c09_fixpoint_resolver_partial : forall (U : Resolver.universe) W dq0 S,
  ResolveSpec.envelope_b U W = true -> Resolver.resolve U W dq0 = Ok S ->
  (forall j, In j S -> LockFixpointResolver.lockable (nth j U Resolver.dummy_pkg)) ->
  ResolveSpec.Closed U W (ResolveTheorems.pkgs_of U S) /\
  LockFixpointResolver.lock_world U dq0 S = lock_of (List.map (LockFixpointResolver.cand_at U dq0) S) /\
  (forall j k', In j S -> In k' (LockFixpointResolver.lock_universe U dq0) ->
     admitted (LockFixpointResolver.lock_universe U dq0) (lock_entry_of (LockFixpointResolver.cand_at U dq0 j)) k' ->
     k' = LockFixpointResolver.cand_at U dq0 j) /\
  (forall L, LockFixpointSuccess.lists_lock_entries U dq0 S L ->
     ResolveSpec.envelope_b U L = true /\
     forall S', Resolver.resolve U L dq0 = Ok S' -> forall j, In j S' <-> In j S) /\
  ((forall j, In j S -> admitted (LockFixpointResolver.lock_universe U dq0)
                                 (lock_entry_of (LockFixpointResolver.cand_at U dq0 j)) (LockFixpointResolver.cand_at U dq0 j)) ->
   LockFixpointSuccess.no_member_excluded U S -> LockFixpointSuccess.deps_wellformed U S ->
   forall L, LockFixpointSuccess.lists_lock_entries U dq0 S L ->
   exists S', Resolver.resolve U L dq0 = Ok S' /\ forall j, In j S' <-> In j S).
Proof. exact LockFixpointSuccess.fixpoint_resolver_lemma. Qed.
Print Assumptions c09_fixpoint_resolver_partial.

(* REFUTED inside both envelopes (finding C09-F6, replayed on the real resolver
   by the corpora of the c02 and c09 harnesses): a -> b, c; c -> !b; world [a].
   The conflict entry of c is applied when c is expanded, after b was chosen
   for a: the result [b c a] is closed, every member answers its own entry
   (hypothesis (i) of c09_fixpoint_partial), and its lock fails to resolve in the order of the result [b=1.0 c=1.0 a=1.0], in sorted
   order [a=1.0 b=1.0 c=1.0] (what lock.go writes) and in five of the six
   orders of its entries (only [b a c] replays the origin). *)
Theorem c09_fixpoint_resolver_refuted :
  let U := LockFixpointResolver.U_conflict in let W := ["a"] in let S := [1; 2; 0]%nat in
  ResolveSpec.envelope_b U W = true /\ Resolver.resolve U W [] = Ok S /\
  ResolveSpec.Closed U W (ResolveTheorems.pkgs_of U S) /\
  (forall j, In j S -> LockFixpointResolver.lockable (nth j U Resolver.dummy_pkg)) /\
  (forall j, In j S -> admitted (LockFixpointResolver.lock_universe U [])
                                (lock_entry_of (LockFixpointResolver.cand_at U [] j)) (LockFixpointResolver.cand_at U [] j)) /\
  LockFixpointResolver.lock_world U [] S = ["b=1.0"; "c=1.0"; "a=1.0"] /\
    Resolver.resolve U (LockFixpointResolver.lock_world U [] S) [] = Err /\
    Resolver.resolve U ["a=1.0"; "b=1.0"; "c=1.0"] [] = Err /\
    List.map (fun L => Resolver.resolve U L []) (LockFixpointResolver.all_orders (LockFixpointResolver.lock_world U [] S))
      = [Err; Err; Err; Ok S; Err; Err].
Proof. exact LockFixpointResolver.fixpoint_finds_locked_refuted. Qed.
Print Assumptions c09_fixpoint_resolver_refuted.

(* ---- session 4 ---------------------------------------------------------------------- *)

(* what LockImageConfiguration hands to unify is well formed for EVERY resolution
   result: packages = keys(versions), no duplicates, provided sets only for listed
   packages, none empty (everything the correspondence's wf_resolved_b tests) — so
   c09_unify_index / c09_unify_per_arch apply to every real call: *)
Theorem c09_resolved_of_wf : forall arch pkgs, wf_full (resolved_of arch pkgs).
Proof. exact resolved_of_wf. Qed.
Print Assumptions c09_resolved_of_wf.

(* ... LockImageConfiguration (architectures visited in the order goextract read
   from its loop: Generated.C09Lock.lock_archs_order) is unify on well-formed
   inputs with distinct architectures, none called "index" *)
Theorem c09_lock_image_configuration_inputs : forall ord ordp originals delivered,
  NoDup (List.map fst delivered) -> ~ In unify_index_key (List.map fst delivered) ->
  lock_image_configuration_now ord ordp originals delivered = unify ord ordp originals (inputs_of (visit_order delivered)) /\
  Forall wf_full (inputs_of (visit_order delivered)) /\
  NoDup (List.map r_arch (inputs_of (visit_order delivered))) /\
  ~ In unify_index_key (List.map r_arch (inputs_of (visit_order delivered))).
Proof. exact lock_image_configuration_inputs. Qed.
Print Assumptions c09_lock_image_configuration_inputs.

(* the order of the architectures, the missing part of c09_unify_arch_order_partial:
   when two orders of the same inputs both succeed the two results are equal as Go
   maps — every key of the lock map (the shared "index" list included) and of the
   missing map looks up the same list *)
Theorem c09_unify_arch_order_lists_equal : forall ord ordp ord' ordp' originals inputs inputs' bya mba bya' mba',
  (forall i l, Permutation (ord i l) l) -> (forall i l, Permutation (ord' i l) l) ->
  originals <> [] -> Permutation inputs inputs' ->
  Forall wf_resolved inputs -> Forall (fun r => NoDup (r_packages r)) inputs ->
  NoDup (List.map r_arch inputs) -> ~ In unify_index_key (List.map r_arch inputs) ->
  unify ord ordp originals inputs = Ok (bya, mba) ->
  unify ord' ordp' originals inputs' = Ok (bya', mba') ->
  forall k, alookup k bya = alookup k bya' /\ alookup k mba = alookup k mba'.
Proof. exact unify_arch_order_lists_equal. Qed.
Print Assumptions c09_unify_arch_order_lists_equal.

(* and WHETHER there is a result does not depend on the order either when the
   architectures agree on who provides the REQUESTED names (the common case;
   c09_unify_arch_order_refuted is a request "v" provided on one architecture only) *)
Theorem c09_unify_arch_order_independent : forall ord ordp ord' ordp' originals inputs inputs',
  (forall i l, Permutation (ord i l) l) -> (forall i l, Permutation (ord' i l) l) ->
  (forall l, Permutation (ordp l) l) -> (forall l, Permutation (ordp' l) l) ->
  Permutation inputs inputs' -> Forall wf_resolved inputs ->
  Forall (fun r => incl (akeys (r_provided r)) (r_packages r)) inputs ->
  agree_on (o_packages (parse_originals originals)) inputs ->
  (unify ord ordp originals inputs = Err <-> unify ord' ordp' originals inputs' = Err).
Proof. exact unify_arch_order_error_iff. Qed.
Print Assumptions c09_unify_arch_order_independent.

(* LockImageConfiguration since fix 8c1f464: the keys of toInstalls are sorted
   before the loop (lock_archs_order = "sorted" is what goextract read from the
   loop on this run), so its result is a function of the SET of per-architecture
   resolutions: whatever order the map range delivers them in, whatever the
   iteration orders of the sets *)
Theorem c09_shared_lock_sorted_order_deterministic : forall ord ordp ord' ordp' originals delivered delivered',
  (forall i l, Permutation (ord i l) l) -> (forall i l, Permutation (ord' i l) l) ->
  (forall l, Permutation (ordp l) l) -> (forall l, Permutation (ordp' l) l) ->
  NoDup (List.map fst delivered) -> Permutation delivered delivered' ->
  lock_archs_order = "sorted" /\
  lock_image_configuration_now ord ordp originals delivered =
  lock_image_configuration_now ord' ordp' originals delivered'.
Proof.
  intros ord ordp ord' ordp' originals d d' Ho Ho' Hp Hp' ND P. split; [exact archs_sorted_today|].
  exact (lock_image_configuration_deterministic ord ordp ord' ordp' originals d d' Ho Ho' Hp Hp' ND P).
Qed.
Print Assumptions c09_shared_lock_sorted_order_deterministic.

(* the @pin of an entry.  unify reads a request with its own splitter (text from
   the first '@'; name = text before the first of "=<>~" minus that suffix); on
   every request that matches packageNameRegex and is not rewritten by the soname
   special case (plain_request) this is exactly what the resolver's grammar reads
   (Model/Version.resolve_constraint, C03): unify_pin = spec_pin.  The pin is
   re-attached to the entry of package n only if n is the NAME of a request *)
Theorem c09_unify_pin_is_spec_pin : forall originals, Forall plain_request originals ->
  (forall o, In o originals ->
     let '(name, _, pinned) := parse_original o in
     name = c_name (resolve_constraint o) /\ pinned = pin_text (resolve_constraint o)) /\
  (forall n, unify_pin originals n = spec_pin originals n) /\
  (forall n, (forall o, In o originals -> c_name (resolve_constraint o) <> n) -> unify_pin originals n = "").
Proof.
  intros originals H. split; [|split].
  - intros o Ho. rewrite Forall_forall in H. exact (request_read_alike o (H o Ho)).
  - exact (unify_pin_is_spec_pin originals H).
  - intros n Hn. exact (pin_only_for_requested_names originals n H Hn).
Qed.
Print Assumptions c09_unify_pin_is_spec_pin.

(* the fixpoint against the resolver model WITH tagged repositories (the members may
   come from "@tag" repositories; c09_fixpoint_resolver_partial needed them all
   untagged).  For the per-architecture lock that unify emits for the request list
   [originals] (arch_lock = what c09_unify_per_arch says is stored under that
   architecture, LockFixpointPinned.arch_lock_of_unify) and for every other list L of
   the same entries name=version[@pin], inside C02's envelope:
     - which entries carry a pin: unify_pin = spec_pin, none for a name that was not requested;
     - WHENEVER L resolves it resolves to exactly the members;
     - a member of a tagged repository whose entry carries no pin makes L unresolvable
       (finding C09-F1: with the previous clause, every member of a tagged repository
       that was not requested BY NAME with its tag);
     - L DOES resolve when every member of a tagged repository carries its tag
       (tags_attached), tagged members are depended on by their own name only
       (pinned_by_own_name), versions parse, and the two hypotheses of
       c09_fixpoint_resolver_partial (no_member_excluded, deps_wellformed) hold.
   PARTIAL: inside the envelope and under those hypotheses. *)
Theorem c09_fixpoint_pinned_partial : forall (U : Resolver.universe) W dq0 S originals arch,
  ResolveSpec.envelope_b U W = true -> Resolver.resolve U W dq0 = Ok S ->
  (forall j, In j S -> LockFixpointResolver.lockable (nth j U Resolver.dummy_pkg)) ->
  Forall plain_request originals ->
  let pin := unify_pin originals in
  (forall n, pin n = spec_pin originals n) /\
  (forall n, (forall o, In o originals -> c_name (resolve_constraint o) <> n) -> pin n = "") /\
  LockFixpointPinned.lists_pinned_entries pin U S (LockFixpointPinned.arch_lock originals arch U S) /\
  (forall L, LockFixpointPinned.lists_pinned_entries pin U S L ->
     ResolveSpec.envelope_b U L = true /\ forall S', Resolver.resolve U L dq0 = Ok S' -> forall j, In j S' <-> In j S) /\
  (forall L j, LockFixpointPinned.lists_pinned_entries pin U S L -> In j S ->
     Resolver.p_pin (nth j U Resolver.dummy_pkg) <> "" -> pin (Resolver.p_name (nth j U Resolver.dummy_pkg)) = "" ->
     forall S', Resolver.resolve U L dq0 <> Ok S') /\
  (LockFixpointPinned.versions_parse U S -> LockFixpointPinned.tags_attached pin U S -> LockFixpointPinned.pinned_by_own_name U S ->
   LockFixpointSuccess.no_member_excluded U S -> LockFixpointSuccess.deps_wellformed U S ->
   forall L, LockFixpointPinned.lists_pinned_entries pin U S L ->
   exists S', Resolver.resolve U L dq0 = Ok S' /\ forall j, In j S' <-> In j S).
Proof. exact LockFixpointPinned.fixpoint_pinned_lemma. Qed.
Print Assumptions c09_fixpoint_pinned_partial.

(* REFUTED without tags_attached (finding C09-F1) and without pinned_by_own_name
   (finding C09-F8, found by this proof: it is the hypothesis the proof needed).
   F1: world [a@edge], a -> d, both only in the tagged repository: unify attaches the
   tag to a (requested by name) and not to d; the emitted lock cannot be resolved; with
   the tag on d as well it reproduces the origin.
   F8: r -> 0x -> a -> v, a and p1 (provides v) in the tagged repository, world
   [a@edge p1@edge r]: every tagged member is requested with its tag, every entry carries
   it, all other hypotheses hold — but in the lock the unrequested, untagged 0x sorts
   first, its walk (which allows no tag) reaches a, and a's dependency on the virtual v
   finds the tagged p1 filtered out.  Both replayed on the real code (api corpus). *)
Theorem c09_fixpoint_pinned_refuted :
  (let U := LockFixpointPinned.U_edge in let W := ["a@edge"] in let S := [1; 0]%nat in
   ResolveSpec.envelope_b U W = true /\ Resolver.resolve U W [] = Ok S /\ Forall plain_request W /\
   (forall j, In j S -> LockFixpointResolver.lockable (nth j U Resolver.dummy_pkg)) /\
   unify_pin W "a" = "@edge" /\ unify_pin W "d" = "" /\
   LockFixpointPinned.arch_lock W "amd64" U S = ["a=2.0@edge"; "d=3.0"] /\
   Resolver.resolve U (LockFixpointPinned.arch_lock W "amd64" U S) [] = Err /\
   Resolver.resolve U ["a=2.0@edge"; "d=3.0@edge"] [] = Ok S) /\
  (let U := LockFixpointPinned.U_edge_virtual in let W := ["a@edge"; "p1@edge"; "r"] in let S := [3; 2; 1; 0]%nat in
   ResolveSpec.envelope_b U W = true /\ Resolver.resolve U W [] = Ok S /\ Forall plain_request W /\
   (forall j, In j S -> LockFixpointResolver.lockable (nth j U Resolver.dummy_pkg)) /\
   LockFixpointPinned.versions_parse U S /\ LockFixpointPinned.tags_attached (unify_pin W) U S /\
   LockFixpointSuccess.no_member_excluded U S /\ LockFixpointSuccess.deps_wellformed U S /\
   ~ LockFixpointPinned.pinned_by_own_name U S /\
   LockFixpointPinned.arch_lock W "amd64" U S = ["0x=1.0"; "a=1.0@edge"; "p1=1.0@edge"; "r=1.0"] /\
   Resolver.resolve U (LockFixpointPinned.arch_lock W "amd64" U S) [] = Err).
Proof. split; [exact LockFixpointPinned.pinned_refuted_F1 | exact LockFixpointPinned.pinned_refuted_F8]. Qed.
Print Assumptions c09_fixpoint_pinned_refuted.

(* finding C09-F5, its mechanism (Model/LockBuild.v).  `apko lock` lists the packages of
   an architecture in the order in which the REQUEST list resolves (lockfile_order); the
   locked build hands the entries of its architecture to the installer in file order
   (first statement; c09_lock_install); `apko build` without a lock file first calls
   LockImageConfiguration and resolves configs[arch], so it installs in the order in which
   the LOCK list resolves (unlocked_order).  The two orders differ on x -> v, w0; z0
   provides v (second statement; replayed by the cli corpus); they are equal as soon as
   the lock file lists the packages in unlocked_order (third statement: what a repair of
   LockCmd has to establish — resolve the locked configuration, as the build does). *)
Theorem c09_locked_vs_unlocked_install_order :
  (forall U arch order (lockpkgs : list lock_pkg),
     for_arch arch lockpkgs = List.map (LockBuild.lock_pkg_at U arch) order ->
     installable_for_arch lockpkgs arch = Ok (List.map (LockBuild.installable_at U) order)) /\
  (let U := LockBuildProofs.U_order in
   LockBuild.lockfile_order U ["x"] = Ok [2; 1; 0]%nat /\
   LockBuild.locked_packages U "amd64" ["x"] [2; 1; 0]%nat = Ok ["w0=1.0"; "x=1.0"; "z0=1.0"] /\
   LockBuild.unlocked_order U "amd64" ["x"] = Ok [1; 2; 0]%nat) /\
  (forall U arch packages order (lockpkgs : list lock_pkg),
     LockBuild.unlocked_order U arch packages = Ok order ->
     for_arch arch lockpkgs = List.map (LockBuild.lock_pkg_at U arch) order ->
     installable_for_arch lockpkgs arch = Ok (List.map (LockBuild.installable_at U) order)).
Proof.
  split; [exact LockBuildProofs.locked_build_installs_file_order|].
  split; [exact LockBuildProofs.order_differs | exact LockBuildProofs.same_order_when_lock_lists_unlocked_order].
Qed.
Print Assumptions c09_locked_vs_unlocked_install_order.

(* ---- session 5: the Lockfile branch of buildImage, read from the source by shape (Generated/C09Build.v) ------ *)

(* an edited configuration is never built from a stale lock: with a config record in the lock file and a known
   checksum of the configuration, a recorded deep checksum that differs is refused — for ALL path strings on either
   side (seeded C09-7 compared the paths); and only such a lock is refused.  lock_refused evaluates the condition
   goextract read from the guard of buildImage's Lockfile branch. *)
Theorem c09_stale_lock_refused : forall g,
  (gi_config_present g = true -> gi_cfg_sum g <> "" -> gi_cfg_sum g <> gi_lock_sum g -> lock_refused g = true) /\
  (lock_refused g = true -> gi_config_present g = true /\ gi_cfg_sum g <> "" /\ gi_cfg_sum g <> gi_lock_sum g).
Proof. intro g. split; [exact (stale_lock_refused g) | exact (refused_only_when_stale g)]. Qed.
Print Assumptions c09_stale_lock_refused.

(* the two install paths of buildImage hand the same source date epoch to the installer (the second argument of
   InstallPackages on the Lockfile path and of FixateWorld on the other, as read from the source): what
   updateScriptsTar stamps on the members of lib/apk/db/scripts.tar does not depend on the path (seeded C09-8) *)
Theorem c09_locked_and_unlocked_install_same_epoch :
  locked_install_epoch = unlocked_install_epoch /\ locked_install_epoch = "SourceDateEpoch".
Proof. exact same_epoch. Qed.
Print Assumptions c09_locked_and_unlocked_install_same_epoch.

(* on top of a base image: ResolveWithBase leaves out of the lock exactly the resolved packages whose NAME the base
   image holds (in_base_filter, read from the source), and InstallPackages skips exactly the packages whose name is
   installed — so nothing the lock lists is skipped: the build from the lock adds precisely the listed packages, each
   in the listed build (seeded C09-9 listed a package the installer then skipped) *)
Theorem c09_base_image_lock_lists_what_is_installed : forall base resolved,
  NoDup (List.map bp_name resolved) ->
  install_on base (lock_listed base resolved) = base ++ lock_listed base resolved /\
  (forall p, In p (lock_listed base resolved) <-> In p resolved /\ ~ exists b, In b base /\ bp_name b = bp_name p).
Proof. exact base_lock_listed_is_installed. Qed.
Print Assumptions c09_base_image_lock_lists_what_is_installed.

(* the validators run on the implementation's observed outputs decide the
   readable statements *)
Theorem c09_validators_decide :
  (forall pin r0 rest idx, index_sound_b pin r0 rest idx = true <-> IndexSound pin r0 rest idx) /\
  (forall pin r l, arch_lock_exact_b pin r l = true <-> ArchLockExact pin r l) /\
  (forall a b, same_members_b a b = true <-> SameMembers a b) /\
  (forall sp sg ct dt total, ranges_tile_b sp sg ct dt total = true <-> RangesTile sp sg ct dt total).
Proof.
  split; [exact index_sound_b_iff | split; [exact arch_lock_exact_b_iff | split; [exact same_members_b_iff | exact ranges_tile_b_iff]]].
Qed.
Print Assumptions c09_validators_decide.

(* ---- non-vacuity ------------------------------------------------------------------ *)
Example c09_unify_example :
  let r1 := resolved_of "amd64" [{| p_name := "a"; p_version := "1.0-r0"; p_provides := [] |};
                                 {| p_name := "b"; p_version := "2.0-r0"; p_provides := ["v=1"] |}] in
  let r2 := resolved_of "arm64" [{| p_name := "b"; p_version := "2.1-r0"; p_provides := ["v=1"] |};
                                 {| p_name := "a"; p_version := "1.0-r0"; p_provides := [] |}] in
  wf_resolved r1 /\ wf_resolved r2 /\
  unify id_ord id_ordp ["a@edge"] [r1; r2] =
    Ok ([("index", ["a=1.0-r0@edge"]); ("amd64", ["a=1.0-r0@edge"; "b=2.0-r0"]); ("arm64", ["a=1.0-r0@edge"; "b=2.1-r0"])],
        [("amd64", ["b"]); ("arm64", ["b"])]).
Proof. split; [|split]; try (intro n; vm_compute; tauto). vm_compute. reflexivity. Qed.

Example c09_ranges_example :
  let e := expand (fun _ => [1%N]) (fun _ => [2%N]) [10; 11; 12]%N [20; 21]%N [30; 31; 32; 33]%N in
  s_range (control_section (fun _ => "h") e) = "bytes=3-4" /\
  s_range (data_section (fun _ => "h") e) = "bytes=5-8" /\
  s_range (signature_section (fun _ => "h") e) = "bytes=0-2" /\
  s_checksum (data_section (fun _ => "h") e) = "sha256-h".
Proof. vm_compute. repeat split. Qed.

Example c09_clean_example : clean_name "lib-x" /\ clean_version "1.2.3_rc1-r4".
Proof. split; vm_compute; repeat split; discriminate. Qed.

(* the hypotheses of c09_fixpoint_resolver_partial (all of them, the three extra ones included) are
   satisfiable: a -> b>0.5, v, !zz; b provides v=2; world [a v]; the lock [b=1.0 a=1.0] resolves to [b a] *)
Example c09_fixpoint_resolver_example :
  let U := LockFixpointSuccess.U_example in
  ResolveSpec.envelope_b U ["a"; "v"] = true /\ Resolver.resolve U ["a"; "v"] [] = Ok [1; 0]%nat /\
  (forall j, In j [1; 0]%nat -> LockFixpointResolver.lockable (nth j U Resolver.dummy_pkg)) /\
  (forall j, In j [1; 0]%nat -> admitted (LockFixpointResolver.lock_universe U [])
       (lock_entry_of (LockFixpointResolver.cand_at U [] j)) (LockFixpointResolver.cand_at U [] j)) /\
  LockFixpointSuccess.no_member_excluded U [1; 0]%nat /\ LockFixpointSuccess.deps_wellformed U [1; 0]%nat /\
  LockFixpointResolver.lock_world U [] [1; 0]%nat = ["b=1.0"; "a=1.0"] /\
  Resolver.resolve U ["b=1.0"; "a=1.0"] [] = Ok [1; 0]%nat.
Proof. exact LockFixpointSuccess.fixpoint_example. Qed.

(* the hypotheses of c09_fixpoint_partial are consistent, on a one-package universe *)
Example c09_fixpoint_hypotheses_consistent :
  let ka := {| k_name := "a"; k_version := "1.0-r0"; k_provides := []; k_deps := []; k_pinned := ""; k_dq := false |} in
  admitted [ka] (lock_entry_of ka) ka /\
  (forall k', In k' [ka] -> admitted [ka] (lock_entry_of ka) k' -> k' = ka).
Proof. split; [vm_compute; left; reflexivity | intros k' [<-|[]] _; reflexivity]. Qed.

(* session 4: the hypotheses of the positive clause of c09_fixpoint_pinned_partial are satisfiable with a member of a
   tagged repository: a (tagged, requested a@edge) -> d, b -> a; the emitted lock [a=2.0@edge b=1.0 d=3.0] resolves to its origin *)
Example c09_fixpoint_pinned_example :
  let U := LockFixpointPinned.U_edge_ok in let W := ["a@edge"; "b"] in let S := [1; 0; 2]%nat in
  ResolveSpec.envelope_b U W = true /\ Resolver.resolve U W [] = Ok S /\ Forall plain_request W /\
  (forall j, In j S -> LockFixpointResolver.lockable (nth j U Resolver.dummy_pkg)) /\
  LockFixpointPinned.versions_parse U S /\ LockFixpointPinned.tags_attached (unify_pin W) U S /\ LockFixpointPinned.pinned_by_own_name U S /\
  LockFixpointSuccess.no_member_excluded U S /\ LockFixpointSuccess.deps_wellformed U S /\
  LockFixpointPinned.arch_lock W "amd64" U S = ["a=2.0@edge"; "b=1.0"; "d=3.0"] /\
  Resolver.resolve U (LockFixpointPinned.arch_lock W "amd64" U S) [] = Ok [1; 0; 2]%nat.
Proof. exact LockFixpointPinned.pinned_example. Qed.

(* the hypotheses of c09_unify_arch_order_independent / _lists_equal are satisfiable: two architectures that agree on the
   provider of the requested virtual v, in both orders *)
Example c09_unify_arch_order_example :
  let r1 := resolved_of "amd64" [{| p_name := "p1"; p_version := "1.0-r0"; p_provides := ["v=1"] |};
                                 {| p_name := "b"; p_version := "2.0-r0"; p_provides := [] |}] in
  let r2 := resolved_of "arm64" [{| p_name := "b"; p_version := "2.1-r0"; p_provides := ["so:x=1"] |};
                                 {| p_name := "p1"; p_version := "1.0-r0"; p_provides := ["v=1"] |}] in
  agree_on (o_packages (parse_originals ["v"; "p1@edge"])) [r1; r2] /\ plain_request "p1@edge" /\
  unify id_ord id_ordp ["v"; "p1@edge"] [r1; r2] = Ok ([("index", ["p1=1.0-r0@edge"]); ("amd64", ["b=2.0-r0"; "p1=1.0-r0@edge"]); ("arm64", ["b=2.1-r0"; "p1=1.0-r0@edge"])],
                                                    [("amd64", ["b"]); ("arm64", ["b"])]) /\
  unify id_ord id_ordp ["v"; "p1@edge"] [r2; r1] = Ok ([("index", ["p1=1.0-r0@edge"]); ("arm64", ["b=2.1-r0"; "p1=1.0-r0@edge"]); ("amd64", ["b=2.0-r0"; "p1=1.0-r0@edge"])],
                                                    [("arm64", ["b"]); ("amd64", ["b"])]).
Proof.
  cbv zeta. split; [|split; [|split]].
  - set (r1 := resolved_of "amd64" _). set (r2 := resolved_of "arm64" _).
    assert (E1 : r_provided r1 = [("p1", ["v"])]) by (vm_compute; reflexivity).
    assert (E2 : r_provided r2 = [("b", ["so:x"]); ("p1", ["v"])]) by (vm_compute; reflexivity).
    assert (EN : o_packages (parse_originals ["v"; "p1@edge"]) = ["v"; "p1"]) by (vm_compute; reflexivity).
    intros n r r' p Hn Hr Hr'. rewrite EN in Hn.
    assert (G : forall x, In x [r1; r2] -> (In n (pget p (r_provided x)) <-> (n = "v" /\ p = "p1"))).
    { intros x [<-|[<-|[]]]; unfold pget; [rewrite E1 | rewrite E2]; cbn [alookup];
        destruct (String.eqb_spec p "p1") as [->|N1]; cbn [String.eqb Ascii.eqb Bool.eqb];
        try (destruct (String.eqb_spec p "b") as [->|N2]); simpl;
        destruct Hn as [<-|[<-|[]]]; split; try tauto; try (intros [H|[]]; discriminate); try (intros [H|[]]; tauto);
        try (intros [A B]; congruence). }
    rewrite (G r Hr), (G r' Hr'). tauto.
  - split; vm_compute; reflexivity.
  - vm_compute. reflexivity.
  - vm_compute. reflexivity.
Qed.

(* session 5: the guard refuses a lock recorded for another checksum under another spelling of the path, accepts the matching
   one; the rebuilt pretend-baselayout of the repository is not listed on top of the base image that holds that name *)
Example c09_guard_example :
  lock_refused {| gi_config_present := true; gi_cfg_sum := "sha-new"; gi_cfg_file := "dir/./apko.yaml"; gi_lock_sum := "sha-old"; gi_lock_name := "apko.yaml" |} = true /\
  lock_refused {| gi_config_present := true; gi_cfg_sum := "sha-old"; gi_cfg_file := "dir/./apko.yaml"; gi_lock_sum := "sha-old"; gi_lock_name := "apko.yaml" |} = false /\
  lock_listed [{| bp_name := "pretend-baselayout"; bp_checksum := "Q1base" |}]
              [{| bp_name := "pretend-baselayout"; bp_checksum := "Q1rebuilt" |}; {| bp_name := "replayout"; bp_checksum := "Q1r" |}]
    = [{| bp_name := "replayout"; bp_checksum := "Q1r" |}].
Proof. exact guard_example. Qed.
