(* C10 — A multi-layer image flattens to the single-layer image.
   Property theorems only; proofs are in Proofs/LayersProofs.v (budget, partition,
   each file once), Proofs/LayersGroups.v (co-location, order invariance), Proofs/LayersChain.v (stack invariant, well-formed layers),
   Proofs/LayersExtract.v (the extractor read path-wise), Proofs/LayersFlatten.v. *)
From Apko Require Import Base.Prelude Model.Tar Spec.TarSpec Model.Layers Spec.LayersSpec Proofs.LayersProofs
  Proofs.LayersChain Proofs.LayersExtract Proofs.LayersFlatten Proofs.LayersLinks Proofs.LayersGroups Proofs.LayersValid
  Proofs.TarProofs Proofs.TarLinks Proofs.LayersWalkLinks Proofs.LayersSizes
  Model.BuildSteps Generated.C10Steps Proofs.BuildStepsProofs.
From Coq Require Import Sorting.Permutation Sorting.Sorted.
Open Scope string_scope. Open Scope list_scope.

(* for every package list, EVERY budget (negative ones included) and every
   iteration order of the Go maps: a successful grouping has at most
   max(budget, 1) groups — at most [budget] for budget >= 1, and one group for
   budget 0 ("even if budget == 0, we want 1 group") *)
Theorem c10_group_count : forall rep_name rep_sat o3 o4 pkgs budget gs,
  group_with rep_name rep_sat o3 o4 pkgs budget = Ok gs ->
  (Z.of_nat (List.length gs) <= Z.max budget 1)%Z.
Proof. exact group_with_count. Qed.
Print Assumptions c10_group_count.

(* The property text, read literally, allows at most [budget] groups for every
   budget from 0 upward.  For budget 0 that is FALSE of the model and of the
   code: with at least one package there is one group (two layers with the top
   layer) [finding C10-F1, tag group-count-exceeds-budget/budget-zero].  For
   budget >= 1 the literal bound is c10_group_count. *)
Theorem c10_group_count_budget_zero_refuted :
  exists pkgs gs, NoDup (map p_name pkgs) /\
    group (fun r => r) (fun _ _ => Ok true) pkgs 0 = Ok gs /\ ~ (Z.of_nat (List.length gs) <= 0)%Z.
Proof.
  exists [w_pkg "a"; w_pkg "b"], [[w_pkg "a"; w_pkg "b"]]. split; [| split].
  - repeat constructor; simpl; intuition discriminate.
  - exact budget_zero_one_group.
  - simpl. lia.
Qed.
Print Assumptions c10_group_count_budget_zero_refuted.

Theorem c10_group_count_literal : forall rep_name rep_sat o3 o4 pkgs budget gs,
  (1 <= budget)%Z -> group_with rep_name rep_sat o3 o4 pkgs budget = Ok gs ->
  (Z.of_nat (List.length gs) <= budget)%Z.
Proof. intros rn rs o3 o4 pkgs b gs Hb H. pose proof (group_with_count rn rs o3 o4 pkgs b gs H). lia. Qed.
Print Assumptions c10_group_count_literal.

(* After fix d47e591 (the slice is no longer sized by the budget; it used to be
   make([]*group, 0, budget): panic for budget < 0, reported under C15) a
   negative budget reaching groupByOriginAndSize yields exactly one merged
   group; Context.buildLayers now rejects it before.  The replays
   (budget -1, -7, 2^45+1) stay in the corpus: a panic is tagged
   viol:grouping-panics. *)
Theorem c10_negative_budget_one_group : forall rep_name rep_sat o3 o4 pkgs budget gs,
  (budget < 0)%Z -> group_with rep_name rep_sat o3 o4 pkgs budget = Ok gs -> List.length gs = 1.
Proof. exact group_with_negative. Qed.
Print Assumptions c10_negative_budget_one_group.

(* c10_groups_partition (FULL): for every package list with distinct names, every
   budget and every iteration order of replaceMap (o3) and of
   maps.Values(byOrigin) (o4) — any permutations: if the grouping returns,
   (1) each package is in exactly one group (the groups' names are a permutation
       of the packages' names; for this part o3 may be arbitrary);
   (2) packages sharing an origin are in one group;
   (3) a package whose `replaces` entry names an installed package and is
       satisfied by that package's version is in that package's group. *)
Theorem c10_groups_partition : forall rep_name rep_sat pkgs o3 o4 budget gs,
  NoDup (map p_name pkgs) -> (forall l, Permutation (o3 l) l) -> (forall l, Permutation (o4 l) l) ->
  group_with rep_name rep_sat o3 o4 pkgs budget = Ok gs ->
  Permutation (List.concat (map names_of gs)) (map p_name pkgs) /\
  (forall p q, In p pkgs -> In q pkgs -> p_origin p = p_origin q ->
     same_group (map names_of gs) (p_name p) (p_name q)) /\
  (forall p q rep, In p pkgs -> In q pkgs -> In rep (p_replaces p) -> rep_name rep = p_name q ->
     rep_sat rep q = Ok true -> same_group (map names_of gs) (p_name p) (p_name q)).
Proof.
  intros rn rs pkgs o3 o4 b gs Hn Ho3 Ho4 H. split.
  - exact (group_with_partition rn rs pkgs Hn o3 o4 b gs Ho4 H).
  - exact (group_with_colocated rn rs pkgs Hn o3 o4 b gs Ho3 Ho4 H).
Qed.
Print Assumptions c10_groups_partition.

(* the partition part alone needs nothing of o3 *)
Theorem c10_groups_partition_any_o3 : forall rep_name rep_sat pkgs o3 o4 budget gs,
  NoDup (map p_name pkgs) -> (forall l, Permutation (o4 l) l) ->
  group_with rep_name rep_sat o3 o4 pkgs budget = Ok gs ->
  Permutation (List.concat (map names_of gs)) (map p_name pkgs).
Proof. intros rn rs pkgs o3 o4 b gs Hn Ho H. exact (group_with_partition rn rs pkgs Hn o3 o4 b gs Ho H). Qed.
Print Assumptions c10_groups_partition_any_o3.

(* c10_group_order_invariant (FULL): the result does not depend on the iteration
   order of the Go maps: if the grouping returns gs for one pair of orders it
   returns the SAME list of groups (same groups, same order of groups, same
   order of packages in each) for every other pair.  In particular whether it
   returns at all (an unparsable version makes replacesGroup fail) does not
   depend on the order.  (C01 relies on this.)  Why: the merge loop reaches
   the least partition coarser than by-origin that joins the two ends of every
   satisfied replaces entry; (size, largest name) keys of distinct blocks
   differ, and names within a block differ, so both sorts have one result. *)
Theorem c10_group_order_invariant : forall rep_name rep_sat pkgs o3 o4 o3' o4' budget gs,
  NoDup (map p_name pkgs) ->
  (forall l, Permutation (o3 l) l) -> (forall l, Permutation (o4 l) l) ->
  (forall l, Permutation (o3' l) l) -> (forall l, Permutation (o4' l) l) ->
  group_with rep_name rep_sat o3 o4 pkgs budget = Ok gs ->
  group_with rep_name rep_sat o3' o4' pkgs budget = Ok gs.
Proof. intros rn rs pkgs o3 o4 o3' o4' b gs Hn. exact (group_with_order_invariant rn rs pkgs Hn o3 o4 o3' o4' b gs). Qed.
Print Assumptions c10_group_order_invariant.

(* everything the specification asks of the grouping, for budgets other than 0
   (budget 0: one group where the literal bound is 0 — finding C10-F1 above) *)
Theorem c10_groups_ok : forall rep_name rep_sat pkgs o3 o4 budget gs,
  NoDup (map p_name pkgs) -> (forall l, Permutation (o3 l) l) -> (forall l, Permutation (o4 l) l) ->
  (budget <> 0)%Z ->
  group_with rep_name rep_sat o3 o4 pkgs budget = Ok gs ->
  GroupsOk rep_name rep_sat pkgs budget (map names_of gs).
Proof.
  intros rn rs pkgs o3 o4 b gs Hn Ho3 Ho4 Hb H.
  destruct (c10_groups_partition rn rs pkgs o3 o4 b gs Hn Ho3 Ho4 H) as [A [B C]].
  split; [exact A | split; [| split; [exact B | exact C]]].
  intros Hb0. rewrite map_length. pose proof (group_with_count rn rs o3 o4 pkgs b gs H). lia.
Qed.
Print Assumptions c10_groups_ok.

(* ---- group.size is a uint64 ---------------------------------------------------------------
   `g.size += pkg.InstalledSize` wraps silently.  The model wraps at every
   addition (Model/Layers.v wrap64); c10_size_wraps: the sort key is the true
   sum modulo 2^64.  Everything above (count, partition, co-location, order
   invariance, GroupsOk) is stated for ALL sizes and never looks at them, so it
   holds under wrap-around as it stands.  What wrap-around changes is the ORDER
   of the groups, i.e. which origins keep a layer of their own:
   c10_groups_descending (FULL): with fewer groups than the budget (no cut-off)
     the list is in descending order of the wrapped size, ties by largest name;
   c10_groups_descending_true_size_partial: that is the descending order of the
     TRUE sizes provided no group's sum reaches 2^64 (the missing part);
   c10_groups_descending_true_size_refuted: two packages of one origin with
     InstalledSize 2^63 each (sum 2^64, key 0) sort AFTER a 1-byte package, and
     with budget 2 the 2-byte package keeps its own layer while the 2^64-byte
     origin is merged into the remainder; GroupsOk holds of both results.
   Replayed on the real code by the groups corpus (cases named size-wraps-...). *)
Theorem c10_size_wraps : forall g, g_size g = (g_sum g mod 18446744073709551616)%N.
Proof. exact g_size_sum. Qed.
Print Assumptions c10_size_wraps.

Theorem c10_groups_descending : forall rep_name rep_sat o3 o4 pkgs budget gs,
  group_with rep_name rep_sat o3 o4 pkgs budget = Ok gs ->
  (Z.of_nat (List.length gs) < budget)%Z ->
  StronglySorted (fun a b => grp_leb a b = true) gs.
Proof. exact group_with_descending. Qed.
Print Assumptions c10_groups_descending.

Theorem c10_groups_descending_true_size_partial : forall rep_name rep_sat o3 o4 pkgs budget gs,
  group_with rep_name rep_sat o3 o4 pkgs budget = Ok gs ->
  (Z.of_nat (List.length gs) < budget)%Z ->
  (forall g, In g gs -> (g_sum g < 18446744073709551616)%N) ->
  StronglySorted (fun a b => (g_sum b <= g_sum a)%N) gs.
Proof. exact group_with_descending_true_size. Qed.
Print Assumptions c10_groups_descending_true_size_partial.

Theorem c10_groups_descending_true_size_refuted :
  g_sum [w_big "a"; w_big "b"] = 18446744073709551616%N /\ g_size [w_big "a"; w_big "b"] = 0%N /\
  group (fun r => r) (fun _ _ => Ok true) w_wrap_pkgs 4 = Ok [[w_small "d" 2]; [w_small "c" 1]; [w_big "a"; w_big "b"]] /\
  ~ StronglySorted (fun a b => (g_sum b <= g_sum a)%N) [[w_small "d" 2]; [w_small "c" 1]; [w_big "a"; w_big "b"]] /\
  group (fun r => r) (fun _ _ => Ok true) w_wrap_pkgs 2 = Ok [[w_small "d" 2]; [w_big "a"; w_big "b"; w_small "c" 1]] /\
  groups_tags (fun r => r) (fun _ _ => Ok true) w_wrap_pkgs 4 [["d"]; ["c"]; ["a"; "b"]] = [] /\
  groups_tags (fun r => r) (fun _ _ => Ok true) w_wrap_pkgs 2 [["d"]; ["a"; "b"; "c"]] = [].
Proof. exact size_wrap_witness. Qed.
Print Assumptions c10_groups_descending_true_size_refuted.

Example c10_groups_example :
  let pk := [ {| p_name := "a"; p_version := "1"; p_origin := "oa"; p_size := 30; p_replaces := ["c"] |};
              {| p_name := "b"; p_version := "1"; p_origin := "ob"; p_size := 20; p_replaces := [] |};
              {| p_name := "c"; p_version := "1"; p_origin := "oc"; p_size := 10; p_replaces := [] |};
              {| p_name := "d"; p_version := "1"; p_origin := "ob"; p_size := 1; p_replaces := [] |} ] in
  match group (fun r => r) (fun _ _ => Ok true) pk 2 with
  | Ok gs => map names_of gs = [["a"; "c"]; ["b"; "d"]]
  | _ => False
  end /\
  match group (fun r => r) (fun _ _ => Ok true) pk 0 with
  | Ok gs => map names_of gs = [["a"; "b"; "c"; "d"]]
  | _ => False
  end /\
  match group (fun r => r) (fun _ _ => Ok true) pk (-1) with
  | Ok gs => map names_of gs = [["a"; "b"; "c"; "d"]]
  | _ => False
  end.
Proof. vm_compute. repeat split. Qed.

(* c10_each_file_once: for every list of entries (in particular the walk of any
   tree), every ownership map and all disjoint groups: if splitLayers does not
   panic there is one layer per group plus the top layer, and the
   non-directory entries of layer i are EXACTLY (same order, once, unchanged)
   the non-directory entries whose owner's group is i (top layer = index
   [length gs] for unowned entries); moreover every entry, directories
   included, occurs unchanged in its own layer. *)
Theorem c10_each_file_once : forall gs own es layers,
  NoDup (List.concat gs) -> split_layers gs own es = Ok layers ->
  List.length layers = S (List.length gs) /\
  (forall i, i < List.length layers ->
     filter nondir (nth i layers []) =
     filter (fun e => nondir e && option_eqb Nat.eqb (layer_index gs own (e_path e)) (Some i)) es) /\
  (forall i e, In e es -> layer_index gs own (e_path e) = Some i -> In e (nth i layers [])).
Proof. exact split_each_file_once_spec. Qed.
Print Assumptions c10_each_file_once.

(* Ingredients of flattening that hold for ANY list of entries (no order needed):
   every unowned entry (all directories, in tarfs) is in the top layer unchanged;
   non-directory entries occur only in their own layer; what alignStacks
   returns is a suffix of the main stack.  The full statements follow below. *)
Theorem c10_flatten_partial : forall gs own es layers,
  NoDup (List.concat gs) -> split_layers gs own es = Ok layers ->
  (forall e, In e es -> own (e_path e) = None -> In e (nth (List.length gs) layers [])) /\
  (forall i e, In e (nth i layers []) -> nondir e = true -> In e es /\ layer_index gs own (e_path e) = Some i) /\
  (forall main l, exists pre, main = pre ++ align main l /\ List.length pre <= List.length l).
Proof.
  intros gs own es layers Hnd H. destruct (split_each_file_once_spec gs own es layers Hnd H) as [Hl [Hf Ha]].
  split; [| split].
  - intros e He Ho. apply Ha; auto. unfold layer_index. rewrite Ho. reflexivity.
  - intros i e He Hn.
    assert (Hi : i < List.length layers).
    { destruct (Nat.lt_ge_cases i (List.length layers)) as [L | L]; auto. rewrite nth_overflow in He by exact L. contradiction. }
    assert (G : In e (filter nondir (nth i layers []))) by (apply filter_In; auto).
    rewrite (Hf i Hi) in G. apply filter_In in G. destruct G as [G1 G2]. split; auto.
    apply andb_true_iff in G2. destruct G2 as [_ G2].
    destruct (layer_index gs own (e_path e)) as [k|]; simpl in G2; [| discriminate].
    apply Nat.eqb_eq in G2. subst. reflexivity.
  - apply align_suffix.
Qed.
Print Assumptions c10_flatten_partial.

(* ---- the envelope: what walkFS hands to splitLayers -------------------------------
   WalkSeq es (Spec/LayersSpec.v): paths strictly increasing in the fixed order,
   no entry for the root, a directory entry for the parent of every entry below
   the top level.  The walk of EVERY tree with distinct child names (they are Go
   map keys) is such a sequence — hard links, devices, symlinks included. *)
Theorem c10_walk_in_envelope : forall ev t, wf_names_forest t = true -> WalkSeq (walk ev t).
Proof. exact walk_WalkSeq. Qed.
Print Assumptions c10_walk_in_envelope.

(* c10_layers_wellformed (FULL): for every sequence in the envelope, every
   grouping (any list of name lists, disjoint or not) and every ownership map:
   if splitLayers returns, then in EVERY layer each entry below the top level is
   preceded, in that same layer, by a directory entry for its parent, and no
   path occurs twice in a layer.  (The alignStacks invariant: the main stack is
   the chain of ancestors of the last directory visited; every element of a
   layer's stack has been written to that layer; a path already written to a
   layer and still on the main stack is on the layer's stack.) *)
Theorem c10_layers_wellformed : forall gs own es layers,
  WalkSeq es -> split_layers gs own es = Ok layers -> Forall LayerWellFormed layers.
Proof. exact split_wellformed_spec. Qed.
Print Assumptions c10_layers_wellformed.

(* c10_flatten (FULL): for every sequence in the envelope — hard-link entries
   included, provided each link's target is the path of an earlier
   non-directory entry with the same owner (LinksWithTarget; what tarfs
   produces) — every grouping and every ownership map that gives no directory
   an owner (tarfs: MkdirAll creates directories without a tar entry, so
   memFileInfo.Package() is nil for them): if splitLayers returns, the reference
   extractor accepts the layers applied in order, accepts the single layer, and
   both give the same tree (canonical child order; every node's type, content,
   mode, owner, mtime, xattrs, link target, hard-link sharing).  Directories
   ARE re-emitted in package layers with the triggering file's mtime; the top
   layer is applied last and carries every directory with its true metadata,
   which is what the proof uses (the last entry written at each path is the
   walk's entry; a link is resolved against its target in the same layer).
   Both side conditions are necessary in the model:
     c10_flatten_owned_directory_refuted — a directory owned by a package loses its mtime;
     c10_flatten_split_hardlink_refuted  — a hard link written by an earlier layer
       than its target cannot be applied in order. *)
Theorem c10_flatten : forall gs own es layers,
  WalkSeq es -> LinksWithTarget own es ->
  (forall e, In e es -> is_dir e = true -> own (e_path e) = None) ->
  split_layers gs own es = Ok layers ->
  exists a b, apply_layers layers = Ok a /\ extract es = Ok b /\ canon_forest a = canon_forest b.
Proof. exact split_flatten_links_spec. Qed.
Print Assumptions c10_flatten.

(* without hard-link entries the condition on links is vacuous *)
Theorem c10_flatten_linkfree : forall gs own es layers,
  WalkSeq es -> (forall e, In e es -> e_kind e <> KLink) ->
  (forall e, In e es -> is_dir e = true -> own (e_path e) = None) ->
  split_layers gs own es = Ok layers ->
  exists a b, apply_layers layers = Ok a /\ extract es = Ok b /\ canon_forest a = canon_forest b.
Proof. exact split_flatten_spec. Qed.
Print Assumptions c10_flatten_linkfree.

(* the same for the walk of a tree in the C06 envelope (distinct child names, no
   additional hard-link names, xattrs only on regular files and directories):
   the flattened layers ARE the tree *)
Theorem c10_flatten_walk : forall ev t gs own layers,
  wf_forest t = true ->
  (forall e, In e (walk ev t) -> is_dir e = true -> own (e_path e) = None) ->
  split_layers gs own (walk ev t) = Ok layers ->
  exists a, apply_layers layers = Ok a /\ canon_forest a = canon_forest t.
Proof. exact split_flatten_walk. Qed.
Print Assumptions c10_flatten_walk.

(* c10_flatten_walk_links (FULL): the same for trees WITH recorded hard links, in
   C06's envelope for them (wfl_forest, Spec/TarSpec.v, clause by clause: an
   additional name p of the inode first known as q was recorded with a tar header;
   q sorts before p in the walk; q is a path a Linkname can carry; the node at q
   in the same tree is a non-directory with the same metadata and content; the
   shared node is not a symlink with a target; all other nodes as in wf_forest),
   plus C10's own clause LinksShareOwner: a recorded link has the owner of its
   target (tarfs: the link shares the node, hence memFileInfo.Package()).  Then,
   for every grouping: the layers of the walk, applied in order, ARE the tree —
   inode sharing included (the [hard] field of every node).  Uses C06's
   c06_extract_walk_links (Proofs/TarLinks.v). *)
Theorem c10_flatten_walk_links : forall ev t gs own layers,
  wfl_forest (has_hdr ev) t = true ->
  (forall e, In e (walk ev t) -> is_dir e = true -> own (e_path e) = None) ->
  LinksShareOwner own t ->
  split_layers gs own (walk ev t) = Ok layers ->
  exists a, apply_layers layers = Ok a /\ canon_forest a = canon_forest t.
Proof. exact split_flatten_walk_links. Qed.
Print Assumptions c10_flatten_walk_links.

(* ... and everything else the specification asks of the layers *)
Theorem c10_layers_ok_walk_links : forall ev t gs own layers,
  NoDup (List.concat gs) ->
  wfl_forest (has_hdr ev) t = true ->
  (forall e, In e (walk ev t) -> is_dir e = true -> own (e_path e) = None) ->
  LinksShareOwner own t ->
  split_layers gs own (walk ev t) = Ok layers ->
  LayersOk gs own (walk ev t) layers.
Proof. exact split_layers_ok_walk_links. Qed.
Print Assumptions c10_layers_ok_walk_links.

(* the condition can be read off the walk's link entries *)
Theorem c10_links_share_owner_decidable : forall ev t own, wfl_forest (has_hdr ev) t = true ->
  links_share_ownerb own (walk ev t) = true -> LinksShareOwner own t.
Proof. intros ev t own H Hb. exact (links_share_owner_of_walk ev t own H (links_share_ownerb_spec own _ Hb)). Qed.
Print Assumptions c10_links_share_owner_decidable.

(* the owner clause is necessary: tree {b; c = second name of b}, c owned by a
   package whose layer precedes the layer of b's package: the link is written
   to a layer applied before its target exists *)
Theorem c10_flatten_walk_links_owner_refuted :
  let own := w_own2 ["c"] ["b"] in
  wfl_forest (has_hdr env_allhdr) w_link_two_owners = true /\
  (forall e, In e (walk env_allhdr w_link_two_owners) -> is_dir e = true -> own (e_path e) = None) /\
  ~ LinksShareOwner own w_link_two_owners /\
  exists layers, split_layers [["a"]; ["b"]] own (walk env_allhdr w_link_two_owners) = Ok layers /\
    apply_layers layers = Err.
Proof. exact walk_link_owner_breaks_flatten. Qed.
Print Assumptions c10_flatten_walk_links_owner_refuted.

(* the clauses of the envelope are necessary: for each of C06's boundary trees
   (name recorded without a header; target sorting after the link; shared node
   a symlink with a target; recorded name resolving to another node — finding
   C06-F5) the layers — one top layer, no package at all — do not flatten to
   the tree *)
Theorem c10_flatten_walk_links_envelope_refuted :
  (forall ev t, flatten_fails ev t -> forall layers, split_layers [] (fun _ => None) (walk ev t) = Ok layers ->
     ~ exists a, apply_layers layers = Ok a /\ canon_forest a = canon_forest t) /\
  flatten_fails env_nohdr w_link_after /\ flatten_fails env_allhdr w_link_before /\
  flatten_fails env_allhdr w_link_to_symlink /\ flatten_fails env_allhdr w_link_names_symlink /\
  wfl_forest (has_hdr env_nohdr) w_link_after = false /\ wfl_forest (has_hdr env_allhdr) w_link_before = false /\
  wfl_forest (has_hdr env_allhdr) w_link_to_symlink = false /\ wfl_forest (has_hdr env_allhdr) w_link_names_symlink = false.
Proof. split; [exact flatten_fails_not | exact walk_links_envelope_boundary]. Qed.
Print Assumptions c10_flatten_walk_links_envelope_refuted.

(* the hypotheses are satisfiable outside the link-free envelope: C06's tree
   with four recorded links (one in another directory, one naming another link,
   one to a character device), three of them owned by package "gz" and written
   to its layer *)
Example c10_flatten_walk_links_example :
  wfl_forest (has_hdr env_allhdr) w_links = true /\ wf_forest w_links = false /\
  (forall e, In e (walk env_allhdr w_links) -> is_dir e = true -> w_links_own (e_path e) = None) /\
  LinksShareOwner w_links_own w_links /\
  exists layers, split_layers [["other"]; ["gz"]] w_links_own (walk env_allhdr w_links) = Ok layers /\
    List.length layers = 3 /\ List.length (filter (fun e => match e_kind e with KLink => true | _ => false end) (nth 1 layers [])) = 3.
Proof. exact w_links_hyps. Qed.

Theorem c10_flatten_owned_directory_refuted :
  let es := [w_dir ["d"] 5; w_reg ["d"; "x"] 8] in
  let own := w_own2 ["d"] ["d"; "x"] in
  exists layers a b, split_layers [["a"]; ["b"]] own es = Ok layers /\
    apply_layers layers = Ok a /\ extract es = Ok b /\ canon_forest a <> canon_forest b.
Proof. exact owned_dir_breaks_flatten. Qed.
Print Assumptions c10_flatten_owned_directory_refuted.

Theorem c10_flatten_split_hardlink_refuted :
  let es := [w_reg ["b"] 8; w_lnk ["c"] "b"] in
  let own := w_own2 ["c"] ["b"] in
  exists layers b, split_layers [["a"]; ["b"]] own es = Ok layers /\
    extract es = Ok b /\ apply_layers layers = Err.
Proof. exact split_link_breaks_flatten. Qed.
Print Assumptions c10_flatten_split_hardlink_refuted.

(* c10_layers_self_contained (FULL): "each layer is a self-contained tar" as far
   as hard links go — in every layer a hard-link entry names a non-directory
   written EARLIER IN THAT SAME LAYER (with c10_layers_wellformed: parents first,
   no path twice).  Needs LinksWithTarget (a link has the owner of its target):
   c10_link_in_later_layer_refuted — with the link's owner in a later layer
   than the target's the layers still apply in order and flatten to the single
   layer, but the link's layer cannot be unpacked on its own. *)
Theorem c10_layers_self_contained : forall gs own es layers,
  WalkSeq es -> LinksWithTarget own es -> split_layers gs own es = Ok layers ->
  Forall LayerLinksInside layers.
Proof. exact split_links_inside_spec. Qed.
Print Assumptions c10_layers_self_contained.

Theorem c10_link_in_later_layer_refuted :
  let es := [w_reg ["b"] 8; w_lnk ["c"] "b"] in
  let own := w_own2 ["b"] ["c"] in
  exists layers a, split_layers [["a"]; ["b"]] own es = Ok layers /\
    apply_layers layers = Ok a /\ extract es = Ok a /\ ~ Forall LayerLinksInside layers.
Proof. exact link_in_later_layer. Qed.
Print Assumptions c10_link_in_later_layer_refuted.

(* everything the specification asks of the layers, together *)
Theorem c10_layers_ok : forall gs own es layers,
  NoDup (List.concat gs) -> WalkSeq es -> LinksWithTarget own es ->
  (forall e, In e es -> is_dir e = true -> own (e_path e) = None) ->
  split_layers gs own es = Ok layers -> LayersOk gs own es layers.
Proof.
  intros gs own es layers Hnd W Hl Hd H. destruct (c10_each_file_once gs own es layers Hnd H) as [Hlen [Hf _]].
  split; [| split; [| split; [| split]]].
  - exact (c10_flatten gs own es layers W Hl Hd H).
  - exact Hf.
  - exact (c10_layers_wellformed gs own es layers W H).
  - exact Hlen.
  - exact (c10_layers_self_contained gs own es layers W Hl H).
Qed.
Print Assumptions c10_layers_ok.

(* LinksWithTarget is satisfiable with a real link: target and link owned by the same package *)
Example c10_flatten_link_example :
  let es := [w_dir ["d"] 5; w_reg ["d"; "b"] 8; w_lnk ["d"; "c"] "d/b"; w_reg ["e"] 9] in
  let own p := if path_eqb p ["d"; "b"] then Some "a" else if path_eqb p ["d"; "c"] then Some "a"
               else if path_eqb p ["e"] then Some "b" else None in
  LinksWithTarget own es /\
  exists layers a, split_layers [["b"]; ["a"]] own es = Ok layers /\ apply_layers layers = Ok a /\ extract es = Ok a.
Proof.
  split.
  - intros pre x post E Hk.
    destruct pre as [| p0 [| p1 [| p2 [| p3 pre]]]]; simpl in E; inversion E; subst; try discriminate Hk.
    + exists (w_reg ["d"; "b"] 8). repeat split; simpl; auto.
    + destruct pre; discriminate.
  - vm_compute. do 2 eexists. repeat split; reflexivity.
Qed.

(* the hypotheses are satisfiable: a walk with shared and nested directories,
   two package layers and an unowned file *)
Example c10_flatten_example :
  let t : forest :=
    [("usr", Dir w_meta [("lib", Dir w_meta [("a", File w_meta (LReg 1 1) None)]);
                     ("b", File w_meta (LReg 2 1) None); ("z", File w_meta (LSym "b") None)])] in
  let own p := if path_eqb p ["usr"; "lib"; "a"] then Some "a" else if path_eqb p ["usr"; "b"] then Some "b" else None in
  wf_forest t = true /\
  (forall e, In e (walk w_env t) -> is_dir e = true -> own (e_path e) = None) /\
  exists layers, split_layers [["a"]; ["b"]] own (walk w_env t) = Ok layers /\ List.length layers = 3.
Proof.
  split; [reflexivity|]. split.
  - intros e He Hd. vm_compute in He. repeat (destruct He as [<- | He]; [try reflexivity; discriminate Hd|]). destruct He.
  - eexists. split; [vm_compute; reflexivity | reflexivity].
Qed.

(* ---- the order of the build steps ---------------------------------------------------------
   Context.BuildLayers / BuildLayer / BuildImage / ImageLayoutToLayer / buildLayers /
   buildImage / postBuildSetApk are read by goextract on every run into
   Generated.C10Steps.c10_steps: per function the calls that involve the build context, in
   evaluation order, each under the conditions it sits under.  Model/BuildSteps.v runs them
   ([build_trace]: the sequence of primitive calls a configuration executes); a configuration
   is a valuation [cond] of the condition texts (one spelling per fact: `X != Y` is read as
   (`X == Y`, false); what follows an `if` that always returns carries the negated condition).
   The configurations compared are those buildLayers accepts (known strategy, no base image,
   budget >= 0: the conditions of its first call that is not a refusal); the layered build is
   [cond] under the conditions of BuildLayers' call of buildLayers ([multi_when]), the
   single-layer build of the same configuration under those of its call of BuildLayer
   ([single_when]) — whichever way the branch is written in the source.

   c10_build_order (FULL, every configuration): the two builds fail together before
   serialising anything, or both serialise — writeTar resp. splitLayers — after the SAME
   list of steps that may change the filesystem, and no such step follows.  Decided by
   enumerating the valuations of the condition texts that occur in the source
   ([build_check_all]: the trace looks at [cond] nowhere else).  Moving a step of one build
   across its serialiser, or dropping it from one build only, makes this theorem false. *)
Theorem c10_build_order : forall cond,
  OrderOk (build_trace c10_steps (override (single_when c10_steps) cond))
          (build_trace c10_steps (override (multi_when c10_steps) cond)).
Proof. intros cond. apply build_order_spec. apply build_check_all. vm_compute. reflexivity. Qed.
Print Assumptions c10_build_order.

(* fix 095ec71 stays: in both builds the last step that may change the filesystem
   before it is serialised is SetRepositories (reached through postBuildSetApk) ... *)
Theorem c10_repositories_rewritten_last : forall cond,
  repos_last (build_trace c10_steps (override (single_when c10_steps) cond)) = true /\
  repos_last (build_trace c10_steps (override (multi_when c10_steps) cond)) = true.
Proof.
  intros cond. apply repos_last_spec. apply build_check_all. vm_compute. reflexivity.
Qed.
Print Assumptions c10_repositories_rewritten_last.

(* ... with a list made of run-time configuration fields only; both serialisers are
   handed bc.fs; splitLayers gets the groups groupByOriginAndSize computes from the
   packages buildImage returned and bc.ic.Layering.Budget *)
Theorem c10_build_arguments : args_ok c10_call_args c10_setrepos_sources = true.
Proof. vm_compute. reflexivity. Qed.
Print Assumptions c10_build_arguments.

(* c10_build_serialises_same_state: whatever the steps DO — any two semantics
   [semS], [semM] of the primitive calls on any state type, related step by step
   by a relation R ("the same filesystem apart from what records the layering
   request": every step preserves it, and WriteEtcApkoConfig, the one step that
   sees the layering block, differs only in what R ignores), with the calls
   classified as reads acting as the identity — the state handed to splitLayers
   by the layered build and the state handed to writeTar by the single-layer
   build are related by R (or both builds end with the same class of error). *)
Theorem c10_build_serialises_same_state :
  forall (S : Type) (R : S -> S -> Prop) (semS semM : string -> S -> res S),
  (forall n s s', R s s' -> res_rel S R (semS n s) (semM n s')) ->
  (forall n s, in_list n pure_calls = true -> semS n s = Ok s) ->
  (forall n s, in_list n pure_calls = true -> semM n s = Ok s) ->
  forall cond s0 s0', R s0 s0' ->
  match split_at_serialiser (fst (build_trace c10_steps (override (single_when c10_steps) cond))),
        split_at_serialiser (fst (build_trace c10_steps (override (multi_when c10_steps) cond))) with
  | Some (a, _, _), Some (a', _, _) => res_rel S R (exec S semS a s0) (exec S semM a' s0')
  | None, None => True
  | _, _ => False
  end.
Proof.
  intros S R semS semM Hrel HpS HpM cond s0 s0' H0.
  exact (serialised_states_related S R semS semM Hrel HpS HpM _ _ s0 s0' (c10_build_order cond) H0).
Qed.
Print Assumptions c10_build_serialises_same_state.

(* c10_only_apko_json_sees_layering: goextract inspects every primitive call of the step lists
   (harness/cmd/goextract/gen_c10_layering.go, by shape): an expression `x.Layering` in the callee —
   transitively through the functions and Context methods of pkg/build — or among the arguments at
   the call site, or the image configuration AS A WHOLE handed to something outside pkg/build.
   Every primitive call was inspected; the calls that can see the layering block and may change
   the filesystem are exactly [WriteEtcApkoConfig] (groupByOriginAndSize sees the budget and is a
   read).  A step that starts to look at the layering block makes this false. *)
Theorem c10_only_apko_json_sees_layering :
  layering_ok c10_steps c10_layering_readers c10_layering_inspected = true.
Proof. vm_compute. reflexivity. Qed.
Print Assumptions c10_only_apko_json_sees_layering.

(* c10_build_serialises_same_state_src: the hypothesis "every step takes related states to
   related outcomes in the two builds" of c10_build_serialises_same_state, reduced with that
   fact: [sem b] = what the steps do with (true) / without (false) a layering block.  Asked:
   a step that CANNOT SEE the block (not in c10_layering_readers, read from the source) does the
   same in both; every step preserves R; reads are the identity; and ONLY for the readers that may
   change the filesystem — by the theorem above: WriteEtcApkoConfig — that the two behaviours
   differ in nothing R looks at. *)
Theorem c10_build_serialises_same_state_src :
  forall (S : Type) (R : S -> S -> Prop) (sem : bool -> string -> S -> res S),
  (forall n, in_list n c10_layering_readers = false -> sem true n = sem false n) ->
  (forall n s s', R s s' -> res_rel S R (sem false n s) (sem false n s')) ->
  (forall n s s', in_list n c10_layering_readers = true -> in_list n pure_calls = false ->
     R s s' -> res_rel S R (sem false n s) (sem true n s')) ->
  (forall b n s, in_list n pure_calls = true -> sem b n s = Ok s) ->
  forall cond s0 s0', R s0 s0' ->
  match split_at_serialiser (fst (build_trace c10_steps (override (single_when c10_steps) cond))),
        split_at_serialiser (fst (build_trace c10_steps (override (multi_when c10_steps) cond))) with
  | Some (a, _, _), Some (a', _, _) => res_rel S R (exec S (sem false) a s0) (exec S (sem true) a' s0')
  | None, None => True
  | _, _ => False
  end.
Proof.
  intros S R sem Hb Hm Hr Hp cond s0 s0' H0.
  exact (c10_build_serialises_same_state S R (sem false) (sem true)
           (rel_from_readers S R c10_layering_readers sem Hb Hm Hr Hp) (Hp false) (Hp true) cond s0 s0' H0).
Qed.
Print Assumptions c10_build_serialises_same_state_src.

(* the hypotheses are satisfiable with a step that does depend on the block: states = the text of
   etc/apko.json, R ignores it, WriteEtcApkoConfig writes the flag *)
Example c10_build_serialises_same_state_src_example :
  let sem (b : bool) (n : string) (s : bool) : res bool :=
    if String.eqb n "bc.WriteEtcApkoConfig" then Ok b else Ok s in
  (forall n, in_list n c10_layering_readers = false -> sem true n = sem false n) /\
  exec bool (sem true) ["bc.WriteEtcApkoConfig"] false <> exec bool (sem false) ["bc.WriteEtcApkoConfig"] false.
Proof.
  intros sem. split.
  - intros n H. assert (E : String.eqb n "bc.WriteEtcApkoConfig" = false).
    { destruct (String.eqb n "bc.WriteEtcApkoConfig") eqn:E; [| reflexivity].
      apply String.eqb_eq in E. subst n. vm_compute in H. discriminate H. }
    subst sem. cbv beta. revert E. destruct (String.eqb n "bc.WriteEtcApkoConfig"); intros E; [discriminate E | reflexivity].
  - vm_compute. discriminate.
Qed.

(* ... and with the flatten theorem: states are trees, the layered build splits the
   walk of its final tree, the single-layer build writes the walk of its own: the
   layers flatten to a tree R-related to the one the single layer extracts to. *)
Theorem c10_build_flatten :
  forall (R : forest -> forest -> Prop) (semS semM : string -> forest -> res forest),
  (forall n s s', R s s' -> res_rel forest R (semS n s) (semM n s')) ->
  (forall n s, in_list n pure_calls = true -> semS n s = Ok s) ->
  (forall n s, in_list n pure_calls = true -> semM n s = Ok s) ->
  forall cond s0 s0' a b a' b' fM ev gs own layers, R s0 s0' ->
  fst (build_trace c10_steps (override (single_when c10_steps) cond)) = a ++ "writeTar" :: b ->
  fst (build_trace c10_steps (override (multi_when c10_steps) cond)) = a' ++ "splitLayers" :: b' ->
  (forall n, In n a -> in_list n serialisers = false) -> (forall n, In n a' -> in_list n serialisers = false) ->
  exec forest semM a' s0' = Ok fM ->
  wfl_forest (has_hdr ev) fM = true ->
  (forall e, In e (walk ev fM) -> is_dir e = true -> own (e_path e) = None) ->
  LinksShareOwner own fM ->
  split_layers gs own (walk ev fM) = Ok layers ->
  exists fS flat, exec forest semS a s0 = Ok fS /\ R fS fM /\
    apply_layers layers = Ok flat /\ canon_forest flat = canon_forest fM /\
    (forall ev', wfl_forest (has_hdr ev') fS = true -> extract (walk ev' fS) = Ok (canon_forest fS)).
Proof.
  intros R semS semM Hrel HpS HpM cond s0 s0' a b a' b' fM ev gs own layers H0 E1 E2 N1 N2 EM Hw Hd Ho Hs.
  pose proof (c10_build_serialises_same_state forest R semS semM Hrel HpS HpM cond s0 s0' H0) as G.
  rewrite E1, E2 in G.
  rewrite (split_at_serialiser_app a "writeTar" b N1 eq_refl), (split_at_serialiser_app a' "splitLayers" b' N2 eq_refl) in G.
  rewrite EM in G. unfold res_rel in G. destruct (exec forest semS a s0) as [fS| | |] eqn:ES; try contradiction.
  destruct (c10_flatten_walk_links ev fM gs own layers Hw Hd Ho Hs) as [flat [Ea Ec]].
  exists fS, flat. repeat split; auto. intros ev' Hw'. exact (extract_walk_links ev' fS Hw').
Qed.
Print Assumptions c10_build_flatten.

(* the hypotheses are satisfiable, and what the traces look like: the configuration in
   which every condition of the source is false except those the two builds set *)
Example c10_build_order_example :
  let tS := build_trace c10_steps (override (single_when c10_steps) (fun _ => false)) in
  let tM := build_trace c10_steps (override (multi_when c10_steps) (fun _ => false)) in
  snd tS = Cont /\ snd tM = Cont /\
  in_list "writeTar" (fst tS) = true /\ in_list "splitLayers" (fst tS) = false /\
  in_list "splitLayers" (fst tM) = true /\ in_list "writeTar" (fst tM) = false /\
  in_list "bc.WriteEtcApkoConfig" (fst tS) = true /\ in_list "bc.apk.SetRepositories" (fst tM) = true /\
  (* a layering block that buildLayers refuses (every leading refusal condition set): nothing is built *)
  build_trace c10_steps (override (match multi_when c10_steps with
                                   | g :: r => g :: map (fun g : guard => (fst g, negb (snd g))) r
                                   | [] => []
                                   end) (fun _ => false)) = ([], Failed).
Proof. vm_compute. repeat split; reflexivity. Qed.

(* ---- the validators run on the implementation's output decide the specification ---- *)
Theorem c10_groups_validator_decides : forall rep_name rep_sat pkgs budget gs,
  groups_tags rep_name rep_sat pkgs budget gs = [] <-> GroupsOk rep_name rep_sat pkgs budget gs.
Proof. exact groups_tags_decides. Qed.
Print Assumptions c10_groups_validator_decides.

Theorem c10_layers_validator_decides : forall gs own single layers,
  layers_tags gs own single layers = [] <-> LayersOk gs own single layers.
Proof. exact layers_tags_decides. Qed.
Print Assumptions c10_layers_validator_decides.

Example c10_split_example :
  let d p := {| e_path := p; e_kind := KDir; e_mode := 493; e_uid := 0; e_gid := 0; e_uname := None; e_gname := None;
                e_link := ""; e_devmaj := 0; e_devmin := 0; e_xattrs := []; e_mtime := 5; e_mnsec := 0; e_cid := 0; e_size := 0 |} in
  let f p t := {| e_path := p; e_kind := KReg; e_mode := 420; e_uid := 0; e_gid := 0; e_uname := None; e_gname := None;
                e_link := ""; e_devmaj := 0; e_devmin := 0; e_xattrs := []; e_mtime := t; e_mnsec := 0; e_cid := 9; e_size := 1 |} in
  let own p := if path_eqb p ["usr"; "lib"; "a"] then Some "a" else if path_eqb p ["usr"; "b"] then Some "b" else None in
  match split_layers [["a"]; ["b"]] own [d ["usr"]; f ["usr"; "b"] 7%Z; d ["usr"; "lib"]; f ["usr"; "lib"; "a"] 8%Z; f ["usr"; "z"] 9%Z] with
  | Ok layers => map (map e_path) layers =
      [ [["usr"]; ["usr"; "lib"]; ["usr"; "lib"; "a"]];
        [["usr"]; ["usr"; "b"]];
        [["usr"]; ["usr"; "lib"]; ["usr"; "z"]] ] /\
      layers_tags [["a"]; ["b"]] own [d ["usr"]; f ["usr"; "b"] 7%Z; d ["usr"; "lib"]; f ["usr"; "lib"; "a"] 8%Z; f ["usr"; "z"] 9%Z] layers = []
  | _ => False
  end.
Proof. vm_compute. split; reflexivity. Qed.
