(* C10 — A multi-layer image flattens to the single-layer image.
   Property theorems only; proofs are in Proofs/LayersProofs.v. *)
From Apko Require Import Base.Prelude Model.Tar Spec.TarSpec Model.Layers Spec.LayersSpec Proofs.LayersProofs.
Open Scope string_scope. Open Scope list_scope.

(* for every package list, every budget and every iteration order of the Go
   maps: a successful grouping has at most max(budget, 1) groups (so at most
   [budget] for budget >= 1, and one group for budget 0: "even if budget == 0,
   we want 1 group"), and the budget was not negative *)
Theorem c10_group_count : forall rep_name rep_sat o3 o4 pkgs budget gs,
  group_with rep_name rep_sat o3 o4 pkgs budget = Ok gs ->
  (0 <= budget)%Z /\ (Z.of_nat (List.length gs) <= Z.max budget 1)%Z.
Proof. exact group_with_count. Qed.
Print Assumptions c10_group_count.

(* a negative budget never yields groups: make([]*group, 0, budget) panics
   (unless the merge loop failed first) — reported under C15 *)
Theorem c10_negative_budget_no_groups : forall rep_name rep_sat o3 o4 pkgs budget,
  (budget < 0)%Z -> forall gs, group_with rep_name rep_sat o3 o4 pkgs budget <> Ok gs.
Proof. exact group_with_negative. Qed.
Print Assumptions c10_negative_budget_no_groups.
