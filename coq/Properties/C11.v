(* C11 — The SBOM describes the image that was built.
   Property theorems only; each is closed by [exact] of a lemma proved in
   Proofs/SbomProofs.v and followed by Print Assumptions.  The identifier
   alphabet is the regular expression goextract read from spdx.go on this run
   (Generated.Regexes.valid_id_chars_re). *)
From Apko Require Import Base.Prelude Base.Regex Generated.Regexes Model.Sbom Spec.SbomSpec Proofs.SbomProofs.
Open Scope string_scope. Open Scope list_scope.

(* validIDCharsRe is `class+`: its matches are the maximal runs of bytes of one
   class, which is what lets the model rewrite byte by byte *)
Theorem c11_regex_shape : exists rs, valid_id_chars_re = Plus (Cls rs).
Proof. exact regex_shape. Qed.
Print Assumptions c11_regex_shape.

(* for every input string (any bytes) the identifier is over [a-zA-Z0-9.-] *)
Theorem c11_id_alphabet : forall s, IdAlphabet (string_to_identifier s).
Proof. exact sti_alphabet. Qed.
Print Assumptions c11_id_alphabet.

(* applying it twice is applying it once *)
Theorem c11_id_idempotent : forall s, string_to_identifier (string_to_identifier s) = string_to_identifier s.
Proof. exact sti_idempotent. Qed.
Print Assumptions c11_id_idempotent.

(* whatever the installed set, the embedded documents and the order in which Go
   ranges over its maps, a document Generate emits has pairwise distinct ids *)
Theorem c11_ids_unique : forall perm g d, generate perm g = Ok d -> IdsUnique d.
Proof. exact generate_ids_unique. Qed.
Print Assumptions c11_ids_unique.

(* the validators run on the observed documents decide the readable statements *)
Theorem c11_validators_decide : forall d s,
  (ids_unique_b d = true <-> IdsUnique d) /\
  (refs_resolve_b d = true <-> RefsResolve d) /\
  (valid_id_b s = true <-> ValidId s).
Proof. intros d s. exact (conj (nodup_b_iff (ids d)) (conj (refs_resolve_b_iff d) (valid_id_b_iff s))). Qed.
Print Assumptions c11_validators_decide.
