(* C11 — The SBOM describes the image that was built.
   Property theorems only; each is closed by [exact] of a lemma proved in
   Proofs/Sbom*.v and followed by Print Assumptions.  [generate] is Generate as it is in
   /repo now (an id taken by a package of another name or version is numbered, fix 7c2586e;
   that the source does so is read by goextract: c11_id_numbering_read_from_source);
   [generate_u] is Generate before that fix.  The identifier
   alphabet is the regular expression goextract read from spdx.go on this run
   (Generated.Regexes.valid_id_chars_re). *)
From Coq Require Import Permutation Sorted.
From Apko Require Import Base.Prelude Base.Regex Base.C01Lib Base.C11Lib Generated.Regexes Generated.C11Prov
  Model.Sbom Model.SbomRepair Model.SbomLic Model.SbomProv Model.SbomRelease Spec.SbomSpec Spec.SbomLicSpec Spec.SbomProvSpec Spec.SbomReleaseSpec
  Proofs.SbomProofs Proofs.SbomTwoTargets Proofs.SbomRepairProofs Proofs.SbomNumbered Proofs.SbomLicProofs Proofs.SbomProvProofs Proofs.SbomReleaseProofs.
Open Scope string_scope. Open Scope list_scope.

(* validIDCharsRe is `class+`: its matches are the maximal runs of bytes of one
   class, which is what lets the model rewrite byte by byte *)
Theorem c11_regex_shape : exists rs, valid_id_chars_re = Plus (Cls rs).
Proof. exact regex_shape. Qed.
Print Assumptions c11_regex_shape.

(* for every input string (any bytes) the identifier is over [a-zA-Z0-9.-] *)
Theorem c11_id_alphabet : forall s, IdAlphabet (string_to_identifier s).
Proof. exact sti_alphabet. Qed.
Print Assumptions c11_id_alphabet.

(* applying it twice is applying it once *)
Theorem c11_id_idempotent : forall s, string_to_identifier (string_to_identifier s) = string_to_identifier s.
Proof. exact sti_idempotent. Qed.
Print Assumptions c11_id_idempotent.

(* whatever the installed set, the embedded documents and the order in which Go
   ranges over its maps, a document Generate emits has pairwise distinct ids *)
Theorem c11_ids_unique : forall perm g d, generate perm g = Ok d -> IdsUnique d.
Proof. exact gen_ids_unique. Qed.
Print Assumptions c11_ids_unique.

(* the validators run on the observed documents decide the readable statements *)
Theorem c11_validators_decide : forall d s,
  (ids_unique_b d = true <-> IdsUnique d) /\
  (refs_resolve_b d = true <-> RefsResolve d) /\
  (valid_id_b s = true <-> ValidId s).
Proof. intros d s. exact (conj (nodup_b_iff (ids d)) (conj (refs_resolve_b_iff d) (valid_id_b_iff s))). Qed.
Print Assumptions c11_validators_decide.

(* the agreement validator (exactly one element per installed apk, none for anything
   else) decides its readable statement *)
Theorem c11_matches_installed_decides : forall apks ps,
  matches_installed_b apks ps = true <-> MatchesInstalled apks ps.
Proof. exact matches_installed_b_iff. Qed.
Print Assumptions c11_matches_installed_decides.

(* the closure loop of copySBOMElements is run with fuel |relationships|+1 and
   never exhausts it; Generate as a whole never answers OutOfFuel, so no theorem
   below holds for lack of fuel *)
Theorem c11_copy_never_out_of_fuel : forall rels todo0, NoDup todo0 ->
  closure (closure_fuel rels) rels 0 todo0 <> OutOfFuel.
Proof. exact closure_never_out_of_fuel. Qed.
Print Assumptions c11_copy_never_out_of_fuel.

Theorem c11_generate_never_out_of_fuel : forall perm g, generate perm g <> OutOfFuel.
Proof. exact gen_fuel. Qed.
Print Assumptions c11_generate_never_out_of_fuel.

(* every relationship end and the described id is the id of a package of the
   document — for every installed set, every embedded relationship graph (chains,
   cycles, File- relationships, elements shared between apks, elements that arrived
   earlier through another apk's SBOM) and every map order, provided each embedded
   document Generate uses describes at most one element carrying its apk's name.
   (After fix 494ce81; before it this needed the target id to be new to the
   document, see c11_replace_self_fixed.) *)
Theorem c11_refs_resolve : forall perm g d, (forall l, Permutation (perm l) l) -> SingleTarget g ->
  generate perm g = Ok d -> RefsResolve d.
Proof. exact gen_refs_single. Qed.
Print Assumptions c11_refs_resolve.

(* the special case the design names: no embedded SBOMs at all, any [perm] *)
Theorem c11_refs_resolve_no_embedded : forall perm g d, NoEmbedded g -> generate perm g = Ok d -> RefsResolve d.
Proof. exact gen_plain_refs. Qed.
Print Assumptions c11_refs_resolve_no_embedded.

(* the per-apk step behind it *)
Theorem c11_refs_resolve_step : forall perm fs d pname pversion e d',
  RefsResolve d -> (List.length (d_desc d) <= 1)%nat ->
  locate fs (candidates pname pversion) = Some (FDoc e) ->
  (List.length (targets pname e) <= 1)%nat ->
  (forall l, Permutation (perm l) l) ->
  process_internal perm fs d pname pversion = Ok d' ->
  RefsResolve d' /\ List.length (d_desc d') = List.length (d_desc d).
Proof. exact process_internal_refs. Qed.
Print Assumptions c11_refs_resolve_step.

(* THE CASE ANALYSIS ON THE NUMBER OF DESCRIBED ELEMENTS CARRYING THE APK'S NAME, CLOSED.
   References resolve for every installed set, every embedded relationship graph and
   every map order when each embedded document Generate uses has at most TWO such
   elements (AtMostTwoTargets) and, where it has two, neither of their ids is already
   the id of a package carrying the apk's name that the document can hold at that
   point: an element Generate mints itself or a package of the embedded document of an
   earlier apk (TargetsFresh; vacuous for documents with at most one target:
   c11_refs_resolve_embedded_covers_single), and no identifier has to be numbered
   (NoIdClash: the proof transfers the statement from the code before fix 7c2586e, on
   which it was established, c11_numbering_idle_without_clash; c11_refs_resolve above needs
   no such hypothesis).
   The boundary is exact in both directions:
   - two targets, one of them not fresh: c11_two_targets_refuted (finding C11-F4);
   - three fresh targets: c11_replace_loop_refuted (finding C11-F3). *)
Theorem c11_refs_resolve_embedded : forall perm g d, (forall l, Permutation (perm l) l) ->
  AtMostTwoTargets g -> TargetsFresh g -> NoIdClash g -> generate perm g = Ok d -> RefsResolve d.
Proof. exact gen_refs_embedded. Qed.
Print Assumptions c11_refs_resolve_embedded.

Theorem c11_refs_resolve_embedded_covers_single : forall g, SingleTarget g -> AtMostTwoTargets g /\ TargetsFresh g.
Proof. exact single_target_in_envelope. Qed.
Print Assumptions c11_refs_resolve_embedded_covers_single.

(* the two envelopes are decided by the booleans the correspondence uses to attribute findings *)
Theorem c11_envelope_validators_decide : forall g,
  (at_most_two_targets_b g = true <-> AtMostTwoTargets g) /\ (targets_fresh_b g = true <-> TargetsFresh g) /\
  (no_id_clash_b g = true <-> NoIdClash g).
Proof. intro g. exact (conj (at_most_two_targets_b_iff g) (conj (targets_fresh_b_iff g) (no_id_clash_b_iff g))). Qed.
Print Assumptions c11_envelope_validators_decide.

(* TWO targets without freshness (false): foo-doc's embedded document brought two
   elements named foo (ids X, Z) that it references; foo's own document describes two
   elements named foo (ids Y, Z).  In the map order Y, Z the first iteration replaces
   Z (the first package named foo) by Y and removes it, the second replaces X by Z:
   the reference foo-doc -> X now points to Z, which is gone.  In the other order
   everything resolves (c11_two_targets_order_dependent).  Finding C11-F4, tag
   dangling-ref/replace-loop-two-targets-reused-id; replayed on the real code by the
   harness corpus, class corpus/two-targets-reused-id. *)
Theorem c11_two_targets_refuted : exists d,
  (forall k e, In (k, FDoc e) (g_fs two_target_witness) -> RefsResolve e /\ IdsUnique e /\ Forall ValidId (ids e)) /\
  AtMostTwoTargets two_target_witness /\ NoIdClash two_target_witness /\
  generate (fun l => l) two_target_witness = Ok d /\ ~ RefsResolve d.
Proof. exact two_targets_refuted_n. Qed.
Print Assumptions c11_two_targets_refuted.

Theorem c11_two_targets_order_dependent : ~ TargetsFresh two_target_witness /\
  exists d, generate (@rev string) two_target_witness = Ok d /\ RefsResolve d.
Proof. exact (conj two_targets_not_fresh two_targets_other_order_n). Qed.
Print Assumptions c11_two_targets_order_dependent.

(* THREE targets (false even when all of them are fresh): a well-formed embedded SBOM
   that describes three elements carrying the apk's name; in the map order third,
   second, first the last iteration of the replace loop renames references to an
   element the second iteration removed (finding C11-F3, tag
   dangling-ref/replace-loop-three-targets; replayed on the real code by the harness
   corpus, class corpus/three-targets). *)
Theorem c11_replace_loop_refuted : exists d,
  (forall k e, In (k, FDoc e) (g_fs three_target_witness) -> RefsResolve e /\ IdsUnique e /\ Forall ValidId (ids e)) /\
  Permutation (@rev string (targets "foo" three_sbom)) (targets "foo" three_sbom) /\ NoIdClash three_target_witness /\
  generate (@rev string) three_target_witness = Ok d /\ ~ RefsResolve d.
Proof. exact replace_loop_refuted_n. Qed.
Print Assumptions c11_replace_loop_refuted.

Theorem c11_three_targets_fresh : TargetsFresh three_target_witness /\
  (exists a e, In a (g_apks three_target_witness) /\ located three_target_witness a = Some e /\
               List.length (targets (a_name a) e) = 3%nat).
Proof. exact three_targets_fresh. Qed.
Print Assumptions c11_three_targets_fresh.

(* the defect repaired by 494ce81 (replacePackage(id, id) deleted an element that
   had arrived earlier through another apk's SBOM): its replay now resolves *)
Theorem c11_replace_self_fixed : exists d, generate (fun l => l) replace_self_witness = Ok d /\ RefsResolve d.
Proof. exact replace_self_fixed_n. Qed.
Print Assumptions c11_replace_self_fixed.

(* ---- EXACTLY ONE ELEMENT PER INSTALLED APK ------------------------------------------------------
   what goextract read between `p.ID = stringToIdentifier(...)` and the append in Generate: the loop
   `for base, n := p.ID, 2; idTakenByAnother(doc, &p); n++ { p.ID = fmt.Sprintf("%s-%d", base, n) }`
   with idTakenByAnother = "a package with this id and another name or version".  Reverting fix
   7c2586e makes this IdAsIs, [generate] the old code, and c11_one_per_apk unprovable. *)
Theorem c11_id_numbering_read_from_source : apk_id_policy = IdNumbered 2 /\
  forall perm g, generate perm g = generate_r true false perm g.
Proof. exact (conj id_policy_read model_is_numbered). Qed.
Print Assumptions c11_id_numbering_read_from_source.

(* THE FULL STATEMENT (was refuted before 7c2586e, finding C11-F1): without embedded SBOMs, for
   installed sets with pairwise distinct (name, version) — whatever characters the names hold,
   colliding identifiers included — the ids are pairwise distinct and the document's packages are the
   de-duplicated structural elements followed by exactly one element per installed apk, in order,
   carrying the apk's name, version and checksum; its id is the id stringToIdentifier gives, with a
   numeric suffix only when that id was taken *)
Theorem c11_one_per_apk : forall perm g d,
  NoEmbedded g -> NoDup (List.map (fun a => (a_name a, a_version a)) (g_apks g)) -> generate perm g = Ok d ->
  IdsUnique d /\
  exists elems, d_pkgs d = dedup_pkgs [] (d_pkgs (base_doc g)) ++ elems /\
    Forall2 (fun a p => ElemOf a p /\ exists sfx, p_id p = p_id (apk_package (nonce_of g) a) +++ sfx) (g_apks g) elems /\
    MatchesInstalled (g_apks g) elems.
Proof. exact gen_one_per_apk. Qed.
Print Assumptions c11_one_per_apk.

(* nothing changes where the identifiers Generate mints (image, layers, source, one per installed
   "name-version") were pairwise distinct before the fix: same document, today's ids (the suite's
   golden SBOMs stay byte-identical) *)
Theorem c11_repair_conservative : forall perm g, NoEmbedded g -> NoDup (List.map p_id (own_elements g)) ->
  generate perm g = generate_u perm g /\
  forall d, generate perm g = Ok d ->
    d_pkgs d = d_pkgs (base_doc g) ++ List.map (apk_package (nonce_of g)) (g_apks g) /\
    MatchesInstalled (g_apks g) (List.map (apk_package (nonce_of g)) (g_apks g)).
Proof. intros perm g NE ND. exact (conj (gen_conservative perm g NE ND) (fun d => gen_one_per_apk_distinct_ids perm g d NE ND)). Qed.
Print Assumptions c11_repair_conservative.

(* ... and, with embedded SBOMs, wherever no minted id is held by a package of another name or
   version when its apk is reached *)
Theorem c11_numbering_idle_without_clash : forall perm g, NoIdClash g -> generate perm g = generate_u perm g.
Proof. exact gen_unnumbered. Qed.
Print Assumptions c11_numbering_idle_without_clash.

(* REGRESSION REPLAY of the defect repaired by 7c2586e (was c11_one_per_apk_refuted, C11-F1):
   gtk+ and gtkC43 both map to ...-gtkC43-...; the code before the fix emitted no element for the
   second (for every installed set like this one: c11_one_per_apk_before_fix), the current code
   emits both, ids distinct and valid.  Replayed on the real code by the harness corpus, class
   corpus/id-collision, and the e2e world id-collision; the validator tag
   apk-element-missing/id-collision is no longer a listed finding. *)
Theorem c11_one_per_apk_collision_fixed :
  (exists d, generate_u (fun l => l) collide_witness = Ok d /\ List.map p_name (d_pkgs d) = ["sha256:ab"; "sha256:cd"; "gtk+"]) /\
  (exists d, generate (fun l => l) collide_witness = Ok d /\
     List.map p_name (d_pkgs d) = ["sha256:ab"; "sha256:cd"; "gtk+"; "gtkC43"] /\ IdsUnique d /\
     Forall (fun x => valid_id_b x = true) (ids d) /\ MatchesInstalled (g_apks collide_witness) (skipn 2 (d_pkgs d))).
Proof. exact collision_fixed. Qed.
Print Assumptions c11_one_per_apk_collision_fixed.

Theorem c11_one_per_apk_before_fix : exists g, NoEmbedded g /\
  NoDup (List.map (fun a => (a_name a, a_version a)) (g_apks g)) /\
  forall perm, exists d, generate_u perm g = Ok d /\
    exists a, In a (g_apks g) /\ forall p, In p (d_pkgs d) -> ~ ElemOf a p.
Proof. exact one_per_apk_refuted. Qed.
Print Assumptions c11_one_per_apk_before_fix.

(* ---- THE REPAIR STILL PROPOSED (fixes/C11-F3.patch; not in /repo) -----------------------------------
   Model/SbomRepair.v: generate_r f1 f3 switches the two repairs separately; f1 is in /repo
   (generate = generate_r true false, above), with both off it is the code before 7c2586e. *)
Theorem c11_repair_off : forall perm g, generate_r false false perm g = generate_u perm g.
Proof. exact repair_off. Qed.
Print Assumptions c11_repair_off.

(* one element per apk also with the F3 patch on top *)
Theorem c11_one_per_apk_repaired : forall f3 perm g d,
  NoEmbedded g -> NoDup (List.map (fun a => (a_name a, a_version a)) (g_apks g)) ->
  generate_r true f3 perm g = Ok d ->
  exists elems, d_pkgs d = dedup_pkgs [] (d_pkgs (base_doc g)) ++ elems /\
    Forall2 (fun a p => ElemOf a p /\ exists sfx, p_id p = p_id (apk_package (nonce_of g) a) +++ sfx) (g_apks g) elems /\
    MatchesInstalled (g_apks g) elems.
Proof. exact generate_r_one_per_apk. Qed.
Print Assumptions c11_one_per_apk_repaired.

(* with fixes/C11-F3.patch: references resolve for EVERY input: any number of
   described elements, fresh or not, any order (not even a permutation is needed) *)
Theorem c11_refs_resolve_repaired : forall f1 perm g d, (forall l x, In x (perm l) -> In x l) ->
  generate_r f1 true perm g = Ok d -> RefsResolve d.
Proof. exact generate_r_refs. Qed.
Print Assumptions c11_refs_resolve_repaired.

(* ids stay unique and the numbering loop always finds a free id (fuel |packages|+1) *)
Theorem c11_repaired_ids_unique_no_fuel : forall f1 f3 perm g,
  generate_r f1 f3 perm g <> OutOfFuel /\ forall d, generate_r f1 f3 perm g = Ok d -> IdsUnique d.
Proof. intros f1 f3 perm g. exact (conj (generate_r_fuel f1 f3 perm g) (generate_r_ids_unique f1 f3 perm g)). Qed.
Print Assumptions c11_repaired_ids_unique_no_fuel.

(* the witnesses of the three refutations above under the repaired model *)
Theorem c11_repaired_witnesses :
  (forall g, In g [three_target_witness; two_target_witness; replace_self_witness] ->
   forall perm, In perm [(fun l => l); @rev string] -> exists d, generate_r true true perm g = Ok d /\ RefsResolve d) /\
  (exists d, generate_r true true (fun l => l) collide_witness = Ok d /\
     List.map p_name (d_pkgs d) = ["sha256:ab"; "sha256:cd"; "gtk+"; "gtkC43"] /\ IdsUnique d /\
     Forall (fun x => valid_id_b x = true) (ids d)).
Proof. exact (conj repaired_witnesses collide_witness_repaired). Qed.
Print Assumptions c11_repaired_witnesses.

(* the image element carries the digest handed in as its name and (without the
   sha256: prefix) as its checksum and is the described element; every layer
   digest handed in names an element.  C06/C12 say those digests are the real
   ones; pkg/build/sbom.go passes the manifest's descriptors and img.Digest(). *)
Theorem c11_digests : forall perm g d, NoEmbedded g -> generate perm g = Ok d ->
  (g_image g <> "" -> DescribesImage (g_image g) d) /\
  (NoDup (ids (base_doc g)) -> NamesLayers (g_layers g) d).
Proof. exact gen_plain_digests. Qed.
Print Assumptions c11_digests.

(* the index document: its references resolve — the relationship source is
   stringToIdentifier(indexPackage.ID), which is the package's id because the
   function is idempotent — and it names the index and every image by digest *)
Theorem c11_index_refs_resolve : forall x d, generate_index x = Ok d -> RefsResolve d.
Proof. exact generate_index_refs. Qed.
Print Assumptions c11_index_refs_resolve.

Theorem c11_index_digests : forall x d, generate_index x = Ok d ->
  (exists p, In p (d_pkgs d) /\ p_name p = hash_string (x_index x) /\
             p_sums p = [("SHA256", snd (x_index x))] /\ d_desc d = [p_id p]) /\
  (forall h, In h (x_images x) -> exists p, In p (d_pkgs d) /\ p_sums p = [("SHA256", snd h)] /\
             In {| r_elem := p_id (index_package (x_index x)); r_type := "VARIANT_OF"; r_related := p_id p |} (d_rels d)).
Proof. exact generate_index_digests. Qed.
Print Assumptions c11_index_digests.

(* ---- THE INPUTS OF THE GENERATOR ARE WHAT WAS BUILT (pkg/build/sbom.go) ---------------------------
   Generated/C11Prov.v is what goextract traced in GenerateImageSBOM / GenerateIndexSBOM on this run:
   for each input of the generator the expression it is assigned from.  Model/SbomProv.v interprets
   those answers over a record of the built artifacts; the statements below compute with them, so an
   edit of sbom.go that filters, reorders or replaces an input makes them unprovable. *)
Theorem c11_provenance_read_from_source :
  image_sbom_layers = PManifestLayers /\ image_sbom_packages = PInstalled /\
  image_sbom_image_digest = PImageDigestString /\ image_sbom_os_version = PReleaseVersionID /\
  image_sbom_vcs_url = PConfigVCSUrl /\ image_sbom_fs = PBuildFS /\
  index_sbom_index_digest = PIndexDigest /\ index_sbom_archs = PAllMapKeys /\
  index_sbom_order = SortByArchStringAsc /\ index_sbom_image_digest = PArchImageDigest /\
  index_sbom_skips_none = true.
Proof. repeat split; reflexivity. Qed.
Print Assumptions c11_provenance_read_from_source.

(* Generate receives the image's own digest, the layers of its manifest in order, the installed
   database in order, VERSION_ID, the vcs url and the build filesystem: nothing else, nothing less *)
Theorem c11_image_sbom_inputs : forall b, exists g, image_sbom_input b = Some g /\ InputsAreTheBuilt b g.
Proof. intro b. exists (expected_input b). exact (conj (image_sbom_input_spec b) eq_refl). Qed.
Print Assumptions c11_image_sbom_inputs.

(* in particular every paragraph of the installed database reaches the generator whatever its
   architecture field says (noarch, another architecture) *)
Theorem c11_all_installed_handed_over : forall b g, image_sbom_input b = Some g -> AllInstalledHandedOver b g.
Proof. exact all_installed_handed_over. Qed.
Print Assumptions c11_all_installed_handed_over.

(* the property's first sentence for the file apko writes next to the image: sbom-<arch>.spdx.json
   describes the image by ITS digest (no hypothesis that a digest is known: a built image has one),
   names every layer of ITS manifest, and has exactly one element per installed paragraph (the
   installed database has one paragraph per name: pairwise distinct (name, version) is all it takes
   since fix 7c2586e, colliding identifiers included) *)
Theorem c11_built_image_described : forall perm b d, NoEmbedded (expected_input b) -> image_sbom perm b = Ok d ->
  DescribesImage (hash_string (b_digest b)) d /\
  (NoDup (ids (base_doc (expected_input b))) -> NamesLayers (b_layers b) d) /\
  (NoDup (List.map (fun i => (a_name (i_apk i), a_version (i_apk i))) (b_installed b)) ->
     exists elems, d_pkgs d = dedup_pkgs [] (d_pkgs (base_doc (expected_input b))) ++ elems /\
       Forall2 (fun a p => ElemOf a p /\ exists sfx, p_id p = p_id (apk_package (nonce_of (expected_input b)) a) +++ sfx)
               (List.map i_apk (b_installed b)) elems /\
       MatchesInstalled (List.map i_apk (b_installed b)) elems).
Proof. exact built_image_described. Qed.
Print Assumptions c11_built_image_described.

Theorem c11_built_image_sound : forall perm b d, image_sbom perm b = Ok d ->
  IdsUnique d /\ ((forall l, Permutation (perm l) l) -> SingleTarget (expected_input b) -> RefsResolve d).
Proof. exact built_image_sound. Qed.
Print Assumptions c11_built_image_sound.

(* ... and carries the extracted licensing infos of exactly the embedded documents of the installed apks *)
Theorem c11_built_image_licensing : forall perm b lfs d l, image_sbom_full perm b lfs = Ok (d, l) ->
  image_sbom perm b = Ok d /\ LicPreserved (used_lists (b_fs b) lfs (List.map i_apk (b_installed b))) l.
Proof. exact built_image_licensing. Qed.
Print Assumptions c11_built_image_licensing.

(* the index document is told the index digest and every image of the images map exactly once, in
   the order of the architecture strings; Go's map iteration order [ord] does not matter *)
Theorem c11_index_sbom_inputs : forall ord bi, (forall l, Permutation (ord l) l) ->
  (exists x, index_sbom_input ord bi = Some x /\ IndexInputsAreTheBuilt bi x) /\
  (NoDup (List.map fst (bi_images bi)) -> index_sbom_input ord bi = Some (expected_index_input bi)).
Proof. intros ord bi P. exact (conj (index_sbom_input_spec ord bi P) (index_sbom_input_order_independent ord bi P)). Qed.
Print Assumptions c11_index_sbom_inputs.

Theorem c11_built_index_described : forall ord bi d, (forall l, Permutation (ord l) l) -> index_sbom ord bi = Ok d ->
  RefsResolve d /\
  (exists p, In p (d_pkgs d) /\ p_name p = hash_string (bi_digest bi) /\
             p_sums p = [("SHA256", snd (bi_digest bi))] /\ d_desc d = [p_id p]) /\
  (forall a h, In (a, h) (bi_images bi) -> exists p, In p (d_pkgs d) /\ p_sums p = [("SHA256", snd h)] /\
     In {| r_elem := p_id (index_package (bi_digest bi)); r_type := "VARIANT_OF"; r_related := p_id p |} (d_rels d)).
Proof. exact built_index_described. Qed.
Print Assumptions c11_built_index_described.

(* ---- /etc/os-release (readReleaseData): where VERSION_ID, the version of every layer element, comes from ----
   For EVERY file content: the three fields are what the LAST line assigning to ID / NAME / VERSION_ID
   assigns (a line assigns to the text before its first "=", the value is the rest without leading and
   trailing double quotes; empty lines and # lines do not count, a trailing \r does not belong to the line),
   and the empty string when no line assigns to the key. *)
Theorem c11_os_release_fields : forall s r, read_release (Some s) = Ok r ->
  forall k f, In (k, f) [("ID", rd_id r); ("NAME", rd_name r); ("VERSION_ID", rd_version r)] ->
    (forall v, LastAssigns k v (scan_lines s) -> f = v) /\ (NeverAssigned k (scan_lines s) -> f = "").
Proof. exact read_release_fields. Qed.
Print Assumptions c11_os_release_fields.

(* the literals of the parser as goextract read them on this run (found by shape: the function whose
   result GenerateImageSBOM assigns to opts.OS.{ID,Name,Version}; the literal handed to Open; the map keys of
   the returned literal; the defaults of the literal returned without the file).  Model/SbomRelease.v computes
   with the keys and defaults: changing one in the source changes the model and breaks this statement *)
Theorem c11_os_release_literals_read_from_source :
  os_release_path = "/etc/os-release" /\
  os_release_key_id = "ID" /\ os_release_key_name = "NAME" /\ os_release_key_version = "VERSION_ID" /\
  os_release_default_id = "unknown" /\ os_release_default_name = "apko-generated image" /\ os_release_default_version = "unknown".
Proof. exact release_literals_read. Qed.
Print Assumptions c11_os_release_literals_read_from_source.

(* it answers or fails with an error (no panic, no fuel), fails exactly when some line is neither empty,
   nor a comment, nor has an "=", and a missing file gives the three defaults *)
Theorem c11_os_release_fails_iff_malformed : forall f,
  ((exists r, read_release f = Ok r) \/ read_release f = Err) /\
  (forall s, f = Some s -> (read_release f = Err <-> exists l, In l (scan_lines s) /\ Malformed l)) /\
  read_release None = Ok {| rd_id := "unknown"; rd_name := "apko-generated image"; rd_version := "unknown" |}.
Proof.
  intro f. split; [exact (read_release_outcome f)|]. split; [|exact read_release_missing].
  intros s ->. exact (read_release_err s).
Qed.
Print Assumptions c11_os_release_fails_iff_malformed.

(* that VERSION_ID is what Generate receives as the OS version (the e2e records are built with it) *)
Theorem c11_os_version_handed_over : forall f r b, read_release f = Ok r -> b_version_id b = release_version_of f ->
  g_osver (expected_input b) = rd_version r /\ forall h, p_version (layer_package (g_osver (expected_input b)) h) = rd_version r.
Proof. intros f r b H E. cbn [expected_input g_osver layer_package p_version]. rewrite E, (release_version_of_ok f r H). split; [reflexivity | intro h; reflexivity]. Qed.
Print Assumptions c11_os_version_handed_over.

Theorem c11_os_release_validators_decide : forall k v l ls,
  (last_assign k ls = Some v <-> LastAssigns k v ls) /\ (last_assign k ls = None <-> NeverAssigned k ls) /\
  (malformed_b l = true <-> Malformed l).
Proof. intros. exact (conj (last_assign_some k ls v) (conj (last_assign_none k ls) (malformed_b_iff l))). Qed.
Print Assumptions c11_os_release_validators_decide.

(* ---- EXTRACTED LICENSING INFOS (mergeLicensingInfos) ----------------------------------------------- *)
(* one merge: the result is the union keyed by id, target first; it keeps the target untouched as a
   prefix, appends only source infos whose id is new, once per id, and contains EVERY source info with
   its text; distinct ids stay distinct *)
Theorem c11_licensing_merge_union : forall src tgt out, merge_licensing src tgt = Ok out ->
  LicUnion src tgt out /\ (NoDup (lic_ids tgt) -> NoDup (lic_ids out)).
Proof. intros src tgt out H. pose proof (merge_ok_union src tgt out H) as U. exact (conj U (lic_union_nodup src tgt out U)). Qed.
Print Assumptions c11_licensing_merge_union.

(* it fails only on a conflict (same id, another text), never otherwise, and it never panics *)
Theorem c11_licensing_merge_fails_only_on_conflict : forall src tgt,
  ((exists out, merge_licensing src tgt = Ok out) \/ merge_licensing src tgt = Err) /\
  (merge_licensing src tgt = Err -> exists s t, In s src /\ In t (tgt ++ src) /\ l_id t = l_id s /\ l_text t <> l_text s) /\
  (Consistent (tgt ++ src) -> exists out, merge_licensing src tgt = Ok out).
Proof. intros src tgt. exact (conj (merge_total src tgt) (conj (merge_err_conflict src tgt) (merge_consistent_ok src tgt))). Qed.
Print Assumptions c11_licensing_merge_fails_only_on_conflict.

(* Generate: the licensing infos of the emitted document are exactly those of the embedded
   documents it used, every one of them with its text, ids pairwise distinct *)
Theorem c11_licensing_preserved : forall perm g lfs d l, generate_full perm g lfs = Ok (d, l) ->
  generate perm g = Ok d /\ LicPreserved (used_lists (g_fs g) lfs (g_apks g)) l.
Proof. exact generate_full_ok. Qed.
Print Assumptions c11_licensing_preserved.

(* no licence id that the embedded document of an installed apk defines is lost *)
Theorem c11_licensing_no_reference_lost : forall perm g lfs d l a refs, generate_full perm g lfs = Ok (d, l) ->
  In a (g_apks g) -> incl refs (lic_ids (used_lics (g_fs g) lfs a)) -> incl refs (lic_ids l).
Proof. exact generate_full_no_reference_lost. Qed.
Print Assumptions c11_licensing_no_reference_lost.

(* when the document itself can be generated, adding the licensing infos fails exactly when two
   used documents (or one document) give one id two texts; and never for lack of fuel *)
Theorem c11_licensing_fails_iff_conflict : forall perm g lfs,
  generate_full perm g lfs <> OutOfFuel /\
  forall d, generate perm g = Ok d ->
    ((exists l, generate_full perm g lfs = Ok (d, l)) <-> Consistent (List.concat (used_lists (g_fs g) lfs (g_apks g)))).
Proof. intros perm g lfs. exact (conj (generate_full_fuel perm g lfs) (generate_full_iff_consistent perm g lfs)). Qed.
Print Assumptions c11_licensing_fails_iff_conflict.

(* the document whose infos are merged is the one Spec/SbomSpec.v's envelopes speak of *)
Theorem c11_licensing_used_is_located : forall fs a, (exists k, used_key fs a = Some k) <-> (exists e, located_in fs a = Some e).
Proof. exact used_key_located. Qed.
Print Assumptions c11_licensing_used_is_located.

Theorem c11_licensing_validators_decide : forall src tgt out used l,
  (lic_union_b src tgt out = true <-> LicUnion src tgt out) /\
  (lic_preserved_b used out = true <-> LicPreserved used out) /\
  (consistent_b l = true <-> Consistent l).
Proof. intros. exact (conj (lic_union_b_iff src tgt out) (conj (lic_preserved_b_iff used out) (consistent_b_iff l))). Qed.
Print Assumptions c11_licensing_validators_decide.

(* non-vacuity: a two-layer image with a source url and two installed apks meets
   every hypothesis above and yields the expected six elements *)
Definition ex_g : gen_in :=
  {| g_image := "sha256:ab"; g_layers := [("sha256", "c1"); ("sha256", "c2")]; g_osver := "3.19";
     g_vcs := "https://github.com/o/r@abc";
     g_apks := [ {| a_name := "musl"; a_version := "1.2.2-r7"; a_sum := [13; 230]%N |};
                 {| a_name := "libstdc++"; a_version := "13.2-r0"; a_sum := [1]%N |} ];
     g_fs := [] |}.
Example c11_example : NoEmbedded ex_g /\ NoDup (List.map p_id (own_elements ex_g)) /\ NoDup (ids (base_doc ex_g)) /\
  exists d, generate (fun l => l) ex_g = Ok d /\ List.length (d_pkgs d) = 6%nat /\
    In "SPDXRef-Package-SPDXRef-Package-sha256-ab-libstdcC43C43-13.2-r0" (ids d).
Proof.
  split; [intros a _; reflexivity|]. split; [apply nodup_b_iff; vm_compute; reflexivity|].
  split; [apply nodup_b_iff; vm_compute; reflexivity|].
  eexists. split; [vm_compute; reflexivity|]. split; [reflexivity|]. apply mem_In. vm_compute. reflexivity.
Qed.
(* an embedded SBOM inside the envelope of the model: copied, the apk's own element replaced *)
Example c11_example_embedded : exists d,
  generate (fun l => l) {| g_image := "sha256:ab"; g_layers := [("sha256", "c1")]; g_osver := "1"; g_vcs := "";
    g_apks := [ {| a_name := "foo"; a_version := "1.0-r0"; a_sum := [1]%N |} ];
    g_fs := [("foo-1.0.spdx.json", FDoc foo_sbom)] |} = Ok d /\
  RefsResolve d /\ ids d = ["SPDXRef-Package-sha256-ab"; "SPDXRef-Package-sha256-c1"; p_id foo_elem; p_id bar_elem].
Proof. eexists. split; [vm_compute; reflexivity|]. split; [apply refs_resolve_b_iff; vm_compute; reflexivity | reflexivity]. Qed.

(* the envelope of c11_refs_resolve is inhabited by that input *)
Example c11_example_single_target :
  SingleTarget {| g_image := "sha256:ab"; g_layers := [("sha256", "c1")]; g_osver := "1"; g_vcs := "";
                  g_apks := [ {| a_name := "foo"; a_version := "1.0-r0"; a_sum := [1]%N |} ];
                  g_fs := [("foo-1.0.spdx.json", FDoc foo_sbom)] |}.
Proof. intros a [<-|[]] e H. vm_compute in H. inversion H; subst. vm_compute. repeat constructor. Qed.

(* the envelope of c11_refs_resolve_embedded is inhabited by an input with a two-target document *)
Example c11_example_two_fresh : AtMostTwoTargets two_fresh_example /\ TargetsFresh two_fresh_example /\ NoIdClash two_fresh_example /\
  (exists a e, In a (g_apks two_fresh_example) /\ located two_fresh_example a = Some e /\ List.length (targets (a_name a) e) = 2%nat) /\
  exists d, generate (@rev string) two_fresh_example = Ok d /\ RefsResolve d.
Proof.
  split; [apply at_most_two_targets_b_iff; vm_compute; reflexivity|].
  split; [apply targets_fresh_b_iff; vm_compute; reflexivity|].
  split; [apply no_id_clash_b_iff; vm_compute; reflexivity|].
  split; [eexists; eexists; split; [right; left; reflexivity | split; vm_compute; reflexivity]|].
  eexists. split; [vm_compute; reflexivity | apply refs_resolve_b_iff; vm_compute; reflexivity].
Qed.

(* non-vacuity of the provenance theorems: a build with a noarch and a foreign-architecture
   paragraph; a two-image index handed over in the "wrong" map order *)
Example c11_example_built : NoEmbedded (expected_input ex_built) /\ NoDup (List.map (fun i => (a_name (i_apk i), a_version (i_apk i))) (b_installed ex_built)) /\
  exists d, image_sbom (fun l => l) ex_built = Ok d /\ List.map p_name (d_pkgs d) = ["sha256:ab"; "sha256:c1"; "sha256:c2"; "musl"; "tzdata"; "cross-stub"].
Proof. exact ex_built_ok. Qed.
Example c11_example_built_index : NoDup (List.map fst (bi_images ex_built_index)) /\
  x_images (expected_index_input ex_built_index) = [("sha256", "a1"); ("sha256", "a2")] /\
  exists d, index_sbom (@rev _) ex_built_index = Ok d.
Proof. exact ex_built_index_ok. Qed.
(* ... and of the licensing theorems: two documents sharing two infos; a conflict *)
Example c11_example_licensing : (exists d, generate_full (fun l => l) lic_g [("foo-1.0.spdx.json", [lic_mit; lic_bsd]); ("bar.spdx.json", [lic_bsd; lic_mit])] = Ok (d, [lic_mit; lic_bsd])) /\
  generate_full (fun l => l) lic_g [("foo-1.0.spdx.json", [lic_mit]); ("bar.spdx.json", [lic_bsd; lic_mit'])] = Err.
Proof. exact (conj lic_example (proj1 lic_example_conflict)). Qed.

(* ... and of the os-release theorems: comment, CRLF, quotes, a repeated key, no final newline; a malformed file *)
Example c11_example_os_release : read_release (Some ex_os_release) = Ok {| rd_id := "wolfi"; rd_name := "Wolfi"; rd_version := "20230201" |}
  /\ LastAssigns "VERSION_ID" "20230201" (scan_lines ex_os_release)
  /\ read_release (Some ("ID=x" +++ String ch_nl "oops")) = Err.
Proof. exact ex_os_release_ok. Qed.
