(* C12 — Emitted OCI artifacts are well-formed and mirror the configuration.
   Property theorems only; each is closed by [exact] of a lemma proved in
   Proofs/OciProofs.v and followed by Print Assumptions. Constants, tables and
   the append-offset arithmetic are the ones goextract read from /repo on this
   run (Generated/C12Oci.v). *)
From Apko Require Import Base.Prelude Base.C12Lib Generated.C12Oci Model.Oci Model.OciTime Model.OciShlex Model.OciImage Model.OciOptions
  Spec.OciSpec Spec.OciTimeSpec Spec.OciShlexSpec Spec.OciImageSpec Spec.OciOptionsSpec
  Proofs.OciProofs Proofs.OciScanProofs Proofs.OciTimeProofs Proofs.OciShlexProofs Proofs.OciImageProofs Proofs.OciOptionsProofs.
From Coq Require Import Permutation Sorted.
Open Scope string_scope. Open Scope list_scope.

(* BuildIndex appends the image manifests and index.json after the archive
   written by go-containerregistry. For every stream position [pos] after the
   last member's header and every member size [size] (no bound), the offset it
   seeks to — the Go statements between the header scan and f.Seek, translated
   by goextract — is the least multiple of the tar block size that is >= the
   end of that member, and int64 arithmetic cannot wrap while computing it
   whenever pos + size + 512 fits. *)
Theorem c12_append_offset : forall pos size, (0 <= pos)%Z -> (0 <= size)%Z ->
  NextBoundary tar_block (pos + size) (append_offset pos size) /\
  (append_offset pos size < pos + size + tar_block)%Z /\
  block_size = tar_block.
Proof. exact append_offset_full. Qed.
Print Assumptions c12_append_offset.

Example c12_append_offset_on_boundary : append_offset 1536 512 = 2048%Z /\ append_offset 1536 511 = 2048%Z /\ append_offset 1536 513 = 2560%Z.
Proof. vm_compute. auto. Qed.

(* The scan loop that produces [pos] and [size], over a tar stream of raw header records,
   with archive/tar's position bookkeeping per record kind INSIDE the model (rd_next:
   member with data / header-only member / PAX-x, GNU-L, GNU-K extension record whose data
   the reader consumes itself before it loops / PAX global header returned as an entry of
   its own; the reader sits unbuffered on the file).

   c12_reader_position: for EVERY stream of records archive/tar accepts, the file offset
   observed after the i-th successful Next() and the size it reports are the start of the
   i-th member's body and its size field, as given by the layout alone (body_starts:
   extension records and their padded data in front of a member are skipped, a global
   header counts as consumed).  This is the statement the previous version of
   c12_append_offset_scan took as part of its model of Next().

   c12_append_offset_scan: hence, for every such stream whose last record is a member whose
   data section is what hdr.Size says (EndsOk: not a dangling extension header, not a
   header-only type with a non-zero size field - MultiWrite writes regular files only),
   the header scan loop of BuildIndex (its statements translated by goextract: scan_body;
   the file is rewound first: scan_rewinds) followed by the translated arithmetic yields
   exactly the offset of the first end-of-archive block: the appended members continue the
   archive, no byte of a member is overwritten and no zero block is left in between.  The
   scan never fails, panics (hdr is never nil where hdr.Size is read) or runs out of fuel. *)
Theorem c12_reader_position : forall rs, Forall RawOk rs -> reader_trace rs = body_starts 0 rs.
Proof. exact reader_trace_spec. Qed.
Print Assumptions c12_reader_position.

Theorem c12_append_offset_scan : forall rs, Forall RawOk rs -> EndsOk rs ->
  scan_offset rs = Ok (stream_len rs) /\ scan_rewinds = true.
Proof. intros rs W E. exact (conj (scan_offset_is_end_of_archive rs W E) eq_refl). Qed.
Print Assumptions c12_append_offset_scan.

(* the two envelope predicates are decidable (used by the correspondence to select the cases) *)
Theorem c12_scan_envelope_decides : forall rs,
  (forallb raw_ok_b rs = true <-> Forall RawOk rs) /\ (ends_ok_b rs = true <-> EndsOk rs).
Proof.
  intro rs. split; [|apply ends_ok_b_iff].
  rewrite forallb_forall, Forall_forall. split; intros H r Hr; apply raw_ok_b_iff, H, Hr.
Qed.
Print Assumptions c12_scan_envelope_decides.

(* a member of 512 bytes behind one with a PAX header of 700 bytes (1 + 2 blocks in front
   of its own header block) and behind a global header; and the reason the rewind matters:
   from the end of the file the scan sees nothing and the manifests would overwrite the
   archive from offset 0 *)
Example c12_append_offset_scan_example :
  let rs := [{| r_kind := KGlobal; r_size := 30 |}; {| r_kind := KExt; r_size := 700 |}; {| r_kind := KFile; r_size := 10 |};
             {| r_kind := KHeaderOnly; r_size := 0 |}; {| r_kind := KFile; r_size := 512 |}] in
  Forall RawOk rs /\ EndsOk rs /\ scan_offset rs = Ok 5120%Z /\
  reader_trace rs = [(542, 0); (3072, 10); (4096, 0); (4608, 512)]%Z /\
  scan_offset [] = Ok 0%Z.
Proof.
  cbv zeta. split; [apply (proj1 (c12_scan_envelope_decides _)); reflexivity|].
  split; [apply ends_ok_b_iff; reflexivity|]. vm_compute. auto.
Qed.

(* outside the envelope (streams MultiWrite never writes, but archive/tar reads): a LAST
   member of a header-only type whose size field is 100 makes the computed offset
   overshoot by one block, and a dangling extension header is overwritten *)
Theorem c12_append_offset_scan_envelope_refuted :
  scan_offset [{| r_kind := KFile; r_size := 10 |}; {| r_kind := KHeaderOnly; r_size := 100 |}] = Ok 2048%Z /\
  stream_len [{| r_kind := KFile; r_size := 10 |}; {| r_kind := KHeaderOnly; r_size := 100 |}] = 1536%Z /\
  scan_offset [{| r_kind := KFile; r_size := 10 |}; {| r_kind := KExt; r_size := 10 |}] = Ok 1024%Z /\
  stream_len [{| r_kind := KFile; r_size := 10 |}; {| r_kind := KExt; r_size := 10 |}] = 2048%Z.
Proof. exact scan_offset_header_only_size. Qed.
Print Assumptions c12_append_offset_scan_envelope_refuted.

Theorem c12_scan_without_rewind_refuted : forall rs,
  (do env <- scan_loop (S (S (List.length rs)))
       {| s_rest := []; s_pos := stream_len rs + 1024; s_pend := 0; s_cur := None; s_err := ENone; s_env := [] |};
   Ok (append_offset (ilookup pad_pos_var env) (ilookup pad_size_var env))) = Ok 0%Z.
Proof. exact no_rewind_offset_zero. Qed.
Print Assumptions c12_scan_without_rewind_refuted.


(* the pre-fix arithmetic (newOffset += 512 - newOffset % 512, unconditionally)
   is refuted by any member ending on a block boundary: kept as the regression
   witness replayed by the harness on the real BuildIndex *)
Theorem c12_unconditional_padding_refuted :
  exists pos size, (0 <= pos)%Z /\ (0 <= size)%Z /\
    ~ NextBoundary tar_block (pos + size) (pos + size + (tar_block - (pos + size) mod tar_block))%Z.
Proof. exact unconditional_padding_refuted. Qed.
Print Assumptions c12_unconditional_padding_refuted.

(* the boolean validator run on observed offsets decides the readable statement *)
Theorem c12_offset_validator_decides : forall n o,
  next_boundary_b tar_block n o = true <-> NextBoundary tar_block n o.
Proof. intros. apply next_boundary_b_iff. reflexivity. Qed.
Print Assumptions c12_offset_validator_decides.

(* ---- environment ------------------------------------------------------------------
   For every configured environment (a Go map: distinct keys), every order
   [dord] in which Go ranges over the defaults literal and every order [ord] in
   which it ranges over the merged map: the rendered Env is sorted, and is — up
   to order — one "k=v" entry per configured binding plus one per default whose
   key is not configured (so a configured value always wins and a default
   appears only when its key is unset); hence it is the same list for every
   pair of iteration orders. [default_env] and the entry format are the ones in
   image.go on this run. *)
Theorem c12_env : forall env dord ord,
  NoDup (akeys env) ->
  Permutation dord (akeys default_env) ->
  Permutation ord (akeys (with_defaults default_env dord env)) ->
  EnvOk default_env env (render_env default_env dord env ord) /\
  (forall dord' ord', Permutation dord' (akeys default_env) ->
     Permutation ord' (akeys (with_defaults default_env dord' env)) ->
     render_env default_env dord' env ord' = render_env default_env dord env ord) /\
  env_entry_format = "%s=%s".
Proof. exact render_env_full. Qed.
Print Assumptions c12_env.

Example c12_env_configured_wins :
  render_env default_env ["SSL_CERT_FILE"; "PATH"] [("PATH", "/bin"); ("A", "1")] ["SSL_CERT_FILE"; "A"; "PATH"]
  = ["A=1"; "PATH=/bin"; "SSL_CERT_FILE=/etc/ssl/certs/ca-certificates.crt"].
Proof. vm_compute. reflexivity. Qed.

Theorem c12_env_validator_decides : forall defaults env out,
  env_tags defaults env out = [] <-> EnvOk defaults env out.
Proof. exact env_tags_iff. Qed.
Print Assumptions c12_env_validator_decides.

(* ---- config mapping ---------------------------------------------------------------
   For every shell-word splitter [shlex] and time formatter [rfc3339] (external:
   github.com/google/shlex, time.Format), every base config, image
   configuration, creation time, architecture string and iteration orders:
   BuildImageFromLayers either fails because shlex rejects a command line it
   has to split, or yields a config that mirrors the configuration:
   entrypoint = /bin/sh -c <fragment> when a shell fragment is declared, else
   the split of the command, else inherited; cmd likewise; working dir, user,
   stop signal = the declared value when non-empty; volumes = the declared set;
   Env as in c12_env; labels = annotations overridden by source/revision (the
   VCS URL cut at its FIRST '@', only when it has one) and by created; created
   time; platform = ToOCIPlatform(arch); OS linux. 
   The full statement is c12_config_mapping below; it is proved under the
   hypothesis [merge_into_copies_vcs_url = true], a fact goextract reads from
   the source on every run and which is FALSE today: BuildImageFromLayers
   works on a copy made by ImageConfiguration.MergeInto, which does not carry
   VCSUrl, so the source/revision labels are never written (finding C12-F2).
   c12_config_mapping_refuted shows the full statement fails while that flag is
   false; c12_config_mapping_partial holds unconditionally: the config mirrors
   the configuration as copied (today: with its VCS URL erased, i.e. every
   clause of ConfigMirrors except the source/revision labels) and mirrors the
   configuration itself whenever the VCS URL has no revision to record (empty,
   or without '@'). *)
Theorem c12_config_mapping : forall shlex rfc3339 base ic created arch dord eord,
  merge_into_copies_vcs_url = true ->
  NoDup (akeys (ic_env ic)) ->
  Permutation dord (akeys default_env) ->
  Permutation eord (akeys (with_defaults default_env dord (ic_env ic))) ->
  match build_config shlex rfc3339 base ic created arch dord eord with
  | Ok cfg => ConfigMirrors shlex rfc3339 (to_oci_platform arch) base ic created cfg
  | Err => shlex_failed shlex ic
  | _ => False
  end.
Proof. exact build_config_mirrors_full. Qed.
Print Assumptions c12_config_mapping.

(* the hypothesis holds on this tree (fix b1a922a): the full statement applies; were the copy
   to drop VCSUrl again this line no longer compiles *)
Example c12_config_mapping_hypothesis_holds : merge_into_copies_vcs_url = true /\ bundle_key_includes_variant = true.
Proof. split; reflexivity. Qed.

Theorem c12_config_mapping_partial : forall shlex rfc3339 base ic created arch dord eord,
  NoDup (akeys (ic_env ic)) ->
  Permutation dord (akeys default_env) ->
  Permutation eord (akeys (with_defaults default_env dord (ic_env ic))) ->
  match build_config shlex rfc3339 base ic created arch dord eord with
  | Ok cfg => ConfigMirrors shlex rfc3339 (to_oci_platform arch) base (copy_for_build ic) created cfg /\
              (vcs_has_revision ic = false ->
               ConfigMirrors shlex rfc3339 (to_oci_platform arch) base ic created cfg)
  | Err => shlex_failed shlex ic
  | _ => False
  end.
Proof. exact build_config_mirrors_partial. Qed.
Print Assumptions c12_config_mapping_partial.

Theorem c12_config_mapping_refuted :
  merge_into_copies_vcs_url = false ->
  exists shlex rfc3339 base ic created arch dord eord cfg,
    NoDup (akeys (ic_env ic)) /\
    Permutation dord (akeys default_env) /\
    Permutation eord (akeys (with_defaults default_env dord (ic_env ic))) /\
    build_config shlex rfc3339 base ic created arch dord eord = Ok cfg /\
    alookup revision_key (oc_labels cfg) = None /\
    ~ ConfigMirrors shlex rfc3339 (to_oci_platform arch) base ic created cfg.
Proof. exact build_config_mirrors_refuted. Qed.
Print Assumptions c12_config_mapping_refuted.

(* strings.Cut at the first separator, as the specification of the VCS split *)
Theorem c12_vcs_cut : forall s url hash,
  cut_at vcs_separator s = Some (url, hash) <->
  (s = (url ++ String "@"%char hash)%string /\ has_char "@"%char url = false).
Proof. intros. apply (cut_at_some "@"%char). Qed.
Print Assumptions c12_vcs_cut.

(* the index carries the same three annotations *)
Theorem c12_index_annotations : forall rfc3339 ic created k,
  alookup k (index_annotations rfc3339 (ic_vcs_url ic) created (ic_annotations ic)) =
  expected_label rfc3339 ic created k.
Proof. exact index_labels_lookup. Qed.
Print Assumptions c12_index_annotations.

Theorem c12_config_validator_decides : forall shlex rfc3339 plat base ic created cfg,
  config_tags shlex rfc3339 plat base ic created cfg = [] <->
  ConfigMirrors shlex rfc3339 plat base ic created cfg.
Proof. exact config_tags_iff. Qed.
Print Assumptions c12_config_validator_decides.

Example c12_config_example :
  exists cfg,
    build_config (fun s => if String.eqb s "/usr/bin/app --flag" then Some ["/usr/bin/app"; "--flag"] else None)
      (fun _ => "2023-11-14T22:13:20Z") empty_config
      {| ic_shell_fragment := ""; ic_command := "/usr/bin/app --flag"; ic_cmd := ""; ic_workdir := "/w";
         ic_run_as := "65532"; ic_stop_signal := ""; ic_volumes := ["/data"];
         ic_env := [("PATH", "/bin")]; ic_annotations := [("a", "b")]; ic_vcs_url := "https://x/y@abc@def" |}
      1700000000 "armv7" ["PATH"; "SSL_CERT_FILE"] ["PATH"; "SSL_CERT_FILE"] = Ok cfg /\
    oc_entrypoint cfg = ["/usr/bin/app"; "--flag"] /\ oc_variant cfg = "v7" /\
    oc_env cfg = ["PATH=/bin"; "SSL_CERT_FILE=/etc/ssl/certs/ca-certificates.crt"].
Proof. eexists. split; [vm_compute; reflexivity|]. repeat split. Qed.

(* ---- platform table ----------------------------------------------------------------
   Finite domain, enumerated completely: every string that occurs in AllArchs,
   in any of the three generated switch tables (as a case label or a result)
   or in the specification's list of apk architecture names — 9 canonical
   names and their apk-style aliases. For each: parsing canonicalises it, the
   OCI platform of the parsed value (and of the raw string: ToOCIPlatform
   parses again) is the architecture string split at '/', the canonical name is
   in AllArchs, and ToAPK maps it to an apk name that parses back. *)
Theorem c12_platform_table : forall s, In s known_arch_names ->
  to_oci_platform (parse_architecture s) = expected_platform s /\
  to_oci_platform s = expected_platform s /\
  parse_architecture s = spec_canonical s /\
  In (spec_canonical s) all_archs /\
  parse_architecture (to_apk s) = spec_canonical s /\
  In (to_apk s) (List.map fst apk_names).
Proof. exact platform_table_ok. Qed.
Print Assumptions c12_platform_table.

(* the enumerated domain covers AllArchs and every apk-style name *)
Theorem c12_platform_table_covers :
  (forall a, In a all_archs -> In a known_arch_names /\ spec_canonical a = a /\
      exists apk, In (apk, a) apk_names) /\
  (forall apk oci, In (apk, oci) apk_names -> In apk known_arch_names /\ In oci all_archs) /\
  oci_platform_os = expected_os.
Proof. exact platform_table_covers. Qed.
Print Assumptions c12_platform_table_covers.

Example c12_platform_armhf : to_oci_platform (parse_architecture "armhf") = ("arm", "v6").
Proof. reflexivity. Qed.

(* ---- index ----------------------------------------------------------------------------
   For every map from architecture keys to images (distinct keys, any abstract
   descriptor type) and every order in which Go ranges over it: the index has
   exactly one manifest per requested architecture, carrying that
   architecture's image, sorted by architecture string, each with the platform
   ToOCIPlatform gives for its key and OS linux; and it is the same list for
   every iteration order. *)
Theorem c12_index : forall (D : Type) (imgs : list (string * D)) ord,
  NoDup (akeys imgs) -> Permutation ord (akeys imgs) ->
  IndexOk to_oci_platform imgs (generate_index imgs ord) /\
  (forall ord', Permutation ord' (akeys imgs) -> generate_index imgs ord' = generate_index imgs ord) /\
  List.length (generate_index imgs ord) = List.length imgs /\
  oci_platform_os = expected_os.
Proof. intro D. exact generate_index_ok. Qed.
Print Assumptions c12_index.

Example c12_index_example :
  List.map ie_key (generate_index [("s390x", 1); ("arm/v7", 2); ("amd64", 3)] ["arm/v7"; "amd64"; "s390x"])
  = ["amd64"; "arm/v7"; "s390x"].
Proof. vm_compute. reflexivity. Qed.

(* ---- the bundle contains every image its index lists --------------------------------
   BuildIndex keys the images it hands to the tarball writer by
   "<tag>-<Platform.Architecture>"; today the key ignores the variant
   ([bundle_key_includes_variant = false], read from the source on every run):
   with arm/v6 and arm/v7 together (both are in AllArchs) the first is replaced
   by the second and its config and layers never reach the archive (finding
   C12-F1). The full statement c12_bundle_complete — for every duplicate-free
   subset of AllArchs and at least one tag, every image is in the bundle — is
   proved under [bundle_key_includes_variant = true] and refuted while the flag
   is false; unconditionally it holds whenever the requested architectures
   have pairwise different keys. *)
Theorem c12_bundle_complete : forall ntags archs,
  bundle_key_includes_variant = true ->
  ntags <> 0 -> NoDup archs -> incl archs all_archs -> BundleComplete (bundle_included ntags archs).
Proof. exact bundle_complete_full. Qed.
Print Assumptions c12_bundle_complete.

Theorem c12_bundle_complete_refuted :
  bundle_key_includes_variant = false ->
  exists ntags archs, ntags <> 0 /\ incl archs all_archs /\ NoDup archs /\
    ~ BundleComplete (bundle_included ntags archs) /\
    bundle_included ntags archs = [false; true].
Proof. exact bundle_complete_refuted. Qed.
Print Assumptions c12_bundle_complete_refuted.

Theorem c12_bundle_complete_partial : forall ntags archs,
  ntags <> 0 -> NoDup (List.map bundle_key archs) -> BundleComplete (bundle_included ntags archs).
Proof. exact bundle_complete_partial. Qed.
Print Assumptions c12_bundle_complete_partial.

Example c12_bundle_complete_without_armv6 :
  BundleComplete (bundle_included 2 ["386"; "amd64"; "arm64"; "arm/v7"; "loong64"; "ppc64le"; "riscv64"; "s390x"]).
Proof. vm_compute. repeat constructor. Qed.

Theorem c12_bundle_validator_decides : forall plat archs included,
  bundle_complete_tags_with plat archs included = [] <->
  (List.length archs = List.length included /\ BundleComplete included).
Proof. exact bundle_complete_tags_iff. Qed.
Print Assumptions c12_bundle_validator_decides.

(* ---- creation time --------------------------------------------------------------------
   SOURCE_DATE_EPOCH / the default / the newest package build time all reach
   BuildImageFromLayers as time.Unix(sec, 0).UTC().  [format_rfc3339 sec] is the model of
   created.Format(time.RFC3339) on such a time (Go 1.23 appendFormatRFC3339 / appendInt over
   the proleptic Gregorian calendar; compared with the real function in stage "time").
   The Spec (Spec/OciTimeSpec.v) gives the calendar in textbook form (leap rule, month
   lengths, day number = days in earlier years + days in earlier months + day) and
   [parse_rfc3339] = the instant a well-formed "YYYY-MM-DDTHH:MM:SSZ" denotes.

   c12_civil_date: for EVERY day count z (no bound) the model's year/month/day is a valid
   calendar date whose day number is z, and days_from_civil inverts it.
   c12_rfc3339_roundtrip: for every second count whose UTC year is in [0, 9999]
   (rfc3339_min .. rfc3339_max) the text written denotes exactly that instant, has the
   fixed 20-character shape (digits / - - T : : Z), and the texts are ordered as strings
   exactly as the instants are ordered. *)
Theorem c12_civil_date : forall z y m d, civil_from_days z = (y, m, d) ->
  valid_date y m d /\ day_number y m d = z /\ days_from_civil y m d = z.
Proof.
  intros z y m d E. destruct (civil_from_days_spec z y m d E) as [V N].
  pose proof (days_from_civil_of_civil z) as I. rewrite E in I. auto.
Qed.
Print Assumptions c12_civil_date.

(* what the Spec's calendar is: 1970-01-01 is day 0; a year adds 365 or 366 days *)
Theorem c12_calendar_spec_characterised :
  day_number 1970 1 1 = 0%Z /\
  (forall y, days_before_year (y + 1) = days_before_year y + (if is_leap y then 366 else 365))%Z /\
  (forall y1 m1 d1 y2 m2 d2, valid_date y1 m1 d1 -> valid_date y2 m2 d2 ->
     date_lt (y1, m1, d1) (y2, m2, d2) -> (day_number y1 m1 d1 < day_number y2 m2 d2)%Z).
Proof. split; [reflexivity|]. split; [exact days_before_year_succ|exact day_number_mono]. Qed.
Print Assumptions c12_calendar_spec_characterised.

Theorem c12_rfc3339_roundtrip : forall s, (rfc3339_min <= s <= rfc3339_max)%Z ->
  parse_rfc3339 (format_rfc3339 s) = Some s /\
  rfc3339_utc_shape (format_rfc3339 s) = true /\ String.length (format_rfc3339 s) = 20 /\
  go_marshal_time s 0 0 = Some (format_rfc3339 s).
Proof.
  intros s R. split; [exact (rfc3339_roundtrip s R)|]. destruct (rfc3339_shape s R) as [A B].
  split; [exact A|]. split; [exact B|exact (marshal_utc_in_range s R)].
Qed.
Print Assumptions c12_rfc3339_roundtrip.

Theorem c12_rfc3339_monotone : forall s1 s2, (rfc3339_min <= s1)%Z -> (s2 <= rfc3339_max)%Z -> (s1 < s2)%Z ->
  str_lt (format_rfc3339 s1) (format_rfc3339 s2).
Proof. exact rfc3339_monotone. Qed.
Print Assumptions c12_rfc3339_monotone.

Example c12_rfc3339_examples :
  format_rfc3339 0 = "1970-01-01T00:00:00Z" /\ format_rfc3339 (-1) = "1969-12-31T23:59:59Z" /\
  format_rfc3339 951782400 = "2000-02-29T00:00:00Z" /\ format_rfc3339 4107542399 = "2100-02-28T23:59:59Z" /\
  format_rfc3339 4107542400 = "2100-03-01T00:00:00Z" /\ format_rfc3339 rfc3339_max = "9999-12-31T23:59:59Z" /\
  format_rfc3339 rfc3339_min = "0000-01-01T00:00:00Z" /\
  go_format_rfc3339 1700000000 7200 = "2023-11-15T00:13:20+02:00" /\
  go_marshal_time 1700000000 123456789 0 = Some "2023-11-14T22:13:20.123456789Z".
Proof. vm_compute. repeat (split; try reflexivity). Qed.

(* Outside [0, 9999] Go's Format does not fail: it writes a year of five or more digits or a
   negative year.  The label then has neither the shape nor the order, and
   time.Time.MarshalJSON refuses the time: the config (created, history) cannot be
   serialised at all - for EXACTLY the second counts outside the range. *)
Theorem c12_rfc3339_out_of_range :
  (forall s, go_marshal_time s 0 0 = None <-> ~ (rfc3339_min <= s <= rfc3339_max)%Z) /\
  format_rfc3339 (rfc3339_max + 1) = "10000-01-01T00:00:00Z" /\
  format_rfc3339 (rfc3339_min - 1) = "-0001-12-31T23:59:59Z" /\
  rfc3339_utc_shape (format_rfc3339 (rfc3339_max + 1)) = false /\
  rfc3339_utc_shape (format_rfc3339 (rfc3339_min - 1)) = false /\
  parse_rfc3339 (format_rfc3339 (rfc3339_max + 1)) = None /\
  str_lt (format_rfc3339 (rfc3339_max + 1)) (format_rfc3339 rfc3339_max) /\
  str_lt (format_rfc3339 (rfc3339_min - 1)) (format_rfc3339 (rfc3339_min - 1 - 31536000)).
Proof.
  split; [|exact rfc3339_out_of_range_witnesses].
  intro s. rewrite marshal_utc. destruct ((rfc3339_min <=? s)%Z && (s <=? rfc3339_max)%Z) eqn:E.
  - apply andb_true_iff in E. rewrite !Z.leb_le in E. split; [discriminate|tauto].
  - apply andb_false_iff in E. rewrite !Z.leb_gt in E. split; [lia|reflexivity].
Qed.
Print Assumptions c12_rfc3339_out_of_range.

(* ---- command lines -----------------------------------------------------------------------
   [shlex_split] is the model of github.com/google/shlex Split as pinned in go.mod (the
   seven-state tokenizer over the runes of the string; compared with the real function in
   stage "shlex").  BuildImageFromLayers stores exactly its token list as Entrypoint / Cmd and
   fails when it fails (c12_image_mapping below).
   c12_shlex_plain: a command line without any of the four special characters (double quote,
   single quote, backslash, hash) is split at runs of blank / tab / CR / LF - its fields -
   and [fields] is pinned down by: every field is non-empty and blank-free, and joining
   such words with single blanks and taking the fields gives the words back.
   c12_shlex_quote_roundtrip: ANY word list (empty words, blanks, quotes, backslashes, hashes,
   newlines inside) survives POSIX single-quoting: Split(join(quote w_i)) = [w_i].
   c12_shlex_errors: Split fails on a quote that is never closed, and cannot fail on a
   string without quote characters and backslashes. *)
Theorem c12_shlex_plain : forall s,
  all_chars (fun c => negb (quoting_char c)) (utf8_sanitize s) = true ->
  shlex_split s = Some (fields (utf8_sanitize s)) /\
  Forall plain_word (fields (utf8_sanitize s)) /\
  (forall ws, Forall plain_word ws -> fields (String.concat " " ws) = ws) /\
  (ascii_only s = true -> utf8_sanitize s = s).
Proof.
  intros s H. split; [exact (lex_split_plain _ H)|]. split; [apply fields_plain|].
  split; [exact fields_join|exact (sanitize_ascii s)].
Qed.
Print Assumptions c12_shlex_plain.

Theorem c12_shlex_quote_roundtrip : forall ws,
  lex_split (quote_words ws) = Some ws /\
  (utf8_sanitize (quote_words ws) = quote_words ws -> shlex_split (quote_words ws) = Some ws).
Proof.
  intro ws. split; [exact (lex_split_quote_words ws)|].
  intro V. unfold shlex_split. rewrite V. exact (lex_split_quote_words ws).
Qed.
Print Assumptions c12_shlex_quote_roundtrip.

Theorem c12_shlex_errors :
  (forall u, all_chars (fun c => negb (opens_quote c)) u = true -> lex_split u <> None) /\
  (forall u cur acc, all_chars (fun c => negb (is_squote c)) u = true -> lex SSq cur acc u = None) /\
  (forall u cur acc, all_chars (fun c => negb (is_dquote c)) u = true -> lex SDq cur acc u = None).
Proof.
  split; [intros u H; apply lex_no_quote_total; auto|].
  split; [exact lex_unterminated_squote|]. intros u cur acc H. exact (proj1 (lex_unterminated_dquote u cur acc H)).
Qed.
Print Assumptions c12_shlex_errors.

Example c12_shlex_examples :
  shlex_split "/usr/bin/app --flag  value" = Some ["/usr/bin/app"; "--flag"; "value"] /\
  shlex_split "a 'b c' ""d e"" f\ g" = Some ["a"; "b c"; "d e"; "f g"] /\
  shlex_split "app # trailing comment" = Some ["app"] /\ shlex_split "a#b" = Some ["a#b"] /\
  shlex_split "a """" b" = Some ["a"; ""; "b"] /\ shlex_split "   " = Some [] /\
  shlex_split """unterminated" = None /\ shlex_split "it's broken" = None /\ shlex_split "trailing \" = None /\
  quote_words ["a b"; "it's"; ""] = "'a b' 'it'\''s' ''" /\
  utf8_sanitize (quote_words ["a b"; "it's"; ""]) = quote_words ["a b"; "it's"; ""].
Proof. vm_compute. repeat (split; try reflexivity). Qed.

(* ---- the whole mapping with the splitter and the time printers modelled ------------------
   build.New runs ImageConfiguration.Validate (entrypoint.type = service-bundle REPLACES
   entrypoint.command by the s6 supervisor command line), then BuildImageFromLayers builds
   the config for a creation time time.Unix(sec, 0).UTC() and [nlayers] layers (what
   `layering` decides) on top of a base image with config [base] and history [bh]
   (contents.baseimage; empty.Image: both empty).  For every configuration, second count
   in the serialisable range, architecture, layer count and map orders: either the
   splitter rejects a command line that has to be split and the build fails, or the config
   mirrors the declared configuration (ConfigMirrors as in c12_config_mapping, now with
   shlex := the model of shlex.Split and rfc3339 := the model of Format: entrypoint/cmd ARE
   the token lists) and the creation time is denoted by the config's created field, by the
   org.opencontainers.image.created label and by exactly one new history entry per layer,
   the base image's history being kept in front.  The generated constants
   service_bundle_type / service_bundle_command occur in validate_ic; the Spec spells them
   out (declared_ic). *)
Theorem c12_image_mapping : forall base bh etype ic sec arch nlayers dord eord,
  merge_into_copies_vcs_url = true ->
  (rfc3339_min <= sec <= rfc3339_max)%Z ->
  NoDup (akeys (ic_env ic)) ->
  Permutation dord (akeys default_env) ->
  Permutation eord (akeys (with_defaults default_env dord (ic_env ic))) ->
  match build_image true etype base bh ic (utc_time sec) arch nlayers dord eord with
  | Ok out => ConfigMirrors shlex_split format_rfc3339 (to_oci_platform arch) base (declared_ic etype ic) sec (io_config out) /\
              ImageTimeOk bh nlayers sec out
  | Err => shlex_failed shlex_split (declared_ic etype ic)
  | _ => False
  end.
Proof. exact build_image_mirrors. Qed.
Print Assumptions c12_image_mapping.

(* Outside the serialisable range (UTC: exactly the years outside [0, 9999], see
   c12_rfc3339_out_of_range) no image with a malformed `created` is emitted: with at least one
   layer BuildImageFromLayers fails (go-containerregistry marshals the config, history
   included, when apko asks for it right after mutate.Append). *)
Theorem c12_image_unserialisable_time : forall validated etype base bh ic sec arch nlayers dord eord,
  ~ (rfc3339_min <= sec <= rfc3339_max)%Z -> nlayers <> 0 ->
  build_image validated etype base bh ic (utc_time sec) arch nlayers dord eord = Err.
Proof. exact build_image_unserialisable. Qed.
Print Assumptions c12_image_unserialisable_time.

Theorem c12_service_bundle_entrypoint : forall base bh ic t arch nlayers dord eord out,
  nonempty (ic_shell_fragment ic) = false ->
  build_image true service_bundle_type base bh ic t arch nlayers dord eord = Ok out ->
  oc_entrypoint (io_config out) = spec_service_bundle_words /\
  service_bundle_type = spec_service_bundle_type /\ service_bundle_command = spec_service_bundle_command.
Proof.
  intros base bh ic t arch nlayers dord eord out Hf E.
  split; [exact (service_bundle_entrypoint base bh ic t arch nlayers dord eord out Hf E)|]. split; reflexivity.
Qed.
Print Assumptions c12_service_bundle_entrypoint.

Theorem c12_image_time_validator_decides : forall bh nlayers sec out,
  image_time_tags bh nlayers sec out = [] <-> ImageTimeOk bh nlayers sec out.
Proof. exact image_time_tags_iff. Qed.
Print Assumptions c12_image_time_validator_decides.

Example c12_image_example :
  exists out,
    build_image true "service-bundle" empty_config []
      {| ic_shell_fragment := ""; ic_command := "/ignored --by validate"; ic_cmd := "'two words' three"; ic_workdir := "";
         ic_run_as := ""; ic_stop_signal := ""; ic_volumes := []; ic_env := []; ic_annotations := [];
         ic_vcs_url := "https://x/y@abc" |}
      (utc_time 951782400) "arm64" 3 (akeys default_env) (akeys default_env) = Ok out /\
    oc_entrypoint (io_config out) = ["/bin/s6-svscan"; "/sv"] /\ oc_cmd (io_config out) = ["two words"; "three"] /\
    io_created out = Some "2000-02-29T00:00:00Z" /\
    alookup "org.opencontainers.image.created" (oc_labels (io_config out)) = Some "2000-02-29T00:00:00Z" /\
    alookup "org.opencontainers.image.revision" (oc_labels (io_config out)) = Some "abc" /\
    List.map h_comment (io_history out) = [""; ""; ""].
Proof. eexists. split; [vm_compute; reflexivity|]. repeat (split; try reflexivity). Qed.

(* ---- the option layer in front of the configuration -----------------------------------------
   `--annotations` (build.WithAnnotations) is merged into the configuration file's annotations;
   "Commandline annotations take precedence".  [annotations_cmdline_wins] is the direction of
   that copy, read from options.go by goextract on every run (which of the two maps is written
   LAST into the map the build uses).  While it is true: for every configuration map, every
   command-line map (a Go map: distinct keys), every iteration order and every number n >= 1 of
   applications (the options are re-applied by NewOptions, LockImageConfiguration and once per
   architecture by build.New): the annotation declared for a key is the command line's when it
   has one and the configuration file's otherwise; applying the option again changes nothing;
   and every command-line annotation whose key the emitter does not own (created; source and
   revision when the VCS URL has a revision) is what c12_config_mapping / c12_index_annotations
   demand as the emitted label / annotation.  With the copy the other way round the
   configuration file wins (c12_annotations_precedence_refuted). *)
Theorem c12_annotations_precedence : forall cfg cl ord n,
  annotations_cmdline_wins = true -> NoDup (akeys cl) -> Permutation ord (akeys cl) -> n <> 0 ->
  (forall k, alookup k (with_annotations_n n cfg cl ord) = declared_annotation cfg cl k) /\
  with_annotations_n n cfg cl ord = with_annotations cfg cl ord /\
  (forall rfc ic created k v, alookup k cl = Some v -> emitter_owned ic k = false ->
     expected_label rfc (set_annotations ic (with_annotations_n n cfg cl ord)) created k = Some v).
Proof. exact annotations_precedence. Qed.
Print Assumptions c12_annotations_precedence.

Theorem c12_annotations_precedence_refuted :
  with_annotations_dir false [("k", "from-config-file")] [("k", "from-command-line")] ["k"] = [("k", "from-config-file")] /\
  declared_annotation [("k", "from-config-file")] [("k", "from-command-line")] "k" = Some "from-command-line".
Proof. exact annotations_precedence_refuted. Qed.
Print Assumptions c12_annotations_precedence_refuted.

(* the hypothesis holds on this tree; a copy in the other direction no longer compiles here *)
Example c12_annotations_precedence_applies :
  annotations_cmdline_wins = true /\
  with_annotations_n 3 [("vendor", "from-config-file"); ("title", "demo")] [("vendor", "from-command-line"); ("licenses", "Apache-2.0")] ["licenses"; "vendor"]
  = [("vendor", "from-command-line"); ("title", "demo"); ("licenses", "Apache-2.0")].
Proof. split; reflexivity. Qed.

(* ---- SOURCE_DATE_EPOCH ------------------------------------------------------------------------
   build.New reads the variable as text: white space only = ignored (all_space: strings.TrimSpace
   leaves nothing), otherwise strconv.ParseInt(v, 10, 64) of the UNTRIMMED text (parse_int64: an
   optional sign, decimal digits, int64 range; anything else fails the build), and the result
   replaces whatever --build-date / WithSourceDateEpoch declared.  For every sequence of date
   options that succeeds and every text that parses to a second count e in the serialisable
   range: e is the declared creation time; the index annotation, the config's created field,
   the created label and one history entry per layer are e printed by the modelled RFC 3339
   printer, and that text denotes e (c12_rfc3339_roundtrip).  parse_int64's numerals are
   pinned by: results are int64 values, and appending a digit d to digits of value n gives
   10 n + d. *)
Theorem c12_source_date_epoch_created : forall ds z0 v e base bh etype ic arch nlayers dord eord,
  fold_left apply_date ds (Ok 0%Z) = Ok z0 -> parse_int64 v = Some e ->
  (rfc3339_min <= e <= rfc3339_max)%Z ->
  merge_into_copies_vcs_url = true -> NoDup (akeys (ic_env ic)) ->
  Permutation dord (akeys default_env) -> Permutation eord (akeys (with_defaults default_env dord (ic_env ic))) ->
  declared_date_env ds (Some v) = Ok e /\ (int64_min <= e <= int64_max)%Z /\
  parse_rfc3339 (format_rfc3339 e) = Some e /\
  alookup created_key (index_annotations format_rfc3339 (ic_vcs_url ic) e (ic_annotations ic)) = Some (format_rfc3339 e) /\
  match build_image true etype base bh ic (utc_time e) arch nlayers dord eord with
  | Ok out => ImageTimeOk bh nlayers e out /\
              io_created out = Some (format_rfc3339 e) /\
              alookup created_key (oc_labels (io_config out)) = Some (format_rfc3339 e)
  | Err => shlex_failed shlex_split (declared_ic etype ic)
  | _ => False
  end.
Proof. exact source_date_epoch_created. Qed.
Print Assumptions c12_source_date_epoch_created.

Theorem c12_decimal_numerals : forall u c,
  dec_value (u ++ String c "")%string = (10 * dec_value u + (Z.of_N (N_of_ascii c) - 48))%Z.
Proof. exact dec_value_snoc. Qed.
Print Assumptions c12_decimal_numerals.

Example c12_source_date_epoch_examples :
  declared_date_env [DText "2020-02-29T12:00:00Z"] (Some "1700000000") = Ok 1700000000%Z /\
  declared_date_env [DText "2020-02-29T12:00:00Z"] (Some "  ") = Ok 1582977600%Z /\
  declared_date_env [DEpoch 5] None = Ok 5%Z /\ declared_date_env [] (Some "+7") = Ok 7%Z /\ declared_date_env [] (Some "-1") = Ok (-1)%Z /\
  declared_date_env [] (Some " 5") = Err /\ declared_date_env [] (Some "5 ") = Err /\ declared_date_env [] (Some "1_000") = Err /\
  declared_date_env [] (Some "9223372036854775808") = Err /\ declared_date_env [] (Some "-9223372036854775808") = Ok int64_min /\
  declared_date_env [DText "2023-02-29T00:00:00Z"] (Some "5") = Err.
Proof. vm_compute. repeat (split; try reflexivity). Qed.
