(* C12 — Emitted OCI artifacts are well-formed and mirror the configuration.
   Property theorems only; each is closed by [exact] of a lemma proved in
   Proofs/OciProofs.v and followed by Print Assumptions. Constants, tables and
   the append-offset arithmetic are the ones goextract read from /repo on this
   run (Generated/C12Oci.v). *)
From Apko Require Import Base.Prelude Base.C12Lib Generated.C12Oci Model.Oci Spec.OciSpec
  Proofs.OciProofs Proofs.OciScanProofs.
From Coq Require Import Permutation Sorted.
Open Scope string_scope. Open Scope list_scope.

(* BuildIndex appends the image manifests and index.json after the archive
   written by go-containerregistry. For every stream position [pos] after the
   last member's header and every member size [size] (no bound), the offset it
   seeks to — the Go statements between the header scan and f.Seek, translated
   by goextract — is the least multiple of the tar block size that is >= the
   end of that member, and int64 arithmetic cannot wrap while computing it
   whenever pos + size + 512 fits. *)
Theorem c12_append_offset : forall pos size, (0 <= pos)%Z -> (0 <= size)%Z ->
  NextBoundary tar_block (pos + size) (append_offset pos size) /\
  (append_offset pos size < pos + size + tar_block)%Z /\
  block_size = tar_block.
Proof. exact append_offset_full. Qed.
Print Assumptions c12_append_offset.

Example c12_append_offset_on_boundary : append_offset 1536 512 = 2048%Z /\ append_offset 1536 511 = 2048%Z /\ append_offset 1536 513 = 2560%Z.
Proof. vm_compute. auto. Qed.

(* The scan loop that produces [pos] and [size], over an abstract tar stream.  For
   EVERY list of members (any number, any count of header blocks - PAX / GNU
   extension headers included -, any sizes) followed by the end-of-archive marker,
   the header scan loop of BuildIndex (its statements translated by goextract:
   scan_body; the reader sits unbuffered on the file, the position after Next() is
   the end of the header blocks, data is skipped lazily; the file is rewound first:
   scan_rewinds) followed by the translated arithmetic yields exactly the offset of
   the first end-of-archive block: the appended members continue the archive, no
   byte of a member is overwritten and no zero block is left in between.  The scan
   never fails, panics (hdr is never nil where hdr.Size is read) or runs out of fuel. *)
Theorem c12_append_offset_scan : forall ms,
  Forall (fun m => (1 <= m_hdr m)%Z /\ (0 <= m_size m)%Z) ms ->
  scan_offset ms = Ok (stream_len ms) /\ scan_rewinds = true.
Proof. intros ms W. exact (conj (scan_offset_is_end_of_archive ms W) eq_refl). Qed.
Print Assumptions c12_append_offset_scan.

(* a member of 512 bytes behind a PAX-extended one: header blocks 3 and 1; and the
   reason the rewind matters: from the end of the file the scan sees nothing and
   the manifests would overwrite the archive from offset 0 *)
Example c12_append_offset_scan_example :
  scan_offset [{| m_hdr := 3; m_size := 10 |}; {| m_hdr := 1; m_size := 512 |}] = Ok 3072%Z /\
  reader_trace 0 [{| m_hdr := 3; m_size := 10 |}; {| m_hdr := 1; m_size := 512 |}] = [(1536, 10); (2560, 512)]%Z /\
  scan_offset [] = Ok 0%Z.
Proof. vm_compute. auto. Qed.

Theorem c12_scan_without_rewind_refuted : forall ms,
  (do env <- scan_loop (S (S (List.length ms)))
       {| s_rest := []; s_pos := stream_len ms + 1024; s_pend := 0; s_cur := None; s_err := ENone; s_env := [] |};
   Ok (append_offset (ilookup pad_pos_var env) (ilookup pad_size_var env))) = Ok 0%Z.
Proof. exact no_rewind_offset_zero. Qed.
Print Assumptions c12_scan_without_rewind_refuted.

(* the pre-fix arithmetic (newOffset += 512 - newOffset % 512, unconditionally)
   is refuted by any member ending on a block boundary: kept as the regression
   witness replayed by the harness on the real BuildIndex *)
Theorem c12_unconditional_padding_refuted :
  exists pos size, (0 <= pos)%Z /\ (0 <= size)%Z /\
    ~ NextBoundary tar_block (pos + size) (pos + size + (tar_block - (pos + size) mod tar_block))%Z.
Proof. exact unconditional_padding_refuted. Qed.
Print Assumptions c12_unconditional_padding_refuted.

(* the boolean validator run on observed offsets decides the readable statement *)
Theorem c12_offset_validator_decides : forall n o,
  next_boundary_b tar_block n o = true <-> NextBoundary tar_block n o.
Proof. intros. apply next_boundary_b_iff. reflexivity. Qed.
Print Assumptions c12_offset_validator_decides.

(* ---- environment ------------------------------------------------------------------
   For every configured environment (a Go map: distinct keys), every order
   [dord] in which Go ranges over the defaults literal and every order [ord] in
   which it ranges over the merged map: the rendered Env is sorted, and is — up
   to order — one "k=v" entry per configured binding plus one per default whose
   key is not configured (so a configured value always wins and a default
   appears only when its key is unset); hence it is the same list for every
   pair of iteration orders. [default_env] and the entry format are the ones in
   image.go on this run. *)
Theorem c12_env : forall env dord ord,
  NoDup (akeys env) ->
  Permutation dord (akeys default_env) ->
  Permutation ord (akeys (with_defaults default_env dord env)) ->
  EnvOk default_env env (render_env default_env dord env ord) /\
  (forall dord' ord', Permutation dord' (akeys default_env) ->
     Permutation ord' (akeys (with_defaults default_env dord' env)) ->
     render_env default_env dord' env ord' = render_env default_env dord env ord) /\
  env_entry_format = "%s=%s".
Proof. exact render_env_full. Qed.
Print Assumptions c12_env.

Example c12_env_configured_wins :
  render_env default_env ["SSL_CERT_FILE"; "PATH"] [("PATH", "/bin"); ("A", "1")] ["SSL_CERT_FILE"; "A"; "PATH"]
  = ["A=1"; "PATH=/bin"; "SSL_CERT_FILE=/etc/ssl/certs/ca-certificates.crt"].
Proof. vm_compute. reflexivity. Qed.

Theorem c12_env_validator_decides : forall defaults env out,
  env_tags defaults env out = [] <-> EnvOk defaults env out.
Proof. exact env_tags_iff. Qed.
Print Assumptions c12_env_validator_decides.

(* ---- config mapping ---------------------------------------------------------------
   For every shell-word splitter [shlex] and time formatter [rfc3339] (external:
   github.com/google/shlex, time.Format), every base config, image
   configuration, creation time, architecture string and iteration orders:
   BuildImageFromLayers either fails because shlex rejects a command line it
   has to split, or yields a config that mirrors the configuration:
   entrypoint = /bin/sh -c <fragment> when a shell fragment is declared, else
   the split of the command, else inherited; cmd likewise; working dir, user,
   stop signal = the declared value when non-empty; volumes = the declared set;
   Env as in c12_env; labels = annotations overridden by source/revision (the
   VCS URL cut at its FIRST '@', only when it has one) and by created; created
   time; platform = ToOCIPlatform(arch); OS linux. 
   The full statement is c12_config_mapping below; it is proved under the
   hypothesis [merge_into_copies_vcs_url = true], a fact goextract reads from
   the source on every run and which is FALSE today: BuildImageFromLayers
   works on a copy made by ImageConfiguration.MergeInto, which does not carry
   VCSUrl, so the source/revision labels are never written (finding C12-F2).
   c12_config_mapping_refuted shows the full statement fails while that flag is
   false; c12_config_mapping_partial holds unconditionally: the config mirrors
   the configuration as copied (today: with its VCS URL erased, i.e. every
   clause of ConfigMirrors except the source/revision labels) and mirrors the
   configuration itself whenever the VCS URL has no revision to record (empty,
   or without '@'). *)
Theorem c12_config_mapping : forall shlex rfc3339 base ic created arch dord eord,
  merge_into_copies_vcs_url = true ->
  NoDup (akeys (ic_env ic)) ->
  Permutation dord (akeys default_env) ->
  Permutation eord (akeys (with_defaults default_env dord (ic_env ic))) ->
  match build_config shlex rfc3339 base ic created arch dord eord with
  | Ok cfg => ConfigMirrors shlex rfc3339 (to_oci_platform arch) base ic created cfg
  | Err => shlex_failed shlex ic
  | _ => False
  end.
Proof. exact build_config_mirrors_full. Qed.
Print Assumptions c12_config_mapping.

Theorem c12_config_mapping_partial : forall shlex rfc3339 base ic created arch dord eord,
  NoDup (akeys (ic_env ic)) ->
  Permutation dord (akeys default_env) ->
  Permutation eord (akeys (with_defaults default_env dord (ic_env ic))) ->
  match build_config shlex rfc3339 base ic created arch dord eord with
  | Ok cfg => ConfigMirrors shlex rfc3339 (to_oci_platform arch) base (copy_for_build ic) created cfg /\
              (vcs_has_revision ic = false ->
               ConfigMirrors shlex rfc3339 (to_oci_platform arch) base ic created cfg)
  | Err => shlex_failed shlex ic
  | _ => False
  end.
Proof. exact build_config_mirrors_partial. Qed.
Print Assumptions c12_config_mapping_partial.

Theorem c12_config_mapping_refuted :
  merge_into_copies_vcs_url = false ->
  exists shlex rfc3339 base ic created arch dord eord cfg,
    NoDup (akeys (ic_env ic)) /\
    Permutation dord (akeys default_env) /\
    Permutation eord (akeys (with_defaults default_env dord (ic_env ic))) /\
    build_config shlex rfc3339 base ic created arch dord eord = Ok cfg /\
    alookup revision_key (oc_labels cfg) = None /\
    ~ ConfigMirrors shlex rfc3339 (to_oci_platform arch) base ic created cfg.
Proof. exact build_config_mirrors_refuted. Qed.
Print Assumptions c12_config_mapping_refuted.

(* strings.Cut at the first separator, as the specification of the VCS split *)
Theorem c12_vcs_cut : forall s url hash,
  cut_at vcs_separator s = Some (url, hash) <->
  (s = (url ++ String "@"%char hash)%string /\ has_char "@"%char url = false).
Proof. intros. apply (cut_at_some "@"%char). Qed.
Print Assumptions c12_vcs_cut.

(* the index carries the same three annotations *)
Theorem c12_index_annotations : forall rfc3339 ic created k,
  alookup k (index_annotations rfc3339 (ic_vcs_url ic) created (ic_annotations ic)) =
  expected_label rfc3339 ic created k.
Proof. exact index_labels_lookup. Qed.
Print Assumptions c12_index_annotations.

Theorem c12_config_validator_decides : forall shlex rfc3339 plat base ic created cfg,
  config_tags shlex rfc3339 plat base ic created cfg = [] <->
  ConfigMirrors shlex rfc3339 plat base ic created cfg.
Proof. exact config_tags_iff. Qed.
Print Assumptions c12_config_validator_decides.

Example c12_config_example :
  exists cfg,
    build_config (fun s => if String.eqb s "/usr/bin/app --flag" then Some ["/usr/bin/app"; "--flag"] else None)
      (fun _ => "2023-11-14T22:13:20Z") empty_config
      {| ic_shell_fragment := ""; ic_command := "/usr/bin/app --flag"; ic_cmd := ""; ic_workdir := "/w";
         ic_run_as := "65532"; ic_stop_signal := ""; ic_volumes := ["/data"];
         ic_env := [("PATH", "/bin")]; ic_annotations := [("a", "b")]; ic_vcs_url := "https://x/y@abc@def" |}
      1700000000 "armv7" ["PATH"; "SSL_CERT_FILE"] ["PATH"; "SSL_CERT_FILE"] = Ok cfg /\
    oc_entrypoint cfg = ["/usr/bin/app"; "--flag"] /\ oc_variant cfg = "v7" /\
    oc_env cfg = ["PATH=/bin"; "SSL_CERT_FILE=/etc/ssl/certs/ca-certificates.crt"].
Proof. eexists. split; [vm_compute; reflexivity|]. repeat split. Qed.

(* ---- platform table ----------------------------------------------------------------
   Finite domain, enumerated completely: every string that occurs in AllArchs,
   in any of the three generated switch tables (as a case label or a result)
   or in the specification's list of apk architecture names — 9 canonical
   names and their apk-style aliases. For each: parsing canonicalises it, the
   OCI platform of the parsed value (and of the raw string: ToOCIPlatform
   parses again) is the architecture string split at '/', the canonical name is
   in AllArchs, and ToAPK maps it to an apk name that parses back. *)
Theorem c12_platform_table : forall s, In s known_arch_names ->
  to_oci_platform (parse_architecture s) = expected_platform s /\
  to_oci_platform s = expected_platform s /\
  parse_architecture s = spec_canonical s /\
  In (spec_canonical s) all_archs /\
  parse_architecture (to_apk s) = spec_canonical s /\
  In (to_apk s) (List.map fst apk_names).
Proof. exact platform_table_ok. Qed.
Print Assumptions c12_platform_table.

(* the enumerated domain covers AllArchs and every apk-style name *)
Theorem c12_platform_table_covers :
  (forall a, In a all_archs -> In a known_arch_names /\ spec_canonical a = a /\
      exists apk, In (apk, a) apk_names) /\
  (forall apk oci, In (apk, oci) apk_names -> In apk known_arch_names /\ In oci all_archs) /\
  oci_platform_os = expected_os.
Proof. exact platform_table_covers. Qed.
Print Assumptions c12_platform_table_covers.

Example c12_platform_armhf : to_oci_platform (parse_architecture "armhf") = ("arm", "v6").
Proof. reflexivity. Qed.

(* ---- index ----------------------------------------------------------------------------
   For every map from architecture keys to images (distinct keys, any abstract
   descriptor type) and every order in which Go ranges over it: the index has
   exactly one manifest per requested architecture, carrying that
   architecture's image, sorted by architecture string, each with the platform
   ToOCIPlatform gives for its key and OS linux; and it is the same list for
   every iteration order. *)
Theorem c12_index : forall (D : Type) (imgs : list (string * D)) ord,
  NoDup (akeys imgs) -> Permutation ord (akeys imgs) ->
  IndexOk to_oci_platform imgs (generate_index imgs ord) /\
  (forall ord', Permutation ord' (akeys imgs) -> generate_index imgs ord' = generate_index imgs ord) /\
  List.length (generate_index imgs ord) = List.length imgs /\
  oci_platform_os = expected_os.
Proof. intro D. exact generate_index_ok. Qed.
Print Assumptions c12_index.

Example c12_index_example :
  List.map ie_key (generate_index [("s390x", 1); ("arm/v7", 2); ("amd64", 3)] ["arm/v7"; "amd64"; "s390x"])
  = ["amd64"; "arm/v7"; "s390x"].
Proof. vm_compute. reflexivity. Qed.

(* ---- the bundle contains every image its index lists --------------------------------
   BuildIndex keys the images it hands to the tarball writer by
   "<tag>-<Platform.Architecture>"; today the key ignores the variant
   ([bundle_key_includes_variant = false], read from the source on every run):
   with arm/v6 and arm/v7 together (both are in AllArchs) the first is replaced
   by the second and its config and layers never reach the archive (finding
   C12-F1). The full statement c12_bundle_complete — for every duplicate-free
   subset of AllArchs and at least one tag, every image is in the bundle — is
   proved under [bundle_key_includes_variant = true] and refuted while the flag
   is false; unconditionally it holds whenever the requested architectures
   have pairwise different keys. *)
Theorem c12_bundle_complete : forall ntags archs,
  bundle_key_includes_variant = true ->
  ntags <> 0 -> NoDup archs -> incl archs all_archs -> BundleComplete (bundle_included ntags archs).
Proof. exact bundle_complete_full. Qed.
Print Assumptions c12_bundle_complete.

Theorem c12_bundle_complete_refuted :
  bundle_key_includes_variant = false ->
  exists ntags archs, ntags <> 0 /\ incl archs all_archs /\ NoDup archs /\
    ~ BundleComplete (bundle_included ntags archs) /\
    bundle_included ntags archs = [false; true].
Proof. exact bundle_complete_refuted. Qed.
Print Assumptions c12_bundle_complete_refuted.

Theorem c12_bundle_complete_partial : forall ntags archs,
  ntags <> 0 -> NoDup (List.map bundle_key archs) -> BundleComplete (bundle_included ntags archs).
Proof. exact bundle_complete_partial. Qed.
Print Assumptions c12_bundle_complete_partial.

Example c12_bundle_complete_without_armv6 :
  BundleComplete (bundle_included 2 ["386"; "amd64"; "arm64"; "arm/v7"; "loong64"; "ppc64le"; "riscv64"; "s390x"]).
Proof. vm_compute. repeat constructor. Qed.

Theorem c12_bundle_validator_decides : forall plat archs included,
  bundle_complete_tags_with plat archs included = [] <->
  (List.length archs = List.length included /\ BundleComplete included).
Proof. exact bundle_complete_tags_iff. Qed.
Print Assumptions c12_bundle_validator_decides.
