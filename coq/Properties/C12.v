(* C12 — Emitted OCI artifacts are well-formed and mirror the configuration.
   Property theorems only; each is closed by [exact] of a lemma proved in
   Proofs/OciProofs.v and followed by Print Assumptions. Constants, tables and
   the append-offset arithmetic are the ones goextract read from /repo on this
   run (Generated/C12Oci.v). *)
From Apko Require Import Base.Prelude Base.C12Lib Generated.C12Oci Model.Oci Spec.OciSpec
  Proofs.OciProofs.
From Coq Require Import Permutation Sorted.
Open Scope string_scope. Open Scope list_scope.

(* BuildIndex appends the image manifests and index.json after the archive
   written by go-containerregistry. For every stream position [pos] after the
   last member's header and every member size [size] (no bound), the offset it
   seeks to — the Go statements between the header scan and f.Seek, translated
   by goextract — is the least multiple of the tar block size that is >= the
   end of that member, and int64 arithmetic cannot wrap while computing it
   whenever pos + size + 512 fits. *)
Theorem c12_append_offset : forall pos size, (0 <= pos)%Z -> (0 <= size)%Z ->
  NextBoundary tar_block (pos + size) (append_offset pos size) /\
  (append_offset pos size < pos + size + tar_block)%Z /\
  block_size = tar_block.
Proof. exact append_offset_full. Qed.
Print Assumptions c12_append_offset.

Example c12_append_offset_on_boundary : append_offset 1536 512 = 2048%Z /\ append_offset 1536 511 = 2048%Z /\ append_offset 1536 513 = 2560%Z.
Proof. vm_compute. auto. Qed.

(* the pre-fix arithmetic (newOffset += 512 - newOffset % 512, unconditionally)
   is refuted by any member ending on a block boundary: kept as the regression
   witness replayed by the harness on the real BuildIndex *)
Theorem c12_unconditional_padding_refuted :
  exists pos size, (0 <= pos)%Z /\ (0 <= size)%Z /\
    ~ NextBoundary tar_block (pos + size) (pos + size + (tar_block - (pos + size) mod tar_block))%Z.
Proof. exact unconditional_padding_refuted. Qed.
Print Assumptions c12_unconditional_padding_refuted.

(* the boolean validator run on observed offsets decides the readable statement *)
Theorem c12_offset_validator_decides : forall n o,
  next_boundary_b tar_block n o = true <-> NextBoundary tar_block n o.
Proof. intros. apply next_boundary_b_iff. reflexivity. Qed.
Print Assumptions c12_offset_validator_decides.
