(* C13 — Declared accounts and path mutations are realized in the image.
   Property theorems only; each is closed by [exact] of a lemma proved in
   Proofs/AccountsProofs.v / Proofs/PathMutProofs.v and followed by Print
   Assumptions.  The default shell, home prefix, homeless marker, modes and
   the passwd/group format strings are the ones goextract read from
   accounts.go / passwd.go / group.go on this run (Generated/C13Consts.v). *)
From Apko Require Import Base.Prelude Model.C13Fs Model.Accounts Generated.C13Consts
  Spec.AccountsSpec Proofs.AccountsProofs.
Open Scope string_scope. Open Scope list_scope.

(* the constants in the source are the documented defaults: /bin/sh, /home/,
   /dev/null, 0700, 0755, gid := uid (Validate's own copy of the prefix included) *)
Theorem c13_defaults_pinned :
  default_shell = spec_default_shell /\ home_prefix = spec_home_prefix /\
  validate_home_prefix = spec_home_prefix /\ no_home = spec_no_home /\
  home_perm = spec_home_mode /\ home_parent_perm = spec_parent_mode /\ gid_defaults_to_uid = true.
Proof. exact consts_are_spec. Qed.
Print Assumptions c13_defaults_pinned.

(* every configured user / group is turned into an entry that realises it, the
   defaults being applied exactly when the field is unset *)
Theorem c13_entries_realise_config : forall users groups,
  Forall2 UserRealised users (List.map user_to_entry users) /\
  Forall2 GroupRealised groups (List.map group_to_entry groups).
Proof. intros. split; [apply map_realised | apply map_group_realised]. Qed.
Print Assumptions c13_entries_realise_config.

Theorem c13_defaults_exactly_when_unset : forall u,
  let e := user_to_entry u in
  (cu_shell u = "" -> ue_shell e = default_shell) /\ (cu_shell u <> "" -> ue_shell e = cu_shell u) /\
  (cu_home u = "" -> ue_home e = (home_prefix ++ cu_name u)%string) /\ (cu_home u <> "" -> ue_home e = cu_home u) /\
  (cu_gid u = None -> ue_gid e = cu_uid u) /\ (forall g, cu_gid u = Some g -> ue_gid e = g) /\
  ue_uid e = cu_uid u /\ ue_name e = cu_name u.
Proof. exact defaults_exactly_when_unset. Qed.
Print Assumptions c13_defaults_exactly_when_unset.
